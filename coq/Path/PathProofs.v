(* Proofs about the texture path clean-up model (PathModel.v) against the canonical form (PathSpec.v).
   All statements are for ALL byte lists (no length bound). *)
From Coq Require Import ZifyBool ZifyNat ZifyN.
From NiflyVerif Require Import Res PathModel PathSpec.
Local Open Scope N_scope.
Local Arguments N.eqb : simpl never.
Local Arguments N.leb : simpl never.

(* ------------------------------------------------------------------------------------------- *)
(* small list facts *)

Definition hd_bs (p : list N) : bool := match p with b :: _ => b =? BS | [] => false end.

Definition suffix (s c : list N) : Prop := exists pre, c = pre ++ s.

Lemma suffix_refl : forall s, suffix s s.
Proof. intros s. exists []. reflexivity. Qed.

Lemma suffix_cons : forall s c r, suffix s r -> suffix s (c :: r).
Proof. intros s c r [pre H]. exists (c :: pre). simpl. now rewrite H. Qed.

Lemma suffix_trans : forall a b c, suffix a b -> suffix b c -> suffix a c.
Proof. intros a b c [p1 H1] [p2 H2]. exists (p2 ++ p1). rewrite <- app_assoc. now rewrite <- H1. Qed.

Lemma suffix_skipn : forall n (p : list N), suffix (skipn n p) p.
Proof. intros n p. exists (firstn n p). symmetry. apply firstn_skipn. Qed.

Lemma last_cons2 : forall (c x : N) l d, last (c :: x :: l) d = last (x :: l) d.
Proof. reflexivity. Qed.

Lemma last_app_ne : forall (l s : list N) d, s <> [] -> last (l ++ s) d = last s d.
Proof.
  induction l as [|a l IH]; intros s d Hs; [reflexivity|].
  simpl app. destruct (l ++ s) eqn:E.
  - destruct l; simpl in E; [congruence|discriminate].
  - rewrite last_cons2. rewrite <- E. now apply IH.
Qed.

Lemma suffix_last : forall s c d, suffix s c -> s <> [] -> last c d = last s d.
Proof. intros s c d [pre H] Hs. subst c. now apply last_app_ne. Qed.

Lemma last_space_cons : forall c r, r <> [] -> last_space (c :: r) = last_space r.
Proof. intros c r H. destruct r; [congruence|]. reflexivity. Qed.

(* boolean "somewhere in the list" predicates are inherited by suffixes *)
Lemma has_fs_cons : forall a r, has_fs (a :: r) = false -> has_fs r = false.
Proof. unfold has_fs. simpl. intros a r H. apply orb_false_iff in H. tauto. Qed.

Lemma has_dbs_cons : forall a r, has_dbs (a :: r) = false -> has_dbs r = false.
Proof. simpl. intros a r H. apply orb_false_iff in H. tauto. Qed.

Lemma contains_cons : forall pat a r, contains_ci pat (a :: r) = false -> contains_ci pat r = false.
Proof. intros pat a r H. simpl in H. apply orb_false_iff in H. tauto. Qed.

Lemma suffix_has_fs : forall s c, suffix s c -> has_fs c = false -> has_fs s = false.
Proof. intros s c [pre H]. subst c. induction pre; simpl app; auto. intros H. apply IHpre. eapply has_fs_cons; eauto. Qed.

Lemma suffix_has_dbs : forall s c, suffix s c -> has_dbs c = false -> has_dbs s = false.
Proof. intros s c [pre H]. subst c. induction pre; simpl app; auto. intros H. apply IHpre. eapply has_dbs_cons; eauto. Qed.

Lemma suffix_contains : forall pat s c, suffix s c -> contains_ci pat c = false -> contains_ci pat s = false.
Proof. intros pat s c [pre H]. subst c. induction pre; simpl app; auto. intros H. apply IHpre. eapply contains_cons; eauto. Qed.

(* ------------------------------------------------------------------------------------------- *)
(* trim_whitespace *)

Lemma drop_ws_suffix : forall p, suffix (drop_ws p) p.
Proof.
  induction p as [|c r IH]; [apply suffix_refl|]. simpl.
  destruct (is_space c); [now apply suffix_cons|apply suffix_refl].
Qed.

Lemma drop_ws_hd : forall p, hd_space (drop_ws p) = false.
Proof.
  induction p as [|c r IH]; [reflexivity|]. simpl.
  destruct (is_space c) eqn:E; [exact IH|]. simpl. exact E.
Qed.

Lemma drop_ws_id : forall p, hd_space p = false -> drop_ws p = p.
Proof. destruct p as [|c r]; [reflexivity|]. simpl. intros H. now rewrite H. Qed.

Lemma drop_ws_all : forall p, all_space p = true -> drop_ws p = [].
Proof.
  induction p as [|c r IH]; [reflexivity|]. unfold all_space in *. simpl.
  intros H. apply andb_true_iff in H. destruct H as [H1 H2]. rewrite H1. now apply IH.
Qed.

Lemma dwe_prefix : forall p, exists tl, p = drop_ws_end p ++ tl.
Proof.
  induction p as [|c r [tl IH]]; [exists []; reflexivity|].
  simpl. destruct (drop_ws_end r) as [|x r'] eqn:E.
  - destruct (is_space c).
    + exists (c :: r). reflexivity.
    + exists r. reflexivity.
  - exists tl. simpl. simpl in IH. now rewrite <- IH.
Qed.

Lemma dwe_last : forall p, last_space (drop_ws_end p) = false.
Proof.
  induction p as [|c r IH]; [reflexivity|].
  simpl. destruct (drop_ws_end r) as [|x r'] eqn:E.
  - destruct (is_space c) eqn:Ec; [reflexivity|]. unfold last_space. simpl. exact Ec.
  - rewrite last_space_cons by discriminate. exact IH.
Qed.

Lemma dwe_id : forall p, last_space p = false -> drop_ws_end p = p.
Proof.
  induction p as [|c r IH]; [reflexivity|]. intros H.
  destruct r as [|x r'].
  - simpl. unfold last_space in H. simpl in H. now rewrite H.
  - rewrite last_space_cons in H by discriminate. specialize (IH H).
    change (drop_ws_end (c :: x :: r')) with
      (match drop_ws_end (x :: r') with [] => if is_space c then [] else [c] | r'' => c :: r'' end).
    rewrite IH. reflexivity.
Qed.

Lemma dwe_hd : forall p, hd_space p = false -> hd_space (drop_ws_end p) = false.
Proof.
  destruct p as [|c r]; [reflexivity|]. simpl. intros H.
  destruct (drop_ws_end r); [rewrite H|]; simpl; exact H.
Qed.

Lemma trim_hd : forall p, hd_space (trim_ws p) = false.
Proof. intros p. apply dwe_hd. apply drop_ws_hd. Qed.

Lemma trim_last : forall p, last_space (trim_ws p) = false.
Proof. intros p. apply dwe_last. Qed.

Lemma trim_id : forall p, hd_space p = false -> last_space p = false -> trim_ws p = p.
Proof. intros p H1 H2. unfold trim_ws. rewrite drop_ws_id by exact H1. now apply dwe_id. Qed.

Lemma trim_all_space : forall p, all_space p = true -> trim_ws p = [].
Proof. intros p H. unfold trim_ws. now rewrite drop_ws_all. Qed.

(* ------------------------------------------------------------------------------------------- *)
(* the slash clean-up *)

Lemma collapse_no_fs : forall p b, has_fs (collapse_from b p) = false.
Proof.
  induction p as [|c r IH]; intros b; [reflexivity|].
  simpl. destruct (is_sep c) eqn:Es.
  - destruct b; [apply IH|]. unfold has_fs in *. simpl. apply IH.
  - unfold has_fs in *. simpl. rewrite IH. unfold is_sep, FS in *.
    destruct (47 =? c) eqn:E; [exfalso; lia|reflexivity].
Qed.

Lemma collapse_hd_after_sep : forall r, hd_bs (collapse_from true r) = false.
Proof.
  induction r as [|d r IH]; [reflexivity|].
  simpl. destruct (is_sep d) eqn:Ed; [exact IH|].
  simpl. unfold is_sep, BS in *. lia.
Qed.

Lemma collapse_no_dbs : forall p b, has_dbs (collapse_from b p) = false.
Proof.
  induction p as [|c r IH]; intros b; [reflexivity|].
  simpl. destruct (is_sep c) eqn:Es.
  - destruct b; [apply IH|].
    pose proof (collapse_hd_after_sep r) as Hh.
    simpl. rewrite IH. unfold hd_bs in Hh.
    destruct (collapse_from true r); [reflexivity|]. rewrite Hh. reflexivity.
  - simpl. rewrite IH.
    assert ((c =? BS) = false) as -> by (unfold is_sep, BS in *; lia). reflexivity.
Qed.

Lemma collapse_id : forall q b, has_fs q = false -> has_dbs q = false ->
  (hd_bs q = false \/ b = false) -> collapse_from b q = q.
Proof.
  induction q as [|c r IH]; intros b Hf Hd Hp; [reflexivity|].
  pose proof (has_fs_cons _ _ Hf) as Hfr. pose proof (has_dbs_cons _ _ Hd) as Hdr.
  assert ((c =? FS) = false) as Hc47.
  { unfold has_fs in Hf. simpl in Hf. apply orb_false_iff in Hf. destruct Hf as [Hf _].
    rewrite N.eqb_sym. exact Hf. }
  simpl. unfold is_sep. rewrite Hc47. simpl.
  destruct (c =? BS) eqn:Ec.
  - apply N.eqb_eq in Ec. subst c.
    assert (b = false) as ->.
    { destruct Hp as [Hp|Hp]; [simpl in Hp; unfold BS in Hp; discriminate|exact Hp]. }
    f_equal. apply IH; auto. left.
    simpl in Hd. apply orb_false_iff in Hd. destruct Hd as [Hd _].
    destruct r; [reflexivity|]. simpl. unfold BS in *. simpl in Hd. exact Hd.
  - f_equal. apply IH; auto.
Qed.

Lemma collapse_nonsep_ne : forall r, r <> [] -> collapse_from false r <> [].
Proof.
  destruct r as [|c r]; intros Hr; [congruence|].
  simpl. destruct (is_sep c); discriminate.
Qed.

Lemma collapse_last : forall p b, last_space p = false -> last_space (collapse_from b p) = false.
Proof.
  induction p as [|c r IH]; intros b H; [reflexivity|].
  destruct r as [|x r'].
  - simpl. destruct (is_sep c); [destruct b|]; try reflexivity; exact H.
  - rewrite last_space_cons in H by discriminate.
    change (collapse_from b (c :: x :: r')) with
      (if is_sep c then (if b then collapse_from true (x :: r') else BS :: collapse_from true (x :: r'))
       else c :: collapse_from false (x :: r')).
    destruct (is_sep c) eqn:Es.
    + destruct b; [now apply IH|].
      destruct (collapse_from true (x :: r')) eqn:E; [reflexivity|].
      rewrite last_space_cons by discriminate. rewrite <- E. now apply IH.
    + rewrite last_space_cons by (apply collapse_nonsep_ne; discriminate). now apply IH.
Qed.

(* ------------------------------------------------------------------------------------------- *)
(* the textures search, leading backslashes, prefixes *)

Lemma find_tex_suffix : forall p r, find_tex p = Some r -> suffix r p.
Proof.
  induction p as [|c p IH]; intros r H; [discriminate|].
  change (find_tex (c :: p)) with
    (if starts_ci BTEX (c :: p) then Some (skipn 10 (c :: p)) else if is_nl c then None else find_tex p) in H.
  destruct (starts_ci BTEX (c :: p)).
  - assert (r = skipn 10 (c :: p)) as -> by congruence. apply suffix_skipn.
  - destruct (is_nl c); [discriminate|]. apply suffix_cons. now apply IH.
Qed.

Lemma find_tex_none : forall p, contains_ci BTEX p = false -> find_tex p = None.
Proof.
  induction p as [|c p IH]; intros H; [reflexivity|].
  change (find_tex (c :: p)) with
    (if starts_ci BTEX (c :: p) then Some (skipn 10 (c :: p)) else if is_nl c then None else find_tex p).
  change (contains_ci BTEX (c :: p)) with (starts_ci BTEX (c :: p) || contains_ci BTEX p) in H.
  apply orb_false_iff in H. destruct H as [H1 H2]. rewrite H1.
  destruct (is_nl c); [reflexivity|]. now apply IH.
Qed.

Lemma strip_suffix : forall p, suffix (strip_to_textures p) p.
Proof.
  intros p. unfold strip_to_textures. destruct (starts_ci TEX p); [apply suffix_refl|].
  destruct (find_tex p) eqn:E; [now apply find_tex_suffix|apply suffix_refl].
Qed.

Lemma drop_bs_suffix : forall p, suffix (drop_bs p) p.
Proof.
  induction p as [|c r IH]; [apply suffix_refl|]. simpl.
  destruct (c =? BS); [now apply suffix_cons|apply suffix_refl].
Qed.

Lemma drop_bs_hd : forall p, hd_bs (drop_bs p) = false.
Proof.
  induction p as [|c r IH]; [reflexivity|]. simpl.
  destruct (c =? BS) eqn:E; [exact IH|]. simpl. exact E.
Qed.

Lemma drop_bs_id : forall p, hd_bs p = false -> drop_bs p = p.
Proof. destruct p as [|c r]; [reflexivity|]. simpl. intros H. now rewrite H. Qed.

Lemma starts_ci_app : forall l p, starts_ci l (l ++ p) = true.
Proof. induction l as [|a l IH]; intros p; [reflexivity|]. simpl. rewrite N.eqb_refl. apply IH. Qed.

Lemma add_prefix_starts : forall lit p, starts_ci lit (add_prefix lit p) = true.
Proof. intros lit p. unfold add_prefix. destruct (starts_ci lit p) eqn:E; [exact E|apply starts_ci_app]. Qed.

Lemma add_prefix_id : forall lit p, starts_ci lit p = true -> add_prefix lit p = p.
Proof. intros lit p H. unfold add_prefix. now rewrite H. Qed.

(* a string that starts with textures\ (any case) starts with t or T *)
Lemma starts_tex_inv : forall q, starts_ci TEX q = true ->
  exists c r, q = c :: r /\ lower c = 116.
Proof.
  intros [|c r] H; [discriminate|]. exists c, r. split; [reflexivity|].
  simpl in H. apply andb_true_iff in H. destruct H as [H _]. apply N.eqb_eq in H. exact H.
Qed.

Lemma lower_t : forall c, lower c = 116 ->
  is_space c = false /\ (c =? BS) = false /\ (c =? FS) = false /\ (lower c =? lower 68) = false.
Proof.
  intros c H. rewrite H. unfold lower, is_space, BS, FS in *.
  destruct ((65 <=? c) && (c <=? 90)) eqn:E; simpl; lia.
Qed.

Lemma starts_data_inv : forall q, starts_ci DATA q = true ->
  exists c r, q = c :: r /\ lower c = 100.
Proof.
  intros [|c r] H; [discriminate|]. exists c, r. split; [reflexivity|].
  simpl in H. apply andb_true_iff in H. destruct H as [H _]. apply N.eqb_eq in H. exact H.
Qed.

Lemma lower_d : forall c, lower c = 100 ->
  is_space c = false /\ (c =? BS) = false /\ (c =? FS) = false /\ (lower c =? lower 116) = false.
Proof.
  intros c H. rewrite H. unfold lower, is_space, BS, FS in *.
  destruct ((65 <=? c) && (c <=? 90)) eqn:E; simpl; lia.
Qed.

(* ------------------------------------------------------------------------------------------- *)
(* tidy strings: what every later step of the clean-up leaves alone *)

Definition tidy (q : list N) : Prop :=
  hd_space q = false /\ last_space q = false /\ has_fs q = false /\ has_dbs q = false /\ hd_bs q = false.

Lemma has_fs_app : forall a b, has_fs (a ++ b) = has_fs a || has_fs b.
Proof. intros. unfold has_fs. apply existsb_app. Qed.

Lemma has_dbs_TEX : forall s, has_dbs (TEX ++ s) = hd_bs s || has_dbs s.
Proof. intros s. destruct s; reflexivity. Qed.

Lemma has_dbs_DATA : forall s, has_dbs (DATA ++ s) = hd_bs s || has_dbs s.
Proof. intros s. destruct s; reflexivity. Qed.

Lemma tidy_add_prefix : forall lit s,
  (lit = TEX \/ lit = DATA) -> last_space s = false -> has_fs s = false -> has_dbs s = false -> hd_bs s = false ->
  (starts_ci lit s = true -> hd_space s = false) ->
  tidy (add_prefix lit s).
Proof.
  intros lit s Hl H2 H3 H4 H5 Hhd. unfold add_prefix.
  destruct (starts_ci lit s) eqn:E.
  - repeat split; auto.
  - assert (last_space (lit ++ s) = false) as HL.
    { destruct s as [|x s'].
      - destruct Hl as [-> | ->]; reflexivity.
      - unfold last_space. rewrite last_app_ne by discriminate. exact H2. }
    assert (has_fs (lit ++ s) = false) as HF.
    { rewrite has_fs_app, H3. destruct Hl as [-> | ->]; reflexivity. }
    assert (has_dbs (lit ++ s) = false) as HD.
    { destruct Hl as [-> | ->]; [rewrite has_dbs_TEX|rewrite has_dbs_DATA]; rewrite H4, H5; reflexivity. }
    unfold tidy. split; [destruct Hl as [-> | ->]; reflexivity|].
    split; [exact HL|]. split; [exact HF|]. split; [exact HD|].
    destruct Hl as [-> | ->]; reflexivity.
Qed.

(* the terrain-only removal of Data\ in front of textures\ *)
Definition sdt (terrain : bool) (c : list N) : list N := if terrain then strip_data_tex c else c.

Lemma sdt_suffix : forall terrain c, suffix (sdt terrain c) c.
Proof.
  intros terrain c. unfold sdt, strip_data_tex. destruct terrain; [|apply suffix_refl].
  destruct (starts_ci DATATEX c); [apply suffix_skipn|apply suffix_refl].
Qed.

Lemma starts_ci_app_both : forall l m p, starts_ci (l ++ m) (l ++ p) = starts_ci m p.
Proof. induction l as [|a l IH]; intros m p; [reflexivity|]. simpl. rewrite N.eqb_refl. apply IH. Qed.

Lemma strip_data_tex_prefixed : forall q, starts_ci TEX q = true -> strip_data_tex (DATA ++ q) = q.
Proof.
  intros q H. unfold strip_data_tex, DATATEX. rewrite starts_ci_app_both, H. reflexivity.
Qed.

Lemma contains_app : forall pat pre q, starts_ci pat q = true -> contains_ci pat (pre ++ q) = true.
Proof.
  intros pat pre q H. induction pre as [|a pre IH]; simpl app.
  - destruct q; simpl; rewrite H; reflexivity.
  - change (contains_ci pat (a :: pre ++ q)) with (starts_ci pat (a :: pre ++ q) || contains_ci pat (pre ++ q)).
    rewrite IH. apply orb_true_r.
Qed.

(* Data\textures\ at the front means \textures\ at offset 4 *)
Lemma datatex_contains : forall q, starts_ci DATATEX q = true -> contains_ci BTEX q = true.
Proof.
  intros q H.
  destruct q as [|c1 [|c2 [|c3 [|c4 [|c5 r]]]]]; try discriminate H;
    try (simpl in H; repeat (apply andb_true_iff in H; destruct H as [? H]); discriminate).
  change (starts_ci DATATEX (c1 :: c2 :: c3 :: c4 :: c5 :: r)) with
    ((lower c1 =? lower 68) && ((lower c2 =? lower 97) && ((lower c3 =? lower 116) &&
     ((lower c4 =? lower 97) && ((lower c5 =? lower 92) && starts_ci TEX r))))) in H.
  do 4 (apply andb_true_iff in H; destruct H as [_ H]).
  assert (starts_ci BTEX (c5 :: r) = true) as Hb.
  { change (starts_ci BTEX (c5 :: r)) with ((lower c5 =? lower 92) && starts_ci TEX r).
    exact H. }
  apply (contains_app BTEX [c1; c2; c3; c4] (c5 :: r) Hb).
Qed.

Section Clean.
  Variable isrel : list N -> bool.
  (* libstdc++ on POSIX: a path without '/' is relative (satisfied by isrel_posix, see below) *)
  Hypothesis isrel_ok : forall q, has_fs q = false -> isrel q = true.

  (* the part of the clean-up behind trim and slash clean-up *)
  Definition finish (np terrain : bool) (c : list N) : list N :=
    let s := drop_bs (strip_to_textures (sdt terrain c)) in
    let s1 := if np && isrel s then add_prefix TEX s else s in
    if terrain && isrel s1 then add_prefix DATA s1 else s1.

  Lemma clean_unfold : forall np terrain p, trim_ws p <> [] ->
    clean np terrain isrel p = finish np terrain (collapse (trim_ws p)).
  Proof.
    intros np terrain p H. unfold clean, finish, sdt.
    destruct p as [|c r]; [exfalso; apply H; reflexivity|].
    destruct (trim_ws (c :: r)); [congruence|reflexivity].
  Qed.

  Lemma clean_empty_trim : forall np terrain p, trim_ws p = [] -> clean np terrain isrel p = [].
  Proof. intros np terrain p H. unfold clean. destruct p; [reflexivity|]. now rewrite H. Qed.

  (* on a tidy non-empty string trim and slash clean-up do nothing *)
  Lemma clean_tidy : forall np terrain q, q <> [] -> tidy q ->
    clean np terrain isrel q = finish np terrain q.
  Proof.
    intros np terrain q Hne (H1 & H2 & H3 & H4 & H5).
    assert (trim_ws q = q) as Ht by now apply trim_id.
    rewrite clean_unfold by (rewrite Ht; exact Hne). rewrite Ht.
    unfold collapse. rewrite collapse_id; auto.
  Qed.

  (* the string [s] behind trim, slash clean-up, terrain Data\ removal, textures search and leading
     backslash removal *)
  Definition core (terrain : bool) (p : list N) : list N :=
    drop_bs (strip_to_textures (sdt terrain (collapse (trim_ws p)))).

  Lemma core_suffix : forall terrain p, suffix (core terrain p) (collapse (trim_ws p)).
  Proof.
    intros terrain p. unfold core.
    eapply suffix_trans; [apply drop_bs_suffix|]. eapply suffix_trans; [apply strip_suffix|apply sdt_suffix].
  Qed.

  Lemma core_fs : forall terrain p, has_fs (core terrain p) = false.
  Proof. intros terrain p. eapply suffix_has_fs; [apply core_suffix|apply collapse_no_fs]. Qed.

  Lemma core_dbs : forall terrain p, has_dbs (core terrain p) = false.
  Proof. intros terrain p. eapply suffix_has_dbs; [apply core_suffix|apply collapse_no_dbs]. Qed.

  Lemma core_hd_bs : forall terrain p, hd_bs (core terrain p) = false.
  Proof. intros terrain p. apply drop_bs_hd. Qed.

  Lemma core_last : forall terrain p, last_space (core terrain p) = false.
  Proof.
    intros terrain p. destruct (core terrain p) eqn:E; [reflexivity|]. rewrite <- E.
    unfold last_space. rewrite <- (suffix_last (core terrain p) (collapse (trim_ws p)) 0).
    - apply collapse_last. apply trim_last.
    - apply core_suffix.
    - rewrite E. discriminate.
  Qed.

  Lemma finish_core : forall np terrain p, trim_ws p <> [] ->
    clean np terrain isrel p =
      (let s := core terrain p in
       let s1 := if np then add_prefix TEX s else s in
       if terrain then add_prefix DATA s1 else s1).
  Proof.
    intros np terrain p H. rewrite clean_unfold by exact H. unfold finish. fold (core terrain p).
    rewrite (isrel_ok (core terrain p)) by apply core_fs. rewrite andb_true_r. cbv zeta.
    assert (has_fs (if np then add_prefix TEX (core terrain p) else core terrain p) = false) as Hf.
    { destruct np; [|apply core_fs]. unfold add_prefix. destruct (starts_ci TEX (core terrain p)); [apply core_fs|].
      rewrite has_fs_app, core_fs. reflexivity. }
    rewrite (isrel_ok _ Hf). now rewrite andb_true_r.
  Qed.

  (* ----------------------------------------------------------------------------------------- *)
  (* structure of the result, every configuration *)

  Lemma clean_blank : forall np terrain p, all_space p = true -> clean np terrain isrel p = [].
  Proof. intros. apply clean_empty_trim. now apply trim_all_space. Qed.

  Lemma prefixed_tex_tidy : forall terrain p, tidy (add_prefix TEX (core terrain p)).
  Proof.
    intros terrain p. apply tidy_add_prefix; auto using core_last, core_fs, core_dbs, core_hd_bs.
    intros H. destruct (starts_tex_inv _ H) as (c & r & -> & Hc). simpl. apply (lower_t c Hc).
  Qed.

  Lemma starts_tex_not_data : forall q, starts_ci TEX q = true -> starts_ci DATA q = false.
  Proof.
    intros q H. destruct (starts_tex_inv _ H) as (c & r & -> & Hc).
    destruct (lower_t c Hc) as (_ & _ & _ & Hd). simpl. now rewrite Hd.
  Qed.

  Lemma starts_data_not_tex : forall q, starts_ci DATA q = true -> starts_ci TEX q = false.
  Proof.
    intros q H. destruct (starts_data_inv _ H) as (c & r & -> & Hc).
    destruct (lower_d c Hc) as (_ & _ & _ & Hd). simpl. now rewrite Hd.
  Qed.

  Lemma canonical_intro : forall np terrain q,
    hd_space q = false -> last_space q = false -> has_fs q = false -> has_dbs q = false ->
    (starts_ci TEX (body terrain q) = true \/ contains_ci BTEX (body terrain q) = false) ->
    (np = true -> starts_ci TEX (body terrain q) = true) ->
    (terrain = true -> starts_ci DATA q = true) ->
    canonical np terrain isrel q = true.
  Proof.
    intros np terrain q H1 H2 H3 H4 H5 H6 H7. unfold canonical. destruct q as [|c r]; [reflexivity|].
    rewrite H1, H2, H3, H4. cbn [negb andb].
    assert (starts_ci TEX (body terrain (c :: r)) || negb (contains_ci BTEX (body terrain (c :: r))) = true) as ->.
    { destruct H5 as [-> | ->]; [reflexivity|apply orb_true_r]. }
    assert (implb (np && isrel (c :: r)) (starts_ci TEX (body terrain (c :: r))) = true) as ->.
    { destruct np; [rewrite H6 by reflexivity; apply implb_true_r|reflexivity]. }
    destruct terrain; [rewrite H7 by reflexivity; apply implb_true_r|reflexivity].
  Qed.

  (* ----------------------------------------------------------------------------------------- *)
  (* prefixing configurations (needs_prefix = true: FO3, SK, SSE, FO4, FO76, SF) *)

  Lemma data_tex_tidy : forall terrain p, tidy (add_prefix DATA (add_prefix TEX (core terrain p))).
  Proof.
    intros terrain p. destruct (prefixed_tex_tidy terrain p) as (H1 & H2 & H3 & H4 & H5).
    apply tidy_add_prefix; auto.
  Qed.

  Theorem clean_canonical_prefixing : forall terrain p,
    canonical true terrain isrel (clean true terrain isrel p) = true.
  Proof.
    intros terrain p.
    destruct (trim_ws p) eqn:Et; [rewrite clean_empty_trim by exact Et; reflexivity|].
    rewrite finish_core by (rewrite Et; discriminate). cbv zeta.
    pose proof (add_prefix_starts TEX (core terrain p)) as Hs.
    destruct terrain.
    - pose proof (data_tex_tidy true p) as Ht.
      set (q1 := add_prefix TEX (core true p)) in *.
      assert (add_prefix DATA q1 = DATA ++ q1) as Eq
        by (unfold add_prefix; now rewrite (starts_tex_not_data _ Hs)).
      rewrite Eq in *. destruct Ht as (H1 & H2 & H3 & H4 & H5).
      apply canonical_intro; auto.
    - destruct (prefixed_tex_tidy false p) as (H1 & H2 & H3 & H4 & H5).
      apply canonical_intro; auto; discriminate.
  Qed.

  Lemma strip_id_tex : forall q, starts_ci TEX q = true -> strip_to_textures q = q.
  Proof. intros q H. unfold strip_to_textures. now rewrite H. Qed.

  (* what the steps behind the slash clean-up do to a tidy string that starts with textures\ *)
  Lemma finish_tex : forall q, starts_ci TEX q = true -> tidy q ->
    drop_bs (strip_to_textures q) = q /\ isrel q = true /\ add_prefix TEX q = q.
  Proof.
    intros q Hs (H1 & H2 & H3 & H4 & H5).
    rewrite strip_id_tex by exact Hs. rewrite drop_bs_id by exact H5.
    split; [reflexivity|]. split; [now apply isrel_ok|now apply add_prefix_id].
  Qed.

  Theorem clean_idem_prefixing : forall terrain p,
    clean true terrain isrel (clean true terrain isrel p) = clean true terrain isrel p.
  Proof.
    intros terrain p.
    destruct (trim_ws p) eqn:Et; [rewrite (clean_empty_trim true terrain p Et); reflexivity|].
    rewrite (finish_core true terrain p) by (rewrite Et; discriminate). cbv zeta.
    pose proof (add_prefix_starts TEX (core terrain p)) as Hs.
    pose proof (prefixed_tex_tidy terrain p) as Ht1.
    pose proof (data_tex_tidy terrain p) as Ht.
    set (q1 := add_prefix TEX (core terrain p)) in *.
    destruct (finish_tex q1 Hs Ht1) as (E1 & E2 & E3).
    destruct terrain.
    - assert (add_prefix DATA q1 = DATA ++ q1) as Eq
        by (unfold add_prefix; now rewrite (starts_tex_not_data _ Hs)).
      rewrite Eq in *.
      rewrite clean_tidy; [|destruct q1; discriminate|exact Ht].
      unfold finish, sdt. rewrite (strip_data_tex_prefixed q1 Hs).
      rewrite E1, E2. simpl andb. cbv iota. rewrite E3, E2. exact Eq.
    - assert (q1 <> []) as Hne by (intros E; rewrite E in Hs; discriminate).
      rewrite clean_tidy by assumption.
      unfold finish, sdt. rewrite E1, E2. simpl andb. cbv iota. exact E3.
  Qed.

  (* ----------------------------------------------------------------------------------------- *)
  (* OB / Special (needs_prefix = false): canonical and idempotent exactly outside the two defect
     classes "the result still contains \textures\" and "the result starts with whitespace" *)

  Theorem clean_ob_outside_defects : forall terrain p,
    hd_space (clean false terrain isrel p) = false ->
    contains_ci BTEX (clean false terrain isrel p) = false ->
    clean false terrain isrel (clean false terrain isrel p) = clean false terrain isrel p /\
    canonical false terrain isrel (clean false terrain isrel p) = true.
  Proof.
    intros terrain p.
    destruct (trim_ws p) eqn:Et; [rewrite (clean_empty_trim false terrain p Et); split; reflexivity|].
    rewrite (finish_core false terrain p) by (rewrite Et; discriminate). cbv zeta.
    pose proof (core_fs terrain p) as H3. pose proof (core_dbs terrain p) as H4.
    pose proof (core_hd_bs terrain p) as H5. pose proof (core_last terrain p) as H2.
    set (s := core terrain p) in *.
    destruct terrain.
    - intros Hhd Hc.
      assert (tidy (add_prefix DATA s)) as Ht.
      { apply tidy_add_prefix; auto. intros H.
        destruct (starts_data_inv _ H) as (c & r & -> & Hl). simpl. apply (lower_d c Hl). }
      pose proof (add_prefix_starts DATA s) as Hs.
      set (q := add_prefix DATA s) in *.
      assert (q <> []) as Hne by (intros E; rewrite E in Hs; discriminate).
      destruct Ht as (T1 & T2 & T3 & T4 & T5).
      split.
      + rewrite clean_tidy; [|exact Hne|unfold tidy; auto].
        unfold finish, sdt.
        assert (strip_data_tex q = q) as ->.
        { unfold strip_data_tex. destruct (starts_ci DATATEX q) eqn:E; [|reflexivity].
          apply datatex_contains in E. congruence. }
        unfold strip_to_textures. rewrite (starts_data_not_tex _ Hs).
        rewrite (find_tex_none _ Hc). rewrite drop_bs_id by exact T5. simpl andb. cbv iota.
        rewrite (isrel_ok q T3). now apply add_prefix_id.
      + apply canonical_intro; auto; [|discriminate].
        right. unfold body. rewrite Hs. simpl andb. cbv iota.
        eapply suffix_contains; [apply suffix_skipn|exact Hc].
    - intros Hhd Hc.
      destruct s as [|c r] eqn:Es; [split; reflexivity|]. rewrite <- Es in *.
      split.
      + rewrite clean_tidy; [|rewrite Es; discriminate|unfold tidy; auto].
        unfold finish, sdt. simpl andb. cbv iota.
        assert (strip_to_textures s = s) as ->.
        { unfold strip_to_textures. destruct (starts_ci TEX s); [reflexivity|]. now rewrite (find_tex_none _ Hc). }
        now apply drop_bs_id.
      + apply canonical_intro; auto; discriminate.
  Qed.
End Clean.

(* ------------------------------------------------------------------------------------------- *)
(* structure of the result in EVERY configuration and for ANY is_relative function *)

Lemma add_prefix_fs : forall lit s, (lit = TEX \/ lit = DATA) -> has_fs s = false -> has_fs (add_prefix lit s) = false.
Proof.
  intros lit s Hl H. unfold add_prefix. destruct (starts_ci lit s); [exact H|].
  rewrite has_fs_app, H. destruct Hl as [-> | ->]; reflexivity.
Qed.

Lemma add_prefix_last : forall lit s, (lit = TEX \/ lit = DATA) -> last_space s = false -> last_space (add_prefix lit s) = false.
Proof.
  intros lit s Hl H. unfold add_prefix. destruct (starts_ci lit s); [exact H|].
  destruct s as [|x s'].
  - destruct Hl as [-> | ->]; reflexivity.
  - unfold last_space. rewrite last_app_ne by discriminate. exact H.
Qed.

Lemma add_prefix_dbs : forall lit s, (lit = TEX \/ lit = DATA) -> has_dbs s = false /\ hd_bs s = false ->
  has_dbs (add_prefix lit s) = false /\ hd_bs (add_prefix lit s) = false.
Proof.
  intros lit s Hl [H1 H2]. unfold add_prefix. destruct (starts_ci lit s); [now split|].
  destruct Hl as [-> | ->]; [rewrite has_dbs_TEX|rewrite has_dbs_DATA]; rewrite H1, H2; now split.
Qed.

Lemma clean_shape : forall np terrain isrel p, trim_ws p <> [] -> exists b1 b2 : bool,
  clean np terrain isrel p =
    (let s1 := if b1 then add_prefix TEX (core terrain p) else core terrain p in if b2 then add_prefix DATA s1 else s1).
Proof.
  intros np terrain isrel p H. rewrite clean_unfold by exact H. unfold finish. fold (core terrain p).
  eexists. eexists. reflexivity.
Qed.

Theorem clean_no_slash : forall np terrain isrel p, has_fs (clean np terrain isrel p) = false.
Proof.
  intros np terrain isrel p.
  destruct (trim_ws p) eqn:Et; [rewrite clean_empty_trim by exact Et; reflexivity|].
  destruct (clean_shape np terrain isrel p) as (b1 & b2 & ->); [rewrite Et; discriminate|]. cbv zeta.
  pose proof (core_fs terrain p).
  destruct b1, b2; repeat apply add_prefix_fs; auto.
Qed.

Theorem clean_no_trailing_ws : forall np terrain isrel p, last_space (clean np terrain isrel p) = false.
Proof.
  intros np terrain isrel p.
  destruct (trim_ws p) eqn:Et; [rewrite clean_empty_trim by exact Et; reflexivity|].
  destruct (clean_shape np terrain isrel p) as (b1 & b2 & ->); [rewrite Et; discriminate|]. cbv zeta.
  pose proof (core_last terrain p).
  destruct b1, b2; repeat apply add_prefix_last; auto.
Qed.

Theorem clean_single_bs : forall np terrain isrel p, has_dbs (clean np terrain isrel p) = false.
Proof.
  intros np terrain isrel p.
  destruct (trim_ws p) eqn:Et; [rewrite clean_empty_trim by exact Et; reflexivity|].
  destruct (clean_shape np terrain isrel p) as (b1 & b2 & ->); [rewrite Et; discriminate|]. cbv zeta.
  pose proof (conj (core_dbs terrain p) (core_hd_bs terrain p)) as H.
  destruct b1, b2; repeat (apply add_prefix_dbs; auto); auto; apply H.
Qed.

(* no leading whitespace either when the prefix is added *)
Theorem clean_no_leading_ws_prefixing : forall terrain isrel p,
  (forall q, has_fs q = false -> isrel q = true) ->
  hd_space (clean true terrain isrel p) = false.
Proof.
  intros terrain isrel p Hrel.
  destruct (trim_ws p) eqn:Et; [rewrite clean_empty_trim by exact Et; reflexivity|].
  rewrite (finish_core isrel Hrel) by (rewrite Et; discriminate). cbv zeta.
  pose proof (add_prefix_starts TEX (core terrain p)) as Hs.
  destruct terrain.
  - unfold add_prefix at 1. rewrite (starts_tex_not_data _ Hs). reflexivity.
  - destruct (starts_tex_inv _ Hs) as (c & r & -> & Hc). simpl. apply (lower_t c Hc).
Qed.

(* ------------------------------------------------------------------------------------------- *)
(* the POSIX instance satisfies the hypothesis; refutations (witnesses replayed on the real code by
   tools/props/c19.py) *)

Lemma isrel_posix_ok : forall q, has_fs q = false -> isrel_posix q = true.
Proof.
  intros [|c r] H; [reflexivity|]. unfold has_fs in H. simpl in H. apply orb_false_iff in H.
  destruct H as [H _]. simpl. unfold FS in *. rewrite N.eqb_sym. now rewrite H.
Qed.

(* "a\textures\b\textures\c.dds" *)
Definition w_two_textures : list N :=
  [97; 92; 116; 101; 120; 116; 117; 114; 101; 115; 92; 98; 92; 116; 101; 120; 116; 117; 114; 101; 115; 92; 99; 46; 100; 100; 115].
(* "\ a" *)
Definition w_bs_space : list N := [92; 32; 97].
(* "x\n\textures\a" with a real newline *)
Definition w_newline : list N := [120; 10; 92; 116; 101; 120; 116; 117; 114; 101; 115; 92; 97].

Theorem clean_idem_refuted_ob : exists p,
  clean false false isrel_posix (clean false false isrel_posix p) <> clean false false isrel_posix p.
Proof. exists w_two_textures. vm_compute. discriminate. Qed.

Theorem clean_idem_refuted_ob_terrain : exists p,
  clean false true isrel_posix (clean false true isrel_posix p) <> clean false true isrel_posix p.
Proof. exists w_two_textures. vm_compute. discriminate. Qed.

Theorem clean_canonical_refuted_ob : exists p,
  canonical false false isrel_posix (clean false false isrel_posix p) = false.
Proof. exists w_two_textures. reflexivity. Qed.

Theorem clean_canonical_refuted_ob_ws : exists p,
  hd_space (clean false false isrel_posix p) = true /\
  canonical false false isrel_posix (clean false false isrel_posix p) = false /\
  clean false false isrel_posix (clean false false isrel_posix p) <> clean false false isrel_posix p.
Proof. exists w_bs_space. repeat split; try reflexivity. vm_compute. discriminate. Qed.

Theorem clean_canonical_refuted_ob_newline : exists p,
  canonical false false isrel_posix (clean false false isrel_posix p) = false.
Proof. exists w_newline. reflexivity. Qed.

(* The hypothesis on is_relative cannot simply be dropped: with a Windows-like rule ("X:" at the
   front = absolute; MODEL ONLY, not observed on a Windows build) the prefixing configuration is not
   idempotent on "\textures\C:\x\textures\C:\y" (the absolute path is not prefixed, so the second
   pass finds the second \textures\). *)
Definition isrel_drive (p : list N) : bool :=
  match p with
  | c :: 58 :: _ => negb (((65 <=? c) && (c <=? 90)) || ((97 <=? c) && (c <=? 122)))
  | _ => true
  end.
Definition w_drive : list N :=
  [92; 116; 101; 120; 116; 117; 114; 101; 115; 92; 67; 58; 92; 120;
   92; 116; 101; 120; 116; 117; 114; 101; 115; 92; 67; 58; 92; 121].

Lemma clean_idem_needs_isrel_hyp : exists p,
  clean true false isrel_drive (clean true false isrel_drive p) <> clean true false isrel_drive p.
Proof. exists w_drive. vm_compute. discriminate. Qed.
