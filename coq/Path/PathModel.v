(* Path layer (DESIGN.md 5.8): a step-by-step model of the lambda fTrimPath of
   NifFile::TrimTexturePaths (src/NifFile.cpp:1157-1193) over byte lists (bytes are N < 256).

   Every step below was compared with the real code (g++ 12.2 / libstdc++ / glibc, C locale) by the
   correspondence check tools/props/c19.py; the modelling decisions that are NOT consequences of the
   C++ standard but of this platform's runtime are marked [runtime]:

   - trim_whitespace (src/NifUtil.cpp:13-34) calls isspace(char). [runtime] In glibc's C locale the
     space set is {9,10,11,12,13,32}; for bytes >= 0x80 (negative char: formally undefined behaviour
     of isspace) glibc's table answers "not a space". Modelled so.
   - std::regex "[/\\]+" replaced by one backslash: every maximal run of separators (mixed or not)
     becomes one backslash (repair C19-mixed-separators; before it the pattern was "/+|\\+" and the
     mixed pair "/\" became TWO backslashes).
   - terrain files only (repair C19-terrain-restrip): "^Data\\(?=textures\\)" (icase) -> "": a leading
     Data\ that is directly followed by textures\ is taken off before the search (the Data\ prefix is
     added back at the end), so that an already clean terrain path is left alone.
   - the lazy search ^(?!textures\\).*?\\textures\\ with icase: nothing is removed when the string
     starts with textures\ ; otherwise everything up to and including the FIRST \textures\ is
     removed, provided no '\n' or '\r' occurs before it ([runtime] libstdc++'s ECMAScript '.'
     excludes exactly these two bytes; it does match 0, 11, 12, 0x85 and all bytes >= 0x80; '^'
     only matches at offset 0, the multiline flag being off). icase is ASCII-only in the C locale:
     A-Z fold to a-z, every other byte is itself.
   - "^\\+" -> "" removes all leading backslashes.
   - "^(?!^textures\\)" -> "textures\" (icase) inserts the prefix exactly once, at the front.
   - is_relative_path (include/NifUtil.hpp:184) is std::filesystem::u8path(p).is_relative():
     a parameter [isrel] of the model. [runtime] With libstdc++ on POSIX a path is relative unless
     it starts with '/', the empty path is relative, no byte sequence makes u8path throw
     ([isrel_posix] below). *)
From NiflyVerif Require Import Res.
Local Open Scope N_scope.

Definition BS : N := 92.   (* '\' *)
Definition FS : N := 47.   (* '/' *)

(* isspace in the C locale; bytes >= 128 are not spaces [runtime] *)
Definition is_space (c : N) : bool := ((9 <=? c) && (c <=? 13)) || (c =? 32).

(* the first loop of trim_whitespace: skip leading spaces *)
Fixpoint drop_ws (p : list N) : list N :=
  match p with
  | [] => []
  | c :: r => if is_space c then drop_ws r else p
  end.

(* the second loop: skip trailing spaces (j walks down from the end) *)
Fixpoint drop_ws_end (p : list N) : list N :=
  match p with
  | [] => []
  | c :: r => match drop_ws_end r with
              | [] => if is_space c then [] else [c]
              | r' => c :: r'
              end
  end.

(* trim_whitespace: when the first loop reaches the end the string is cleared *)
Definition trim_ws (p : list N) : list N := drop_ws_end (drop_ws p).

Definition is_sep (c : N) : bool := (c =? FS) || (c =? BS).

(* regex_replace(tex, "[/\\]+", "\\") (since the repair C19-mixed-separators; it was "/+|\\+", which
   turned "/\" into two backslashes): [insep] says that the previous input byte was a separator.
   A separator behind a separator continues the current run and emits nothing; a separator behind
   anything else starts a run and emits one backslash. *)
Fixpoint collapse_from (insep : bool) (p : list N) : list N :=
  match p with
  | [] => []
  | c :: r => if is_sep c
              then (if insep then collapse_from true r else BS :: collapse_from true r)
              else c :: collapse_from false r
  end.
Definition collapse (p : list N) : list N := collapse_from false p.

(* ASCII case folding of regex_constants::icase in the C locale *)
Definition lower (c : N) : N := if (65 <=? c) && (c <=? 90) then c + 32 else c.

(* does [p] start with [pat], ASCII case-insensitively *)
Fixpoint starts_ci (pat p : list N) : bool :=
  match pat with
  | [] => true
  | a :: pr => match p with
               | [] => false
               | c :: r => (lower c =? lower a) && starts_ci pr r
               end
  end.

Definition TEX : list N := [116; 101; 120; 116; 117; 114; 101; 115; 92].   (* textures\ *)
Definition BTEX : list N := 92 :: TEX.                                      (* \textures\ *)
Definition DATA : list N := [68; 97; 116; 97; 92].                          (* Data\ *)

(* line terminators that '.' does not match [runtime] *)
Definition is_nl (c : N) : bool := (c =? 10) || (c =? 13).

(* .*?\\textures\\ anchored at the front: the lazy star tries the literal at each position in turn
   and can only step over a byte that is not a line terminator *)
Fixpoint find_tex (p : list N) : option (list N) :=
  match p with
  | [] => None
  | c :: r => if starts_ci BTEX p then Some (skipn 10 p)
              else if is_nl c then None
              else find_tex r
  end.

(* regex_search + substr(match[0].length()) *)
Definition strip_to_textures (p : list N) : list N :=
  if starts_ci TEX p then p            (* the negative lookahead (?!textures\\) fails at offset 0 *)
  else match find_tex p with
       | Some rest => rest
       | None => p
       end.

(* terrain files: regex_replace(tex, "^Data\\(?=textures\\)", "") with icase *)
Definition DATATEX : list N := DATA ++ TEX.                                 (* Data\textures\ *)
Definition strip_data_tex (p : list N) : list N := if starts_ci DATATEX p then skipn 5 p else p.

(* regex_replace(tex, "^\\+", "") *)
Fixpoint drop_bs (p : list N) : list N :=
  match p with
  | [] => []
  | c :: r => if c =? BS then drop_bs r else p
  end.

(* regex_replace(tex, "^(?!^lit)", lit) with icase *)
Definition add_prefix (lit p : list N) : list N := if starts_ci lit p then p else lit ++ p.

Section Clean.
  (* needs_prefix = !IsOB() && !IsSpecial();  terrain = NifFile::isTerrain *)
  Variable needs_prefix terrain : bool.
  (* std::filesystem::u8path(p).is_relative(), false when u8path throws *)
  Variable isrel : list N -> bool.

  Definition clean (p : list N) : list N :=
    match p with
    | [] => []                                     (* if (tex.empty()) return tex; *)
    | _ =>
      match trim_ws p with
      | [] => []                                   (* if (tex.empty()) return tex; *)
      | t =>
        let c := collapse t in
        let c1 := if terrain then strip_data_tex c else c in
        let s := drop_bs (strip_to_textures c1) in
        let s1 := if needs_prefix && isrel s then add_prefix TEX s else s in
        if terrain && isrel s1 then add_prefix DATA s1 else s1
      end
    end.
End Clean.

(* libstdc++ on POSIX [runtime] *)
Definition isrel_posix (p : list N) : bool :=
  match p with
  | c :: _ => negb (c =? FS)
  | [] => true
  end.

Definition clean_posix (np terrain : bool) (p : list N) : list N := clean np terrain isrel_posix p.

(* NiString::Read ends with `str = buf.get()`: a path read back from a file stops at its first
   NUL byte. Used only by the Load-path correspondence cases. *)
Fixpoint cstr (p : list N) : list N :=
  match p with
  | [] => []
  | c :: r => if c =? 0 then [] else c :: cstr r
  end.
