(* Every history of valid operations, from any consistent header, keeps the header consistent. *)
From NiflyVerif Require Import Res GraphModel GraphInv GraphDelete GraphAdd GraphReplace GraphOrder.
From Coq Require Import ZifyBool ZifyNat ZifyN.
Local Open Scope N_scope.

(* exactly the C++ preconditions: ids in range (or NPOS, which the C++ tests for), new objects
   fresh with references that are empty or in range, orders that are permutations (orders of the
   wrong size are refused by the C++ itself) *)
Definition valid_op (h : hdr) (o : op) : Prop :=
  match o with
  | OpAdd b => valid_add h b
  | OpDelete id => id = NPOS \/ id < vlen (blocks h)
  | OpReplace id b =>
    id = NPOS \/ (id < vlen (blocks h) /\ block_ok (vlen (blocks h)) b /\
                  forall x, vget (blocks h) id = Some x -> uid b = uid x)
  | OpOrder order => vlen order <> nblocks h \/ is_perm order (vlen (blocks h))
  | OpDeleteByType _ _ => True
  | OpPrune _ => True
  end.

Fixpoint valid_ops (h : hdr) (ops : list op) : Prop :=
  match ops with
  | [] => True
  | o :: r => valid_op h o /\ forall h', step h o = Ok h' -> valid_ops h' r
  end.

Lemma inv_empty hs : Inv (empty_hdr hs).
Proof.
  constructor; cbn; try constructor; try reflexivity; try (intros; lia).
Qed.

Theorem step_inv h o : Inv h -> valid_op h o -> exists h', step h o = Ok h' /\ Inv h'.
Proof.
  intros HI Hv. destruct o as [b|id|id b|order|name oo|root]; cbn [step valid_op] in *.
  - eexists; split; [reflexivity|]. apply add_block_spec; auto.
  - destruct Hv as [->|Hlt].
    + exists h. split; [reflexivity|exact HI].
    + destruct (delete_block_spec h id HI Hlt) as (h' & ? & ? & ? & Hrun & HI' & _). eauto.
  - destruct Hv as [->|(Hlt & Hok & Hu)].
    + exists h. split; [reflexivity|exact HI].
    + destruct (replace_block_spec h id b HI Hlt Hok Hu) as (h' & ? & ? & ? & Hrun & HI' & _). eauto.
  - destruct Hv as [Hne|Hp].
    + exists h. split; [apply set_block_order_wrong_size; exact Hne|exact HI].
    + destruct (set_block_order_spec h order HI Hp) as (h' & Hrun & HI' & _). eauto.
  - destruct (delete_by_type_full h name oo HI) as (h' & Hrun & _ & HI'). eauto.
  - destruct (prune_full (fun _ => true) (S (length (blocks h))) h root 0 HI ltac:(lia)) as (h' & c' & Hrun & _ & HI').
    rewrite Hrun. cbn [bind fst]. eauto.
Qed.

Theorem steps_inv : forall ops h, Inv h -> valid_ops h ops -> exists h', steps h ops = Ok h' /\ Inv h'.
Proof.
  induction ops as [|o ops IH]; intros h HI Hv; cbn [steps].
  - exists h. auto.
  - destruct Hv as [Hv Hrest]. destruct (step_inv h o HI Hv) as (h1 & Hs & HI1).
    rewrite Hs. cbn [bind]. apply IH; auto.
Qed.

(* from the empty model *)
Corollary history_inv hs ops : valid_ops (empty_hdr hs) ops ->
  exists h', steps (empty_hdr hs) ops = Ok h' /\ Inv h'.
Proof. apply steps_inv. apply inv_empty. Qed.
