(* ReplaceBlock: the slot keeps its index (and its logical identity); header stays consistent. *)
From NiflyVerif Require Import Res GraphModel GraphInv GraphDelete GraphAdd.
From Coq Require Import ZifyBool ZifyNat ZifyN.
Local Open Scope N_scope.

Lemma resolve_same_uid pre b b' post r :
  uid b' = uid b -> resolve (pre ++ b' :: post) r = resolve (pre ++ b :: post) r.
Proof.
  intros Hu. unfold resolve. destruct (r =? NPOS); [reflexivity|].
  unfold vget.
  destruct (Nat.lt_ge_cases (N.to_nat r) (length pre)) as [Hlt|Hge].
  - rewrite !nth_error_app1 by lia. reflexivity.
  - rewrite !nth_error_app2 by lia.
    destruct (N.to_nat r - length pre)%nat as [|k]; cbn; [congruence|reflexivity].
Qed.

Lemma replace_block_run h id b' tid tn nt ti h2 bt ti' sz' bl' :
  id <> NPOS -> vget (tidx h) id = Some tid -> release_type h tid = Ok (tn, nt, ti) ->
  add_or_find_type (mkHdr (blocks h) (nblocks h) tn nt ti (sizes h) (has_sizes h)) (tname b') = (h2, bt) ->
  vset (tidx h2) id bt = Some ti' ->
  (if has_sizes h2 then vset (sizes h2) id 0 else Some (sizes h2)) = Some sz' ->
  vset (blocks h2) id b' = Some bl' ->
  replace_block h id b' = Ok (mkHdr bl' (nblocks h2) (tnames h2) (ntypes h2) ti' sz' (has_sizes h2)).
Proof.
  intros Hn Hg Hr Ha Ht Hs Hb. unfold replace_block.
  destruct (N.eqb_spec id NPOS); [congruence|].
  rewrite Hg, Hr. cbn [bind]. rewrite Ha, Ht, Hs, Hb. reflexivity.
Qed.

Theorem replace_block_spec h id b' :
  Inv h -> id < vlen (blocks h) -> block_ok (vlen (blocks h)) b' ->
  (forall b, vget (blocks h) id = Some b -> uid b' = uid b) ->
  exists h' pre b post,
    replace_block h id b' = Ok h' /\ Inv h' /\
    blocks h = pre ++ b :: post /\ vlen pre = id /\
    blocks h' = pre ++ b' :: post /\ has_sizes h' = has_sizes h /\
    view h' = map (view_block (blocks h)) pre ++ view_block (blocks h') b' :: map (view_block (blocks h)) post.
Proof.
  intros HI Hid Hbok Huid'. destruct HI as [Hnb Hnt Hty Hnd Hused Hsz Huid Hrefs Hsmall].
  destruct (split_at (blocks h) id Hid) as (pre & b & post & Hb & Hpl).
  assert (Hu : uid b' = uid b) by (apply Huid'; rewrite Hb, <- Hpl; apply vget_mid).
  rewrite Hb in Hty. destruct (Forall2_split_l _ _ _ _ _ Hty) as (tpre & tid & tpost & Ht & Hfpre & Hmid & Hfpost & Hlen).
  assert (Hidn : id <> NPOS) by lia.
  assert (Htl : vlen tpre = id) by (unfold vlen in *; lia).
  assert (Hg : vget (tidx h) id = Some tid) by (rewrite Ht, <- Htl; apply vget_mid).
  destruct (release_type_spec h pre b post tpre tid tpost Hb Ht Hfpre Hmid Hfpost Hnd Hnt Hused)
    as (tn & nt & f & Hrel & Hntl & Hnd' & Hf1 & Hf2 & Hused').
  set (h1 := mkHdr (blocks h) (nblocks h) tn nt (map f (tidx h)) (sizes h) (has_sizes h)).
  pose proof (add_or_find_type_spec h1 (tname b') Hntl Hnd') as Hs.
  destruct (add_or_find_type h1 (tname b')) as [h2 bt] eqn:Haf.
  destruct Hs as (Eb & Enb & Eti & Esz & Ehs & Hnt2 & Hnd2 & Hbt & Hkeep & Hnew).
  cbn [blocks nblocks tidx sizes has_sizes tnames ntypes h1] in *.
  assert (Hv1 : vset (tidx h2) id bt = Some (map f tpre ++ bt :: map f tpost)).
  { rewrite Eti, Ht, map_app, map_cons. replace id with (vlen (map f tpre)) by (rewrite vlen_map; exact Htl).
    apply vset_mid. }
  assert (Hv2 : vset (blocks h2) id b' = Some (pre ++ b' :: post)) by (rewrite Eb, Hb, <- Hpl; apply vset_mid).
  assert (Hsz' : exists sz', (if has_sizes h2 then vset (sizes h2) id 0 else Some (sizes h2)) = Some sz' /\
                             (has_sizes h = true -> length sz' = length (pre ++ b' :: post))).
  { rewrite Ehs, Esz. destruct (has_sizes h) eqn:Hhs.
    - specialize (Hsz eq_refl). rewrite Hb in Hsz.
      destruct (split_at (sizes h) id) as (spre & s & spost & Hs & Hsl).
      { unfold vlen in *. rewrite Hsz, <- Hb. exact Hid. }
      rewrite Hs. rewrite <- Hsl. rewrite vset_mid. eexists; split; [reflexivity|].
      intros _. rewrite Hs in Hsz. rewrite !app_length in *. cbn [length] in *. lia.
    - eexists; split; [reflexivity|]. discriminate. }
  destruct Hsz' as (sz' & Hsze & Hszl).
  pose proof (replace_block_run h id b' tid tn nt _ h2 bt _ _ _ Hidn Hg Hrel Haf Hv1 Hsze Hv2) as Hrun.
  eexists _, pre, b, post. split; [exact Hrun|].
  cbn [blocks has_sizes].
  split; [|split; [exact Hb|split; [exact Hpl|split; [reflexivity|split; [exact Ehs|]]]]].
  - rewrite Hb in *.
    assert (Hlen' : vlen (pre ++ b' :: post) = vlen (pre ++ b :: post)) by (rewrite !vlen_app, !vlen_cons; lia).
    constructor; cbn [blocks nblocks tnames ntypes tidx sizes has_sizes].
    + rewrite Enb, Hnb. symmetry. exact Hlen'.
    + exact Hnt2.
    + apply Forall2_app; [|constructor].
      * eapply Forall2_imp; [|exact Hf1]. intros c t. apply Hkeep.
      * exact Hbt.
      * eapply Forall2_imp; [|exact Hf2]. intros c t. apply Hkeep.
    + exact Hnd2.
    + intros t Hlt. destruct (Hnew t Hlt) as [Hold|Heq].
      * specialize (Hused' t Hold). rewrite map_app in Hused'. apply in_app_or in Hused'.
        apply in_or_app. destruct Hused'; [left|right; right]; auto.
      * apply in_or_app. right. left. auto.
    + rewrite Ehs. exact Hszl.
    + rewrite map_app, map_cons in *. rewrite Hu. exact Huid.
    + rewrite Hlen'. apply Forall_app. apply Forall_app in Hrefs. destruct Hrefs as [Hr1 Hr2].
      inversion Hr2; subst. split; [auto|constructor; auto].
    + rewrite Hlen'. exact Hsmall.
  - unfold view. cbn [blocks]. rewrite map_app, map_cons. rewrite Hb.
    f_equal; [|f_equal]; apply map_ext; intros c; unfold view_block;
      (f_equal; [f_equal|]); apply map_ext; intros r; apply resolve_same_uid; exact Hu.
Qed.
