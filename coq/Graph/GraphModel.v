(* Hand model of the header block table and reference graph:
   NiHeader::{AddBlock, DeleteBlock, ReplaceBlock, SetBlockOrder, DeleteBlockByType,
   IsBlockReferenced, GetBlockRefCount, AddOrFindBlockTypeId, BlockDeleted}
   (src/BasicTypes.cpp:210-437, 549-562) and DeleteUnreferencedBlocks<T>
   (include/BasicTypes.hpp:1118-1140).
   Vectors are lists; out-of-range vector accesses are Fault; the redundant counters numBlocks /
   numBlockTypes are separate fields, as in the C++. *)
From NiflyVerif Require Export Res.
Local Open Scope N_scope.

Definition NPOS : N := 4294967295.

Record block := mkBlock {
  uid   : N;          (* ghost identity of the C++ object (never read by the operations) *)
  tname : N;          (* block type name (GetBlockName()), strings are compared for equality only *)
  crefs : list N;     (* the index fields returned by GetChildRefs *)
  ptrs  : list N      (* the index fields returned by GetPtrs *)
}.

Record hdr := mkHdr {
  blocks  : list block;
  nblocks : N;                 (* numBlocks *)
  tnames  : list N;            (* blockTypes *)
  ntypes  : N;                 (* numBlockTypes *)
  tidx    : list N;            (* blockTypeIndices *)
  sizes   : list N;            (* blockSizes *)
  has_sizes : bool             (* version.File() >= V20_2_0_5 *)
}.

Definition empty_hdr (hs : bool) : hdr := mkHdr [] 0 [] 0 [] [] hs.

(* vector::erase(begin() + i); undefined (Fault) outside the vector *)
Definition verase {A} (v : list A) (i : N) : option (list A) :=
  if i <? vlen v then Some (firstn (N.to_nat i) v ++ skipn (S (N.to_nat i)) v) else None.

(* ---- AddOrFindBlockTypeId (BasicTypes.cpp:396-413) ---- *)
Fixpoint find_type_from (i : N) (l : list N) (name : N) : option N :=
  match l with
  | [] => None
  | t :: r => if t =? name then Some i else find_type_from (i + 1) r name
  end.

Definition add_or_find_type (h : hdr) (name : N) : hdr * N :=
  match find_type_from 0 (tnames h) name with
  | Some i => (h, i)
  | None => (mkHdr (blocks h) (nblocks h) (tnames h ++ [name]) (ntypes h + 1) (tidx h) (sizes h) (has_sizes h),
             vlen (tnames h))
  end.

(* ---- AddBlock (BasicTypes.cpp:273-283) ---- *)
Definition add_block (h : hdr) (b : block) : hdr * N :=
  let '(h1, bt) := add_or_find_type h (tname b) in
  (mkHdr (blocks h1 ++ [b]) (nblocks h1 + 1) (tnames h1) (ntypes h1) (tidx h1 ++ [bt])
         (if has_sizes h1 then sizes h1 ++ [0] else sizes h1) (has_sizes h1),
   nblocks h1).

(* ---- BlockDeleted (BasicTypes.cpp:549-562) ---- *)
Definition shift_ref (id r : N) : N :=
  if r =? NPOS then r else if r =? id then NPOS else if id <? r then r - 1 else r.

Definition block_deleted (id : N) (b : block) : block :=
  mkBlock (uid b) (tname b) (map (shift_ref id) (crefs b)) (map (shift_ref id) (ptrs b)).

(* the type-table part shared by DeleteBlock and ReplaceBlock:
   count the users of the block's type; when the block is the only one, erase the type name and
   decrement every larger type index *)
Definition count_eq (x : N) (l : list N) : N := vlen (filter (N.eqb x) l).

Definition release_type (h : hdr) (tid : N) : res (list N * N * list N) :=
  if count_eq tid (tidx h) <? 2 then
    match verase (tnames h) tid with
    | None => Fault
    | Some tn => Ok (tn, ntypes h - 1, map (fun t => if tid <? t then t - 1 else t) (tidx h))
    end
  else Ok (tnames h, ntypes h, tidx h).

(* ---- DeleteBlock (BasicTypes.cpp:219-248) ---- *)
Definition delete_block (h : hdr) (id : N) : res hdr :=
  if id =? NPOS then Ok h
  else
    match vget (tidx h) id with
    | None => Fault
    | Some tid =>
      bind (release_type h tid) (fun r =>
        let '(tn, nt, ti) := r in
        match verase ti id, (if has_sizes h then verase (sizes h) id else Some (sizes h)), verase (blocks h) id with
        | Some ti', Some sz', Some bl' =>
          Ok (mkHdr (map (block_deleted id) bl') (nblocks h - 1) tn nt ti' sz' (has_sizes h))
        | _, _, _ => Fault
        end)
    end.

(* ---- ReplaceBlock (BasicTypes.cpp:285-311) ---- *)
Definition replace_block (h : hdr) (id : N) (b : block) : res hdr :=
  if id =? NPOS then Ok h
  else
    match vget (tidx h) id with
    | None => Fault
    | Some tid =>
      bind (release_type h tid) (fun r =>
        let '(tn, nt, ti) := r in
        let h1 := mkHdr (blocks h) (nblocks h) tn nt ti (sizes h) (has_sizes h) in
        let '(h2, bt) := add_or_find_type h1 (tname b) in
        match vset (tidx h2) id bt, (if has_sizes h2 then vset (sizes h2) id 0 else Some (sizes h2)), vset (blocks h2) id b with
        | Some ti', Some sz', Some bl' => Ok (mkHdr bl' (nblocks h2) (tnames h2) (ntypes h2) ti' sz' (has_sizes h2))
        | _, _, _ => Fault
        end)
    end.

(* ---- SetBlockOrder (BasicTypes.cpp:313-354) ----
   new vectors are value-initialised (type index 0, null block = None, size 0) and filled through
   newX[newOrder[i]] = X[i]; a store outside the new vector is a Fault; a slot that stays null makes
   the later b->GetChildRefs a null dereference (Fault). *)
Fixpoint scatter {A} (fuel : nat) (n : N) (order : list N) (src : list A) (dst : list (option A)) (i : N)
  : res (list (option A)) :=
  match fuel with
  | O => OutOfFuel
  | S f =>
    if i <? n then
      match vget order i, vget src i with
      | Some o, Some x =>
        match vset dst o (Some x) with
        | Some dst' => scatter f n order src dst' (i + 1)
        | None => Fault
        end
      | _, _ => Fault
      end
    else Ok dst
  end.

Fixpoint all_some {A} (l : list (option A)) : option (list A) :=
  match l with
  | [] => Some []
  | Some x :: r => match all_some r with Some r' => Some (x :: r') | None => None end
  | None :: _ => None
  end.

Definition remap_ref (order : list N) (r : N) : N :=
  if r =? NPOS then r
  else if r <? vlen order then match vget order r with Some x => x | None => r end else r.

Definition block_reordered (order : list N) (b : block) : block :=
  mkBlock (uid b) (tname b) (map (remap_ref order) (crefs b)) (map (remap_ref order) (ptrs b)).

Definition set_block_order (h : hdr) (order : list N) : res hdr :=
  if negb (vlen order =? nblocks h) then Ok h
  else
    let fuel := S (length order) in
    bind (scatter fuel (nblocks h) order (tidx h) (repeat None (length (tidx h))) 0) (fun nti =>
    bind (scatter fuel (nblocks h) order (blocks h) (repeat None (length (blocks h))) 0) (fun nbl =>
    bind (if has_sizes h
          then scatter fuel (nblocks h) order (sizes h) (repeat None (length (sizes h))) 0
          else Ok (map Some (sizes h))) (fun nsz =>
      match all_some nbl with
      | None => Fault                              (* a null block is dereferenced below *)
      | Some bl =>
        Ok (mkHdr (map (block_reordered order) bl) (nblocks h) (tnames h) (ntypes h)
                  (map (fun o => match o with Some t => t | None => 0 end) nti)
                  (map (fun o => match o with Some t => t | None => 0 end) nsz)
                  (has_sizes h))
      end))).

(* ---- IsBlockReferenced / GetBlockRefCount (BasicTypes.cpp:356-394) ---- *)
Definition refs_of (include_ptrs : bool) (b : block) : list N :=
  if include_ptrs then crefs b ++ ptrs b else crefs b.

Definition is_referenced (h : hdr) (id : N) (include_ptrs : bool) : bool :=
  if id =? NPOS then false
  else existsb (fun b => existsb (N.eqb id) (refs_of include_ptrs b)) (blocks h).

Definition ref_count (h : hdr) (id : N) (include_ptrs : bool) : N :=
  if id =? NPOS then 0
  else fold_left (fun acc b => acc + count_eq id (refs_of include_ptrs b)) (blocks h) 0.

(* ---- DeleteBlockByType (BasicTypes.cpp:254-271) ---- *)
Fixpoint indices_of_type (i : N) (ti : list N) (tid : N) : list N :=
  match ti with
  | [] => []
  | t :: r => (if t =? tid then [i] else []) ++ indices_of_type (i + 1) r tid
  end.

(* for j = size-1 .. 0: if (!orphanedOnly || !IsBlockReferenced(indices[j])) DeleteBlock(indices[j]) *)
Fixpoint delete_rev (h : hdr) (rev_indices : list N) (orphaned_only : bool) : res hdr :=
  match rev_indices with
  | [] => Ok h
  | i :: r =>
    if (negb orphaned_only || negb (is_referenced h i true))%bool
    then bind (delete_block h i) (fun h' => delete_rev h' r orphaned_only)
    else delete_rev h r orphaned_only
  end.

Definition delete_block_by_type (h : hdr) (name : N) (orphaned_only : bool) : res hdr :=
  (* linear search bounded by numBlockTypes; blockTypes[i] beyond the vector would be a Fault *)
  match find_type_from 0 (firstn (N.to_nat (ntypes h)) (tnames h)) name with
  | None => if vlen (tnames h) <? ntypes h then Fault else Ok h
  | Some tid =>
    if vlen (tidx h) <? nblocks h then Fault
    else delete_rev h (rev (indices_of_type 0 (firstn (N.to_nat (nblocks h)) (tidx h)) tid)) orphaned_only
  end.

(* ---- DeleteUnreferencedBlocks<T> (BasicTypes.hpp:1118-1140) ----
   [of_type] is the dynamic_cast<T*> test on a block's type name. *)
Fixpoint first_unreferenced (of_type : N -> bool) (h : hdr) (root : N) (i : N) (bl : list block) : option N :=
  match bl with
  | [] => None
  | b :: r =>
    if (negb (i =? root) && of_type (tname b) && negb (is_referenced h i true))%bool
    then Some i
    else first_unreferenced of_type h root (i + 1) r
  end.

Fixpoint delete_unreferenced (fuel : nat) (of_type : N -> bool) (h : hdr) (root : N) (count : N)
  : res (hdr * N) :=
  match fuel with
  | O => OutOfFuel
  | S f =>
    if root =? NPOS then Ok (h, count)
    else
      match first_unreferenced of_type h root 0 (firstn (N.to_nat (nblocks h)) (blocks h)) with
      | None => Ok (h, count)
      | Some i =>
        bind (delete_block h i) (fun h' =>
          delete_unreferenced f of_type h' (if i <? root then root - 1 else root) (count + 1))
      end
  end.

(* ---- one operation of an edit history ---- *)
Inductive op :=
| OpAdd (b : block)
| OpDelete (id : N)
| OpReplace (id : N) (b : block)
| OpOrder (order : list N)
| OpDeleteByType (name : N) (orphaned_only : bool)
| OpPrune (root : N).

Definition step (h : hdr) (o : op) : res hdr :=
  match o with
  | OpAdd b => Ok (fst (add_block h b))
  | OpDelete id => delete_block h id
  | OpReplace id b => replace_block h id b
  | OpOrder order => set_block_order h order
  | OpDeleteByType name oo => delete_block_by_type h name oo
  | OpPrune root =>
    bind (delete_unreferenced (S (length (blocks h))) (fun _ => true) h root 0) (fun r => Ok (fst r))
  end.

Fixpoint steps (h : hdr) (ops : list op) : res hdr :=
  match ops with
  | [] => Ok h
  | o :: r => bind (step h o) (fun h' => steps h' r)
  end.
