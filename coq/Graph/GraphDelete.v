(* DeleteBlock preserves the header invariant and acts on the abstract graph as "remove the
   object and empty exactly the references that designated it". *)
From NiflyVerif Require Import Res GraphModel GraphInv.
From Coq Require Import ZifyBool ZifyNat ZifyN.
Local Open Scope N_scope.

Lemma NPOS_val : NPOS = 4294967295. Proof. reflexivity. Qed.

Lemma vget_map {A B} (f : A -> B) l i : vget (map f l) i = option_map f (vget l i).
Proof. unfold vget. apply nth_error_map. Qed.

Lemma vlen_app {A} (a b : list A) : vlen (a ++ b) = vlen a + vlen b.
Proof. unfold vlen. rewrite app_length. lia. Qed.

Lemma vlen_cons {A} (x : A) l : vlen (x :: l) = 1 + vlen l.
Proof. unfold vlen. cbn [length]. lia. Qed.

Lemma vlen_map {A B} (f : A -> B) l : vlen (map f l) = vlen l.
Proof. unfold vlen. rewrite map_length. reflexivity. Qed.

Lemma in_vget {A} (l : list A) i x : vget l i = Some x -> In x l.
Proof. unfold vget. apply nth_error_In. Qed.

(* resolve after a deletion *)
Lemma resolve_deleted pre b post r :
  NoDup (map uid (pre ++ b :: post)) -> vlen (pre ++ b :: post) < NPOS ->
  ref_ok (vlen (pre ++ b :: post)) r ->
  resolve (map (block_deleted (vlen pre)) (pre ++ post)) (shift_ref (vlen pre) r)
  = kill_ref (uid b) (resolve (pre ++ b :: post) r).
Proof.
  intros Hnd Hsmall Hok. unfold resolve, shift_ref.
  destruct (N.eqb_spec r NPOS) as [->|Hn]; [reflexivity|].
  destruct Hok as [->|Hlt]; [congruence|].
  rewrite vlen_app, vlen_cons in Hlt, Hsmall.
  destruct (N.eqb_spec r (vlen pre)) as [->|Hne].
  - rewrite N.eqb_refl. rewrite vget_mid. cbn. rewrite N.eqb_refl. reflexivity.
  - rewrite map_app, map_cons in Hnd. apply NoDup_remove_2 in Hnd.
    destruct (N.ltb_spec (vlen pre) r) as [Hgt|Hle].
    + destruct (N.eqb_spec (r - 1) NPOS) as [He|_]; [lia|].
      rewrite vget_map. rewrite vget_post by lia.
      destruct (vget (pre ++ post) (r - 1)) as [c|] eqn:Hc; cbn; [|reflexivity].
      destruct (N.eqb_spec (uid c) (uid b)) as [He|_]; [|reflexivity].
      exfalso. apply Hnd. rewrite <- He. rewrite <- map_app. apply in_map. eapply in_vget; eauto.
    + destruct (N.eqb_spec r NPOS) as [|_]; [congruence|].
      rewrite vget_map.
      destruct (vget_pre pre b post r ltac:(lia)) as [H1 H2]. rewrite H1, H2.
      destruct (vget pre r) as [c|] eqn:Hc; cbn; [|reflexivity].
      destruct (N.eqb_spec (uid c) (uid b)) as [He|_]; [|reflexivity].
      exfalso. apply Hnd. rewrite <- He. apply in_or_app. left. apply in_map. eapply in_vget; eauto.
Qed.

Lemma shift_ref_ok n id r : id < n -> ref_ok n r -> ref_ok (n - 1) (shift_ref id r).
Proof.
  intros Hid [->|Hlt]; unfold shift_ref, ref_ok.
  - rewrite N.eqb_refl. auto.
  - destruct (N.eqb_spec r NPOS); auto.
    destruct (N.eqb_spec r id); auto.
    destruct (N.ltb_spec id r); right; lia.
Qed.

(* releasing the type-table slot of the block at [id] keeps the table consistent for the others *)
Lemma release_type_spec h bpre b bpost tpre tid tpost :
  blocks h = bpre ++ b :: bpost -> tidx h = tpre ++ tid :: tpost ->
  Forall2 (type_ok (tnames h)) bpre tpre -> type_ok (tnames h) b tid ->
  Forall2 (type_ok (tnames h)) bpost tpost ->
  NoDup (tnames h) -> ntypes h = vlen (tnames h) ->
  (forall t, (t < length (tnames h))%nat -> In (N.of_nat t) (tidx h)) ->
  exists tn nt f,
    release_type h tid = Ok (tn, nt, map f (tidx h)) /\
    nt = vlen tn /\ NoDup tn /\
    Forall2 (type_ok tn) bpre (map f tpre) /\ Forall2 (type_ok tn) bpost (map f tpost) /\
    (forall t, (t < length tn)%nat -> In (N.of_nat t) (map f (tpre ++ tpost))).
Proof.
  intros Hb Ht Hpre Hmid Hpost Hnd Hnt Hused.
  unfold release_type. rewrite Ht.
  rewrite count_eq_app, count_eq_cons_same.
  destruct (N.ltb_spec (count_eq tid tpre + (1 + count_eq tid tpost)) 2) as [Hone|Hmany].
  - (* the block was the only user of its type *)
    assert (Hz1 : count_eq tid tpre = 0) by lia. assert (Hz2 : count_eq tid tpost = 0) by lia.
    apply count_eq_zero in Hz1. apply count_eq_zero in Hz2.
    unfold type_ok in Hmid.
    assert (Hlt : tid < vlen (tnames h)).
    { unfold vlen. assert (nth_error (tnames h) (N.to_nat tid) <> None) as Hs by congruence.
      apply nth_error_Some in Hs. lia. }
    destruct (split_at (tnames h) tid Hlt) as (npre & nm & npost & Hn & Hnl).
    assert (Hve : verase (npre ++ nm :: npost) tid = Some (npre ++ npost)) by (rewrite <- Hnl; apply verase_mid).
    rewrite Hn, Hve.
    set (f := fun t => if tid <? t then t - 1 else t).
    exists (npre ++ npost), (ntypes h - 1), f.
    assert (Hkeep : forall c t, t <> tid -> type_ok (tnames h) c t -> type_ok (npre ++ npost) c (f t)).
    { intros c t Hne Hc. unfold type_ok in *. rewrite Hn in Hc. unfold f.
      unfold vlen in Hnl.
      destruct (N.ltb_spec tid t).
      - rewrite nth_error_app2 in Hc by lia. rewrite nth_error_app2 by lia.
        replace (N.to_nat t - length npre)%nat with (S (N.to_nat (t - 1) - length npre)) in Hc by lia.
        exact Hc.
      - rewrite nth_error_app1 in Hc by lia. rewrite nth_error_app1 by lia. exact Hc. }
    assert (Hf2 : forall bs ts, Forall2 (type_ok (tnames h)) bs ts -> Forall (fun y => y <> tid) ts ->
                                Forall2 (type_ok (npre ++ npost)) bs (map f ts)).
    { induction 1 as [|c t bs ts Hct _ IH]; intros Hall; cbn [map]; constructor.
      - inversion Hall; subst. apply Hkeep; auto.
      - inversion Hall; subst. auto. }
    split; [reflexivity|]. split.
    { rewrite Hnt, Hn. rewrite !vlen_app, vlen_cons. lia. }
    split.
    { rewrite Hn in Hnd. eapply NoDup_remove_1; eauto. }
    split; [apply Hf2; auto|]. split; [apply Hf2; auto|].
    intros t' Ht'.
    set (t := if (N.of_nat t' <? tid) then N.of_nat t' else N.of_nat t' + 1).
    assert (Hin : In t (tidx h)).
    { replace t with (N.of_nat (N.to_nat t)) by lia. apply Hused.
      rewrite Hn. rewrite app_length in *. cbn [length]. unfold vlen in Hnl. subst t.
      destruct (N.ltb_spec (N.of_nat t') tid); lia. }
    assert (Hne : t <> tid) by (subst t; destruct (N.ltb_spec (N.of_nat t') tid); lia).
    rewrite Ht in Hin. apply in_app_or in Hin.
    assert (Hft : f t = N.of_nat t').
    { unfold f. subst t. destruct (N.ltb_spec (N.of_nat t') tid).
      - destruct (N.ltb_spec tid (N.of_nat t')); lia.
      - destruct (N.ltb_spec tid (N.of_nat t' + 1)); lia. }
    rewrite <- Hft. apply in_map. apply in_or_app.
    destruct Hin as [Hin|[Hin|Hin]]; auto. congruence.
  - (* other blocks still use the type: table untouched *)
    exists (tnames h), (ntypes h), (fun t => t).
    rewrite !map_id. split; [reflexivity|]. split; [exact Hnt|]. split; [exact Hnd|].
    split; [exact Hpre|]. split; [exact Hpost|].
    intros t Hlt. specialize (Hused t Hlt). rewrite Ht in Hused.
    apply in_app_or in Hused. apply in_or_app.
    destruct Hused as [Hin|[Hin|Hin]]; auto.
    (* t = tid: another user exists because the count is at least 2 *)
    assert (Hpos : 0 < count_eq tid tpre \/ 0 < count_eq tid tpost) by lia.
    rewrite <- Hin.
    destruct Hpos as [Hp|Hp]; apply count_eq_pos_in in Hp; auto.
Qed.

Lemma delete_block_run h id tid tn nt ti ti' sz' bl' :
  id <> NPOS -> vget (tidx h) id = Some tid -> release_type h tid = Ok (tn, nt, ti) ->
  verase ti id = Some ti' ->
  (if has_sizes h then verase (sizes h) id else Some (sizes h)) = Some sz' ->
  verase (blocks h) id = Some bl' ->
  delete_block h id = Ok (mkHdr (map (block_deleted id) bl') (nblocks h - 1) tn nt ti' sz' (has_sizes h)).
Proof.
  intros Hn Hg Hr Ht Hs Hb. unfold delete_block.
  destruct (N.eqb_spec id NPOS); [congruence|].
  rewrite Hg, Hr. cbn [bind]. rewrite Ht, Hs, Hb. reflexivity.
Qed.

Theorem delete_block_spec h id :
  Inv h -> id < vlen (blocks h) ->
  exists h' pre b post,
    delete_block h id = Ok h' /\ Inv h' /\
    blocks h = pre ++ b :: post /\ vlen pre = id /\
    blocks h' = map (block_deleted id) (pre ++ post) /\
    has_sizes h' = has_sizes h /\
    view h' = map (kill (uid b)) (map (view_block (blocks h)) (pre ++ post)).
Proof.
  intros HI Hid. destruct HI as [Hnb Hnt Hty Hnd Hused Hsz Huid Hrefs Hsmall].
  destruct (split_at (blocks h) id Hid) as (pre & b & post & Hb & Hpl).
  rewrite Hb in Hty. destruct (Forall2_split_l _ _ _ _ _ Hty) as (tpre & tid & tpost & Ht & Hfpre & Hmid & Hfpost & Hlen).
  assert (Hidn : id <> NPOS) by lia.
  assert (Htl : vlen tpre = id) by (unfold vlen in *; lia).
  assert (Hg : vget (tidx h) id = Some tid) by (rewrite Ht, <- Htl; apply vget_mid).
  destruct (release_type_spec h pre b post tpre tid tpost Hb Ht Hfpre Hmid Hfpost Hnd Hnt Hused)
    as (tn & nt & f & Hrel & Hntl & Hnd' & Hf1 & Hf2 & Hused').
  assert (Hve1 : verase (map f (tidx h)) id = Some (map f tpre ++ map f tpost)).
  { rewrite Ht, map_app, map_cons. replace id with (vlen (map f tpre)) by (rewrite vlen_map; exact Htl).
    apply verase_mid. }
  assert (Hve2 : verase (blocks h) id = Some (pre ++ post)) by (rewrite Hb, <- Hpl; apply verase_mid).
  assert (Hsz' : exists sz', (if has_sizes h then verase (sizes h) id else Some (sizes h)) = Some sz' /\
                             (has_sizes h = true -> length sz' = length (pre ++ post))).
  { destruct (has_sizes h) eqn:Hhs.
    - specialize (Hsz eq_refl). rewrite Hb in Hsz.
      destruct (split_at (sizes h) id) as (spre & s & spost & Hs & Hsl).
      { unfold vlen in *. rewrite Hsz, <- Hb. exact Hid. }
      rewrite Hs. rewrite <- Hsl. rewrite verase_mid. eexists; split; [reflexivity|].
      intros _. rewrite Hs in Hsz. rewrite !app_length in *. cbn [length] in Hsz. lia.
    - eexists; split; [reflexivity|]. discriminate. }
  destruct Hsz' as (sz' & Hsze & Hszl).
  pose proof (delete_block_run h id tid tn nt _ _ _ _ Hidn Hg Hrel Hve1 Hsze Hve2) as Hrun.
  eexists _, pre, b, post. split; [exact Hrun|].
  assert (Hview : forall c, In c (pre ++ post) ->
            view_block (map (block_deleted id) (pre ++ post)) (block_deleted id c)
            = kill (uid b) (view_block (pre ++ b :: post) c)).
  { intros c Hc. unfold view_block, kill. cbn [uid tname crefs ptrs block_deleted].
    rewrite Hb in Hrefs, Huid, Hsmall.
    assert (Hcok : block_ok (vlen (pre ++ b :: post)) c).
    { rewrite Forall_forall in Hrefs. apply Hrefs. apply in_app_or in Hc. apply in_or_app.
      destruct Hc; [left|right; right]; auto. }
    destruct Hcok as [Hc1 Hc2]. rewrite !map_map. f_equal; [f_equal|].
    - apply map_ext_in. intros r Hr. rewrite <- Hpl. apply resolve_deleted; auto.
      rewrite Forall_forall in Hc1. auto.
    - apply map_ext_in. intros r Hr. rewrite <- Hpl. apply resolve_deleted; auto.
      rewrite Forall_forall in Hc2. auto. }
  split; [|repeat split; auto].
  - (* invariant *)
    rewrite Hb in *. rewrite vlen_app, vlen_cons in Hnb, Hsmall, Hid.
    constructor; cbn [blocks nblocks tnames ntypes tidx sizes has_sizes].
    + rewrite vlen_map, vlen_app. lia.
    + exact Hntl.
    + rewrite <- map_app.
      assert (Hf12 : Forall2 (type_ok tn) (pre ++ post) (map f (tpre ++ tpost)))
        by (rewrite map_app; apply Forall2_app; auto).
      clear - Hf12. induction Hf12; cbn [map]; constructor; auto.
    + exact Hnd'.
    + rewrite <- map_app. exact Hused'.
    + intros Hhs. rewrite map_length. auto.
    + rewrite map_map. cbn [uid block_deleted].
      rewrite map_app, map_cons in Huid. apply NoDup_remove_1 in Huid. rewrite <- map_app in Huid. exact Huid.
    + rewrite vlen_map, vlen_app. rewrite Forall_map.
      rewrite Forall_forall in Hrefs. apply Forall_forall. intros c Hc.
      assert (Hcok : block_ok (vlen (pre ++ b :: post)) c).
      { apply Hrefs. apply in_app_or in Hc. apply in_or_app. destruct Hc; [left|right; right]; auto. }
      rewrite vlen_app, vlen_cons in Hcok. destruct Hcok as [H1 H2].
      split; cbn [crefs ptrs block_deleted]; rewrite Forall_map;
        [eapply Forall_impl; [|exact H1]|eapply Forall_impl; [|exact H2]];
        intros r Hr; replace (vlen pre + vlen post) with (vlen pre + (1 + vlen post) - 1) by lia;
        apply shift_ref_ok; auto; lia.
    + rewrite vlen_map, vlen_app. lia.
  - unfold view. cbn [blocks]. rewrite map_map. rewrite map_map.
    apply map_ext_in. intros c Hc. rewrite Hb. apply Hview. exact Hc.
Qed.
