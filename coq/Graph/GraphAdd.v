(* AddBlock / AddOrFindBlockTypeId preserve the invariant and extend the abstract graph. *)
From NiflyVerif Require Import Res GraphModel GraphInv GraphDelete.
From Coq Require Import ZifyBool ZifyNat ZifyN Sorted.
Local Open Scope N_scope.

Lemma find_type_from_some : forall l i name k,
  find_type_from i l name = Some k -> i <= k /\ nth_error l (N.to_nat (k - i)) = Some name.
Proof.
  induction l as [|t l IH]; intros i name k H; cbn [find_type_from] in H; [discriminate|].
  destruct (N.eqb_spec t name) as [->|Hne].
  - inversion H; subst. rewrite N.sub_diag. cbn. split; [lia|reflexivity].
  - apply IH in H. destruct H as [Hle Hn]. split; [lia|].
    replace (N.to_nat (k - i)) with (S (N.to_nat (k - (i + 1)))) by lia. exact Hn.
Qed.

Lemma find_type_from_none : forall l i name, find_type_from i l name = None -> ~ In name l.
Proof.
  induction l as [|t l IH]; intros i name H; cbn [find_type_from] in H; [intros []|].
  destruct (N.eqb_spec t name) as [->|Hne]; [discriminate|].
  intros [He|Hin]; [congruence|]. eapply IH; eauto.
Qed.

Lemma type_ok_app tn name c t : type_ok tn c t -> type_ok (tn ++ [name]) c t.
Proof.
  unfold type_ok. intros H. rewrite nth_error_app1; auto.
  apply nth_error_Some. congruence.
Qed.

Lemma resolve_app bl b r : ref_ok (vlen bl) r -> resolve (bl ++ [b]) r = resolve bl r.
Proof.
  intros [->|Hlt]; unfold resolve; [reflexivity|].
  destruct (r =? NPOS); [reflexivity|]. unfold vget, vlen in *.
  rewrite nth_error_app1 by lia. reflexivity.
Qed.

Lemma NoDup_snoc {A} (l : list A) x : NoDup l -> ~ In x l -> NoDup (l ++ [x]).
Proof.
  intros Hnd Hni. induction l as [|a l IH]; cbn [app].
  - constructor; [intros []|constructor].
  - inversion Hnd; subst. constructor.
    + intros Hin. apply in_app_or in Hin. destruct Hin as [Hin|[->|[]]]; [auto|]. apply Hni. left. reflexivity.
    + apply IH; auto. intros Hin. apply Hni. right. exact Hin.
Qed.

(* the type-table half: the returned index names the requested type, the table stays consistent *)
Lemma add_or_find_type_spec h name :
  ntypes h = vlen (tnames h) -> NoDup (tnames h) ->
  let '(h1, bt) := add_or_find_type h name in
  blocks h1 = blocks h /\ nblocks h1 = nblocks h /\ tidx h1 = tidx h /\ sizes h1 = sizes h /\
  has_sizes h1 = has_sizes h /\ ntypes h1 = vlen (tnames h1) /\ NoDup (tnames h1) /\
  nth_error (tnames h1) (N.to_nat bt) = Some name /\
  (forall c t, type_ok (tnames h) c t -> type_ok (tnames h1) c t) /\
  (forall t, (t < length (tnames h1))%nat -> (t < length (tnames h))%nat \/ N.of_nat t = bt).
Proof.
  intros Hnt Hnd. unfold add_or_find_type.
  destruct (find_type_from 0 (tnames h) name) as [k|] eqn:Hf.
  - apply find_type_from_some in Hf. destruct Hf as [_ Hn]. rewrite N.sub_0_r in Hn.
    repeat split; auto.
  - apply find_type_from_none in Hf. cbn [blocks nblocks tidx sizes has_sizes ntypes tnames].
    repeat split; auto.
    + rewrite vlen_app. unfold vlen at 2. cbn. lia.
    + apply NoDup_snoc; auto.
    + unfold vlen. rewrite Nat2N.id. rewrite nth_error_app2, Nat.sub_diag by lia. reflexivity.
    + intros c t. apply type_ok_app.
    + intros t Ht. rewrite app_length in Ht. cbn [length] in Ht. unfold vlen.
      destruct (Nat.eq_dec t (length (tnames h))); [right; lia|left; lia].
Qed.

Lemma Forall2_imp {A B} (R R' : A -> B -> Prop) l l' :
  (forall a b, R a b -> R' a b) -> Forall2 R l l' -> Forall2 R' l l'.
Proof. intros H. induction 1; constructor; auto. Qed.

(* preconditions of AddBlock: a new object (fresh identity) whose references are empty or designate
   existing blocks or the block itself, and room for one more index below NPOS *)
Definition valid_add (h : hdr) (b : block) : Prop :=
  ~ In (uid b) (map uid (blocks h)) /\ block_ok (vlen (blocks h) + 1) b /\ vlen (blocks h) + 1 < NPOS.

Lemma block_ok_mono n m b : n <= m -> block_ok n b -> block_ok m b.
Proof.
  intros Hle [H1 H2]. split; eapply Forall_impl; try eassumption;
    intros r [->|Hr]; [left|right|left|right]; auto; lia.
Qed.

Theorem add_block_spec h b :
  Inv h -> valid_add h b ->
  let h' := fst (add_block h b) in
  Inv h' /\ snd (add_block h b) = vlen (blocks h) /\
  blocks h' = blocks h ++ [b] /\ has_sizes h' = has_sizes h /\
  view h' = view h ++ [view_block (blocks h ++ [b]) b].
Proof.
  intros HI (Hfresh & Hbok & Hroom). destruct HI as [Hnb Hnt Hty Hnd Hused Hsz Huid Hrefs Hsmall].
  unfold add_block.
  pose proof (add_or_find_type_spec h (tname b) Hnt Hnd) as Hs.
  destruct (add_or_find_type h (tname b)) as [h1 bt].
  destruct Hs as (Eb & Enb & Eti & Esz & Ehs & Hnt1 & Hnd1 & Hbt & Hkeep & Hnew).
  cbn [fst snd blocks nblocks tnames ntypes tidx sizes has_sizes].
  rewrite Eb, Enb, Eti, Esz, Ehs.
  split; [|split; [exact Hnb|split; [reflexivity|split; [reflexivity|]]]].
  - constructor; cbn [blocks nblocks tnames ntypes tidx sizes has_sizes].
    + rewrite vlen_app. unfold vlen at 2. cbn. lia.
    + exact Hnt1.
    + apply Forall2_app.
      * eapply Forall2_imp; [|exact Hty]. intros c t. apply Hkeep.
      * constructor; [exact Hbt|constructor].
    + exact Hnd1.
    + intros t Ht. apply in_or_app. destruct (Hnew t Ht) as [Hold|Heq].
      * left. auto.
      * right. left. auto.
    + intros Hhs. rewrite Hhs in *. rewrite !app_length. cbn [length]. rewrite Hsz; auto.
    + rewrite map_app. cbn [map]. apply NoDup_snoc; auto.
    + rewrite vlen_app. unfold vlen at 2. cbn [length]. change (N.of_nat 1) with 1.
      apply Forall_app. split.
      * eapply Forall_impl; [|exact Hrefs]. intros c. apply block_ok_mono. lia.
      * constructor; [exact Hbok|constructor].
    + rewrite vlen_app. unfold vlen at 2. cbn [length]. lia.
  - unfold view. cbn [blocks]. rewrite map_app. cbn [map]. f_equal.
    apply map_ext_in. intros c Hc. unfold view_block.
    rewrite Forall_forall in Hrefs. destruct (Hrefs c Hc) as [H1 H2].
    f_equal; [f_equal|]; apply map_ext_in; intros r Hr; apply resolve_app.
    + rewrite Forall_forall in H1. auto.
    + rewrite Forall_forall in H2. auto.
Qed.

(* ---------------------------------------------------------------------------------------- *)
(* chains of deletions: DeleteBlockByType and DeleteUnreferencedBlocks only ever call DeleteBlock
   with an index in range, so they inherit the invariant; the pruning variant additionally only
   deletes blocks that no block references at that moment. *)

Inductive del_chain (P : hdr -> N -> Prop) : hdr -> hdr -> Prop :=
| dc_nil h : del_chain P h h
| dc_cons h i h1 h2 : i < vlen (blocks h) -> P h i -> delete_block h i = Ok h1 ->
                      del_chain P h1 h2 -> del_chain P h h2.

Lemma del_chain_inv P h h' : del_chain P h h' -> Inv h -> Inv h'.
Proof.
  induction 1 as [|h i h1 h2 Hi HP Hd _ IH]; intros HI; [exact HI|].
  destruct (delete_block_spec h i HI Hi) as (hx & pre & b & post & Hrun & HI' & _).
  rewrite Hd in Hrun. inversion Hrun; subst. auto.
Qed.

Lemma del_chain_len P h h' : del_chain P h h' -> Inv h -> (length (blocks h') <= length (blocks h))%nat.
Proof.
  induction 1 as [|h i h1 h2 Hi HP Hd _ IH]; intros HI; [lia|].
  destruct (delete_block_spec h i HI Hi) as (hx & pre & b & post & Hrun & HI' & Hb & _ & Hb' & _).
  rewrite Hd in Hrun. inversion Hrun; subst hx.
  specialize (IH HI'). rewrite Hb' in IH. rewrite map_length in IH. rewrite Hb.
  rewrite !app_length in *. cbn [length]. lia.
Qed.

Lemma first_unreferenced_spec of_type h root : forall bl i k,
  first_unreferenced of_type h root i bl = Some k ->
  i <= k /\ k < i + vlen bl /\ k <> root /\ is_referenced h k true = false.
Proof.
  induction bl as [|b bl IH]; intros i k H; cbn [first_unreferenced] in H; [discriminate|].
  destruct (negb (i =? root) && of_type (tname b) && negb (is_referenced h i true))%bool eqn:Hc.
  - inversion H; subst. rewrite vlen_cons.
    apply andb_prop in Hc. destruct Hc as [Hc H3]. apply andb_prop in Hc. destruct Hc as [H1 _].
    apply negb_true_iff in H1. apply N.eqb_neq in H1. apply negb_true_iff in H3.
    repeat split; auto; lia.
  - apply IH in H. rewrite vlen_cons. destruct H as (H1 & H2 & H3 & H4). repeat split; auto; lia.
Qed.

Definition unreferenced (h : hdr) (i : N) : Prop := is_referenced h i true = false.

Theorem delete_unreferenced_spec of_type : forall fuel h root c,
  Inv h -> (length (blocks h) < fuel)%nat ->
  exists h' c', delete_unreferenced fuel of_type h root c = Ok (h', c') /\
                del_chain unreferenced h h'.
Proof.
  induction fuel as [|f IH]; intros h root c HI Hf; [lia|].
  cbn [delete_unreferenced].
  destruct (root =? NPOS); [do 2 eexists; split; [reflexivity|constructor]|].
  destruct (first_unreferenced of_type h root 0 (firstn (N.to_nat (nblocks h)) (blocks h))) as [i|] eqn:Hfu;
    [|do 2 eexists; split; [reflexivity|constructor]].
  apply first_unreferenced_spec in Hfu. destruct Hfu as (_ & Hlt & Hroot & Hunref).
  assert (Hi : i < vlen (blocks h)).
  { rewrite (inv_nblocks h HI) in Hlt. unfold vlen in *. rewrite Nat2N.id, firstn_all in Hlt. lia. }
  destruct (delete_block_spec h i HI Hi) as (h1 & pre & b & post & Hrun & HI1 & Hb & _ & Hb1 & _).
  rewrite Hrun. cbn [bind].
  destruct (IH h1 (if i <? root then root - 1 else root) (c + 1) HI1) as (h' & c' & Hrec & Hch).
  { rewrite Hb1, map_length. rewrite Hb in Hf. rewrite !app_length in *. cbn [length] in Hf. lia. }
  exists h', c'. split; [exact Hrec|]. econstructor; eauto.
Qed.

(* DeleteBlockByType: every index handed to DeleteBlock is in range *)
Lemma indices_of_type_lt : forall ti i tid k, In k (indices_of_type i ti tid) -> i <= k < i + vlen ti.
Proof.
  induction ti as [|t ti IH]; intros i tid k H; cbn [indices_of_type] in H; [destruct H|].
  rewrite vlen_cons. apply in_app_or in H. destruct H as [H|H].
  - destruct (t =? tid); [|destruct H]. destruct H as [<-|[]]. lia.
  - apply IH in H. lia.
Qed.

Lemma indices_of_type_sorted : forall ti i tid, StronglySorted N.lt (indices_of_type i ti tid).
Proof.
  induction ti as [|t ti IH]; intros i tid; cbn [indices_of_type]; [constructor|].
  destruct (t =? tid); cbn [app]; [|apply IH].
  constructor; [apply IH|]. apply Forall_forall. intros k Hk. apply indices_of_type_lt in Hk. lia.
Qed.

(* deleting in descending index order keeps the remaining (smaller) indices valid *)
Lemma delete_rev_spec : forall l h oo,
  Inv h -> StronglySorted (fun a b => b < a) l -> Forall (fun k => k < vlen (blocks h)) l ->
  exists h', delete_rev h l oo = Ok h' /\ del_chain (fun _ _ => True) h h'.
Proof.
  induction l as [|i l IH]; intros h oo HI Hs Hall; cbn [delete_rev].
  - eexists; split; [reflexivity|constructor].
  - inversion Hs as [|? ? Hs1 Hs2]; subst. inversion Hall as [|? ? Hi Hall']; subst.
    destruct (negb oo || negb (is_referenced h i true))%bool.
    + destruct (delete_block_spec h i HI Hi) as (h1 & pre & b & post & Hrun & HI1 & Hb & Hpl & Hb1 & _).
      rewrite Hrun. cbn [bind].
      destruct (IH h1 oo HI1 Hs1) as (h' & Hrec & Hch).
      { rewrite Hb1, vlen_map, vlen_app. rewrite Forall_forall in *. intros k Hk.
        specialize (Hs2 k Hk). lia. }
      exists h'. split; [exact Hrec|]. econstructor; eauto.
    + apply IH; auto.
Qed.

Theorem delete_block_by_type_spec h name oo :
  Inv h -> exists h', delete_block_by_type h name oo = Ok h' /\ del_chain (fun _ _ => True) h h'.
Proof.
  intros HI. unfold delete_block_by_type.
  pose proof (inv_ntypes h HI) as Hnt. pose proof (inv_nblocks h HI) as Hnb.
  pose proof (Forall2_len _ _ _ (inv_types h HI)) as Hlen.
  destruct (find_type_from 0 (firstn (N.to_nat (ntypes h)) (tnames h)) name) as [tid|].
  - destruct (N.ltb_spec (vlen (tidx h)) (nblocks h)) as [Hc|_]; [unfold vlen in *; lia|].
    apply delete_rev_spec; auto.
    + (* rev of an ascending list is descending *)
      assert (Hsort := indices_of_type_sorted (firstn (N.to_nat (nblocks h)) (tidx h)) 0 tid).
      revert Hsort. generalize (indices_of_type 0 (firstn (N.to_nat (nblocks h)) (tidx h)) tid).
      induction l as [|a l IHl]; intros Hsort; cbn [rev]; [constructor|].
      inversion Hsort as [|? ? Hs1 Hs2]; subst.
      clear - IHl Hs1 Hs2. specialize (IHl Hs1).
      assert (Hall : Forall (fun k => a < k) (rev l)).
      { apply Forall_forall. intros k Hk. apply in_rev in Hk. rewrite Forall_forall in Hs2. auto. }
      revert IHl Hall. generalize (rev l). induction l0 as [|x l0 IH0]; intros Hss Hall; cbn [app].
      * constructor; constructor.
      * inversion Hss; subst. inversion Hall; subst. constructor; auto.
        apply Forall_app. split; auto.
    + apply Forall_forall. intros k Hk. apply in_rev in Hk. apply indices_of_type_lt in Hk.
      unfold vlen in *. rewrite firstn_length in Hk. lia.
  - destruct (N.ltb_spec (vlen (tnames h)) (ntypes h)) as [Hc|_]; [lia|].
    eexists; split; [reflexivity|constructor].
Qed.

Theorem prune_full of_type fuel h root c :
  Inv h -> (length (blocks h) < fuel)%nat ->
  exists h' c', delete_unreferenced fuel of_type h root c = Ok (h', c') /\
                del_chain unreferenced h h' /\ Inv h'.
Proof.
  intros HI Hf.
  destruct (delete_unreferenced_spec of_type fuel h root c HI Hf) as (h' & c' & H1 & H2).
  exists h', c'. split; [exact H1|]. split; [exact H2|]. eapply del_chain_inv; eauto.
Qed.

Theorem delete_by_type_full h name oo :
  Inv h -> exists h', delete_block_by_type h name oo = Ok h' /\ del_chain (fun _ _ => True) h h' /\ Inv h'.
Proof.
  intros HI. destruct (delete_block_by_type_spec h name oo HI) as (h' & H1 & H2).
  exists h'. split; [exact H1|]. split; [exact H2|]. eapply del_chain_inv; eauto.
Qed.
