(* Invariant of the header block table and the abstract view of the reference graph. *)
From NiflyVerif Require Import Res GraphModel.
From Coq Require Import ZifyBool ZifyNat ZifyN.
Local Open Scope N_scope.

Definition ref_ok (n r : N) : Prop := r = NPOS \/ r < n.
Definition block_ok (n : N) (b : block) : Prop :=
  Forall (ref_ok n) (crefs b) /\ Forall (ref_ok n) (ptrs b).

(* the type-table entry of block b is the name of b's class *)
Definition type_ok (tn : list N) (b : block) (t : N) : Prop :=
  nth_error tn (N.to_nat t) = Some (tname b).

Record Inv (h : hdr) : Prop := mkInv {
  inv_nblocks : nblocks h = vlen (blocks h);            (* counter = vector size *)
  inv_ntypes  : ntypes h = vlen (tnames h);
  inv_types   : Forall2 (type_ok (tnames h)) (blocks h) (tidx h);   (* per-block names, and |tidx| = |blocks| *)
  inv_nodup   : NoDup (tnames h);                        (* no type name twice *)
  inv_used    : forall t, (t < length (tnames h))%nat -> In (N.of_nat t) (tidx h);   (* no unused name *)
  inv_sizes   : has_sizes h = true -> length (sizes h) = length (blocks h);
  inv_uids    : NoDup (map uid (blocks h));              (* no two slots hold the same object *)
  inv_refs    : Forall (block_ok (vlen (blocks h))) (blocks h);    (* every ref empty or in range *)
  inv_small   : vlen (blocks h) < NPOS
}.

(* which logical block a reference designates *)
Definition resolve (bl : list block) (r : N) : option N :=
  if r =? NPOS then None else option_map uid (vget bl r).

(* the abstract graph: per slot, identity, class name, and the identities its references designate *)
Definition entry := (N * N * list (option N) * list (option N))%type.
Definition view_block (bl : list block) (b : block) : entry :=
  (uid b, tname b, map (resolve bl) (crefs b), map (resolve bl) (ptrs b)).
Definition view (h : hdr) : list entry := map (view_block (blocks h)) (blocks h).

(* in the abstract graph, deleting the object u empties exactly the references that designated u *)
Definition kill_ref (u : N) (o : option N) : option N :=
  match o with Some x => if x =? u then None else Some x | None => None end.
Definition kill (u : N) (e : entry) : entry :=
  let '(i, t, c, p) := e in (i, t, map (kill_ref u) c, map (kill_ref u) p).

(* ---- list splitting helpers ---- *)
Lemma split_at {A} (l : list A) (i : N) : i < vlen l ->
  exists pre x post, l = pre ++ x :: post /\ vlen pre = i.
Proof.
  unfold vlen. intros H.
  exists (firstn (N.to_nat i) l).
  destruct (skipn (N.to_nat i) l) as [|x post] eqn:Hs.
  - assert (length (skipn (N.to_nat i) l) = 0%nat) by (rewrite Hs; reflexivity).
    rewrite skipn_length in *. lia.
  - exists x, post. split.
    + rewrite <- Hs. symmetry. apply firstn_skipn.
    + rewrite firstn_length_le; lia.
Qed.

Lemma vget_mid {A} (pre : list A) x post : vget (pre ++ x :: post) (vlen pre) = Some x.
Proof. unfold vget, vlen. rewrite Nat2N.id, nth_error_app2, Nat.sub_diag by lia. reflexivity. Qed.

Lemma vget_pre {A} (pre : list A) x post i : i < vlen pre ->
  vget (pre ++ x :: post) i = vget pre i /\ vget (pre ++ post) i = vget pre i.
Proof. unfold vget, vlen. intros H. rewrite !nth_error_app1 by lia. auto. Qed.

Lemma vget_post {A} (pre : list A) x post i : vlen pre < i ->
  vget (pre ++ x :: post) i = vget (pre ++ post) (i - 1).
Proof.
  unfold vget, vlen. intros H. rewrite !nth_error_app2 by lia.
  replace (N.to_nat i - length pre)%nat with (S (N.to_nat (i - 1) - length pre)) by lia.
  reflexivity.
Qed.

Lemma verase_mid {A} (pre : list A) x post : verase (pre ++ x :: post) (vlen pre) = Some (pre ++ post).
Proof.
  unfold verase, vlen. rewrite app_length. cbn [length].
  destruct (N.ltb_spec (N.of_nat (length pre)) (N.of_nat (length pre + S (length post)))); [|lia].
  rewrite Nat2N.id. f_equal. f_equal.
  - rewrite firstn_app, Nat.sub_diag, firstn_all. cbn. apply app_nil_r.
  - change (S (length pre)) with (1 + length pre)%nat.
    replace (1 + length pre)%nat with (length pre + 1)%nat by lia.
    rewrite skipn_app. rewrite skipn_all2 by lia.
    replace (length pre + 1 - length pre)%nat with 1%nat by lia. reflexivity.
Qed.

Lemma verase_none {A} (v : list A) i : vlen v <= i -> verase v i = None.
Proof. unfold verase. intros H. destruct (N.ltb_spec i (vlen v)); [lia|reflexivity]. Qed.

Lemma vset_mid {A} (pre : list A) x post y : vset (pre ++ x :: post) (vlen pre) y = Some (pre ++ y :: post).
Proof.
  unfold vset, vlen. rewrite app_length. cbn [length].
  destruct (N.ltb_spec (N.of_nat (length pre)) (N.of_nat (length pre + S (length post)))); [|lia].
  rewrite Nat2N.id. f_equal. f_equal.
  - rewrite firstn_app, Nat.sub_diag, firstn_all. cbn. apply app_nil_r.
  - f_equal. change (S (length pre)) with (1 + length pre)%nat.
    replace (1 + length pre)%nat with (length pre + 1)%nat by lia.
    rewrite skipn_app. rewrite skipn_all2 by lia.
    replace (length pre + 1 - length pre)%nat with 1%nat by lia. reflexivity.
Qed.

Lemma Forall2_len {A B} (R : A -> B -> Prop) l l' : Forall2 R l l' -> length l = length l'.
Proof. induction 1; cbn; congruence. Qed.

Lemma Forall2_split_l {A B} (R : A -> B -> Prop) pre x post l :
  Forall2 R (pre ++ x :: post) l ->
  exists pre' y post', l = pre' ++ y :: post' /\ Forall2 R pre pre' /\ R x y /\ Forall2 R post post'
                       /\ length pre' = length pre.
Proof.
  intros H. apply Forall2_app_inv_l in H. destruct H as (pre' & r & Hp & Hr & ->).
  inversion Hr as [|? y ? post' Hxy Hpost]; subst.
  exists pre', y, post'. repeat split; auto. symmetry. eapply Forall2_len; eauto.
Qed.

Lemma count_eq_app x a b : count_eq x (a ++ b) = count_eq x a + count_eq x b.
Proof. unfold count_eq, vlen. rewrite filter_app, app_length. lia. Qed.

Lemma count_eq_cons_same x l : count_eq x (x :: l) = 1 + count_eq x l.
Proof. unfold count_eq, vlen. cbn [filter]. rewrite N.eqb_refl. cbn [length]. lia. Qed.

Lemma count_eq_zero x l : count_eq x l = 0 -> Forall (fun y => y <> x) l.
Proof.
  unfold count_eq, vlen. induction l as [|a l IH]; cbn [filter]; intros H; [constructor|].
  destruct (N.eqb_spec x a).
  - cbn [length] in H. lia.
  - constructor; auto.
Qed.

Lemma count_eq_pos_in x l : 0 < count_eq x l -> In x l.
Proof.
  unfold count_eq, vlen. induction l as [|a l IH]; cbn [filter length]; intros H; [lia|].
  destruct (N.eqb_spec x a); [left; auto|right; auto].
Qed.
