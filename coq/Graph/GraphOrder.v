(* SetBlockOrder with a permutation: the scatter loops build exactly the permuted vectors, the
   header stays consistent and the abstract graph is the same graph with its slots permuted. *)
From NiflyVerif Require Import Res CompactProofs GraphModel GraphInv GraphDelete GraphAdd.
From Coq Require Import ZifyBool ZifyNat ZifyN.
Local Open Scope N_scope.

Definition is_perm (order : list N) (n : N) : Prop :=
  NoDup order /\ Forall (fun o => o < n) order /\ vlen order = n.

Lemma vget_lt {A} (v : list A) i : i < vlen v -> exists x, vget v i = Some x.
Proof.
  unfold vget, vlen. intros H. destruct (nth_error v (N.to_nat i)) eqn:E; [eauto|].
  apply nth_error_None in E. lia.
Qed.

Lemma vget_some_lt' {A} (v : list A) i x : vget v i = Some x -> i < vlen v.
Proof.
  unfold vget, vlen. intros H. assert (nth_error v (N.to_nat i) <> None) as H1 by congruence.
  apply nth_error_Some in H1. lia.
Qed.

Lemma nth_error_firstn' {A} (l : list A) : forall n k, (k < n)%nat -> nth_error (firstn n l) k = nth_error l k.
Proof.
  induction l as [|x l IH]; intros n k H; [rewrite firstn_nil; reflexivity|].
  destruct n as [|n]; [lia|]. destruct k as [|k]; cbn; [reflexivity|]. apply IH. lia.
Qed.

Lemma nth_error_skipn' {A} (l : list A) : forall n k, nth_error (skipn n l) k = nth_error l (n + k).
Proof.
  induction l as [|x l IH]; intros n k; [rewrite skipn_nil; destruct k, n; reflexivity|].
  destruct n as [|n]; cbn; [reflexivity|]. apply IH.
Qed.

Lemma vget_vset {A} (v v' : list A) i x j :
  vset v i x = Some v' -> vget v' j = if j =? i then Some x else vget v j.
Proof.
  unfold vset, vget, vlen. destruct (N.ltb_spec i (N.of_nat (length v))) as [Hlt|]; [|discriminate].
  intros H. remember (skipn (S (N.to_nat i)) v) as sk eqn:Hsk. inversion H; subst v'. clear H.
  assert (Hl : length (firstn (N.to_nat i) v) = N.to_nat i) by (apply firstn_length_le; lia).
  destruct (N.eqb_spec j i) as [->|Hne].
  - rewrite nth_error_app2 by lia. rewrite Hl, Nat.sub_diag. reflexivity.
  - destruct (N.ltb_spec j i).
    + rewrite nth_error_app1 by lia. rewrite nth_error_firstn' by lia. reflexivity.
    + rewrite nth_error_app2 by lia. rewrite Hl.
      replace (N.to_nat j - N.to_nat i)%nat with (S (N.to_nat j - N.to_nat i - 1)) by lia.
      cbn [nth_error]. rewrite Hsk, nth_error_skipn'. f_equal. lia.
Qed.

Lemma vset_len {A} (v v' : list A) i x : vset v i x = Some v' -> length v' = length v.
Proof.
  intros H. assert (Hlt : i < vlen v).
  { unfold vset in H. destruct (N.ltb_spec i (N.of_nat (length v))); [exact H0|discriminate]. }
  destruct (CompactProofs.vset_spec v i x Hlt) as (v2 & H2 & Hl & _). congruence.
Qed.

Lemma vset_ok {A} (v : list A) i x : i < vlen v -> exists v', vset v i x = Some v'.
Proof. unfold vset. intros H. destruct (N.ltb_spec i (N.of_nat (length v))); [eauto|unfold vlen in *; lia]. Qed.

(* a permutation of 0..n-1 hits every index *)
Lemma perm_surj order n : is_perm order n -> forall j, j < n -> exists k, vget order k = Some j.
Proof.
  intros (Hnd & Hlt & Hlen) j Hj.
  assert (Hincl : incl (map N.of_nat (seq 0 (N.to_nat n))) order).
  { apply NoDup_length_incl; auto.
    - rewrite map_length, seq_length. unfold vlen in Hlen. lia.
    - intros o Ho. rewrite Forall_forall in Hlt. specialize (Hlt o Ho).
      apply in_map_iff. exists (N.to_nat o). split; [lia|]. apply in_seq. lia. }
  assert (Hin : In j order).
  { apply Hincl. apply in_map_iff. exists (N.to_nat j). split; [lia|]. apply in_seq. lia. }
  apply In_nth_error in Hin. destruct Hin as (k & Hk). exists (N.of_nat k). unfold vget. rewrite Nat2N.id. exact Hk.
Qed.

Lemma perm_inj order n : is_perm order n -> forall k1 k2 o, vget order k1 = Some o -> vget order k2 = Some o -> k1 = k2.
Proof.
  intros (Hnd & _ & _) k1 k2 o H1 H2. unfold vget in *.
  rewrite NoDup_nth_error in Hnd.
  assert (N.to_nat k1 = N.to_nat k2).
  { apply Hnd; [|congruence]. apply nth_error_Some. congruence. }
  lia.
Qed.

Lemma all_some_map {A} (l : list A) : all_some (map Some l) = Some l.
Proof. induction l as [|x l IH]; cbn; [reflexivity|]. rewrite IH. reflexivity. Qed.

Lemma all_defined {A} (d : list (option A)) :
  (forall j, j < vlen d -> exists x, vget d j = Some (Some x)) -> exists l, d = map Some l.
Proof.
  induction d as [|o d IH]; intros H; [exists []; reflexivity|].
  destruct (H 0) as (x & Hx); [rewrite vlen_cons; lia|]. cbn in Hx. inversion Hx; subst o.
  destruct IH as (l & ->).
  - intros j Hj. destruct (H (j + 1)) as (y & Hy); [rewrite vlen_cons; lia|].
    exists y. unfold vget in *. replace (N.to_nat (j + 1)) with (S (N.to_nat j)) in Hy by lia. exact Hy.
  - exists (x :: l). reflexivity.
Qed.

Section Scatter.
  Context {A : Type}.
  Variable order : list N.
  Variable src : list A.
  Variable n : N.
  Hypothesis Hperm : is_perm order n.
  Hypothesis Hsrc : vlen src = n.

  Lemma scatter_inv : forall fuel i dst,
    i <= n -> (N.to_nat (n - i) < fuel)%nat -> vlen dst = n ->
    (forall k o x, k < i -> vget order k = Some o -> vget src k = Some x -> vget dst o = Some (Some x)) ->
    (forall j, j < n -> (forall k, k < i -> vget order k <> Some j) -> vget dst j = Some None) ->
    exists dst', scatter fuel n order src dst i = Ok dst' /\ vlen dst' = n /\
      (forall k o x, vget order k = Some o -> vget src k = Some x -> vget dst' o = Some (Some x)).
  Proof.
    destruct Hperm as (Hnd & Hlt & Hlen).
    induction fuel as [|f IH]; intros i dst Hi Hf Hd P1 P2; [lia|].
    cbn [scatter]. destruct (N.ltb_spec i n) as [Hin|Hge].
    - destruct (vget_lt order i ltac:(lia)) as (o & Ho).
      destruct (vget_lt src i ltac:(lia)) as (x & Hx).
      rewrite Ho, Hx.
      assert (Hon : o < n). { rewrite Forall_forall in Hlt. apply Hlt. eapply in_vget; eauto. }
      destruct (vset_ok dst o (Some x) ltac:(lia)) as (dst1 & Hs). rewrite Hs.
      apply IH; try lia.
      + unfold vlen in *. rewrite (vset_len _ _ _ _ Hs). exact Hd.
      + intros k o' x' Hk Ho' Hx'. rewrite (vget_vset _ _ _ _ _ Hs).
        destruct (N.eqb_spec o' o) as [->|Hne].
        * assert (k = i) by (eapply perm_inj; eauto). subst k. congruence.
        * apply (P1 k); auto. assert (k <> i) by (intros ->; congruence). lia.
      + intros j Hj Hnot. rewrite (vget_vset _ _ _ _ _ Hs).
        destruct (N.eqb_spec j o) as [->|Hne].
        * exfalso. apply (Hnot i); [lia|exact Ho].
        * apply P2; auto. intros k Hk. apply Hnot. lia.
    - exists dst. split; [reflexivity|]. split; [exact Hd|].
      intros k o x Ho Hx. apply (P1 k); auto. apply vget_some_lt' in Ho. lia.
  Qed.

  Lemma scatter_spec :
    exists l, scatter (S (length order)) n order src (repeat None (length src)) 0 = Ok (map Some l) /\
              vlen l = n /\
              (forall k o x, vget order k = Some o -> vget src k = Some x -> vget l o = Some x).
  Proof.
    destruct (scatter_inv (S (length order)) 0 (repeat None (length src))) as (dst' & Hrun & Hlen' & Hall).
    - lia.
    - destruct Hperm as (_ & _ & Hl). unfold vlen in Hl. lia.
    - unfold vlen in *. rewrite repeat_length. exact Hsrc.
    - intros k o x Hk. lia.
    - intros j Hj _. unfold vget. rewrite nth_error_repeat; [reflexivity|]. unfold vlen in Hsrc. lia.
    - destruct (all_defined dst') as (l & ->).
      + intros j Hj. rewrite Hlen' in Hj. destruct (perm_surj order n Hperm j Hj) as (k & Hk).
        destruct (vget_lt src k) as (x & Hx).
        { apply vget_some_lt' in Hk. destruct Hperm as (_ & _ & Hl). lia. }
        exists x. eapply Hall; eauto.
      + exists l. split; [exact Hrun|]. split; [rewrite vlen_map in Hlen'; exact Hlen'|].
        intros k o x Ho Hx. specialize (Hall k o x Ho Hx). rewrite vget_map in Hall.
        destruct (vget l o); cbn in Hall; congruence.
  Qed.
End Scatter.

Lemma Forall2_vget {A B} (R : A -> B -> Prop) l l' : Forall2 R l l' ->
  forall i a b, vget l i = Some a -> vget l' i = Some b -> R a b.
Proof.
  unfold vget. intros H i. generalize (N.to_nat i) as k. clear i.
  induction H as [|x y l l' Hxy _ IH]; intros [|k] a b Ha Hb; cbn in *; try discriminate.
  - congruence.
  - eauto.
Qed.

Lemma Forall2_pointwise {A B} (R : A -> B -> Prop) : forall l l',
  length l = length l' ->
  (forall i a b, vget l i = Some a -> vget l' i = Some b -> R a b) -> Forall2 R l l'.
Proof.
  induction l as [|x l IH]; intros [|y l'] Hlen H; cbn in Hlen; try lia; constructor.
  - apply (H 0); reflexivity.
  - apply IH; [lia|]. intros i a b Ha Hb. apply (H (i + 1)); unfold vget in *;
      replace (N.to_nat (i + 1)) with (S (N.to_nat i)) by lia; assumption.
Qed.

Lemma in_vget_ex {A} (l : list A) x : In x l -> exists i, vget l i = Some x.
Proof. intros H. apply In_nth_error in H. destruct H as (k & Hk). exists (N.of_nat k). unfold vget. rewrite Nat2N.id. exact Hk. Qed.

Lemma unwrap_map_some (l : list N) : map (fun o : option N => match o with Some t => t | None => 0 end) (map Some l) = l.
Proof. rewrite map_map. apply map_id. Qed.

Theorem set_block_order_spec h order :
  Inv h -> is_perm order (vlen (blocks h)) ->
  exists h', set_block_order h order = Ok h' /\ Inv h' /\ has_sizes h' = has_sizes h /\
    vlen (blocks h') = vlen (blocks h) /\
    (forall i o, vget order i = Some o -> vget (view h') o = vget (view h) i).
Proof.
  intros HI Hperm. pose proof HI as [Hnb Hnt Hty Hnd Hused Hsz Huid Hrefs Hsmall].
  set (n := vlen (blocks h)) in *.
  assert (Hpl : vlen order = n) by apply Hperm.
  assert (Htl : vlen (tidx h) = n) by (unfold n, vlen; rewrite (Forall2_len _ _ _ Hty); reflexivity).
  unfold set_block_order. rewrite Hnb. fold n.
  destruct (N.eqb_spec (vlen order) n) as [_|Hc]; [|congruence]. cbn [negb].
  destruct (scatter_spec order (tidx h) n Hperm Htl) as (lt & Hrt & Hltl & Hlt).
  destruct (scatter_spec order (blocks h) n Hperm eq_refl) as (lb & Hrb & Hlbl & Hlb).
  rewrite Hrt. cbn [bind]. rewrite Hrb. cbn [bind].
  assert (Hs : exists ls, (if has_sizes h
                 then scatter (S (length order)) n order (sizes h) (repeat None (length (sizes h))) 0
                 else Ok (map Some (sizes h))) = Ok (map Some ls) /\
                 (has_sizes h = true -> length ls = length lb)).
  { destruct (has_sizes h) eqn:Hhs.
    - specialize (Hsz eq_refl).
      destruct (scatter_spec order (sizes h) n Hperm) as (ls & Hrs & Hlsl & _).
      { unfold vlen, n in *. rewrite Hsz. reflexivity. }
      exists ls. split; [exact Hrs|]. intros _. unfold vlen in *. lia.
    - exists (sizes h). split; [reflexivity|discriminate]. }
  destruct Hs as (ls & Hrs & Hlsl). rewrite Hrs. cbn [bind].
  rewrite all_some_map, !unwrap_map_some.
  (* facts about the permuted block vector *)
  assert (Hlb_in : forall b, In b lb -> In b (blocks h)).
  { intros b Hb. destruct (in_vget_ex _ _ Hb) as (j & Hj).
    destruct (perm_surj order n Hperm j) as (k & Hk); [apply vget_some_lt' in Hj; lia|].
    destruct (vget_lt (blocks h) k) as (x & Hx); [apply vget_some_lt' in Hk; fold n; lia|].
    specialize (Hlb k j x Hk Hx). assert (b = x) by congruence. subst. eapply in_vget; eauto. }
  assert (Hremap : forall r, ref_ok n r -> ref_ok n (remap_ref order r) /\
            resolve (map (block_reordered order) lb) (remap_ref order r) = resolve (blocks h) r).
  { intros r [->|Hr].
    - unfold remap_ref, resolve. cbn. split; [left; reflexivity|reflexivity].
    - unfold remap_ref. destruct (N.eqb_spec r NPOS); [lia|].
      destruct (N.ltb_spec r (vlen order)); [|lia].
      destruct (vget_lt order r ltac:(lia)) as (o & Ho). rewrite Ho.
      assert (Hon : o < n).
      { destruct Hperm as (_ & Hall & _). rewrite Forall_forall in Hall. apply Hall. eapply in_vget; eauto. }
      split; [right; exact Hon|].
      unfold resolve. destruct (N.eqb_spec o NPOS); [lia|]. destruct (N.eqb_spec r NPOS); [lia|].
      destruct (vget_lt (blocks h) r Hr) as (x & Hx). rewrite Hx.
      rewrite vget_map, (Hlb r o x Ho Hx). reflexivity. }
  eexists. split; [reflexivity|].
  cbn [blocks has_sizes].
  split; [|split; [reflexivity|split; [rewrite vlen_map; exact Hlbl|]]].
  - constructor; cbn [blocks nblocks tnames ntypes tidx sizes has_sizes].
    + rewrite vlen_map. fold n. lia.
    + exact Hnt.
    + apply Forall2_pointwise.
      * rewrite map_length. unfold vlen in *. lia.
      * intros j a t Ha Ht. rewrite vget_map in Ha.
        destruct (vget lb j) as [b|] eqn:Hbj; cbn in Ha; [|discriminate]. inversion Ha; subst a.
        destruct (perm_surj order n Hperm j) as (k & Hk); [apply vget_some_lt' in Hbj; lia|].
        destruct (vget_lt (blocks h) k) as (x & Hx); [apply vget_some_lt' in Hk; fold n; lia|].
        destruct (vget_lt (tidx h) k) as (y & Hy); [apply vget_some_lt' in Hk; lia|].
        pose proof (Hlb k j x Hk Hx). pose proof (Hlt k j y Hk Hy).
        assert (b = x) by congruence. assert (t = y) by congruence. subst.
        unfold type_ok. cbn [tname block_reordered].
        exact (Forall2_vget _ _ _ Hty k x y Hx Hy).
    + exact Hnd.
    + intros t Ht. specialize (Hused t Ht). destruct (in_vget_ex _ _ Hused) as (k & Hk).
      destruct (vget_lt order k) as (o & Ho); [apply vget_some_lt' in Hk; lia|].
      eapply in_vget. eapply Hlt; eauto.
    + intros Hhs. rewrite map_length. auto.
    + rewrite map_map. cbn [uid block_reordered].
      apply (NoDup_incl_NoDup (l := map uid (blocks h))); auto.
      * rewrite !map_length. clear - Hlbl. unfold n, vlen in Hlbl. lia.
      * intros u Hu. apply in_map_iff in Hu. destruct Hu as (b & <- & Hb).
        destruct (in_vget_ex _ _ Hb) as (k & Hk).
        destruct (vget_lt order k) as (o & Ho); [apply vget_some_lt' in Hk; fold n in Hk; lia|].
        apply in_map. eapply in_vget. eapply Hlb; eauto.
    + rewrite vlen_map, Hlbl. rewrite Forall_map. apply Forall_forall. intros b Hb.
      apply Hlb_in in Hb. rewrite Forall_forall in Hrefs. destruct (Hrefs b Hb) as [H1 H2].
      split; cbn [crefs ptrs block_reordered]; rewrite Forall_map;
        [eapply Forall_impl; [|exact H1]|eapply Forall_impl; [|exact H2]];
        intros r Hr; apply Hremap; exact Hr.
    + rewrite vlen_map, Hlbl. exact Hsmall.
  - intros i o Ho. unfold view. cbn [blocks]. rewrite !vget_map.
    destruct (vget_lt (blocks h) i) as (x & Hx); [apply vget_some_lt' in Ho; fold n; lia|].
    rewrite Hx, (Hlb i o x Ho Hx). cbn [option_map]. f_equal.
    unfold view_block. cbn [uid tname crefs ptrs block_reordered].
    rewrite Forall_forall in Hrefs. destruct (Hrefs x (in_vget _ _ _ Hx)) as [H1 H2].
    rewrite !map_map. f_equal; [f_equal|]; apply map_ext_in; intros r Hr; apply Hremap.
    + rewrite Forall_forall in H1. auto.
    + rewrite Forall_forall in H2. auto.
Qed.

(* an order list of the wrong size is refused without touching anything *)
Lemma set_block_order_wrong_size h order :
  vlen order <> nblocks h -> set_block_order h order = Ok h.
Proof. intros H. unfold set_block_order. destruct (N.eqb_spec (vlen order) (nblocks h)); [congruence|reflexivity]. Qed.
