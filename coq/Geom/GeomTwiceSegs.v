(* Deleting twice = deleting the union, for the segment tables of BSSubIndexTriShape (FO4
   segmentation with sub-segments, SSE segment list).

   The re-fit (Geometry.cpp:1251-1311) subtracts from every range the dropped triangles that lie in
   it, measured with the range's CURRENT start, and then lays the ranges out one after the other
   WITHOUT touching the start of the first one. Consequences:
   - for tables that tile the triangle list from triangle 0 ([segs_tile 0], [sse_tile 0]: what
     SetSegmentation / a well-formed file gives, and what the re-fit keeps: C17_refit_keeps_ranges)
     two deletions give exactly the tables of the union deletion ([segs_refit_twice],
     [sse_refit_twice], [bs_sits_spec_twice]);
   - for arbitrary tables (counters consistent, ranges anywhere) it is false
     ([bs_sits_twice_refuted]): a table whose first range starts at triangle 1 is not shifted when
     triangle 0 goes, so the second call measures against stale ranges. *)
From NiflyVerif Require Import Res UtilModel UtilSpec CompactProofs EraseProofs FillProofs
  GeomModel SegModel GeomBase GeomSpec GeomProofs GeomSkinProofs GeomPartProofs GeomStripProofs SegSort SegProofs
  RefitProofs GeomShapeProofs SseRange GeomTwice GeomTwiceParts.
From Coq Require Import ZifyBool ZifyNat ZifyN Sorted Permutation.
Local Open Scope N_scope.

(* ---------------------------------------------------------------------------------------- *)
(* positions where a predicate holds: membership, rank, and the position a kept element moves to *)

Lemma memN_pos_where {A} (P : A -> bool) : forall (l : list A) i k,
  memN k (pos_where P i l) =
  (i <=? k) && (k <? i + vlen l) && match nth_error l (N.to_nat (k - i)) with Some x => P x | None => false end.
Proof.
  induction l as [|x l IH]; intros i k; cbn [pos_where].
  - change (vlen (@nil A)) with 0. destruct (N.leb_spec i k), (N.ltb_spec k (i + 0)); try reflexivity; lia.
  - assert (Hl : vlen (x :: l) = vlen l + 1) by (unfold vlen; cbn [length]; lia).
    assert (Hh : memN i (pos_where P (i + 1) l) = false).
    { apply memN_false_iff. eapply Forall_impl; [|apply pos_where_ge]. cbn; intros; lia. }
    destruct (N.eqb_spec k i) as [->|Hne].
    + rewrite N.sub_diag. cbn [N.to_nat nth_error]. destruct (N.leb_spec i i); [|lia].
      destruct (N.ltb_spec i (i + vlen (x :: l))); [|lia]. cbn [andb].
      destruct (P x); [rewrite memN_cons, N.eqb_refl; reflexivity|exact Hh].
    + assert (E : memN k (if P x then i :: pos_where P (i + 1) l else pos_where P (i + 1) l) = memN k (pos_where P (i + 1) l)).
      { destruct (P x); [|reflexivity]. rewrite memN_cons. destruct (N.eqb_spec k i); [contradiction|reflexivity]. }
      rewrite E, IH, Hl.
      destruct (N.leb_spec (i + 1) k) as [H1|H1].
      * destruct (N.leb_spec i k); [|lia]. replace (i + 1 + vlen l) with (i + (vlen l + 1)) by lia.
        replace (N.to_nat (k - i)) with (S (N.to_nat (k - (i + 1)))) by lia. reflexivity.
      * destruct (N.leb_spec i k); [lia|]. reflexivity.
Qed.

Lemma memN_pos_where0 {A} (P : A -> bool) (l : list A) k x : nth_error l (N.to_nat k) = Some x ->
  memN k (pos_where P 0 l) = P x.
Proof.
  intros Hx. rewrite memN_pos_where. rewrite N.sub_0_r, Hx.
  assert (Hk : k < vlen l). { assert (N.to_nat k < length l)%nat by (apply nth_error_Some; congruence). unfold vlen. lia. }
  destruct (N.leb_spec 0 k); [|lia]. destruct (N.ltb_spec k (0 + vlen l)); [reflexivity|lia].
Qed.

Lemma memN_pos_where_out {A} (P : A -> bool) (l : list A) k : vlen l <= k -> memN k (pos_where P 0 l) = false.
Proof.
  intros Hk. rewrite memN_pos_where. destruct (N.ltb_spec k (0 + vlen l)); [lia|]. rewrite andb_false_r. reflexivity.
Qed.

Lemma firstn_succ_nth_error {A} : forall (l : list A) (k : nat) x, nth_error l k = Some x -> firstn (S k) l = firstn k l ++ [x].
Proof.
  induction l as [|y l IH]; intros k x H; [destruct k; discriminate|].
  destruct k as [|k]; cbn [nth_error] in H; [inversion H; reflexivity|].
  rewrite (firstn_cons (S k)), (firstn_cons k). cbn [app]. f_equal. apply IH. exact H.
Qed.

Lemma rank_pos_where {A} (P : A -> bool) (l : list A) : forall k, k <= vlen l ->
  rank (pos_where P 0 l) k = vlen (filter (fun x => negb (P x)) (firstn (N.to_nat k) l)).
Proof.
  induction k as [|k IH] using N.peano_ind; intros Hk; [reflexivity|].
  replace (N.succ k) with (k + 1) by lia. rewrite rank_succ, IH by lia.
  destruct (nth_error l (N.to_nat k)) as [x|] eqn:Ex.
  2:{ apply nth_error_None in Ex. unfold vlen in Hk. lia. }
  rewrite (memN_pos_where0 P l k x Ex).
  replace (N.to_nat (k + 1)) with (S (N.to_nat k)) by lia. rewrite (firstn_succ_nth_error l _ x Ex).
  rewrite filter_app. unfold vlen. rewrite app_length. cbn [filter]. destruct (P x); cbn [negb length]; lia.
Qed.

Lemma split_at_nth_error {A} : forall (l : list A) (k : nat) x, nth_error l k = Some x ->
  l = firstn k l ++ x :: skipn (S k) l.
Proof.
  induction l as [|y l IH]; intros k x H; [destruct k; discriminate|].
  destruct k as [|k]; cbn [nth_error] in H; [inversion H; reflexivity|].
  rewrite (firstn_cons k). change (skipn (S (S k)) (y :: l)) with (skipn (S k) l). cbn [app]. f_equal. apply IH. exact H.
Qed.

Lemma kept_at {A B} (P : A -> bool) (g : A -> B) (l : list A) (k : nat) x :
  nth_error l k = Some x -> P x = false ->
  nth_error (map g (filter (fun y => negb (P y)) l)) (length (filter (fun y => negb (P y)) (firstn k l))) = Some (g x).
Proof.
  intros Hx Hp. rewrite (split_at_nth_error l k x Hx) at 1. rewrite filter_app, map_app. cbn [filter]. rewrite Hp. cbn [negb map].
  rewrite nth_error_app2 by (rewrite map_length; lia). rewrite map_length, Nat.sub_diag. reflexivity.
Qed.

(* two rounds of "drop where P holds, then map" against one round with the combined predicate *)
Lemma gone2_pos_where {A B} (P1 : A -> bool) (g : A -> B) (P2 : B -> bool) (l : list A) k : k < vlen l ->
  gone2 (pos_where P1 0 l) (pos_where P2 0 (map g (filter (fun y => negb (P1 y)) l))) k =
  memN k (pos_where (fun x => P1 x || P2 (g x)) 0 l).
Proof.
  intros Hk. destruct (nth_error l (N.to_nat k)) as [x|] eqn:Ex.
  2:{ apply nth_error_None in Ex. unfold vlen in Hk. lia. }
  unfold gone2. rewrite (memN_pos_where0 P1 l k x Ex), (memN_pos_where0 _ l k x Ex).
  destruct (P1 x) eqn:Hp; cbn [orb]; [reflexivity|].
  rewrite rank_pos_where by lia.
  apply memN_pos_where0. unfold vlen. rewrite Nat2N.id. apply kept_at; assumption.
Qed.

Lemma pos_where_ext {A} (P Q : A -> bool) : forall (l : list A) i, (forall x, In x l -> P x = Q x) -> pos_where P i l = pos_where Q i l.
Proof.
  induction l as [|x l IH]; intros i H; [reflexivity|]. cbn [pos_where]. rewrite (H x (or_introl eq_refl)).
  rewrite (IH (i + 1)) by (intros y Hy; apply H; right; exact Hy). reflexivity.
Qed.

Lemma pos_where_lt {A} (P : A -> bool) : forall (l : list A) i, Forall (fun k => k < i + vlen l) (pos_where P i l).
Proof.
  induction l as [|x l IH]; intros i; cbn [pos_where]; [constructor|].
  assert (Hl : i + 1 + vlen l = i + vlen (x :: l)) by (unfold vlen; cbn [length]; lia).
  destruct (P x).
  - constructor; [unfold vlen; cbn [length]; lia|]. rewrite <- Hl. apply IH.
  - rewrite <- Hl. apply IH.
Qed.

(* strictly ascending lists with the same members are equal *)
Lemma sorted_lt_ext : forall a b, sorted_lt a -> sorted_lt b -> (forall k, memN k a = memN k b) -> a = b.
Proof.
  induction a as [|x a IH]; intros b Ha Hb H.
  - destruct b as [|y b]; [reflexivity|]. specialize (H y). rewrite memN_cons, N.eqb_refl in H. discriminate.
  - destruct b as [|y b]; [specialize (H x); rewrite memN_cons, N.eqb_refl in H; discriminate|].
    inversion Ha as [|? ? Ha' Hxa]; subst. inversion Hb as [|? ? Hb' Hyb]; subst.
    assert (Hxy : x = y).
    { pose proof (H x) as H1. pose proof (H y) as H2. rewrite !memN_cons, N.eqb_refl in H1, H2. cbn [orb] in H1, H2.
      symmetry in H1. apply orb_true_iff in H1, H2.
      destruct (N.eq_dec x y) as [E|Ne]; [exact E|exfalso].
      destruct H1 as [H1|H1]; [apply N.eqb_eq in H1; contradiction|].
      destruct H2 as [H2|H2]; [apply N.eqb_eq in H2; congruence|].
      apply memN_true_iff in H1, H2. rewrite Forall_forall in Hxa, Hyb. specialize (Hxa y H2). specialize (Hyb x H1). lia. }
    subst y. f_equal. apply IH; [exact Ha'|exact Hb'|]. intros k. pose proof (H k) as Hk. rewrite !memN_cons in Hk.
    assert (E1 : memN x a = false) by (apply memN_false_iff; eapply Forall_impl; [|exact Hxa]; cbn; intros; lia).
    assert (E2 : memN x b = false) by (apply memN_false_iff; eapply Forall_impl; [|exact Hyb]; cbn; intros; lia).
    destruct (N.eq_dec k x) as [Ek|Hne]; [rewrite Ek, E1, E2; reflexivity|].
    destruct (N.eqb_spec k x); [contradiction|exact Hk].
Qed.

(* ---------------------------------------------------------------------------------------- *)
(* the triangles dropped by the two calls, translated back, are those the union drops *)

Lemma del_pos_from_pos_where idx : forall tris pos,
  del_pos_from pos idx tris = pos_where (fun t => negb (tri_survives idx t)) pos tris.
Proof.
  induction tris as [|t tris IH]; intros pos; cbn [del_pos_from pos_where]; [reflexivity|].
  rewrite IH. destruct (tri_survives idx t); reflexivity.
Qed.

Theorem del_pos_union idx1 idx2 n tris : forallb (tri_lt n) tris = true ->
  del_pos (union2 idx1 idx2 n) tris = union2 (del_pos idx1 tris) (del_pos idx2 (tris_spec idx1 tris)) (vlen tris).
Proof.
  intros Hall. apply sorted_lt_ext; [apply del_pos_from_sorted|apply union2_sorted|]. intros k.
  destruct (N.ltb_spec k (vlen tris)) as [Hk|Hk].
  - rewrite memN_union2 by exact Hk. unfold del_pos. rewrite !del_pos_from_pos_where.
    assert (Et : tris_spec idx1 tris = map (remap_tri idx1) (filter (fun y => negb (negb (tri_survives idx1 y))) tris)).
    { unfold tris_spec. f_equal. apply filter_ext. intros t. rewrite negb_involutive. reflexivity. }
    rewrite Et. rewrite (gone2_pos_where (fun t => negb (tri_survives idx1 t)) (remap_tri idx1)
                            (fun t => negb (tri_survives idx2 t)) tris k Hk).
    f_equal. apply pos_where_ext. intros t Ht. rewrite forallb_forall in Hall.
    rewrite (tri_survives_twice idx1 idx2 n t (Hall t Ht)). rewrite negb_andb. reflexivity.
  - assert (E1 : memN k (del_pos (union2 idx1 idx2 n) tris) = false).
    { unfold del_pos. rewrite del_pos_from_pos_where. apply memN_pos_where_out. exact Hk. }
    assert (E2 : memN k (union2 (del_pos idx1 tris) (del_pos idx2 (tris_spec idx1 tris)) (vlen tris)) = false).
    { apply memN_false_iff. eapply Forall_impl; [|apply union2_lt]. cbn. intros; lia. }
    rewrite E1, E2. reflexivity.
Qed.

(* ---------------------------------------------------------------------------------------- *)
(* counting dropped triangles in a range *)

Lemma filter_rev_length {A} (f : A -> bool) (l : list A) : length (filter f (rev l)) = length (filter f l).
Proof.
  induction l as [|x l IH]; [reflexivity|]. cbn [rev filter]. rewrite filter_app, app_length, IH.
  cbn [filter]. destruct (f x); cbn [length]; lia.
Qed.

Lemma count_in_rev D a b : count_in (rev D) a b = count_in D a b.
Proof. unfold count_in, vlen. rewrite filter_rev_length. reflexivity. Qed.

Lemma count_in_empty D a : count_in D a a = 0.
Proof.
  unfold count_in, vlen. induction D as [|d D IH]; [reflexivity|]. cbn [filter].
  destruct (N.leb_spec a d), (N.ltb_spec d a); cbn [andb]; try exact IH. lia.
Qed.

Lemma count_in_one D b : NoDup D -> count_in D b (b + 1) = if memN b D then 1 else 0.
Proof.
  unfold count_in, vlen. induction 1 as [|d D Hnin Hnd IH]; [reflexivity|]. cbn [filter]. rewrite memN_cons.
  destruct (N.eqb_spec b d) as [->|Hne]; cbn [orb].
  - destruct (N.leb_spec d d); [|lia]. destruct (N.ltb_spec d (d + 1)); [|lia]. cbn [andb length].
    assert (Hm : memN d D = false) by (apply memN_false_iff; apply Forall_forall; intros x Hx ->; contradiction).
    rewrite Hm in IH. lia.
  - destruct (N.leb_spec b d), (N.ltb_spec d (b + 1)); cbn [andb]; try exact IH. lia.
Qed.

Lemma count_in_succ D a b : NoDup D -> a <= b -> count_in D a (b + 1) = count_in D a b + (if memN b D then 1 else 0).
Proof. intros Hnd Hab. rewrite (count_in_split D a b (b + 1)) by lia. rewrite count_in_one by exact Hnd. reflexivity. Qed.

Lemma rank_count D a : NoDup D -> rank D a = a - count_in D 0 a.
Proof.
  intros Hnd. pose proof (GeomBase.rank_cnt D a Hnd) as H.
  assert (E : cnt_below D a = count_in D 0 a).
  { unfold cnt_below, count_in. f_equal. apply filter_ext. intros k. destruct (N.leb_spec 0 k); [reflexivity|lia]. }
  rewrite E in H. lia.
Qed.

Theorem count_in_union2 D1 D2 n a : NoDup D1 -> NoDup D2 -> forall b, a <= b -> b <= n ->
  count_in (union2 D1 D2 n) a b = count_in D1 a b + count_in D2 (rank D1 a) (rank D1 b).
Proof.
  intros Hn1 Hn2. assert (HnU : NoDup (union2 D1 D2 n)) by (apply sorted_lt_nodup; apply union2_sorted).
  induction b as [|b IH] using N.peano_ind; intros Hab Hbn.
  - assert (a = 0) by lia. subst a. rewrite !count_in_empty. reflexivity.
  - destruct (N.eq_dec a (N.succ b)) as [->|Hne]; [rewrite !count_in_empty; reflexivity|].
    replace (N.succ b) with (b + 1) by lia.
    rewrite (count_in_succ _ a b HnU) by lia. rewrite (count_in_succ D1 a b Hn1) by lia.
    rewrite IH by lia. rewrite memN_union2 by lia. unfold gone2. rewrite rank_succ.
    pose proof (GeomBase.rank_mono D1 a b ltac:(lia)) as Hm.
    destruct (memN b D1); cbn [orb].
    + rewrite N.add_0_r. lia.
    + rewrite (count_in_succ D2 _ _ Hn2) by exact Hm. destruct (memN (rank D1 b) D2); lia.
Qed.

(* ---------------------------------------------------------------------------------------- *)
(* the re-fit, twice *)

Section RefitTwice.
  Variables D1 D2 Du : list N.          (* deletedTris of the first call, the second call, the union call *)
  Variable E : N.                       (* number of triangles before the first call *)
  Hypothesis Hd1 : StronglySorted (fun a b => b < a) D1.
  Hypothesis Hd2 : StronglySorted (fun a b => b < a) D2.
  Hypothesis Hdu : StronglySorted (fun a b => b < a) Du.
  Hypothesis Hn1 : NoDup D1.
  Hypothesis Hn2 : NoDup D2.
  Hypothesis HE : 3 * E < 4294967296.
  (* the union drops in [a, b) what the first call drops there plus what the second call drops in
     the range [a, b) has become *)
  Hypothesis Hadd : forall a b, a <= b -> b <= E ->
    count_in Du a b = count_in D1 a b + count_in D2 (a - count_in D1 0 a) (b - count_in D1 0 b).

  Let c1 := count_in D1.

  (* the number a range of n triangles starting at triangle p ends up with, both ways *)
  Lemma shrink_twice p n : p + n <= E ->
    let q := p - c1 0 p in
    let n1 := shrink_count D1 (3 * p) n in
    n1 = n - c1 p (p + n) /\ q + n1 = (p + n) - c1 0 (p + n) /\ q <= p /\ n1 <= n /\
    shrink_count D2 (3 * q) n1 = shrink_count Du (3 * p) n.
  Proof.
    intros Hpn q n1.
    pose proof (count_in_bound D1 0 p Hn1) as Hb0. pose proof (count_in_bound D1 p (p + n) Hn1) as Hb1.
    pose proof (count_in_split D1 0 p (p + n) ltac:(lia) ltac:(lia)) as Hsp. fold c1 in Hb0, Hb1, Hsp.
    assert (En1 : n1 = n - c1 p (p + n)) by (unfold n1; apply shrink_count_tile; [exact Hd1|lia|lia]).
    assert (Eq : q + n1 = (p + n) - c1 0 (p + n)) by (unfold q; rewrite En1; lia).
    split; [exact En1|]. split; [exact Eq|]. split; [unfold q; lia|]. split; [lia|].
    rewrite (shrink_count_tile D2 Hd2 q n1) by (unfold q; lia).
    rewrite (shrink_count_tile Du Hdu p n) by lia.
    rewrite (Hadd p (p + n)) by lia. fold c1. fold q. rewrite <- Eq. rewrite En1. lia.
  Qed.

  Lemma sse_shrink_mk D a b : sse_shrink D (mkSsegd a b) = mkSsegd a (shrink_count D a b).
  Proof. reflexivity. Qed.
  Lemma shrink_sub_mk D a b : shrink_sub D (mkSubseg a b) = mkSubseg a (shrink_count D a b).
  Proof. reflexivity. Qed.

  (* ---- SSE segment list ---- *)
  Lemma layout_sse_nums : forall X Y st, map sd_num X = map sd_num Y -> layout_sse st X = layout_sse st Y.
  Proof.
    induction X as [|x X IH]; intros [|y Y] st H; cbn [map] in H; try discriminate; [reflexivity|].
    inversion H as [[Hn Hr]]. cbn [layout_sse]. rewrite Hn. f_equal. apply IH. exact Hr.
  Qed.

  Lemma sse_twice_nums : forall p segs e, sse_tile p segs e -> e <= E ->
    map sd_num (map (sse_shrink D2) (layout_sse (3 * (p - c1 0 p)) (map (sse_shrink D1) segs))) =
    map sd_num (map (sse_shrink Du) segs).
  Proof.
    induction 1 as [p|p s r e Hs Hr IH]; intros He; [reflexivity|].
    pose proof (sse_tile_le _ _ _ Hr) as Hle.
    destruct (shrink_twice p (sd_num s) ltac:(lia)) as (En1 & Eq & Hq & Hn1le & Esh). cbv zeta in *.
    cbn [map layout_sse].
    change (sse_shrink D1 s) with (mkSsegd (sd_index s) (shrink_count D1 (sd_index s) (sd_num s))).
    change (sse_shrink Du s) with (mkSsegd (sd_index s) (shrink_count Du (sd_index s) (sd_num s))).
    cbn [sd_index sd_num]. rewrite sse_shrink_mk. cbn [sd_num].
    rewrite Hs. rewrite Esh. apply (f_equal (fun x => _ :: x)).
    rewrite wrap32_small by lia.
    replace (3 * (p - c1 0 p) + shrink_count D1 (3 * p) (sd_num s) * 3)
      with (3 * (p - c1 0 p + shrink_count D1 (3 * p) (sd_num s))) by lia.
    rewrite Eq. apply IH. exact He.
  Qed.

  (* ---- FO4 sub-segments ---- *)
  Lemma layout_subs_nums : forall X Y st, map ss_num X = map ss_num Y -> layout_subs st X = layout_subs st Y.
  Proof.
    induction X as [|x X IH]; intros [|y Y] st H; cbn [map] in H; try discriminate; [reflexivity|].
    inversion H as [[Hn Hr]]. cbn [layout_subs]. rewrite Hn. f_equal. apply IH. exact Hr.
  Qed.

  Lemma seg_own_nums : forall X Y n, map ss_num X = map ss_num Y -> seg_own n X = seg_own n Y.
  Proof.
    unfold seg_own. induction X as [|x X IH]; intros [|y Y] n H; cbn [map] in H; try discriminate; [reflexivity|].
    inversion H as [[Hn Hr]]. cbn [fold_left]. rewrite Hn. apply IH. exact Hr.
  Qed.

  Lemma subs_twice_nums : forall p subs e, subs_tile p subs e -> e <= E ->
    map ss_num (map (shrink_sub D2) (layout_subs (3 * (p - c1 0 p)) (map (shrink_sub D1) subs))) =
    map ss_num (map (shrink_sub Du) subs).
  Proof.
    induction 1 as [p|p s r e Hs Hr IH]; intros He; [reflexivity|].
    pose proof (subs_tile_le _ _ _ Hr) as Hle.
    destruct (shrink_twice p (ss_num s) ltac:(lia)) as (En1 & Eq & Hq & Hn1le & Esh). cbv zeta in *.
    cbn [map layout_subs].
    change (shrink_sub D1 s) with (mkSubseg (ss_start s) (shrink_count D1 (ss_start s) (ss_num s))).
    change (shrink_sub Du s) with (mkSubseg (ss_start s) (shrink_count Du (ss_start s) (ss_num s))).
    cbn [ss_start ss_num]. rewrite shrink_sub_mk. cbn [ss_num].
    rewrite Hs. rewrite Esh. apply (f_equal (fun x => _ :: x)).
    rewrite wrap32_small by lia.
    replace (3 * (p - c1 0 p) + shrink_count D1 (3 * p) (ss_num s) * 3)
      with (3 * (p - c1 0 p + shrink_count D1 (3 * p) (ss_num s))) by lia.
    rewrite Eq. apply IH. exact He.
  Qed.

  (* ---- FO4 segments ---- *)
  Definition same_shape (x y : seg) : Prop :=
    sg_num x = sg_num y /\ sg_nsub x = sg_nsub y /\ map ss_num (sg_subs x) = map ss_num (sg_subs y).

  Lemma layout_segs_shape : forall X Y st, Forall2 same_shape X Y -> layout_segs st X = layout_segs st Y.
  Proof.
    intros X Y st H. revert st. induction H as [|x y X Y (Hn & Hs & Hsub) _ IH]; intros st; [reflexivity|].
    cbn [layout_segs]. rewrite Hn, Hs, (seg_own_nums _ _ _ Hsub), (layout_subs_nums _ _ _ Hsub). f_equal. apply IH.
  Qed.

  Lemma seg_shrink_eq D s :
    seg_shrink D s = mkSeg (sg_start s) (shrink_count D (sg_start s) (sg_num s)) (sg_nsub s) (map (shrink_sub D) (sg_subs s)).
  Proof. reflexivity. Qed.

  (* what the first re-fit leaves of the triangles a segment owns itself *)
  Lemma seg_own_after p s : seg_tile p s -> p + sg_num s <= E ->
    exists own, own <= sg_num s /\ subs_tile (p + own) (sg_subs s) (p + sg_num s) /\
      seg_own (shrink_count D1 (3 * p) (sg_num s)) (map (shrink_sub D1) (sg_subs s)) = own - c1 p (p + own).
  Proof.
    intros (Hst & Hns & own & Hown & Hsubs) Hb. exists own. split; [exact Hown|]. split; [exact Hsubs|].
    pose proof (count_in_split D1 p (p + own) (p + sg_num s) ltac:(lia) ltac:(lia)) as Hsp.
    pose proof (count_in_bound D1 p (p + own) Hn1) as Hb1.
    pose proof (count_in_bound D1 (p + own) (p + sg_num s) Hn1) as Hb2. fold c1 in Hsp, Hb1, Hb2.
    assert (Hsum : sum_nums (map (shrink_sub D1) (sg_subs s)) = (sg_num s - own) - c1 (p + own) (p + sg_num s)).
    { pose proof (refit_subs D1 Hd1 Hn1 _ _ _ Hsubs 0 ltac:(lia) ltac:(lia)) as Ht.
      apply subs_tile_sum in Ht. rewrite layout_subs_sum in Ht. fold c1 in Ht. lia. }
    rewrite (shrink_count_tile D1 Hd1 p (sg_num s)) by lia. fold c1.
    rewrite seg_own_ok by lia. lia.
  Qed.

  Lemma segs_twice_shape : forall p segs e, segs_tile p segs e -> e <= E ->
    Forall2 same_shape (map (seg_shrink D2) (layout_segs (3 * (p - c1 0 p)) (map (seg_shrink D1) segs)))
                       (map (seg_shrink Du) segs).
  Proof.
    induction 1 as [p|p s r e Hs Hr IH]; intros He; [constructor|].
    pose proof (segs_tile_le _ _ _ Hr) as Hle.
    destruct (shrink_twice p (sg_num s) ltac:(lia)) as (En1 & Eq & Hq & Hn1le & Esh). cbv zeta in *.
    destruct (seg_own_after p s Hs ltac:(lia)) as (own & Hown & Hsubs & Eown).
    pose proof Hs as (Hst & _).
    cbn [map layout_segs]. rewrite (seg_shrink_eq D1 s), (seg_shrink_eq Du s). cbn [sg_start sg_num sg_nsub sg_subs].
    rewrite seg_shrink_eq. cbn [sg_start sg_num sg_nsub sg_subs]. rewrite Hst.
    constructor.
    - unfold same_shape. cbn [sg_num sg_nsub sg_subs].
      split; [exact Esh|]. split; [reflexivity|]. rewrite Eown.
      pose proof (count_in_bound D1 0 p Hn1) as Hb0. pose proof (count_in_bound D1 p (p + own) Hn1) as Hb1.
      pose proof (count_in_split D1 0 p (p + own) ltac:(lia) ltac:(lia)) as Hsp. fold c1 in Hb0, Hb1, Hsp.
      rewrite wrap32_small by lia.
      replace (3 * (p - c1 0 p) + (own - c1 p (p + own)) * 3) with (3 * ((p + own) - c1 0 (p + own))) by lia.
      apply (subs_twice_nums _ _ _ Hsubs). lia.
    - rewrite wrap32_small by lia.
      replace (3 * (p - c1 0 p) + shrink_count D1 (3 * p) (sg_num s) * 3)
        with (3 * (p - c1 0 p + shrink_count D1 (3 * p) (sg_num s))) by lia.
      rewrite Eq. apply IH. exact He.
  Qed.

  Lemma sse_refit_spec_cons D s r : sse_refit_spec D (s :: r) = layout_sse (sd_index s) (map (sse_shrink D) (s :: r)).
  Proof. reflexivity. Qed.

  Theorem sse_refit_twice_gen segs : sse_tile 0 segs E ->
    sse_refit_spec D2 (sse_refit_spec D1 segs) = sse_refit_spec Du segs.
  Proof.
    intros Ht. destruct segs as [|s r]; [reflexivity|].
    assert (Hs0 : sd_index s = 0) by (inversion Ht; subst; lia).
    pose proof (sse_twice_nums 0 (s :: r) E Ht ltac:(lia)) as Hn. unfold c1 in Hn. rewrite count_in_empty in Hn.
    change (3 * (0 - 0)) with 0 in Hn.
    rewrite (sse_refit_spec_cons D1), (sse_refit_spec_cons Du), Hs0.
    assert (Ec : exists x X, layout_sse 0 (map (sse_shrink D1) (s :: r)) = x :: X /\ sd_index x = 0).
    { eexists. eexists. cbn [map layout_sse]. split; reflexivity. }
    destruct Ec as (x & X & Ex & Hx0). rewrite Ex in Hn |- *. rewrite (sse_refit_spec_cons D2), Hx0.
    apply layout_sse_nums. exact Hn.
  Qed.

  Lemma segs_refit_spec_cons D s r : segs_refit_spec D (s :: r) = layout_segs (sg_start s) (map (seg_shrink D) (s :: r)).
  Proof. reflexivity. Qed.

  Theorem segs_refit_twice_gen segs : segs_tile 0 segs E ->
    segs_refit_spec D2 (segs_refit_spec D1 segs) = segs_refit_spec Du segs.
  Proof.
    intros Ht. destruct segs as [|s r]; [reflexivity|].
    assert (Hs0 : sg_start s = 0) by (inversion Ht as [|? ? ? ? (Hst & _) _]; subst; lia).
    pose proof (segs_twice_shape 0 (s :: r) E Ht ltac:(lia)) as Hn. unfold c1 in Hn. rewrite count_in_empty in Hn.
    change (3 * (0 - 0)) with 0 in Hn.
    rewrite (segs_refit_spec_cons D1), (segs_refit_spec_cons Du), Hs0.
    assert (Ec : exists x X, layout_segs 0 (map (seg_shrink D1) (s :: r)) = x :: X /\ sg_start x = 0).
    { eexists. eexists. cbn [map layout_segs]. split; reflexivity. }
    destruct Ec as (x & X & Ex & Hx0). rewrite Ex in Hn |- *. rewrite (segs_refit_spec_cons D2), Hx0.
    apply layout_segs_shape. exact Hn.
  Qed.
End RefitTwice.

(* ---------------------------------------------------------------------------------------- *)
(* instantiated with the triangles the calls drop *)

Section Deletions.
  Variables idx1 idx2 : list N.
  Variable n : N.
  Variable tris : list tri.
  Hypothesis Hlt : forallb (tri_lt n) tris = true.
  Hypothesis Hb : 3 * vlen tris < 4294967296.

  Let P1 := del_pos idx1 tris.
  Let P2 := del_pos idx2 (tris_spec idx1 tris).
  Let Pu := del_pos (union2 idx1 idx2 n) tris.

  Lemma rev_del_pos_desc idx t : StronglySorted (fun a b => b < a) (rev (del_pos idx t)).
  Proof. apply rev_sorted_desc. apply del_pos_from_sorted. Qed.

  Lemma del_pos_nodup idx t : NoDup (del_pos idx t).
  Proof. apply sorted_lt_nodup. apply del_pos_from_sorted. Qed.

  Lemma del_count_add a b : a <= b -> b <= vlen tris ->
    count_in (rev Pu) a b = count_in (rev P1) a b + count_in (rev P2) (a - count_in (rev P1) 0 a) (b - count_in (rev P1) 0 b).
  Proof.
    intros Hab Hbn. rewrite !count_in_rev. unfold Pu. rewrite (del_pos_union idx1 idx2 n tris Hlt). fold P1 P2.
    rewrite (count_in_union2 P1 P2 (vlen tris) a (del_pos_nodup _ _) (del_pos_nodup _ _) b Hab Hbn).
    rewrite !(rank_count P1) by apply del_pos_nodup. reflexivity.
  Qed.

  Theorem sse_refit_twice segs : sse_tile 0 segs (vlen tris) ->
    sse_refit_spec (rev P2) (sse_refit_spec (rev P1) segs) = sse_refit_spec (rev Pu) segs.
  Proof.
    apply (sse_refit_twice_gen (rev P1) (rev P2) (rev Pu) (vlen tris)); try apply rev_del_pos_desc.
    - apply NoDup_rev. apply del_pos_nodup.
    - exact Hb.
    - exact del_count_add.
  Qed.

  Theorem segs_refit_twice segs : segs_tile 0 segs (vlen tris) ->
    segs_refit_spec (rev P2) (segs_refit_spec (rev P1) segs) = segs_refit_spec (rev Pu) segs.
  Proof.
    apply (segs_refit_twice_gen (rev P1) (rev P2) (rev Pu) (vlen tris)); try apply rev_del_pos_desc.
    - apply NoDup_rev. apply del_pos_nodup.
    - exact Hb.
    - exact del_count_add.
  Qed.

  Lemma del_pos_len idx t : vlen (rev (del_pos idx t)) + vlen (tris_spec idx t) = vlen t.
  Proof. pose proof (del_pos_count idx t 0) as H. unfold vlen, del_pos. rewrite rev_length. lia. Qed.

  Lemma dropped_add : vlen (rev Pu) = vlen (rev P1) + vlen (rev P2) /\ vlen (rev P1) + vlen (rev P2) <= vlen tris.
  Proof.
    pose proof (del_pos_len (union2 idx1 idx2 n) tris) as Hu. pose proof (del_pos_len idx1 tris) as H1.
    pose proof (del_pos_len idx2 (tris_spec idx1 tris)) as H2. rewrite (tris_spec_twice idx1 idx2 n tris Hlt) in H2.
    fold Pu in Hu. fold P1 in H1. fold P2 in H2. lia.
  Qed.

  (* numPrimitives: two subtractions modulo 2^32 = one *)
  Lemma nprim_twice x :
    wrap32 (wrap32 (x + 4294967296 - wrap32 (vlen (rev P1))) + 4294967296 - wrap32 (vlen (rev P2))) =
    wrap32 (x + 4294967296 - wrap32 (vlen (rev Pu))).
  Proof.
    destruct dropped_add as [Hu Hle]. set (a := vlen (rev P1)) in *. set (b := vlen (rev P2)) in *. rewrite Hu.
    rewrite (wrap32_small a), (wrap32_small b), (wrap32_small (a + b)) by lia.
    unfold wrap32, wrapN. change (2 ^ 32) with 4294967296.
    replace ((x + 4294967296 - a) mod 4294967296 + 4294967296 - b)
      with ((x + 4294967296 - a) mod 4294967296 + (4294967296 - b)) by lia.
    rewrite N.add_mod_idemp_l by lia.
    replace (x + 4294967296 - a + (4294967296 - b)) with (x + 4294967296 - (a + b) + 1 * 4294967296) by lia.
    apply N.mod_add. lia.
  Qed.
End Deletions.

(* tables that are empty or tile the triangle list from triangle 0 *)
Definition seg_tables_tiled (b : bsshape) : Prop :=
  (sn_segs (bs_segn b) = [] \/ segs_tile 0 (sn_segs (bs_segn b)) (bs_nt b)) /\
  (bs_sse b = [] \/ sse_tile 0 (bs_sse b) (bs_nt b)).

Theorem bs_sits_spec_twice b idx1 idx2 : bs_core_wf b = true -> 3 * bs_nt b < 4294967296 -> seg_tables_tiled b ->
  bs_forget_deleted (bs_sits_spec (bs_sits_spec b idx1) idx2) =
  bs_forget_deleted (bs_sits_spec b (union2 idx1 idx2 (vlen (bs_vdata b)))).
Proof.
  intros Hwf Hb [Hsegs Hsse]. unfold bs_core_wf in Hwf. repeat (apply andb_prop in Hwf; destruct Hwf as [Hwf ?]).
  apply N.eqb_eq in H2. rename H0 into Hlt. rewrite H2 in Hb, Hsegs, Hsse.
  set (n := vlen (bs_vdata b)) in *.
  unfold bs_forget_deleted, bs_sits_spec, bs_set_segs, bs_base_spec, segn_refit_spec.
  cbn [bs_kind bs_nv bs_vdata bs_nt bs_tris bs_deleted bs_dyn bs_dynsize bs_lod0 bs_lod1 bs_lod2 bs_segn bs_ssen bs_sse
       sn_nprim sn_nseg sn_ntotal sn_segs sn_sub_nseg sn_sub_ntotal sn_arrayidx sn_recs sn_ssf].
  rewrite (tris_spec_twice idx1 idx2 n) by exact Hlt.
  rewrite (erase_spec_twice (bs_vdata b) idx1 idx2). fold n.
  rewrite (nprim_twice idx1 idx2 n (bs_tris b) Hlt Hb).
  assert (Esse : sse_refit_spec (rev (del_pos idx2 (tris_spec idx1 (bs_tris b)))) (sse_refit_spec (rev (del_pos idx1 (bs_tris b))) (bs_sse b))
                 = sse_refit_spec (rev (del_pos (union2 idx1 idx2 n) (bs_tris b))) (bs_sse b)).
  { destruct Hsse as [E|Ht]; [rewrite E; reflexivity|]. apply sse_refit_twice; assumption. }
  assert (Esegs : segs_refit_spec (rev (del_pos idx2 (tris_spec idx1 (bs_tris b)))) (segs_refit_spec (rev (del_pos idx1 (bs_tris b))) (sn_segs (bs_segn b)))
                 = segs_refit_spec (rev (del_pos (union2 idx1 idx2 n) (bs_tris b))) (sn_segs (bs_segn b))).
  { destruct Hsegs as [E|Ht]; [rewrite E; reflexivity|]. apply segs_refit_twice; assumption. }
  rewrite Esse, Esegs. reflexivity.
Qed.

(* the tiling is kept by a deletion (C17), so the law extends to any number of calls *)
Lemma seg_tables_tiled_kept b idx : bs_core_wf b = true -> 3 * bs_nt b < 4294967296 -> seg_tables_tiled b ->
  seg_tables_tiled (bs_sits_spec b idx).
Proof.
  intros Hwf Hb [Hsegs Hsse]. unfold bs_core_wf in Hwf. repeat (apply andb_prop in Hwf; destruct Hwf as [Hwf ?]).
  apply N.eqb_eq in H2. rewrite H2 in Hb, Hsegs, Hsse.
  unfold seg_tables_tiled, bs_sits_spec, bs_set_segs, bs_base_spec, segn_refit_spec.
  cbn [bs_nt bs_tris bs_deleted bs_segn bs_sse sn_segs]. split.
  - destruct Hsegs as [E|Ht]; [left; rewrite E; reflexivity|right; apply refit_keeps_ranges; assumption].
  - destruct Hsse as [E|Ht]; [left; rewrite E; reflexivity|right; apply sse_refit_keeps_ranges; assumption].
Qed.

(* DeleteVertsForShape as a whole, BSSubIndexTriShape with tiled tables included *)
Theorem shape_spec_twice_tiled idx1 idx2 s : shape_wf s = true ->
  (forall b, sh_bs s = Some b -> bs_kind b = BSSubIndex -> 3 * bs_nt b < 4294967296 /\ seg_tables_tiled b) ->
  shape_view bs_forget_deleted (shape_spec idx2 (shape_spec idx1 s)) =
  shape_view bs_forget_deleted (shape_spec (union2 idx1 idx2 (shape_nv s)) s).
Proof.
  intros Hwf Hk. apply shape_spec_twice_gen; [exact Hwf|]. intros b Hb Hcore.
  assert (Hdec : bs_kind b = BSSubIndex \/ bs_kind b <> BSSubIndex) by (destruct (bs_kind b); (left; reflexivity) || (right; discriminate)).
  destruct Hdec as [Ek|Ek].
  - destruct (Hk b Hb Ek) as [H3 Ht]. unfold bs_spec at 1. rewrite bs_spec_kind. unfold bs_spec. rewrite Ek.
    apply bs_sits_spec_twice; assumption.
  - apply bs_spec_twice; assumption.
Qed.

(* ---------------------------------------------------------------------------------------- *)
(* without the tiling the law is false: 7 vertices, triangles (0,1,2) (3,4,5) (3,4,6), one SSE segment
   covering triangles 1..2 (index 3, 2 triangles; counters consistent). Deleting vertex 0 drops
   triangle 0 and leaves the segment at index 3; deleting vertex 4 of the result (old vertex 5) drops
   old triangle 1, which now has position 0 - outside the stale range: numTris stays 2. The union
   {0, 5} in one call sees triangle 1 inside the range: numTris 1. *)
Definition sits_wit : bsshape :=
  mkBs BSSubIndex 7 [10; 11; 12; 13; 14; 15; 16] 3 [(0, 1, 2); (3, 4, 5); (3, 4, 6)] [] [] 0 0 0 0 segn_none 1 [mkSsegd 3 2].

Theorem bs_sits_twice_refuted :
  bs_core_wf sits_wit = true /\ seg_tables_wf sits_wit = true /\ union2 [0] [4] 7 = [0; 5] /\
  exists b1 b2 bu, bs_delete sits_wit [0] = Ok b1 /\ bs_delete b1 [4] = Ok b2 /\ bs_delete sits_wit [0; 5] = Ok bu /\
    bs_tris b2 = bs_tris bu /\ bs_sse b2 = [mkSsegd 3 2] /\ bs_sse bu = [mkSsegd 3 1].
Proof.
  split; [vm_compute; reflexivity|]. split; [vm_compute; reflexivity|]. split; [vm_compute; reflexivity|].
  eexists. eexists. eexists. split; [vm_compute; reflexivity|]. split; [vm_compute; reflexivity|].
  split; [vm_compute; reflexivity|]. split; [vm_compute; reflexivity|]. split; vm_compute; reflexivity.
Qed.
