(* SetSegmentation / GetSegmentation / ReorderTriangles (Geom/SegModel.v): the stored triangles
   are a permutation of the given ones; the range tables tile the triangle list; reading the
   segmentation back returns the renumbered labels. *)
From NiflyVerif Require Import Res UtilModel UtilSpec CompactProofs EraseProofs GeomModel SegModel GeomBase
  GeomSpec GeomProofs SegSort.
From Coq Require Import ZifyBool ZifyNat ZifyN Sorted Permutation.
Local Open Scope N_scope.

(* ---------------------------------------------------------------------------------------- *)
(* small list facts *)

Lemma mapM_length {A B} (f : A -> res B) : forall l r, mapM f l = Ok r -> length r = length l.
Proof.
  induction l as [|x l IH]; intros r H; cbn [mapM] in H.
  - inversion H. reflexivity.
  - destruct (f x) as [y| |]; cbn [bind] in H; try discriminate.
    destruct (mapM f l) as [ys| |]; cbn [bind] in H; try discriminate.
    inversion H; subst. cbn [length]. f_equal. apply IH. reflexivity.
Qed.

Lemma mapM_forall2 {A B} (f : A -> res B) : forall l r, mapM f l = Ok r -> Forall2 (fun x y => f x = Ok y) l r.
Proof.
  induction l as [|x l IH]; intros r H; cbn [mapM] in H.
  - inversion H. constructor.
  - destruct (f x) as [y| |] eqn:Hy; cbn [bind] in H; try discriminate.
    destruct (mapM f l) as [ys| |]; cbn [bind] in H; try discriminate.
    inversion H; subst. constructor; [exact Hy|]. apply IH. reflexivity.
Qed.

Lemma nseq_length n : length (nseq n) = N.to_nat n.
Proof. unfold nseq. rewrite map_length, seq_length. reflexivity. Qed.

Lemma map_fst_combine {A B} : forall (a : list A) (b : list B), length a = length b -> map fst (combine a b) = a.
Proof.
  induction a as [|x a IH]; intros [|y b] H; cbn in *; try reflexivity; try discriminate.
  f_equal. apply IH. lia.
Qed.

Lemma map_snd_combine {A B} : forall (a : list A) (b : list B), length a = length b -> map snd (combine a b) = b.
Proof.
  induction a as [|x a IH]; intros [|y b] H; cbn in *; try reflexivity; try discriminate.
  f_equal. apply IH. lia.
Qed.

(* (i, keys[i]) pairs: looking the index up in keys gives the key back *)
Lemma combine_seq_vget (keys : list Z) : forall start,
  Forall (fun p => nth_error keys (N.to_nat (fst p) - start) = Some (snd p) /\ (start <= N.to_nat (fst p))%nat)
         (combine (map N.of_nat (seq start (length keys))) keys).
Proof.
  induction keys as [|k keys IH]; intros start; cbn [length seq map combine]; [constructor|].
  constructor.
  - cbn [fst snd]. rewrite Nat2N.id, Nat.sub_diag. split; [reflexivity|lia].
  - specialize (IH (S start)). eapply Forall_impl; [|exact IH]. cbn beta. intros [i k0] [H1 H2]. cbn [fst snd] in *.
    split; [|lia]. replace (N.to_nat i - start)%nat with (S (N.to_nat i - S start)) by lia. exact H1.
Qed.

Lemma combine_nseq_vget (keys : list Z) nt : N.to_nat nt = length keys ->
  Forall (fun p => vget keys (fst p) = Some (snd p)) (combine (nseq nt) keys).
Proof.
  intros H. unfold nseq. rewrite H. eapply Forall_impl; [|apply (combine_seq_vget keys 0)].
  cbn beta. intros p [H1 _]. unfold vget. rewrite Nat.sub_0_r in H1. exact H1.
Qed.

(* ---------------------------------------------------------------------------------------- *)
(* the sorted index list *)

Section Sorted.
  Variable nt : N.
  Variable keys : list Z.
  Hypothesis Hlen : N.to_nat nt = length keys.

  Let sorted := stable_sort (combine (nseq nt) keys).

  Lemma sorted_inds_perm : Permutation (map fst sorted) (nseq nt).
  Proof.
    unfold sorted. rewrite (Permutation_map fst (stable_sort_perm _)).
    rewrite map_fst_combine; [reflexivity|]. rewrite nseq_length. exact Hlen.
  Qed.

  Lemma sorted_keys_perm : Permutation (map snd sorted) keys.
  Proof.
    unfold sorted. rewrite (Permutation_map snd (stable_sort_perm _)).
    rewrite map_snd_combine; [reflexivity|]. rewrite nseq_length. exact Hlen.
  Qed.

  Lemma sorted_keys_sorted : StronglySorted Z.le (map snd sorted).
  Proof.
    unfold sorted. pose proof (stable_sort_sorted (combine (nseq nt) keys)) as H.
    induction H as [|x l Hs IH Hall]; [constructor|]. cbn [map]. constructor; [exact IH|].
    apply Forall_map. exact Hall.
  Qed.

  Lemma sorted_lookup : mapM (fun ix => match vget keys ix with None => Fault | Some k => Ok k end)
                             (map fst sorted) = Ok (map snd sorted).
  Proof.
    assert (H : Forall (fun p => vget keys (fst p) = Some (snd p)) sorted).
    { eapply Permutation_Forall; [symmetry; apply stable_sort_perm|]. apply combine_nseq_vget. exact Hlen. }
    induction H as [|p l Hp Hall IH]; [reflexivity|].
    cbn [map mapM]. rewrite Hp. cbn [bind]. rewrite IH. reflexivity.
  Qed.

  Lemma sorted_length : length sorted = N.to_nat nt.
  Proof.
    unfold sorted. rewrite (Permutation_length (stable_sort_perm _)).
    rewrite combine_length, nseq_length. lia.
  Qed.
End Sorted.

(* ---------------------------------------------------------------------------------------- *)
(* ReorderTriangles with a permutation of 0..n-1 *)

Lemma flat_map_vget_nseq {A} (l : list A) :
  flat_map (fun id => match vget l id with Some t => [t] | None => [] end) (nseq (vlen l)) = l.
Proof.
  unfold nseq, vlen. rewrite Nat2N.id.
  assert (H : forall pre, flat_map (fun id => match vget (pre ++ l) id with Some t => [t] | None => [] end)
                                   (map N.of_nat (seq (length pre) (length l))) = l).
  { induction l as [|x l IH]; intros pre; [reflexivity|]. cbn [length seq map flat_map].
    unfold vget at 1. rewrite Nat2N.id. rewrite nth_error_app2 by lia. rewrite Nat.sub_diag. cbn [nth_error app].
    f_equal. specialize (IH (pre ++ [x])). rewrite <- app_assoc in IH. cbn [app] in IH.
    rewrite app_length in IH. cbn [length] in IH. replace (length pre + 1)%nat with (S (length pre)) in IH by lia.
    exact IH. }
  exact (H []).
Qed.

Theorem reorder_tris_perm tris inds out : reorder_tris tris inds = Some out ->
  Permutation inds (nseq (vlen tris)) -> Permutation out tris.
Proof.
  unfold reorder_tris. intros H Hp.
  destruct (negb (vlen tris =? vlen inds)); [discriminate|].
  destruct (negb (vlen (flat_map _ inds) =? vlen tris)); [discriminate|].
  inversion H; subst.
  rewrite (Permutation_flat_map _ Hp). rewrite flat_map_vget_nseq. reflexivity.
Qed.

Lemma reorder_tris_some tris inds : Permutation inds (nseq (vlen tris)) ->
  exists out, reorder_tris tris inds = Some out.
Proof.
  intros Hp. unfold reorder_tris.
  assert (H1 : vlen tris = vlen inds).
  { unfold vlen. rewrite (Permutation_length Hp), nseq_length. unfold vlen. lia. }
  rewrite H1, N.eqb_refl. cbn [negb].
  assert (H2 : vlen (flat_map (fun id => match vget tris id with Some t => [t] | None => [] end) inds) = vlen inds).
  { unfold vlen at 1. rewrite (Permutation_length (Permutation_flat_map _ Hp)), flat_map_vget_nseq. exact H1. }
  rewrite H2, N.eqb_refl. cbn [negb]. eexists; reflexivity.
Qed.

(* ---------------------------------------------------------------------------------------- *)
(* T1: the stored triangles are a permutation of the given ones (no hypothesis at all) *)

Theorem set_segmentation_perm b inf labels b' :
  set_segmentation b inf labels = Ok b' -> Permutation (bs_tris b') (bs_tris b).
Proof.
  unfold set_segmentation. intros H.
  destruct (negb (vlen labels =? bs_nt b)) eqn:Hl; [inversion H; reflexivity|].
  apply negb_false_iff, N.eqb_eq in Hl.
  destruct (o2n_segs (inf_segs inf) [] 0%Z) as [[o2n newid]| |]; cbn [bind] in H; try discriminate.
  destruct (mapM (new_label o2n) labels) as [keys| |] eqn:Hk; cbn [bind] in H; try discriminate.
  pose proof (mapM_length _ _ _ Hk) as Hlen.
  assert (Hlen' : N.to_nat (bs_nt b) = length keys) by (rewrite <- Hl; unfold vlen; lia).
  destruct (mapM _ (map fst _)) as [skeys| |]; cbn [bind] in H; try discriminate.
  destruct (pti_for _ _ _ _) as [s1| |]; cbn [bind] in H; try discriminate.
  destruct (pti_tail _ _ _ _) as [pti| |]; cbn [bind] in H; try discriminate.
  destruct (build_segs _ _ _ _ _) as [[[[[sgs ais] recs] parent] segidx]| |]; cbn [bind] in H; try discriminate.
  inversion H; subst. cbn [bs_tris].
  destruct (reorder_tris (bs_tris b) _) as [out|] eqn:Hr; [|reflexivity].
  apply (reorder_tris_perm _ _ _ Hr).
  assert (Hv : vlen (bs_tris b) = bs_nt b).
  { unfold reorder_tris in Hr. destruct (N.eqb_spec (vlen (bs_tris b)) (vlen (map fst (stable_sort (combine (nseq (bs_nt b)) keys)))));
      [|discriminate]. rewrite e. unfold vlen. rewrite map_length, sorted_length by exact Hlen'. lia. }
  rewrite Hv. apply sorted_inds_perm. exact Hlen'.
Qed.

(* ---------------------------------------------------------------------------------------- *)
(* partTriInds: the loops compute, for every new part id p (and one past the last), the number
   of sorted keys below p *)

Lemma vset_nth_error {A} (v : list A) i x v' : vset v i x = Some v' ->
  length v' = length v /\
  forall j, nth_error v' j = if Nat.eqb j (N.to_nat i) then Some x else nth_error v j.
Proof.
  intros H. assert (Hlt : i < vlen v).
  { unfold vset in H. unfold vlen. destruct (N.ltb_spec i (N.of_nat (length v))); [assumption|discriminate]. }
  destruct (vset_spec v i x Hlt) as (v1 & Hset & Hlen & Hfst & Hsk). rewrite Hset in H. injection H as <-.
  split; [exact Hlen|].
  destruct (vget_skipn v i Hlt) as (y & _ & Hy).
  assert (Hn : (N.to_nat i < length v)%nat) by (unfold vlen in Hlt; lia).
  assert (Hf : length (firstn (N.to_nat i) v) = N.to_nat i) by (apply firstn_length_le; lia).
  assert (Hv : v = firstn (N.to_nat i) v ++ y :: skipn (S (N.to_nat i)) v).
  { rewrite <- Hy. symmetry. apply firstn_skipn. }
  assert (Hv1 : v1 = firstn (N.to_nat i) v ++ x :: skipn (S (N.to_nat i)) v).
  { rewrite <- (firstn_skipn (S (N.to_nat i)) v1). rewrite Hfst, Hsk by lia. rewrite <- app_assoc. reflexivity. }
  intros j. rewrite Hv1.
  replace (nth_error v j) with (nth_error (firstn (N.to_nat i) v ++ y :: skipn (S (N.to_nat i)) v) j) by (rewrite <- Hv; reflexivity).
  destruct (Nat.eqb_spec j (N.to_nat i)) as [->|Hne].
  - rewrite nth_error_app2 by lia. rewrite Hf, Nat.sub_diag. reflexivity.
  - destruct (Nat.ltb_spec j (N.to_nat i)).
    + rewrite !nth_error_app1 by lia. reflexivity.
    + rewrite !nth_error_app2 by lia. rewrite Hf.
      destruct (j - N.to_nat i)%nat as [|m] eqn:Hm; [lia|]. reflexivity.
Qed.

Definition agree (pti : list N) (f : nat -> N) (n : nat) : Prop :=
  forall p, (p < n)%nat -> nth_error pti p = Some (f p).

Lemma nth_error_ext' {A} : forall (l1 l2 : list A), (forall n, nth_error l1 n = nth_error l2 n) -> l1 = l2.
Proof.
  induction l1 as [|x l1 IH]; intros [|y l2] H; try reflexivity.
  - specialize (H 0%nat). discriminate.
  - specialize (H 0%nat). discriminate.
  - pose proof (H 0%nat) as H0. cbn in H0. injection H0 as ->. f_equal. apply IH. intros n. exact (H (S n)).
Qed.

Lemma agree_ext pti f M : length pti = M -> agree pti f M -> pti = map f (seq 0 M).
Proof.
  intros Hl Ha. apply nth_error_ext'. intros p.
  destruct (Nat.ltb_spec p M) as [Hlt|Hge].
  - rewrite Ha by exact Hlt. symmetry. erewrite map_nth_error; [reflexivity|].
    rewrite nth_error_nth' with (d := 0%nat) by (rewrite seq_length; exact Hlt).
    rewrite seq_nth by exact Hlt. reflexivity.
  - rewrite (proj2 (nth_error_None _ _)) by lia.
    symmetry. apply nth_error_None. rewrite map_length, seq_length. exact Hge.
Qed.

Section Pti.
  Variable M : nat.                      (* partTriInds.size() = newPartID + 1 *)

  (* while (key >= next) pti[next++] = i : fills [next, key] with i *)
  Lemma pti_while_ok : forall fuel key i pti next,
    length pti = M -> (0 <= next)%Z -> (key + 1 < Z.of_nat M)%Z ->
    (Z.to_nat (key + 1 - next) < fuel)%nat ->
    exists pti', pti_while fuel key i pti next = Ok (pti', Z.max next (key + 1)) /\
      length pti' = M /\
      (forall p, (p < Z.to_nat next)%nat -> nth_error pti' p = nth_error pti p) /\
      (forall p, (Z.to_nat next <= p)%nat -> (Z.of_nat p <= key)%Z -> nth_error pti' p = Some i).
  Proof.
    induction fuel as [|f IH]; intros key i pti next Hl Hn Hk Hf; [lia|].
    cbn [pti_while]. destruct (Z.leb_spec next key) as [Hle|Hgt].
    - destruct (vset pti (Z.to_N next) i) as [pti1|] eqn:Hset.
      2:{ unfold vset in Hset. destruct (N.ltb_spec (Z.to_N next) (N.of_nat (length pti))); [discriminate|lia]. }
      destruct (vset_nth_error _ _ _ _ Hset) as [Hl1 Hn1].
      destruct (IH key i pti1 (next + 1)%Z) as (pti' & Hrun & Hl' & Hlo & Hmid); try lia.
      exists pti'. rewrite Hrun. split; [f_equal; f_equal; lia|]. split; [exact Hl'|]. split.
      + intros p Hp. rewrite Hlo by lia. rewrite Hn1.
        destruct (Nat.eqb_spec p (N.to_nat (Z.to_N next))); [lia|reflexivity].
      + intros p Hp1 Hp2. destruct (Nat.eq_dec p (Z.to_nat next)) as [->|Hne].
        * rewrite Hlo by lia. rewrite Hn1.
          destruct (Nat.eqb_spec (Z.to_nat next) (N.to_nat (Z.to_N next))); [reflexivity|lia].
        * apply Hmid; lia.
    - exists pti. split; [f_equal; f_equal; lia|]. split; [exact Hl|]. split; [reflexivity|].
      intros p Hp1 Hp2. lia.
  Qed.

  Variable skeys : list Z.
  Hypothesis Hsorted : StronglySorted Z.le skeys.
  Hypothesis Hrange : Forall (fun k => (0 <= k)%Z /\ (k + 1 < Z.of_nat M)%Z) skeys.

  Let cnt (p : nat) : N := cntlt skeys (Z.of_nat p).

  Lemma pti_for_ok : forall rest pre pti next,
    skeys = pre ++ rest -> length pti = M -> (0 <= next)%Z -> (next < Z.of_nat M)%Z ->
    Forall (fun k => (k < next)%Z) pre -> agree pti cnt (Z.to_nat next) ->
    exists pti' next', pti_for rest (vlen pre) pti next = Ok (pti', next') /\
      length pti' = M /\ (0 <= next')%Z /\ (next' < Z.of_nat M)%Z /\
      Forall (fun k => (k < next')%Z) skeys /\ agree pti' cnt (Z.to_nat next').
  Proof.
    induction rest as [|k rest IH]; intros pre pti next Hsk Hl Hn0 HnM Hpre Hag.
    - rewrite app_nil_r in Hsk. subst pre. exists pti, next. cbn [pti_for]. auto 10.
    - cbn [pti_for].
      assert (Hk : (0 <= k)%Z /\ (k + 1 < Z.of_nat M)%Z).
      { rewrite Forall_forall in Hrange. apply Hrange. rewrite Hsk. apply in_or_app. right. left. reflexivity. }
      destruct (pti_while_ok (S (length pti)) k (vlen pre) pti next Hl Hn0 (proj2 Hk) ltac:(lia))
        as (pti1 & Hrun & Hl1 & Hlo & Hmid).
      rewrite Hrun. cbn [bind fst snd].
      assert (Hsplit : StronglySorted Z.le (k :: rest)).
      { rewrite Hsk in Hsorted. clear -Hsorted. induction pre as [|x pre IHp]; [exact Hsorted|].
        inversion Hsorted; subst. apply IHp. assumption. }
      inversion Hsplit as [|? ? Hs' Hge]; subst.
      destruct (IH (pre ++ [k]) pti1 (Z.max next (k + 1))) as (pti' & next' & Hrun' & H1 & H2 & H3 & H4 & H5); try lia.
      + rewrite <- app_assoc. reflexivity.
      + apply Forall_app. split; [eapply Forall_impl; [|exact Hpre]; cbn; intros; lia|].
        constructor; [lia|constructor].
      + intros p Hp. destruct (Nat.ltb_spec p (Z.to_nat next)) as [Hlt|Hge2].
        * rewrite Hlo by exact Hlt. apply Hag. exact Hlt.
        * rewrite Hmid by lia. f_equal. unfold cnt.
          rewrite cntlt_app.
          rewrite (cntlt_all pre) by (eapply Forall_impl; [|exact Hpre]; cbn; intros; lia).
          rewrite (cntlt_none (k :: rest)); [lia|].
          constructor; [lia|]. eapply Forall_impl; [|exact Hge]. cbn; intros; lia.
      + replace (vlen (pre ++ [k])) with (vlen pre + 1) in Hrun'
          by (unfold vlen; rewrite app_length; cbn [length]; lia).
        exists pti', next'. rewrite Hrun'. auto 10.
  Qed.

  Lemma pti_tail_ok : forall fuel pti next,
    length pti = M -> (0 <= next)%Z -> (next <= Z.of_nat M)%Z -> (Z.to_nat (Z.of_nat M - next) < fuel)%nat ->
    Forall (fun k => (k < next)%Z) skeys -> agree pti cnt (Z.to_nat next) ->
    exists pti', pti_tail fuel (vlen skeys) pti next = Ok pti' /\ length pti' = M /\ agree pti' cnt M.
  Proof.
    induction fuel as [|f IH]; intros pti next Hl Hn0 HnM Hf Hall Hag; [lia|].
    cbn [pti_tail]. unfold vlen at 1. rewrite Hl.
    destruct (Z.ltb_spec next (Z.of_N (N.of_nat M))) as [Hlt|Hge].
    - destruct (vset pti (Z.to_N next) (vlen skeys)) as [pti1|] eqn:Hset.
      2:{ unfold vset in Hset. destruct (N.ltb_spec (Z.to_N next) (N.of_nat (length pti))); [discriminate|lia]. }
      destruct (vset_nth_error _ _ _ _ Hset) as [Hl1 Hn1].
      apply (IH pti1 (next + 1)%Z); try lia.
      + eapply Forall_impl; [|exact Hall]. cbn; intros; lia.
      + intros p Hp. rewrite Hn1. destruct (Nat.eqb_spec p (N.to_nat (Z.to_N next))) as [->|Hne].
        * f_equal. unfold cnt. symmetry. apply cntlt_all.
          eapply Forall_impl; [|exact Hall]. cbn; intros; lia.
        * apply Hag. lia.
    - exists pti. split; [reflexivity|]. split; [exact Hl|]. intros p Hp. apply Hag. lia.
  Qed.

  Theorem pti_ok : (0 < M)%nat ->
    exists s1, pti_for skeys 0 (repeat 0 M) 0%Z = Ok s1 /\
      pti_tail (S M) (vlen skeys) (fst s1) (snd s1) = Ok (map cnt (seq 0 M)).
  Proof.
    intros HM.
    destruct (pti_for_ok skeys [] (repeat 0 M) 0%Z) as (pti1 & next1 & Hrun & H1 & H2 & H3 & H4 & H5);
      try reflexivity; try lia.
    - apply repeat_length.
    - constructor.
    - intros p Hp. cbn in Hp. lia.
    - change (vlen (@nil Z)) with 0 in Hrun. exists (pti1, next1). split; [exact Hrun|]. cbn [fst snd].
      destruct (pti_tail_ok (S M) pti1 next1) as (pti' & Hrun' & Hl' & Hag'); try lia; try assumption.
      rewrite Hrun'. f_equal. apply agree_ext; assumption.
  Qed.
End Pti.

(* ---------------------------------------------------------------------------------------- *)
(* the range tables built from partTriInds *)

Inductive subs_tile : N -> list subseg -> N -> Prop :=
| st_nil p : subs_tile p [] p
| st_cons p s r e : ss_start s = 3 * p -> subs_tile (p + ss_num s) r e -> subs_tile p (s :: r) e.

(* a segment starting at triangle [pos]: first the triangles carrying the segment's own label,
   then its sub-segments one after the other, the last one ending where the segment ends *)
Definition seg_tile (pos : N) (s : seg) : Prop :=
  sg_start s = 3 * pos /\ sg_nsub s = vlen (sg_subs s) /\
  exists own, own <= sg_num s /\ subs_tile (pos + own) (sg_subs s) (pos + sg_num s).

Inductive segs_tile : N -> list seg -> N -> Prop :=
| gt_nil p : segs_tile p [] p
| gt_cons p s r e : seg_tile p s -> segs_tile (p + sg_num s) r e -> segs_tile p (s :: r) e.

Fixpoint ids_total (segs : list seginfo) : nat :=
  match segs with [] => O | s :: r => (1 + length (gi_subs s) + ids_total r)%nat end.

Fixpoint subrecs (subs : list subinfo) (subno : N) : list segrec :=
  match subs with
  | [] => []
  | s :: r => mkSegrec (if si_slot s <? 30 then subno else si_slot s) (si_data s)
              :: subrecs r (if si_slot s <? 30 then subno + 1 else subno)
  end.

Fixpoint recs_spec (segs : list seginfo) (segidx : N) : list segrec :=
  match segs with
  | [] => []
  | s :: r => (mkSegrec segidx 0 :: subrecs (gi_subs s) 1) ++ recs_spec r (segidx + 1)
  end.

Lemma subrecs_length subs subno : length (subrecs subs subno) = length subs.
Proof. revert subno. induction subs as [|s r IH]; intros subno; cbn [subrecs length]; [reflexivity|]. rewrite IH. reflexivity. Qed.

Lemma recs_spec_length segs segidx : length (recs_spec segs segidx) = ids_total segs.
Proof.
  revert segidx. induction segs as [|s r IH]; intros segidx; cbn [recs_spec ids_total length]; [reflexivity|].
  rewrite app_length. cbn [length]. rewrite subrecs_length, IH. lia.
Qed.

Section Build.
  Variable cnt : Z -> N.
  Variable pti : list N.
  Variable newid : Z.
  Hypothesis Hpti : forall p, (0 <= p <= newid)%Z -> pti_get pti p = Ok (cnt p).
  Hypothesis Hmono : forall a b, (a <= b)%Z -> cnt a <= cnt b.
  Hypothesis Hbound : forall p, 3 * cnt p < 4294967296.
  Hypothesis Hnewid : (newid < 2147483648)%Z.

  Fixpoint subs_spec (n : nat) (pid : Z) : list subseg :=
    match n with
    | O => []
    | S n' => mkSubseg (3 * cnt pid) (cnt (pid + 1) - cnt pid) :: subs_spec n' (pid + 1)
    end.

  Fixpoint segs_spec (segs : list seginfo) (pid : Z) : list seg :=
    match segs with
    | [] => []
    | s :: r =>
      let cc := length (gi_subs s) in
      mkSeg (3 * cnt pid) (cnt (pid + Z.of_nat cc + 1) - cnt pid) (N.of_nat cc) (subs_spec cc (pid + 1))
      :: segs_spec r (pid + Z.of_nat cc + 1)
    end.

  Lemma wrap32_sub hi lo : lo <= hi -> hi < 4294967296 -> wrap32 (hi + 4294967296 - lo) = hi - lo.
  Proof.
    intros H1 H2. unfold wrap32, wrapN. change (2 ^ 32) with 4294967296.
    replace (hi + 4294967296 - lo) with ((hi - lo) + 1 * 4294967296) by lia.
    rewrite N.mod_add by lia. apply N.mod_small. lia.
  Qed.

  Lemma build_subs_ok : forall subs partID parent subno,
    (0 <= partID)%Z -> (partID + Z.of_nat (length subs) <= newid)%Z ->
    subno + N.of_nat (length subs) < 4294967296 ->
    build_subs subs pti partID parent subno =
    Ok (subs_spec (length subs) partID, subrecs subs subno, (partID + Z.of_nat (length subs))%Z).
  Proof.
    induction subs as [|s r IH]; intros partID parent subno H0 H1 H2.
    - cbn. rewrite Z.add_0_r. reflexivity.
    - cbn [build_subs length subs_spec subrecs]. cbn [length] in H1, H2.
      rewrite !Hpti by lia. cbn [bind].
      rewrite IH; try lia.
      2:{ destruct (si_slot s <? 30); [rewrite wrap32_small by lia|]; lia. }
      pose proof (Hmono partID (partID + 1)%Z ltac:(lia)). pose proof (Hbound (partID + 1)%Z). pose proof (Hbound partID).
      rewrite (wrap32_small (cnt partID * 3)) by lia. rewrite wrap32_sub by lia.
      replace (partID + 1 + Z.of_nat (length r))%Z with (partID + Z.of_nat (S (length r)))%Z by lia.
      rewrite (N.mul_comm (cnt partID) 3).
      destruct (si_slot s <? 30); [rewrite (wrap32_small (subno + 1)) by lia|]; cbn [bind]; reflexivity.
  Qed.

  Lemma build_segs_ok : forall segs partID parent segidx,
    (0 <= partID)%Z -> (partID + Z.of_nat (ids_total segs) <= newid)%Z ->
    parent + N.of_nat (ids_total segs) < 4294967296 -> segidx + N.of_nat (length segs) < 4294967296 ->
    exists ais parent' segidx',
      build_segs segs pti partID parent segidx =
      Ok (segs_spec segs partID, ais, recs_spec segs segidx, parent', segidx') /\ segidx' = segidx + N.of_nat (length segs).
  Proof.
    induction segs as [|s r IH]; intros partID parent segidx H0 H1 H2 H3.
    - exists [], parent, segidx. cbn. split; [reflexivity|lia].
    - cbn [build_segs segs_spec recs_spec ids_total length] in *.
      set (cc := length (gi_subs s)) in *.
      assert (Hcc : vlen (gi_subs s) = N.of_nat cc) by reflexivity.
      rewrite Hcc. rewrite (wrap32_small (N.of_nat cc)) by lia.
      rewrite nat_N_Z.
      rewrite !Hpti by lia. cbn [bind].
      rewrite build_subs_ok by lia. cbn [bind].
      destruct (IH (partID + 1 + Z.of_nat cc)%Z (wrap32 (parent + N.of_nat cc + 1)) (wrap32 (segidx + 1)))
        as (ais & parent' & segidx' & Hrun & Hsi); try lia.
      { rewrite wrap32_small by lia. lia. }
      { rewrite wrap32_small by lia. lia. }
      fold cc. rewrite Hrun. cbn [bind].
      exists (parent :: ais), parent', segidx'. split.
      + pose proof (Hmono partID (partID + Z.of_nat cc + 1)%Z ltac:(lia)).
        pose proof (Hbound (partID + Z.of_nat cc + 1)%Z). pose proof (Hbound partID).
        rewrite wrap32_small by lia. rewrite wrap32_sub by lia.
        rewrite (wrap32_small (segidx + 1)) by lia. rewrite (N.mul_comm (cnt partID) 3).
        replace (partID + 1 + Z.of_nat cc)%Z with (partID + Z.of_nat cc + 1)%Z by lia. reflexivity.
      + rewrite wrap32_small in Hsi by lia. lia.
  Qed.

  (* the tables tile the triangle list *)
  Lemma subs_spec_tile : forall n pid, subs_tile (cnt pid) (subs_spec n pid) (cnt (pid + Z.of_nat n)).
  Proof.
    induction n as [|n IH]; intros pid.
    - cbn. rewrite Z.add_0_r. constructor.
    - cbn [subs_spec]. constructor; [reflexivity|]. cbn [ss_num].
      pose proof (Hmono pid (pid + 1)%Z ltac:(lia)).
      replace (cnt pid + (cnt (pid + 1) - cnt pid)) with (cnt (pid + 1)) by lia.
      replace (pid + Z.of_nat (S n))%Z with (pid + 1 + Z.of_nat n)%Z by lia. apply IH.
  Qed.

  Lemma subs_spec_length n pid : length (subs_spec n pid) = n.
  Proof. revert pid. induction n as [|n IH]; intros pid; cbn [subs_spec length]; [reflexivity|]. rewrite IH. reflexivity. Qed.

  Lemma segs_spec_tile : forall segs pid,
    segs_tile (cnt pid) (segs_spec segs pid) (cnt (pid + Z.of_nat (ids_total segs))).
  Proof.
    induction segs as [|s r IH]; intros pid.
    - cbn. rewrite Z.add_0_r. constructor.
    - cbn [segs_spec ids_total]. set (cc := length (gi_subs s)).
      pose proof (Hmono pid (pid + 1)%Z ltac:(lia)) as M1.
      pose proof (Hmono (pid + 1)%Z (pid + Z.of_nat cc + 1)%Z ltac:(lia)) as M2.
      constructor.
      + unfold seg_tile. cbn [sg_start sg_nsub sg_subs sg_num].
        split; [reflexivity|]. split; [unfold vlen; rewrite subs_spec_length; reflexivity|].
        exists (cnt (pid + 1) - cnt pid). split; [lia|].
        replace (cnt pid + (cnt (pid + 1) - cnt pid)) with (cnt (pid + 1)) by lia.
        replace (cnt pid + (cnt (pid + Z.of_nat cc + 1) - cnt pid)) with (cnt (pid + 1 + Z.of_nat cc)).
        * apply subs_spec_tile.
        * replace (pid + 1 + Z.of_nat cc)%Z with (pid + Z.of_nat cc + 1)%Z by lia. lia.
      + cbn [sg_num].
        replace (cnt pid + (cnt (pid + Z.of_nat cc + 1) - cnt pid)) with (cnt (pid + Z.of_nat cc + 1)) by lia.
        replace (pid + Z.of_nat (1 + cc + ids_total r))%Z with (pid + Z.of_nat cc + 1 + Z.of_nat (ids_total r))%Z by lia.
        apply IH.
  Qed.
End Build.

(* ---------------------------------------------------------------------------------------- *)
(* GetSegmentation on the tables of SetSegmentation: filling the ranges gives the sorted keys back *)

Lemma map_combine_seq {A B} (g : N -> A -> B) (h : A -> B) : forall (l : list A) start,
  (forall i x, (start <= i < start + length l)%nat -> g (N.of_nat i) x = h x) ->
  map (fun p => g (fst p) (snd p)) (combine (map N.of_nat (seq start (length l))) l) = map h l.
Proof.
  induction l as [|x l IH]; intros start H; [reflexivity|].
  cbn [length seq map combine fst snd]. f_equal.
  - apply H. cbn [length]. lia.
  - apply IH. intros i y Hi. apply H. cbn [length]. lia.
Qed.

Lemma combine_seq_app {A} : forall (l1 l2 : list A) start,
  combine (map N.of_nat (seq start (length (l1 ++ l2)))) (l1 ++ l2) =
  combine (map N.of_nat (seq start (length l1))) l1 ++
  combine (map N.of_nat (seq (start + length l1) (length l2))) l2.
Proof.
  induction l1 as [|x l1 IH]; intros l2 start.
  - cbn [app length combine seq map]. rewrite Nat.add_0_r. reflexivity.
  - cbn [app length seq map combine]. f_equal. rewrite IH.
    replace (S start + length l1)%nat with (start + S (length l1))%nat by lia. reflexivity.
Qed.

Definition fill_fun (lo hi : N) (p : Z) (i : N) (l : Z) : Z := if (lo <=? i) && (i <? hi) then p else l.

Lemma fill_range_eq lbl lo hi p :
  fill_range lbl lo hi p =
  map (fun x => fill_fun lo hi p (fst x) (snd x)) (combine (map N.of_nat (seq 0 (length lbl))) lbl).
Proof.
  unfold fill_range, nseq, vlen. rewrite Nat2N.id. apply map_ext. intros [i l]. reflexivity.
Qed.

Lemma fill_range_app (A B C : list Z) p :
  fill_range (A ++ B ++ C) (vlen A) (vlen A + vlen B) p = A ++ map (fun _ => p) B ++ C.
Proof.
  rewrite fill_range_eq. rewrite combine_seq_app, map_app. rewrite combine_seq_app, map_app.
  f_equal; [|f_equal].
  - rewrite (map_combine_seq (fill_fun (vlen A) (vlen A + vlen B) p) (fun l => l)); [apply map_id|].
    intros i x Hi. unfold fill_fun, vlen. destruct (N.leb_spec (N.of_nat (length A)) (N.of_nat i)); [lia|reflexivity].
  - rewrite (map_combine_seq (fill_fun (vlen A) (vlen A + vlen B) p) (fun _ => p)); [reflexivity|].
    intros i x Hi. unfold fill_fun, vlen.
    destruct (N.leb_spec (N.of_nat (length A)) (N.of_nat i)); [|lia].
    destruct (N.ltb_spec (N.of_nat i) (N.of_nat (length A) + N.of_nat (length B))); [reflexivity|lia].
  - rewrite (map_combine_seq (fill_fun (vlen A) (vlen A + vlen B) p) (fun l => l)); [apply map_id|].
    intros i x Hi. unfold fill_fun, vlen.
    destruct (N.ltb_spec (N.of_nat i) (N.of_nat (length A) + N.of_nat (length B))); [lia|].
    rewrite andb_false_r. reflexivity.
Qed.

(* on labels that are a function of the sorted keys, filling [cnt a, cnt b) relabels exactly the
   positions whose key lies in [a, b) *)
Lemma fill_range_sorted (F : Z -> Z) skeys a b p : StronglySorted Z.le skeys -> (a <= b)%Z ->
  fill_range (map F skeys) (cntlt skeys a) (cntlt skeys b) p =
  map (fun k => if (Z.leb a k && Z.ltb k b)%bool then p else F k) skeys.
Proof.
  intros Hs Hab.
  destruct (sorted_split3 skeys a b Hs Hab) as (l1 & l2 & l3 & Hl & F1 & F2 & F3 & Hc1 & Hc2).
  rewrite <- Hc1, <- Hc2. rewrite Hl at 1 2. rewrite !map_app.
  replace (vlen l1) with (vlen (map F l1)) by (unfold vlen; rewrite map_length; reflexivity).
  replace (vlen l2) with (vlen (map F l2)) by (unfold vlen; rewrite map_length; reflexivity).
  rewrite fill_range_app. rewrite map_map.
  f_equal; [|f_equal].
  - apply map_ext_Forall. eapply Forall_impl; [|exact F1]. cbn beta. intros k Hk.
    destruct (Z.leb_spec a k); [lia|reflexivity].
  - apply map_ext_Forall. eapply Forall_impl; [|exact F2]. cbn beta. intros k Hk.
    destruct (Z.leb_spec a k); [|lia]. destruct (Z.ltb_spec k b); [reflexivity|lia].
  - apply map_ext_Forall. eapply Forall_impl; [|exact F3]. cbn beta. intros k Hk.
    destruct (Z.ltb_spec k b); [lia|]. rewrite andb_false_r. reflexivity.
Qed.

Fixpoint zseq (start : Z) (n : nat) : list Z :=
  match n with O => [] | S n' => start :: zseq (start + 1) n' end.

Section Get.
  Variable skeys : list Z.
  Hypothesis Hsorted : StronglySorted Z.le skeys.
  Let cnt (p : Z) : N := cntlt skeys p.
  Let nt := vlen skeys.
  Hypothesis Hnt : 3 * nt < 4294967296.

  Lemma cnt_le_nt p : cnt p <= nt.
  Proof. apply cntlt_le. Qed.

  Lemma div3 x : 3 * x / 3 = x.
  Proof. rewrite N.mul_comm. apply N.div_mul. lia. Qed.

  Lemma get_subs_ok : forall n q F recs ai,
    ai + N.of_nat n < vlen recs ->
    exists sis,
      get_subs (subs_spec cnt n q) recs nt (map F skeys) q ai =
      Ok (sis, map (fun k => if (Z.leb q k && Z.ltb k (q + Z.of_nat n))%bool then k else F k) skeys,
          (q + Z.of_nat n)%Z, ai + N.of_nat n) /\
      map si_id sis = zseq q n.
  Proof.
    induction n as [|n IH]; intros q F recs ai Hai.
    - exists []. cbn [subs_spec get_subs zseq map]. split; [|reflexivity].
      rewrite Z.add_0_r, N.add_0_r. f_equal. f_equal. f_equal. f_equal.
      apply map_ext. intros k. destruct (Z.leb_spec q k); destruct (Z.ltb_spec k q); cbn [andb]; try reflexivity. lia.
    - cbn [subs_spec get_subs ss_start ss_num].
      rewrite div3.
      assert (Hm : cnt q <= cnt (q + 1)) by (apply cntlt_mono; lia).
      pose proof (cnt_le_nt (q + 1)) as Hq1.
      replace (cnt q + (cnt (q + 1) - cnt q)) with (cnt (q + 1)) by lia.
      rewrite wrap32_small by lia. rewrite N.min_r by exact Hq1.
      change (fill_range (map F skeys) (cnt q) (cnt (q + 1)) q)
        with (fill_range (map F skeys) (cntlt skeys q) (cntlt skeys (q + 1)) q).
      rewrite fill_range_sorted by (assumption || lia).
      destruct (vget_skipn recs (ai + 1) ltac:(lia)) as (rc & Hrc & _). rewrite Hrc.
      destruct (IH (q + 1)%Z (fun k => if (Z.leb q k && Z.ltb k (q + 1))%bool then q else F k) recs (ai + 1))
        as (sis & Hrun & Hids); [lia|].
      rewrite Hrun. cbn [bind].
      eexists. split.
      + f_equal. f_equal; [f_equal; [f_equal|]|]; try lia.
        apply map_ext. intros k.
        destruct (Z.leb_spec (q + 1) k); destruct (Z.ltb_spec k (q + 1 + Z.of_nat n)); cbn [andb];
          destruct (Z.leb_spec q k); destruct (Z.ltb_spec k (q + 1)); destruct (Z.ltb_spec k (q + Z.of_nat (S n)));
          cbn [andb]; try reflexivity; try lia.
      + cbn [map si_id zseq]. f_equal. exact Hids.
  Qed.

  (* ids of an info: (segment id, sub-segment ids) *)
  Definition inf_shape (segs : list seginfo) : list (Z * list Z) :=
    map (fun s => (gi_id s, map si_id (gi_subs s))) segs.

  Fixpoint shape_spec (segs : list seginfo) (pid : Z) : list (Z * list Z) :=
    match segs with
    | [] => []
    | s :: r => (pid, zseq (pid + 1) (length (gi_subs s))) :: shape_spec r (pid + Z.of_nat (length (gi_subs s)) + 1)
    end.

  Lemma get_segs_ok : forall segs P recs ai,
    ai + N.of_nat (ids_total segs) <= vlen recs ->
    exists infs,
      get_segs (segs_spec cnt segs P) recs nt (map (fun k => if Z.ltb k P then k else (-1)%Z) skeys) P ai =
      Ok (infs, map (fun k => if Z.ltb k (P + Z.of_nat (ids_total segs)) then k else (-1)%Z) skeys) /\
      inf_shape infs = shape_spec segs P.
  Proof.
    induction segs as [|s r IH]; intros P recs ai Hai.
    - exists []. cbn. rewrite Z.add_0_r. split; reflexivity.
    - cbn [segs_spec get_segs sg_start sg_num sg_subs ids_total] in *. set (cc := length (gi_subs s)) in *.
      rewrite div3.
      assert (Hm : cnt P <= cnt (P + Z.of_nat cc + 1)) by (apply cntlt_mono; lia).
      pose proof (cnt_le_nt (P + Z.of_nat cc + 1)) as Hq1.
      replace (cnt P + (cnt (P + Z.of_nat cc + 1) - cnt P)) with (cnt (P + Z.of_nat cc + 1)) by lia.
      rewrite wrap32_small by lia. rewrite N.min_r by exact Hq1.
      match goal with |- context [fill_range ?L (cnt P) (cnt ?b) P] =>
        change (fill_range L (cnt P) (cnt b) P) with (fill_range L (cntlt skeys P) (cntlt skeys b) P) end.
      rewrite fill_range_sorted by (assumption || lia).
      destruct (get_subs_ok cc (P + 1)%Z
                  (fun k => if (Z.leb P k && Z.ltb k (P + Z.of_nat cc + 1))%bool then P else if Z.ltb k P then k else (-1)%Z)
                  recs ai) as (sis & Hrun & Hids); [lia|].
      fold cnt. rewrite Hrun. cbn [bind].
      destruct (IH (P + 1 + Z.of_nat cc)%Z recs (ai + N.of_nat cc + 1)) as (infs & Hrun2 & Hsh); [lia|].
      replace (P + Z.of_nat cc + 1)%Z with (P + 1 + Z.of_nat cc)%Z by lia.
      match goal with |- context [get_segs _ _ _ ?L _ _] =>
        replace L with (map (fun k => if Z.ltb k (P + 1 + Z.of_nat cc) then k else (-1)%Z) skeys) end.
      2:{ apply map_ext. intros k.
          destruct (Z.leb_spec (P + 1) k); destruct (Z.ltb_spec k (P + 1 + Z.of_nat cc)); cbn [andb];
            destruct (Z.leb_spec P k); destruct (Z.ltb_spec k P); cbn [andb]; try reflexivity; try lia. }
      rewrite Hrun2. cbn [bind fst snd].
      eexists. split.
      + f_equal. f_equal. apply map_ext. intros k.
        replace (P + 1 + Z.of_nat cc + Z.of_nat (ids_total r))%Z with (P + Z.of_nat (1 + cc + ids_total r))%Z by lia.
        reflexivity.
      + cbn [inf_shape map gi_id gi_subs shape_spec]. fold cc. rewrite Hids. f_equal.
        replace (P + Z.of_nat cc + 1)%Z with (P + 1 + Z.of_nat cc)%Z by lia. exact Hsh.
  Qed.
End Get.

(* ---------------------------------------------------------------------------------------- *)
(* SetSegmentation as a whole *)

Lemma flat_map_vget_map {A} (l : list A) d inds : Forall (fun i => i < vlen l) inds ->
  flat_map (fun id => match vget l id with Some t => [t] | None => [] end) inds =
  map (fun i => nth (N.to_nat i) l d) inds.
Proof.
  induction 1 as [|i inds Hi Hall IH]; [reflexivity|]. cbn [flat_map map].
  destruct (vget_skipn l i Hi) as (x & Hx & _). rewrite Hx. cbn [app]. f_equal; [|exact IH].
  unfold vget in Hx. symmetry. apply nth_error_nth. exact Hx.
Qed.

Lemma combine_as_map {A B} (l : list A) (keys : list B) d : length l = length keys ->
  combine l keys = map (fun p => (nth (N.to_nat (fst p)) l d, snd p)) (combine (nseq (vlen l)) keys).
Proof.
  unfold nseq, vlen. rewrite Nat2N.id.
  assert (H : forall (keys : list B) pre, length l = length keys ->
    combine l keys = map (fun p => (nth (N.to_nat (fst p)) (pre ++ l) d, snd p))
                         (combine (map N.of_nat (seq (length pre) (length l))) keys)).
  { induction l as [|x l IH]; intros [|k ks] pre Hl; cbn [length] in Hl; try discriminate; [reflexivity|].
    cbn [length seq map combine fst snd]. f_equal.
    - rewrite Nat2N.id, app_nth2 by lia. rewrite Nat.sub_diag. reflexivity.
    - specialize (IH ks (pre ++ [x])). rewrite <- app_assoc in IH. cbn [app] in IH.
      rewrite app_length in IH. cbn [length] in IH. replace (length pre + 1)%nat with (S (length pre)) in IH by lia.
      apply IH. lia. }
  intros Hl. exact (H keys [] Hl).
Qed.

Lemma nseq_lt n : Forall (fun i => i < n) (nseq n).
Proof.
  unfold nseq. apply Forall_forall. intros i Hi. apply in_map_iff in Hi. destruct Hi as (k & <- & Hk).
  apply in_seq in Hk. lia.
Qed.

Section SetGet.
  Variable b : bsshape.
  Variable inf : seginf.
  Variable labels : list Z.
  Variable o2n : list Z.
  Variable newid : Z.
  Variable keys : list Z.
  Let nt := bs_nt b.
  Hypothesis Hlab : vlen labels = nt.
  Hypothesis Htris : vlen (bs_tris b) = nt.
  Hypothesis Hnt : 3 * nt < 4294967296.
  Hypothesis Ho2n : o2n_segs (inf_segs inf) [] 0%Z = Ok (o2n, newid).
  Hypothesis Hnewid : newid = Z.of_nat (ids_total (inf_segs inf)).
  Hypothesis Hsmall : (newid < 2147483648)%Z.
  Hypothesis Hkeys : mapM (new_label o2n) labels = Ok keys.
  Hypothesis Hrange : Forall (fun k => (0 <= k < newid)%Z) keys.

  Let sorted := stable_sort (combine (nseq nt) keys).
  Let skeys := map snd sorted.
  Let inds := map fst sorted.

  Lemma Hlenk : N.to_nat nt = length keys.
  Proof. rewrite (mapM_length _ _ _ Hkeys). unfold vlen in Hlab. lia. Qed.

  Lemma skeys_vlen : vlen skeys = nt.
  Proof. unfold skeys, vlen. rewrite map_length. unfold sorted. rewrite sorted_length by apply Hlenk. lia. Qed.

  Lemma skeys_sorted : StronglySorted Z.le skeys.
  Proof. apply sorted_keys_sorted. Qed.

  Lemma skeys_range : Forall (fun k => (0 <= k < newid)%Z) skeys.
  Proof. eapply Permutation_Forall; [symmetry; apply sorted_keys_perm; apply Hlenk|exact Hrange]. Qed.

  Theorem set_get_segmentation :
    exists b', set_segmentation b inf labels = Ok b' /\
      bs_nt b' = nt /\ sn_nprim (bs_segn b') = nt /\ sn_nseg (bs_segn b') = vlen (sn_segs (bs_segn b')) /\
      bs_tris b' = map (fun i => nth (N.to_nat i) (bs_tris b) (0, 0, 0)) inds /\
      segs_tile 0 (sn_segs (bs_segn b')) nt /\
      sn_segs (bs_segn b') = segs_spec (cntlt skeys) (inf_segs inf) 0 /\
      sn_recs (bs_segn b') = recs_spec (inf_segs inf) 0 /\
      exists inf', get_segmentation b' = Ok (inf', skeys) /\
                   inf_shape (inf_segs inf') = shape_spec (inf_segs inf) 0.
  Proof.
    pose proof Hlenk as Hlk. pose proof skeys_vlen as Hsv. pose proof skeys_sorted as Hss.
    pose proof skeys_range as Hsr.
    assert (Hn0 : (0 <= newid)%Z) by lia.
    unfold set_segmentation. fold nt. rewrite Hlab, N.eqb_refl. cbn [negb].
    rewrite Ho2n. cbn [bind]. rewrite Hkeys. cbn [bind].
    rewrite (sorted_lookup nt keys Hlk). cbn [bind].
    change (map snd (stable_sort (combine (nseq nt) keys))) with skeys.
    change (map fst (stable_sort (combine (nseq nt) keys))) with inds.
    (* partTriInds *)
    set (M := Z.to_nat (newid + 1)).
    destruct (pti_ok M skeys Hss) as (s1 & Hfor & Htail).
    { eapply Forall_impl; [|exact Hsr]. cbn beta. intros k Hk. unfold M. lia. }
    { unfold M. lia. }
    rewrite Hfor. cbn [bind]. rewrite repeat_length. fold M. rewrite Hsv in Htail. rewrite Htail. cbn [bind].
    set (pti := map (fun p => cntlt skeys (Z.of_nat p)) (seq 0 M)).
    assert (Hpti : forall p, (0 <= p <= newid)%Z -> pti_get pti p = Ok (cntlt skeys p)).
    { intros p Hp. unfold pti_get. destruct (Z.ltb_spec p 0); [lia|]. unfold vget, pti.
      erewrite map_nth_error with (d := Z.to_nat p).
      - rewrite Z2Nat.id by lia. reflexivity.
      - rewrite Z_N_nat. rewrite nth_error_nth' with (d := 0%nat) by (rewrite seq_length; unfold M; lia).
        rewrite seq_nth by (unfold M; lia). reflexivity. }
    assert (Hbound : forall p, 3 * cntlt skeys p < 4294967296).
    { intros p. pose proof (cntlt_le skeys p). rewrite Hsv in H. lia. }
    destruct (build_segs_ok (cntlt skeys) pti newid Hpti (cntlt_mono skeys) Hbound Hsmall (inf_segs inf) 0%Z 0 0)
      as (ais & parent' & segidx' & Hbuild & Hsi); try lia.
    { assert (length (inf_segs inf) <= ids_total (inf_segs inf))%nat.
      { clear. induction (inf_segs inf) as [|s r IH]; cbn [length ids_total]; lia. }
      lia. }
    rewrite Hbuild. cbn [bind].
    assert (Hperm : Permutation inds (nseq (vlen (bs_tris b)))).
    { rewrite Htris. apply sorted_inds_perm. exact Hlk. }
    destruct (reorder_tris_some _ _ Hperm) as (out & Hout). rewrite Hout.
    assert (Houtlen : vlen out = nt).
    { unfold vlen. rewrite (Permutation_length (reorder_tris_perm _ _ _ Hout Hperm)). exact Htris. }
    eexists. split; [reflexivity|].
    cbn [bs_nt bs_segn sn_nprim sn_nseg sn_segs bs_tris].
    split; [rewrite Houtlen; apply wrap32_small; lia|]. split; [reflexivity|].
    split.
    { rewrite Hsi. unfold vlen. f_equal. rewrite N.add_0_l. f_equal.
      clear. generalize 0%Z. induction (inf_segs inf) as [|s r IH]; intros z; [reflexivity|].
      cbn [segs_spec length]. rewrite <- IH. reflexivity. }
    split.
    { unfold reorder_tris in Hout.
      destruct (negb (vlen (bs_tris b) =? vlen inds)); [discriminate|].
      destruct (negb (vlen (flat_map _ inds) =? vlen (bs_tris b))); [discriminate|].
      injection Hout as <-. apply flat_map_vget_map.
      eapply Permutation_Forall; [symmetry; exact Hperm|]. apply nseq_lt. }
    split.
    { pose proof (segs_spec_tile (cntlt skeys) pti newid Hpti (cntlt_mono skeys) Hbound (inf_segs inf) 0%Z) as Ht.
      replace (cntlt skeys 0) with 0 in Ht.
      2:{ symmetry. apply cntlt_none. eapply Forall_impl; [|exact Hsr]. cbn; intros; lia. }
      replace (cntlt skeys (0 + Z.of_nat (ids_total (inf_segs inf)))) with nt in Ht; [exact Ht|].
      rewrite <- Hsv. symmetry. apply cntlt_all. eapply Forall_impl; [|exact Hsr]. cbn; intros; lia. }
    split; [reflexivity|]. split; [reflexivity|].
    (* GetSegmentation *)
    unfold get_segmentation. cbn [bs_nt bs_segn sn_segs sn_recs sn_ssf].
    rewrite Houtlen. rewrite (wrap32_small nt) by lia.
    assert (Hnt' : 3 * vlen skeys < 4294967296) by (rewrite Hsv; exact Hnt).
    destruct (get_segs_ok skeys Hss Hnt' (inf_segs inf) 0%Z (recs_spec (inf_segs inf) 0) 0) as (infs & Hget & Hshape).
    { unfold vlen. rewrite recs_spec_length. lia. }
    rewrite Hsv in Hget. change (fun p : Z => cntlt skeys p) with (cntlt skeys) in Hget.
    replace (repeat (-1)%Z (N.to_nat nt)) with (map (fun k => if Z.ltb k 0 then k else (-1)%Z) skeys).
    2:{ rewrite <- Hsv. unfold vlen. rewrite Nat2N.id. clear -Hsr.
        induction Hsr as [|k l Hk Hall IH]; [reflexivity|]. cbn [map length repeat].
        destruct (Z.ltb_spec k 0); [lia|]. f_equal. exact IH. }
    rewrite Hget. cbn [bind fst snd].
    exists (mkSeginf infs (inf_ssf inf)). split; [|exact Hshape].
    f_equal. f_equal. rewrite <- (map_id skeys) at 2. apply map_ext_Forall.
    eapply Forall_impl; [|exact Hsr]. cbn beta. intros k Hk.
    destruct (Z.ltb_spec k (0 + Z.of_nat (ids_total (inf_segs inf)))); [reflexivity|lia].
  Qed.

  (* every triangle keeps its (renumbered) label: the (triangle, label) pairs are permuted *)
  Theorem set_segmentation_pairs b' :
    set_segmentation b inf labels = Ok b' ->
    Permutation (combine (bs_tris b') skeys) (combine (bs_tris b) keys).
  Proof.
    intros Hset. destruct set_get_segmentation as (b2 & Hset2 & _ & _ & _ & Htr & _).
    rewrite Hset in Hset2. injection Hset2 as <-. rewrite Htr.
    unfold inds, skeys.
    replace (combine (map (fun i => nth (N.to_nat i) (bs_tris b) (0, 0, 0)) (map fst sorted)) (map snd sorted))
      with (map (fun p => (nth (N.to_nat (fst p)) (bs_tris b) (0, 0, 0), snd p)) sorted).
    2:{ clear. induction sorted as [|p l IH]; [reflexivity|]. cbn [map combine]. f_equal. exact IH. }
    rewrite (combine_as_map (bs_tris b) keys (0, 0, 0)).
    2:{ pose proof Hlenk. unfold vlen in Htris. lia. }
    rewrite Htris. apply Permutation_map. apply stable_sort_perm.
  Qed.
End SetGet.

(* ---------------------------------------------------------------------------------------- *)
(* the renumbering loop: declared ids become 0, 1, 2, ... in declaration order *)

Definition inf_ids (segs : list seginfo) : list Z :=
  flat_map (fun s => gi_id s :: map si_id (gi_subs s)) segs.

Fixpoint index_of (ids : list Z) (x : Z) : Z :=
  match ids with
  | [] => 0%Z
  | y :: r => if Z.eqb x y then 0%Z else (1 + index_of r x)%Z
  end.

(* the documented renumbering of a label: unassigned (negative) goes to the first segment *)
Definition renumber (ids : list Z) (l : Z) : Z := if Z.ltb l 0 then 0%Z else index_of ids l.

Definition valid_labels (ids : list Z) (labels : list Z) : Prop :=
  Forall (fun l => (l < 0)%Z \/ In l ids) labels.

Fixpoint o2n_ids (ids : list Z) (m : list Z) (n : Z) : res (list Z * Z) :=
  match ids with
  | [] => Ok (m, n)
  | id :: r => bind (o2n_set m id n) (fun m' => o2n_ids r m' (n + 1)%Z)
  end.

Lemma o2n_ids_app a b m n :
  o2n_ids (a ++ b) m n = bind (o2n_ids a m n) (fun r => o2n_ids b (fst r) (snd r)).
Proof.
  revert m n. induction a as [|x a IH]; intros m n; [reflexivity|]. cbn [app o2n_ids].
  destruct (o2n_set m x n) as [m'| |]; cbn [bind]; [apply IH|reflexivity|reflexivity].
Qed.

Lemma o2n_subs_flat subs m n : o2n_subs subs m n = o2n_ids (map si_id subs) m n.
Proof.
  revert m n. induction subs as [|s r IH]; intros m n; [reflexivity|]. cbn [o2n_subs map o2n_ids].
  destruct (o2n_set m (si_id s) n); cbn [bind]; [apply IH|reflexivity|reflexivity].
Qed.

Lemma o2n_segs_flat segs m n : o2n_segs segs m n = o2n_ids (inf_ids segs) m n.
Proof.
  revert m n. induction segs as [|s r IH]; intros m n; [reflexivity|].
  cbn [o2n_segs inf_ids flat_map]. change (flat_map _ r) with (inf_ids r).
  cbn [app o2n_ids]. destruct (o2n_set m (gi_id s) n) as [m1| |]; cbn [bind]; try reflexivity.
  rewrite o2n_ids_app, o2n_subs_flat.
  destruct (o2n_ids (map si_id (gi_subs s)) m1 (n + 1)) as [[m2 n2]| |]; cbn [bind fst snd]; try reflexivity.
  apply IH.
Qed.

Lemma vresize_grow {A} (d : A) (m : list A) n : vlen m <= n ->
  vresize d m n = m ++ repeat d (N.to_nat n - length m).
Proof. intros H. unfold vresize. rewrite firstn_all2 by (unfold vlen in H; lia). reflexivity. Qed.

Lemma o2n_set_ok m id v : (0 <= id)%Z ->
  exists m1, o2n_set m id v = Ok m1 /\ vget m1 (Z.to_N id) = Some v /\ vlen m <= vlen m1 /\
    forall x, x <> Z.to_N id -> x < vlen m -> vget m1 x = vget m x.
Proof.
  intros H0. unfold o2n_set. destruct (Z.ltb_spec id 0); [lia|].
  set (m0 := if Z.leb (Z.of_N (vlen m)) id then vresize 0%Z m (Z.to_N (id + 1)) else m).
  assert (Hm0 : vlen m <= vlen m0 /\ Z.to_N id < vlen m0 /\ forall x, x < vlen m -> vget m0 x = vget m x).
  { unfold m0. destruct (Z.leb_spec (Z.of_N (vlen m)) id) as [Hle|Hgt].
    - rewrite vresize_grow by lia. unfold vlen. rewrite app_length, repeat_length.
      split; [lia|]. split; [unfold vlen in Hle; lia|].
      intros x Hx. unfold vget. rewrite nth_error_app1 by (unfold vlen in Hx; lia). reflexivity.
    - split; [lia|]. split; [lia|]. reflexivity. }
  destruct Hm0 as (Hl & Hlt & Hsame).
  destruct (vset_spec m0 (Z.to_N id) v Hlt) as (m1 & Hset & _).
  destruct (vset_nth_error _ _ _ _ Hset) as [Hlen Hnth].
  exists m1. rewrite Hset. split; [reflexivity|]. split.
  - unfold vget. rewrite Hnth, Nat.eqb_refl. reflexivity.
  - split; [unfold vlen in *; lia|].
    intros x Hne Hx. unfold vget. rewrite Hnth.
    destruct (Nat.eqb_spec (N.to_nat x) (N.to_nat (Z.to_N id))); [lia|]. apply Hsame. exact Hx.
Qed.

Lemma o2n_ids_ok : forall ids m n, NoDup ids -> Forall (fun i => (0 <= i)%Z) ids ->
  exists m', o2n_ids ids m n = Ok (m', (n + Z.of_nat (length ids))%Z) /\ vlen m <= vlen m' /\
    (forall x, In x ids -> vget m' (Z.to_N x) = Some (n + index_of ids x)%Z) /\
    (forall x, ~ In (Z.of_N x) ids -> x < vlen m -> vget m' x = vget m x).
Proof.
  induction ids as [|id r IH]; intros m n Hnd Hpos.
  - exists m. cbn. rewrite Z.add_0_r. split; [reflexivity|]. split; [lia|]. split; [contradiction|reflexivity].
  - inversion Hnd as [|? ? Hnin Hnd']; subst. inversion Hpos as [|? ? Hid Hpos']; subst.
    cbn [o2n_ids]. destruct (o2n_set_ok m id n Hid) as (m1 & Hset & Hget & Hlen & Hother).
    rewrite Hset. cbn [bind].
    destruct (IH m1 (n + 1)%Z Hnd' Hpos') as (m' & Hrun & Hlen' & Hin & Hout).
    exists m'. rewrite Hrun. split; [f_equal; f_equal; cbn [length]; lia|]. split; [lia|]. split.
    + intros x [<-|Hx].
      * cbn [index_of]. rewrite Z.eqb_refl, Z.add_0_r.
        rewrite Hout; [exact Hget| |].
        -- rewrite Z2N.id by lia. exact Hnin.
        -- apply vget_some_lt in Hget. exact Hget.
      * cbn [index_of]. destruct (Z.eqb_spec x id) as [->|Hne]; [contradiction|].
        rewrite Hin by exact Hx. f_equal. lia.
    + intros x Hx Hlt. rewrite Hout; [|intros Hc; apply Hx; right; exact Hc|lia].
      apply Hother; [|exact Hlt]. intros ->. apply Hx. left. rewrite Z2N.id by lia. reflexivity.
Qed.

Lemma inf_ids_length segs : length (inf_ids segs) = ids_total segs.
Proof.
  induction segs as [|s r IH]; [reflexivity|]. cbn [inf_ids flat_map ids_total].
  change (flat_map _ r) with (inf_ids r). cbn [app length]. rewrite app_length, map_length, IH. lia.
Qed.

Lemma index_of_lt ids x : In x ids -> (0 <= index_of ids x < Z.of_nat (length ids))%Z.
Proof.
  induction ids as [|y r IH]; [contradiction|]. intros Hin. cbn [index_of length].
  destruct (Z.eqb_spec x y) as [->|Hne]; [lia|]. destruct Hin as [->|Hin]; [congruence|].
  specialize (IH Hin). lia.
Qed.

Theorem renumber_loop_ok inf labels :
  NoDup (inf_ids (inf_segs inf)) -> Forall (fun i => (0 <= i)%Z) (inf_ids (inf_segs inf)) ->
  valid_labels (inf_ids (inf_segs inf)) labels -> (labels <> [] -> inf_segs inf <> []) ->
  exists o2n,
    o2n_segs (inf_segs inf) [] 0%Z = Ok (o2n, Z.of_nat (ids_total (inf_segs inf))) /\
    mapM (new_label o2n) labels = Ok (map (renumber (inf_ids (inf_segs inf))) labels) /\
    Forall (fun k => (0 <= k < Z.of_nat (ids_total (inf_segs inf)))%Z) (map (renumber (inf_ids (inf_segs inf))) labels).
Proof.
  intros Hnd Hpos Hval Hne. set (ids := inf_ids (inf_segs inf)) in *.
  destruct (o2n_ids_ok ids [] 0%Z Hnd Hpos) as (o2n & Hrun & _ & Hin & _).
  exists o2n. rewrite o2n_segs_flat. fold ids. rewrite Hrun. unfold ids at 1. rewrite inf_ids_length.
  split; [reflexivity|]. split.
  - apply mapM_ok. eapply Forall_impl; [|exact Hval]. cbn beta. intros l Hl.
    unfold new_label, renumber. destruct (Z.leb_spec 0 l) as [Hge|Hlt].
    + destruct (Z.ltb_spec l 0); [lia|]. destruct Hl as [Hl|Hl]; [lia|].
      rewrite (Hin l Hl). reflexivity.
    + destruct (Z.ltb_spec l 0); [reflexivity|lia].
  - apply Forall_forall. intros k Hk. apply in_map_iff in Hk. destruct Hk as (l & <- & Hlin).
    unfold valid_labels in Hval. rewrite Forall_forall in Hval. specialize (Hval l Hlin).
    unfold renumber. rewrite <- inf_ids_length. fold ids. destruct (Z.ltb_spec l 0) as [Hlt|Hge].
    + assert (Hlab : labels <> []) by (intros ->; contradiction).
      specialize (Hne Hlab).
      assert (Hids : ids <> []).
      { unfold ids. destruct (inf_segs inf) as [|s r]; [congruence|]. cbn. discriminate. }
      destruct ids; [congruence|]. cbn [length]. lia.
    + destruct Hval as [Hl|Hl]; [lia|]. apply index_of_lt. exact Hl.
Qed.

(* ---------------------------------------------------------------------------------------- *)
(* the property in one statement *)

Theorem set_get_labels b inf labels :
  let ids := inf_ids (inf_segs inf) in
  let nt := bs_nt b in
  NoDup ids -> Forall (fun i => (0 <= i)%Z) ids -> valid_labels ids labels ->
  (labels <> [] -> inf_segs inf <> []) ->
  vlen labels = nt -> vlen (bs_tris b) = nt -> 3 * nt < 4294967296 ->
  (Z.of_nat (ids_total (inf_segs inf)) < 2147483648)%Z ->
  let keys := map (renumber ids) labels in
  let sorted := stable_sort (combine (nseq nt) keys) in
  exists b', set_segmentation b inf labels = Ok b' /\
    bs_nt b' = nt /\ sn_nprim (bs_segn b') = nt /\ sn_nseg (bs_segn b') = vlen (sn_segs (bs_segn b')) /\
    bs_tris b' = map (fun i => nth (N.to_nat i) (bs_tris b) (0, 0, 0)) (map fst sorted) /\
    segs_tile 0 (sn_segs (bs_segn b')) nt /\
    sn_segs (bs_segn b') = segs_spec (cntlt (map snd sorted)) (inf_segs inf) 0 /\
    sn_recs (bs_segn b') = recs_spec (inf_segs inf) 0 /\
    exists inf', get_segmentation b' = Ok (inf', map snd sorted) /\
                 inf_shape (inf_segs inf') = shape_spec (inf_segs inf) 0.
Proof.
  intros ids nt Hnd Hpos Hval Hne Hlab Htris Hnt Hsmall keys sorted.
  destruct (renumber_loop_ok inf labels Hnd Hpos Hval Hne) as (o2n & Ho2n & Hkeys & Hrange).
  exact (set_get_segmentation b inf labels o2n _ keys Hlab Htris Hnt Ho2n eq_refl Hsmall Hkeys Hrange).
Qed.
