(* Deleting twice = deleting the union ([union2], GeomTwice.v), continued: NiSkinPartition partitions
   (prepared ones: [part_wf]), the whole NiSkinPartition block with RemoveEmptyPartitions, the
   dismember list, the skin instance, triangle strips (NiTriStripsData), NiLinesData, LOCKEDNORM
   lists, BSDynamicTriShape / BSMeshLODTriShape. The segment tables of BSSubIndexTriShape are in
   GeomTwiceSegs.v. *)
From NiflyVerif Require Import Res UtilModel UtilSpec CompactProofs EraseProofs FillProofs
  GeomModel GeomBase GeomSpec GeomProofs GeomSkinProofs GeomPartProofs GeomStripProofs RefitProofs
  GeomShapeProofs GeomTwice.
From Coq Require Import ZifyBool ZifyNat ZifyN Sorted Permutation.
Local Open Scope N_scope.

(* ---------------------------------------------------------------------------------------- *)
(* index lists that agree below a bound are interchangeable *)

Lemma rank_ext a b : forall p, (forall i, i < p -> memN i a = memN i b) -> rank a p = rank b p.
Proof.
  induction p as [|p IH] using N.peano_ind; intros H; [reflexivity|].
  replace (N.succ p) with (p + 1) by lia. rewrite !rank_succ. rewrite IH by (intros i Hi; apply H; lia).
  rewrite (H p) by lia. reflexivity.
Qed.

Lemma tris_spec_ext n a b tris : (forall i, i < n -> memN i a = memN i b) ->
  forallb (tri_lt n) tris = true -> tris_spec a tris = tris_spec b tris.
Proof.
  intros Hab. unfold tris_spec. induction tris as [|[[x y] z] tris IH]; intros Hall; [reflexivity|].
  cbn [forallb] in Hall. apply andb_prop in Hall. destruct Hall as [Ht Hall]. specialize (IH Hall).
  unfold tri_lt in Ht. repeat (apply andb_prop in Ht; destruct Ht as [Ht ?]). apply N.ltb_lt in Ht, H, H0.
  assert (E : tri_survives a (x, y, z) = tri_survives b (x, y, z)).
  { unfold tri_survives, survives. rewrite (Hab x), (Hab y), (Hab z) by assumption. reflexivity. }
  cbn [filter]. rewrite E. destruct (tri_survives b (x, y, z)); [|exact IH].
  cbn [map remap_tri]. rewrite IH.
  rewrite (rank_ext a b x), (rank_ext a b y), (rank_ext a b z) by (intros i Hi; apply Hab; lia). reflexivity.
Qed.

(* ---------------------------------------------------------------------------------------- *)
(* "survivors, re-indexed" on index lists: strips, vertex maps, LOCKEDNORM lists *)

Theorem strip_spec_twice idx1 idx2 n s : Forall (fun p => p < n) s ->
  strip_spec idx2 (strip_spec idx1 s) = strip_spec (union2 idx1 idx2 n) s.
Proof.
  unfold strip_spec. induction 1 as [|p s Hp Hall IH]; [reflexivity|].
  cbn [filter]. rewrite (survives_union2 idx1 idx2 n p Hp).
  destruct (survives idx1 p); cbn [andb map filter]; [|exact IH].
  destruct (survives idx2 (rank idx1 p)); cbn [map]; [|exact IH].
  rewrite IH. rewrite (rank_twice idx1 idx2 n) by lia. reflexivity.
Qed.

Lemma keep_partner_nil {A} idx (w : list A) : keep_partner idx [] w = [].
Proof. reflexivity. Qed.

(* the partner arrays (per-vertex weights, bone indices of a partition) *)
Theorem keep_partner_twice {A} idx1 idx2 n : forall (vm : list N) (w : list A),
  Forall (fun p => p < n) vm -> length w = length vm ->
  keep_partner idx2 (strip_spec idx1 vm) (keep_partner idx1 vm w) = keep_partner (union2 idx1 idx2 n) vm w.
Proof.
  unfold keep_partner, strip_spec. induction vm as [|p vm IH]; intros [|x w] Hall Hl; cbn [length] in Hl; try discriminate; [reflexivity|].
  inversion Hall as [|? ? Hp Hall']; subst. specialize (IH w Hall' ltac:(lia)).
  cbn [combine filter fst]. rewrite (survives_union2 idx1 idx2 n p Hp).
  destruct (survives idx1 p); cbn [andb map snd filter combine fst]; [|exact IH].
  destruct (survives idx2 (rank idx1 p)); cbn [map snd]; [|exact IH].
  rewrite IH. reflexivity.
Qed.

(* ---------------------------------------------------------------------------------------- *)
(* positions of the deleted vertex-map entries *)

Lemma memN_dlpos idx : forall vm i k,
  memN k (dlpos idx i vm) = (i <=? k) && (k <? i + vlen vm) && memN (nth (N.to_nat (k - i)) vm 0) idx.
Proof.
  induction vm as [|v vm IH]; intros i k; cbn [dlpos].
  - change (vlen (@nil N)) with 0. destruct (N.leb_spec i k), (N.ltb_spec k (i + 0)); try reflexivity; lia.
  - assert (Hl : vlen (v :: vm) = vlen vm + 1) by (unfold vlen; cbn [length]; lia).
    destruct (N.eqb_spec k i) as [->|Hne].
    + rewrite N.sub_diag. cbn [N.to_nat nth]. destruct (N.leb_spec i i); [|lia].
      destruct (N.ltb_spec i (i + vlen (v :: vm))); [|lia]. cbn [andb].
      destruct (memN v idx); [rewrite memN_cons, N.eqb_refl; reflexivity|apply memN_dlpos_head].
    + assert (E : memN k (if memN v idx then i :: dlpos idx (i + 1) vm else dlpos idx (i + 1) vm) = memN k (dlpos idx (i + 1) vm)).
      { destruct (memN v idx); [|reflexivity]. rewrite memN_cons. destruct (N.eqb_spec k i); [contradiction|reflexivity]. }
      rewrite E, IH, Hl.
      destruct (N.leb_spec (i + 1) k) as [H1|H1].
      * destruct (N.leb_spec i k); [|lia]. replace (i + 1 + vlen vm) with (i + (vlen vm + 1)) by lia.
        replace (N.to_nat (k - i)) with (S (N.to_nat (k - (i + 1)))) by lia. reflexivity.
      * destruct (N.leb_spec i k); [lia|]. reflexivity.
Qed.

Lemma memN_dlpos0 idx vm k : k < vlen vm -> memN k (dlpos idx 0 vm) = memN (nth (N.to_nat k) vm 0) idx.
Proof.
  intros H. rewrite memN_dlpos. rewrite N.sub_0_r. destruct (N.leb_spec 0 k); [|lia].
  destruct (N.ltb_spec k (0 + vlen vm)); [reflexivity|lia].
Qed.

Lemma firstn_succ_nth {A} (l : list A) (k : nat) d : (k < length l)%nat -> firstn (S k) l = firstn k l ++ [nth k l d].
Proof.
  revert k. induction l as [|x l IH]; intros k H; cbn [length] in H; [lia|].
  destruct k as [|k]; [reflexivity|]. rewrite (firstn_cons (S k)), (firstn_cons k). cbn [nth app]. f_equal. apply IH. lia.
Qed.

(* the new position of the k-th vertex-map entry = number of surviving entries before it *)
Lemma rank_dlpos idx vm : forall k, k <= vlen vm ->
  rank (dlpos idx 0 vm) k = vlen (filter (survives idx) (firstn (N.to_nat k) vm)).
Proof.
  induction k as [|k IH] using N.peano_ind; intros Hk; [reflexivity|].
  replace (N.succ k) with (k + 1) by lia. rewrite rank_succ, IH by lia. rewrite memN_dlpos0 by lia.
  replace (N.to_nat (k + 1)) with (S (N.to_nat k)) by lia.
  rewrite (firstn_succ_nth vm (N.to_nat k) 0) by (unfold vlen in Hk; lia).
  rewrite filter_app. unfold vlen. rewrite app_length. cbn [filter].
  assert (Es : survives idx (nth (N.to_nat k) vm 0) = negb (memN (nth (N.to_nat k) vm 0) idx)) by reflexivity.
  rewrite Es. destruct (memN (nth (N.to_nat k) vm 0) idx); cbn [negb length]; lia.
Qed.

Lemma split_at_nth {A} (l : list A) (k : nat) d : (k < length l)%nat ->
  l = firstn k l ++ nth k l d :: skipn (S k) l.
Proof.
  revert k. induction l as [|x l IH]; intros k H; cbn [length] in H; [lia|].
  destruct k as [|k]; [reflexivity|]. rewrite (firstn_cons k). cbn [nth app]. change (skipn (S (S k)) (x :: l)) with (skipn (S k) l). f_equal. apply IH. lia.
Qed.

(* ... and there it finds the entry, re-indexed *)
Lemma strip_spec_at idx vm k : k < vlen vm -> survives idx (nth (N.to_nat k) vm 0) = true ->
  let r := vlen (filter (survives idx) (firstn (N.to_nat k) vm)) in
  r < vlen (strip_spec idx vm) /\ nth (N.to_nat r) (strip_spec idx vm) 0 = rank idx (nth (N.to_nat k) vm 0).
Proof.
  intros Hk Hs r. unfold strip_spec.
  pose proof (split_at_nth vm (N.to_nat k) 0 ltac:(unfold vlen in Hk; lia)) as E.
  set (pre := firstn (N.to_nat k) vm) in *. set (x := nth (N.to_nat k) vm 0) in *. set (post := skipn (S (N.to_nat k)) vm) in *.
  rewrite E. rewrite filter_app, map_app. cbn [filter]. rewrite Hs. cbn [map].
  assert (Hr : N.to_nat r = length (map (rank idx) (filter (survives idx) pre))) by (unfold r, vlen; rewrite map_length; lia).
  split.
  - unfold vlen. rewrite app_length. cbn [length]. rewrite map_length in *. unfold r, vlen. lia.
  - rewrite Hr. rewrite app_nth2 by lia. rewrite Nat.sub_diag. reflexivity.
Qed.

Lemma nth_lt_Forall (P : N -> Prop) l k : Forall P l -> (k < length l)%nat -> P (nth k l 0).
Proof. intros H Hk. rewrite Forall_forall in H. apply H. apply nth_In. exact Hk. Qed.

(* the positions deleted by the two steps, translated back, are the positions the union deletes *)
Lemma gone2_dlpos idx1 idx2 n vm k : Forall (fun p => p < n) vm -> k < vlen vm ->
  gone2 (dlpos idx1 0 vm) (dlpos idx2 0 (strip_spec idx1 vm)) k = memN k (dlpos (union2 idx1 idx2 n) 0 vm).
Proof.
  intros Hall Hk. unfold gone2. rewrite (memN_dlpos0 idx1 vm k Hk), (memN_dlpos0 (union2 idx1 idx2 n) vm k Hk).
  set (x := nth (N.to_nat k) vm 0).
  assert (Hx : x < n) by (apply (nth_lt_Forall (fun p => p < n)); [exact Hall|unfold vlen in Hk; lia]).
  rewrite (memN_union2 idx1 idx2 n x Hx). unfold gone2.
  destruct (memN x idx1) eqn:Hm; cbn [orb]; [reflexivity|].
  assert (Hs : survives idx1 (nth (N.to_nat k) vm 0) = true) by (unfold survives; fold x; rewrite Hm; reflexivity).
  destruct (strip_spec_at idx1 vm k Hk Hs) as [Hr Hn]. cbv zeta in Hr, Hn.
  rewrite rank_dlpos by lia. rewrite memN_dlpos0 by exact Hr. rewrite Hn. reflexivity.
Qed.

(* triangles in partition-local (mapped) indices *)
Theorem tris_spec_dlpos_twice idx1 idx2 n vm tris : Forall (fun p => p < n) vm ->
  forallb (tri_lt (vlen vm)) tris = true ->
  tris_spec (dlpos idx2 0 (strip_spec idx1 vm)) (tris_spec (dlpos idx1 0 vm) tris) =
  tris_spec (dlpos (union2 idx1 idx2 n) 0 vm) tris.
Proof.
  intros Hall Ht. rewrite (tris_spec_twice _ _ (vlen vm)) by exact Ht.
  apply (tris_spec_ext (vlen vm)); [|exact Ht]. intros i Hi. rewrite memN_union2 by exact Hi.
  apply gone2_dlpos; assumption.
Qed.

(* ---------------------------------------------------------------------------------------- *)
(* one prepared partition *)

Lemma forallb_lt_Forall n l : forallb (fun v => v <? n) l = true -> Forall (fun v => v < n) l.
Proof. intros H. apply Forall_forall. intros v Hv. rewrite forallb_forall in H. apply N.ltb_lt. apply H. exact Hv. Qed.

Theorem part_spec_twice idx1 idx2 nv mapped p : part_wf nv mapped p = true ->
  part_spec idx2 mapped (part_spec idx1 mapped p) = part_spec (union2 idx1 idx2 nv) mapped p.
Proof.
  intros Hwf. unfold part_wf in Hwf. repeat (apply andb_prop in Hwf; destruct Hwf as [Hwf ?]).
  rename H into Htris. rename H2 into Hbi. rename H3 into Hvw. rename H6 into Hvm.
  apply forallb_lt_Forall in Hvm.
  unfold part_spec. cbn [p_vmap p_tris p_hasvw p_vw p_hasbi p_bi p_nstrips p_slens p_hasfaces p_strips].
  fold (strip_spec idx1 (p_vmap p)). fold (strip_spec idx2 (strip_spec idx1 (p_vmap p))).
  fold (strip_spec (union2 idx1 idx2 nv) (p_vmap p)).
  rewrite (strip_spec_twice idx1 idx2 nv) by exact Hvm.
  assert (Evw : (if p_hasvw p then keep_partner idx2 (strip_spec idx1 (p_vmap p))
                                     (if p_hasvw p then keep_partner idx1 (p_vmap p) (p_vw p) else p_vw p)
                 else (if p_hasvw p then keep_partner idx1 (p_vmap p) (p_vw p) else p_vw p)) =
                (if p_hasvw p then keep_partner (union2 idx1 idx2 nv) (p_vmap p) (p_vw p) else p_vw p)).
  { destruct (p_hasvw p); [|reflexivity]. apply N.eqb_eq in Hvw. apply keep_partner_twice; [exact Hvm|unfold vlen in Hvw; lia]. }
  assert (Ebi : (if p_hasbi p then keep_partner idx2 (strip_spec idx1 (p_vmap p))
                                     (if p_hasbi p then keep_partner idx1 (p_vmap p) (p_bi p) else p_bi p)
                 else (if p_hasbi p then keep_partner idx1 (p_vmap p) (p_bi p) else p_bi p)) =
                (if p_hasbi p then keep_partner (union2 idx1 idx2 nv) (p_vmap p) (p_bi p) else p_bi p)).
  { destruct (p_hasbi p); [|reflexivity]. apply N.eqb_eq in Hbi. apply keep_partner_twice; [exact Hvm|unfold vlen in Hbi; lia]. }
  rewrite Evw, Ebi.
  destruct mapped.
  - rewrite (tris_spec_dlpos_twice idx1 idx2 nv) by assumption. reflexivity.
  - apply andb_prop in Htris. destruct Htris as [Hlt _].
    rewrite (tris_spec_twice idx1 idx2 nv) by exact Hlt. reflexivity.
Qed.

(* a partition emptied by the first deletion stays empty: RemoveEmptyPartitions removes the same
   partitions either way *)
Lemma part_spec_empty_stays idx1 idx2 mapped p :
  nonempty_part (part_spec idx1 mapped p) = false ->
  nonempty_part (part_spec idx2 mapped (part_spec idx1 mapped p)) = false.
Proof.
  unfold nonempty_part. intros H. apply negb_false_iff, N.eqb_eq in H. apply negb_false_iff, N.eqb_eq.
  unfold part_spec in H |- *. cbn [p_nt p_tris p_vmap] in H |- *.
  assert (E : forall t : list tri, vlen t = 0 -> t = []) by (intros t Ht; destruct t; [reflexivity|unfold vlen in Ht; cbn [length] in Ht; lia]).
  destruct mapped; apply E in H; rewrite H; reflexivity.
Qed.

(* ---------------------------------------------------------------------------------------- *)
(* filtering after mapping, twice *)

Lemma filter_map_twice {A} (f : A -> bool) (g1 g2 g : A -> A) (l : list A) :
  (forall x, In x l -> g2 (g1 x) = g x) -> (forall x, In x l -> f (g1 x) = false -> f (g x) = false) ->
  filter f (map g2 (filter f (map g1 l))) = filter f (map g l).
Proof.
  induction l as [|x l IH]; intros H1 H2; [reflexivity|]. cbn [map filter].
  specialize (IH (fun y Hy => H1 y (or_intror Hy)) (fun y Hy => H2 y (or_intror Hy))).
  destruct (f (g1 x)) eqn:E.
  - cbn [map filter]. rewrite (H1 x (or_introl eq_refl)). destruct (f (g x)); rewrite IH; reflexivity.
  - rewrite (H2 x (or_introl eq_refl) E). exact IH.
Qed.

Lemma keep_twice {A B} (f : A -> bool) (g1 g2 g : A -> A) : forall (l : list A) (w : list B),
  length w = length l ->
  (forall x, In x l -> g2 (g1 x) = g x) -> (forall x, In x l -> f (g1 x) = false -> f (g x) = false) ->
  map snd (filter (fun x => f (fst x))
                  (combine (map g2 (filter f (map g1 l))) (map snd (filter (fun x => f (fst x)) (combine (map g1 l) w))))) =
  map snd (filter (fun x => f (fst x)) (combine (map g l) w)).
Proof.
  induction l as [|x l IH]; intros [|y w] Hl H1 H2; cbn [length] in Hl; try discriminate; [reflexivity|].
  specialize (IH w ltac:(lia) (fun z Hz => H1 z (or_intror Hz)) (fun z Hz => H2 z (or_intror Hz))).
  cbn [map combine filter fst].
  destruct (f (g1 x)) eqn:E.
  - cbn [map snd combine filter fst]. rewrite (H1 x (or_introl eq_refl)).
    destruct (f (g x)); cbn [map snd]; rewrite IH; reflexivity.
  - rewrite (H2 x (or_introl eq_refl) E). exact IH.
Qed.

(* ---------------------------------------------------------------------------------------- *)
(* the NiSkinPartition block (with RemoveEmptyPartitions), the dismember list, the skin instance *)

Theorem skinpart_spec_twice idx1 idx2 nv sp : skinpart_wf nv sp = true ->
  skinpart_spec idx2 (skinpart_spec idx1 sp) = skinpart_spec (union2 idx1 idx2 nv) sp.
Proof.
  intros Hwf. unfold skinpart_wf in Hwf. repeat (apply andb_prop in Hwf; destruct Hwf as [Hwf ?]).
  rename H0 into Hparts. rename H into Hvd.
  unfold skinpart_spec. cbn [sp_parts sp_mapped sp_vdata sp_nv].
  assert (Ep : filter nonempty_part (map (part_spec idx2 (sp_mapped sp))
                 (filter nonempty_part (map (part_spec idx1 (sp_mapped sp)) (sp_parts sp)))) =
               filter nonempty_part (map (part_spec (union2 idx1 idx2 nv) (sp_mapped sp)) (sp_parts sp))).
  { apply filter_map_twice.
    - intros p Hp. apply (part_spec_twice idx1 idx2 nv). rewrite forallb_forall in Hparts. apply Hparts. exact Hp.
    - intros p Hp He. rewrite <- (part_spec_twice idx1 idx2 nv) by (rewrite forallb_forall in Hparts; apply Hparts; exact Hp).
      apply part_spec_empty_stays. exact He. }
  rewrite Ep.
  assert (Ev : erase_spec (erase_spec (sp_vdata sp) idx1) idx2 = erase_spec (sp_vdata sp) (union2 idx1 idx2 nv)).
  { apply erase_spec_twice_n. destruct (sp_vdata sp) as [|v0 vd] eqn:E; [unfold vlen; cbn [length]; lia|].
    cbn [isnil orb] in Hvd. apply andb_prop in Hvd. destruct Hvd as [Hv1 _]. apply N.eqb_eq in Hv1. lia. }
  rewrite Ev. f_equal.
  destruct (sp_vdata sp) as [|v0 vd] eqn:E; [reflexivity|]. cbn [isnil].
  destruct (erase_spec (v0 :: vd) idx1) as [|w0 wd] eqn:E1; cbn [isnil]; [|reflexivity].
  rewrite <- Ev. reflexivity.
Qed.

Theorem keep_dm_twice idx1 idx2 nv sp dm : skinpart_wf nv sp = true -> length dm = length (sp_parts sp) ->
  keep_dm idx2 (skinpart_spec idx1 sp) (keep_dm idx1 sp dm) = keep_dm (union2 idx1 idx2 nv) sp dm.
Proof.
  intros Hwf Hl. unfold skinpart_wf in Hwf. repeat (apply andb_prop in Hwf; destruct Hwf as [Hwf ?]).
  rename H0 into Hparts. unfold keep_dm, skinpart_spec. cbn [sp_parts sp_mapped].
  apply (keep_twice nonempty_part); [exact Hl| |].
  - intros p Hp. apply (part_spec_twice idx1 idx2 nv). rewrite forallb_forall in Hparts. apply Hparts. exact Hp.
  - intros p Hp He. rewrite <- (part_spec_twice idx1 idx2 nv) by (rewrite forallb_forall in Hparts; apply Hparts; exact Hp).
    apply part_spec_empty_stays. exact He.
Qed.

Theorem bone_spec_twice idx1 idx2 nv b : bone_wf nv b = true ->
  bone_spec idx2 (bone_spec idx1 b) = bone_spec (union2 idx1 idx2 nv) b.
Proof.
  intros Hwf. unfold bone_wf in Hwf. repeat (apply andb_prop in Hwf; destruct Hwf as [Hwf ?]).
  unfold bone_spec. cbn [bn_weights]. rewrite (weights_spec_twice idx1 idx2 nv) by assumption. reflexivity.
Qed.

Theorem skin_spec_twice idx1 idx2 nv k : skin_wf nv k = true ->
  skin_spec idx2 (skin_spec idx1 k) = skin_spec (union2 idx1 idx2 nv) k.
Proof.
  intros Hwf. unfold skin_wf in Hwf. apply andb_prop in Hwf. destruct Hwf as [Hd Hp].
  unfold skin_spec. cbn [sk_data sk_part sk_dismember]. f_equal.
  - destruct (sk_data k) as [bones|]; [|reflexivity]. cbn [option_map]. f_equal. rewrite map_map.
    apply map_ext_in. intros b Hb. apply bone_spec_twice. rewrite forallb_forall in Hd. apply Hd. exact Hb.
  - destruct (sk_part k) as [sp|]; [|reflexivity]. cbn [option_map]. f_equal.
    apply andb_prop in Hp. destruct Hp as [Hp _]. apply skinpart_spec_twice. exact Hp.
  - destruct (sk_part k) as [sp|]; cbn [option_map]; [|destruct (sk_dismember k); reflexivity].
    destruct (sk_dismember k) as [dm|]; [|reflexivity]. f_equal.
    apply andb_prop in Hp. destruct Hp as [Hp Hl]. apply N.eqb_eq in Hl.
    apply keep_dm_twice; [exact Hp|unfold vlen in Hl; lia].
Qed.

(* ---------------------------------------------------------------------------------------- *)
(* LOCKEDNORM lists: the list is sorted first; a sorted list stays sorted under re-indexing, so the
   second sort changes nothing *)

Definition sorted_le (l : list N) : Prop := StronglySorted N.le l.

Lemma insert_asc_front x l : Forall (fun y => x <= y) l -> insert_asc x l = x :: l.
Proof.
  induction 1 as [|y l Hy Hall IH]; [reflexivity|]. cbn [insert_asc].
  destruct (N.ltb_spec x y); [reflexivity|]. assert (x = y) by lia. subst y. rewrite IH. reflexivity.
Qed.

Lemma sort_asc_sorted_id l : sorted_le l -> sort_asc l = l.
Proof.
  induction 1 as [|x l Hs IH Hall]; [reflexivity|]. unfold sort_asc in *. cbn [fold_right]. rewrite IH.
  apply insert_asc_front. exact Hall.
Qed.

Lemma insert_asc_sorted x l : sorted_le l -> sorted_le (insert_asc x l).
Proof.
  induction 1 as [|y l Hs IH Hall]; cbn [insert_asc]; [constructor; constructor|].
  destruct (N.ltb_spec x y).
  - constructor; [constructor; assumption|]. constructor; [lia|]. eapply Forall_impl; [|exact Hall]. cbn; intros; lia.
  - constructor; [exact IH|]. apply Forall_forall. intros z Hz.
    apply (Permutation_in _ (insert_asc_perm x l)) in Hz. destruct Hz as [<-|Hz]; [lia|].
    rewrite Forall_forall in Hall. apply Hall. exact Hz.
Qed.

Lemma sort_asc_sorted l : sorted_le (sort_asc l).
Proof. unfold sort_asc. induction l as [|x l IH]; cbn [fold_right]; [constructor|apply insert_asc_sorted; exact IH]. Qed.

Lemma strip_spec_sorted idx l : sorted_le l -> sorted_le (strip_spec idx l).
Proof.
  unfold strip_spec. induction 1 as [|x l Hs IH Hall]; [constructor|]. cbn [filter].
  destruct (survives idx x); [|exact IH]. cbn [map]. constructor; [exact IH|].
  apply Forall_forall. intros y Hy. apply in_map_iff in Hy. destruct Hy as (z & <- & Hz). apply filter_In in Hz.
  destruct Hz as [Hz _]. rewrite Forall_forall in Hall. apply GeomBase.rank_mono. apply Hall. exact Hz.
Qed.

Theorem locked_spec_twice idx1 idx2 n v : Forall (fun x => x < n) v ->
  locked_spec idx2 (locked_spec idx1 v) = locked_spec (union2 idx1 idx2 n) v.
Proof.
  intros Hall. unfold locked_spec.
  change (map (rank idx1) (filter (survives idx1) (sort_asc v))) with (strip_spec idx1 (sort_asc v)).
  rewrite sort_asc_sorted_id by (apply strip_spec_sorted; apply sort_asc_sorted).
  apply (strip_spec_twice idx1 idx2 n). apply Forall_forall. intros x Hx.
  apply (Permutation_in _ (sort_asc_perm v)) in Hx. rewrite Forall_forall in Hall. apply Hall. exact Hx.
Qed.

(* ---------------------------------------------------------------------------------------- *)
(* NiGeometryData kinds *)

Lemma gd_base_spec_twice g idx1 idx2 : gd_base_wf g = true ->
  gd_base_spec (gd_base_spec g idx1) idx2 = gd_base_spec g (union2 idx1 idx2 (vlen (gd_verts g))).
Proof.
  intros Hb. unfold gd_base_wf in Hb. repeat (apply andb_prop in Hb; destruct Hb as [Hb ?]).
  set (n := vlen (gd_verts g)) in *.
  assert (Hattr : forall a, attr_ok n a = true -> erase_spec (erase_spec a idx1) idx2 = erase_spec a (union2 idx1 idx2 n)).
  { intros a Ha. apply erase_spec_twice_n. destruct (attr_ok_spec _ _ Ha); lia. }
  unfold gd_base_spec.
  cbn [gd_kind gd_nv gd_verts gd_norms gd_tans gd_bitans gd_colors gd_uvsets gd_nt gd_ntp gd_tris gd_slens gd_points gd_lflags].
  rewrite (erase_spec_twice_n (gd_verts g) idx1 idx2 n) by (unfold n; lia).
  rewrite !Hattr by assumption.
  f_equal. rewrite map_map. apply map_ext_in. intros uv Huv. apply Hattr.
  rewrite forallb_forall in H. apply H. exact Huv.
Qed.

Lemma gd_base_spec_verts g idx : vlen (gd_verts (gd_base_spec g idx)) = rank idx (vlen (gd_verts g)).
Proof. unfold gd_base_spec. cbn [gd_verts]. apply erase_spec_vlen. Qed.

(* NiTriStripsData: every strip keeps its surviving points, re-indexed; lengths and the triangle
   counter follow *)
Theorem gd_tristrips_spec_twice g idx1 idx2 : gd_kind g = GKTriStrips -> gd_wf g = true ->
  gd_tristrips_spec (gd_tristrips_spec g idx1) idx2 = gd_tristrips_spec g (union2 idx1 idx2 (vlen (gd_verts g))).
Proof.
  intros Hk Hwf. pose proof (gd_wf_base g Hwf) as Hb.
  unfold gd_wf in Hwf. rewrite Hk in Hwf.
  apply andb_prop in Hwf. destruct Hwf as [_ Hwf]. repeat (apply andb_prop in Hwf; destruct Hwf as [Hwf ?]).
  apply N.eqb_eq in Hwf. rename H0 into Hstrips. rename H into Hlens.
  set (n := vlen (gd_verts g)) in *.
  assert (Hlen : length (gd_slens g) = length (gd_points g)) by (unfold vlen in Hwf; lia).
  pose proof (strips_wf_in _ _ _ Hstrips Hlens Hlen) as Hin.
  assert (Hpts : Forall (fun s => Forall (fun p => p < n) s) (gd_points g)).
  { clear -Hin Hlen. revert Hin Hlen. generalize (gd_slens g) as sl. induction (gd_points g) as [|s ps IH]; intros sl Hin Hlen; [constructor|].
    destruct sl as [|l sl]; [discriminate|]. cbn [combine] in Hin. inversion Hin as [|? ? Hs Hin']; subst.
    constructor; [destruct Hs as (_ & Hp & _); exact Hp|]. apply (IH sl); [exact Hin'|cbn [length] in Hlen; lia]. }
  assert (Ep : map (strip_spec idx2) (map (strip_spec idx1) (gd_points g)) = map (strip_spec (union2 idx1 idx2 n)) (gd_points g)).
  { rewrite map_map. apply map_ext_in. intros s Hs. apply strip_spec_twice. rewrite Forall_forall in Hpts. apply Hpts. exact Hs. }
  assert (El : map (fun s => vlen (strip_spec idx2 s)) (map (strip_spec idx1) (gd_points g)) =
               map (fun s => vlen (strip_spec (union2 idx1 idx2 n) s)) (gd_points g)).
  { rewrite map_map. apply map_ext_in. intros s Hs. rewrite (strip_spec_twice idx1 idx2 n); [reflexivity|].
    rewrite Forall_forall in Hpts. apply Hpts. exact Hs. }
  unfold gd_base_wf in Hb. repeat (apply andb_prop in Hb; destruct Hb as [Hb ?]).
  assert (Hattr : forall a, attr_ok n a = true -> erase_spec (erase_spec a idx1) idx2 = erase_spec a (union2 idx1 idx2 n)).
  { intros a Ha. apply erase_spec_twice_n. destruct (attr_ok_spec _ _ Ha); lia. }
  unfold gd_tristrips_spec, gd_base_spec.
  cbn [gd_kind gd_nv gd_verts gd_norms gd_tans gd_bitans gd_colors gd_uvsets gd_nt gd_ntp gd_tris gd_slens gd_points gd_lflags].
  rewrite Ep, El. rewrite (erase_spec_twice_n (gd_verts g) idx1 idx2 n) by (unfold n; lia).
  rewrite !Hattr by assumption.
  f_equal. rewrite map_map. apply map_ext_in. intros uv Huv. apply Hattr.
  rewrite forallb_forall in H. apply H. exact Huv.
Qed.

Theorem gd_lines_spec_twice g idx1 idx2 : gd_kind g = GKLines -> gd_wf g = true ->
  gd_lines_spec (gd_lines_spec g idx1) idx2 = gd_lines_spec g (union2 idx1 idx2 (vlen (gd_verts g))).
Proof.
  intros Hk Hwf. pose proof (gd_wf_base g Hwf) as Hb.
  unfold gd_wf in Hwf. rewrite Hk in Hwf. apply andb_prop in Hwf. destruct Hwf as [_ Hl]. apply N.eqb_eq in Hl.
  set (n := vlen (gd_verts g)) in *.
  unfold gd_base_wf in Hb. repeat (apply andb_prop in Hb; destruct Hb as [Hb ?]).
  assert (Hattr : forall a, attr_ok n a = true -> erase_spec (erase_spec a idx1) idx2 = erase_spec a (union2 idx1 idx2 n)).
  { intros a Ha. apply erase_spec_twice_n. destruct (attr_ok_spec _ _ Ha); lia. }
  unfold gd_lines_spec, gd_base_spec.
  cbn [gd_kind gd_nv gd_verts gd_norms gd_tans gd_bitans gd_colors gd_uvsets gd_nt gd_ntp gd_tris gd_slens gd_points gd_lflags].
  rewrite (erase_spec_twice_n (gd_verts g) idx1 idx2 n) by (unfold n; lia).
  rewrite (erase_spec_twice_n (gd_lflags g) idx1 idx2 n) by lia.
  rewrite !Hattr by assumption.
  f_equal. rewrite map_map. apply map_ext_in. intros uv Huv. apply Hattr.
  rewrite forallb_forall in H. apply H. exact Huv.
Qed.

(* every NiGeometryData kind *)
Theorem gd_spec_twice g idx1 idx2 : gd_wf g = true ->
  gd_spec idx2 (gd_spec idx1 g) = gd_spec (union2 idx1 idx2 (vlen (gd_verts g))) g.
Proof.
  intros Hwf. unfold gd_spec at 1. rewrite gd_spec_kind. unfold gd_spec. destruct (gd_kind g) eqn:Hk.
  - apply gd_trishape_spec_twice; assumption.
  - apply gd_tristrips_spec_twice; assumption.
  - apply gd_lines_spec_twice; assumption.
  - apply gd_base_spec_twice. apply gd_wf_base. exact Hwf.
Qed.

(* ---------------------------------------------------------------------------------------- *)
(* BSTriShape kinds. [bs_deleted] (the scratch list deletedTris: positions of the triangles the LAST
   call dropped) necessarily differs between two calls and one; it is left out of the comparison. *)

Definition bs_forget_deleted (b : bsshape) : bsshape :=
  mkBs (bs_kind b) (bs_nv b) (bs_vdata b) (bs_nt b) (bs_tris b) [] (bs_dyn b) (bs_dynsize b)
       (bs_lod0 b) (bs_lod1 b) (bs_lod2 b) (bs_segn b) (bs_ssen b) (bs_sse b).

Theorem bs_base_spec_twice_all b idx1 idx2 : bs_core_wf b = true ->
  bs_forget_deleted (bs_base_spec (bs_base_spec b idx1) idx2) =
  bs_forget_deleted (bs_base_spec b (union2 idx1 idx2 (vlen (bs_vdata b)))).
Proof.
  intros Hwf. unfold bs_core_wf in Hwf. repeat (apply andb_prop in Hwf; destruct Hwf as [Hwf ?]).
  unfold bs_forget_deleted, bs_base_spec.
  cbn [bs_kind bs_nv bs_vdata bs_nt bs_tris bs_deleted bs_dyn bs_dynsize bs_lod0 bs_lod1 bs_lod2 bs_segn bs_ssen bs_sse].
  rewrite (tris_spec_twice idx1 idx2 (vlen (bs_vdata b))) by assumption.
  rewrite (erase_spec_twice (bs_vdata b) idx1 idx2). reflexivity.
Qed.

Theorem bs_dyn_spec_twice b idx1 idx2 : bs_kind b = BSDynamic -> bs_core_wf b = true ->
  bs_forget_deleted (bs_dyn_spec (bs_dyn_spec b idx1) idx2) =
  bs_forget_deleted (bs_dyn_spec b (union2 idx1 idx2 (vlen (bs_vdata b)))).
Proof.
  intros Hk Hwf. unfold bs_core_wf in Hwf. rewrite Hk in Hwf. repeat (apply andb_prop in Hwf; destruct Hwf as [Hwf ?]).
  apply N.eqb_eq in H.
  unfold bs_forget_deleted, bs_dyn_spec, bs_set_dyn, bs_base_spec.
  cbn [bs_kind bs_nv bs_vdata bs_nt bs_tris bs_deleted bs_dyn bs_dynsize bs_lod0 bs_lod1 bs_lod2 bs_segn bs_ssen bs_sse].
  rewrite (tris_spec_twice idx1 idx2 (vlen (bs_vdata b))) by assumption.
  rewrite (erase_spec_twice (bs_vdata b) idx1 idx2).
  rewrite (erase_spec_twice_n (bs_dyn b) idx1 idx2 (vlen (bs_vdata b))) by lia. reflexivity.
Qed.

Theorem bs_lod_spec_twice b idx1 idx2 : bs_core_wf b = true ->
  bs_forget_deleted (bs_lod_spec (bs_lod_spec b idx1) idx2) =
  bs_forget_deleted (bs_lod_spec b (union2 idx1 idx2 (vlen (bs_vdata b)))).
Proof.
  intros Hwf. unfold bs_core_wf in Hwf. repeat (apply andb_prop in Hwf; destruct Hwf as [Hwf ?]).
  unfold bs_forget_deleted, bs_lod_spec, bs_set_lod, bs_base_spec.
  cbn [bs_kind bs_nv bs_vdata bs_nt bs_tris bs_deleted bs_dyn bs_dynsize bs_lod0 bs_lod1 bs_lod2 bs_segn bs_ssen bs_sse].
  rewrite (tris_spec_twice idx1 idx2 (vlen (bs_vdata b))) by assumption.
  rewrite (erase_spec_twice (bs_vdata b) idx1 idx2). reflexivity.
Qed.

(* BSTriShape, BSDynamicTriShape, BSMeshLODTriShape *)
Theorem bs_spec_twice b idx1 idx2 : bs_core_wf b = true -> bs_kind b <> BSSubIndex ->
  bs_forget_deleted (bs_spec idx2 (bs_spec idx1 b)) =
  bs_forget_deleted (bs_spec (union2 idx1 idx2 (vlen (bs_vdata b))) b).
Proof.
  intros Hwf Hk. unfold bs_spec at 1. rewrite bs_spec_kind. unfold bs_spec. destruct (bs_kind b) eqn:Ek.
  - apply bs_base_spec_twice_all. exact Hwf.
  - apply bs_dyn_spec_twice; assumption.
  - apply bs_lod_spec_twice. exact Hwf.
  - contradiction.
Qed.

(* BSSubIndexTriShape: everything but the segment tables (for those see GeomTwiceSegs.v) *)
Definition segn_none : segmentation := mkSegmentation 0 0 0 [] 0 0 [] [] 0.
Definition bs_forget_segs (b : bsshape) : bsshape :=
  mkBs (bs_kind b) (bs_nv b) (bs_vdata b) (bs_nt b) (bs_tris b) [] (bs_dyn b) (bs_dynsize b)
       (bs_lod0 b) (bs_lod1 b) (bs_lod2 b) segn_none (bs_ssen b) [].

Theorem bs_sits_spec_twice_core b idx1 idx2 : bs_core_wf b = true ->
  bs_forget_segs (bs_sits_spec (bs_sits_spec b idx1) idx2) =
  bs_forget_segs (bs_sits_spec b (union2 idx1 idx2 (vlen (bs_vdata b)))).
Proof.
  intros Hwf. unfold bs_core_wf in Hwf. repeat (apply andb_prop in Hwf; destruct Hwf as [Hwf ?]).
  unfold bs_forget_segs, bs_sits_spec, bs_set_segs, bs_base_spec.
  cbn [bs_kind bs_nv bs_vdata bs_nt bs_tris bs_deleted bs_dyn bs_dynsize bs_lod0 bs_lod1 bs_lod2 bs_segn bs_ssen bs_sse].
  rewrite (tris_spec_twice idx1 idx2 (vlen (bs_vdata b))) by assumption.
  rewrite (erase_spec_twice (bs_vdata b) idx1 idx2). reflexivity.
Qed.

Lemma bs_forget_segs_deleted b b' : bs_forget_deleted b = bs_forget_deleted b' -> bs_forget_segs b = bs_forget_segs b'.
Proof. unfold bs_forget_deleted, bs_forget_segs. intros H. inversion H. reflexivity. Qed.

Theorem bs_spec_twice_core b idx1 idx2 : bs_core_wf b = true ->
  bs_forget_segs (bs_spec idx2 (bs_spec idx1 b)) =
  bs_forget_segs (bs_spec (union2 idx1 idx2 (vlen (bs_vdata b))) b).
Proof.
  intros Hwf. destruct (bs_kind b) eqn:Ek.
  1-3: apply bs_forget_segs_deleted; apply bs_spec_twice; [exact Hwf|rewrite Ek; discriminate].
  unfold bs_spec at 1. rewrite bs_spec_kind. unfold bs_spec. rewrite Ek. apply bs_sits_spec_twice_core. exact Hwf.
Qed.

(* ---------------------------------------------------------------------------------------- *)
(* NifFile::DeleteVertsForShape as a whole *)

Definition shape_view (f : bsshape -> bsshape) (s : shape) : shape :=
  mkShape (sh_gdata s) (option_map f (sh_bs s)) (sh_skin s) (sh_locked s).

Lemma shape_spec_twice_gen (f : bsshape -> bsshape) idx1 idx2 s : shape_wf s = true ->
  (forall b, sh_bs s = Some b -> bs_core_wf b = true ->
     f (bs_spec idx2 (bs_spec idx1 b)) = f (bs_spec (union2 idx1 idx2 (vlen (bs_vdata b))) b)) ->
  shape_view f (shape_spec idx2 (shape_spec idx1 s)) =
  shape_view f (shape_spec (union2 idx1 idx2 (shape_nv s)) s).
Proof.
  intros Hwf Hf. unfold shape_wf in Hwf. repeat (apply andb_prop in Hwf; destruct Hwf as [Hwf ?]).
  rename H into Hlocked. rename H0 into Hskin. rename H2 into Hexcl. rename H3 into Hbs. rename Hwf into Hgd.
  unfold shape_view, shape_spec. cbn [sh_gdata sh_bs sh_skin sh_locked]. f_equal.
  - destruct (sh_gdata s) as [g|] eqn:Eg; [|reflexivity]. cbn [option_map]. f_equal.
    unfold shape_nv. rewrite Eg. apply gd_spec_twice. exact Hgd.
  - destruct (sh_bs s) as [b|] eqn:Eb; [|reflexivity]. cbn [option_map]. f_equal.
    apply andb_prop in Hbs. destruct Hbs as [Hcore _].
    assert (Env : shape_nv s = vlen (bs_vdata b)).
    { unfold shape_nv. rewrite Eb. destruct (sh_gdata s); [discriminate|reflexivity]. }
    rewrite Env. apply Hf; [reflexivity|exact Hcore].
  - destruct (sh_skin s) as [k|]; [|reflexivity]. cbn [option_map]. f_equal. apply skin_spec_twice. exact Hskin.
  - rewrite map_map. apply map_ext_in. intros l Hl. apply locked_spec_twice.
    rewrite forallb_forall in Hlocked. specialize (Hlocked l Hl). unfold locked_wf in Hlocked.
    apply andb_prop in Hlocked. destruct Hlocked as [_ Hl2]. apply forallb_lt_Forall. exact Hl2.
Qed.

(* every geometry kind; for a BSSubIndexTriShape everything but the segment tables *)
Theorem shape_spec_twice_core idx1 idx2 s : shape_wf s = true ->
  shape_view bs_forget_segs (shape_spec idx2 (shape_spec idx1 s)) =
  shape_view bs_forget_segs (shape_spec (union2 idx1 idx2 (shape_nv s)) s).
Proof.
  intros Hwf. apply shape_spec_twice_gen; [exact Hwf|]. intros b _ Hcore. apply bs_spec_twice_core. exact Hcore.
Qed.

(* NiTriShape / NiTriStrips / NiLines data, BSTriShape, BSDynamicTriShape, BSMeshLODTriShape, with
   skin instance, partitions, dismember list and LOCKEDNORM lists: the whole result agrees (up to the
   scratch list deletedTris) *)
Theorem shape_spec_twice idx1 idx2 s : shape_wf s = true ->
  (forall b, sh_bs s = Some b -> bs_kind b <> BSSubIndex) ->
  shape_view bs_forget_deleted (shape_spec idx2 (shape_spec idx1 s)) =
  shape_view bs_forget_deleted (shape_spec (union2 idx1 idx2 (shape_nv s)) s).
Proof.
  intros Hwf Hk. apply shape_spec_twice_gen; [exact Hwf|]. intros b Hb Hcore. apply bs_spec_twice; [exact Hcore|apply Hk; exact Hb].
Qed.

(* two calls of the model = one call with the union, on every well-formed shape *)
Theorem delete_verts_twice idx1 idx2 s : idx_ok idx1 -> idx_ok idx2 -> shape_wf s = true ->
  exists s1 f1 s2 f2,
    delete_verts s idx1 = Ok (s1, f1) /\ delete_verts s1 idx2 = Ok (s2, f2) /\
    s2 = shape_spec idx2 (shape_spec idx1 s) /\
    shape_view bs_forget_segs s2 = shape_view bs_forget_segs (shape_spec (union2 idx1 idx2 (shape_nv s)) s).
Proof.
  intros H1 H2 Hwf. destruct (delete_verts_ok s idx1 H1 Hwf) as (f1 & E1).
  destruct (delete_verts_ok (shape_spec idx1 s) idx2 H2 (shape_spec_wf idx1 s Hwf)) as (f2 & E2).
  exists (shape_spec idx1 s), f1, (shape_spec idx2 (shape_spec idx1 s)), f2.
  split; [exact E1|]. split; [exact E2|]. split; [reflexivity|]. apply shape_spec_twice_core. exact Hwf.
Qed.

(* the union is a legal argument of DeleteVertsForShape whenever the two calls deleted anything *)
Lemma shape_wf_nv s : shape_wf s = true -> shape_nv s < 65536.
Proof.
  intros Hwf. unfold shape_wf in Hwf. repeat (apply andb_prop in Hwf; destruct Hwf as [Hwf ?]). apply N.ltb_lt. assumption.
Qed.

Theorem union2_idx_ok idx1 idx2 n : n < 65536 -> union2 idx1 idx2 n <> [] -> idx_ok (union2 idx1 idx2 n).
Proof.
  intros Hn Hne. split; [exact Hne|]. split; [apply union2_sorted|].
  eapply Forall_impl; [|apply union2_lt]. cbn. intros; lia.
Qed.

Theorem delete_verts_union idx1 idx2 s : shape_wf s = true -> union2 idx1 idx2 (shape_nv s) <> [] ->
  exists f, delete_verts s (union2 idx1 idx2 (shape_nv s)) = Ok (shape_spec (union2 idx1 idx2 (shape_nv s)) s, f).
Proof.
  intros Hwf Hne. apply delete_verts_ok; [|exact Hwf]. apply union2_idx_ok; [apply shape_wf_nv; exact Hwf|exact Hne].
Qed.

(* a first index list inside the vertex range makes the union non-empty *)
Lemma union2_nonempty idx1 idx2 n i : In i idx1 -> i < n -> union2 idx1 idx2 n <> [].
Proof.
  intros Hi Hn He. assert (Hm : memN i (union2 idx1 idx2 n) = true).
  { rewrite memN_union2 by exact Hn. unfold gone2. apply orb_true_iff. left. apply memN_true_iff. exact Hi. }
  rewrite He in Hm. discriminate.
Qed.
