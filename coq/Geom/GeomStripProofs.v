(* NiTriStripsData::notifyVerticesDelete: every strip keeps its surviving points, re-indexed, in
   order (the code itself calls this "not a healthy way to delete strip data": triangles that did
   not exist before may appear where a point is taken out of a strip); what is proved is that all
   points stay below the new vertex count and that strip lengths agree with the strips. *)
From NiflyVerif Require Import Res UtilModel UtilSpec CompactProofs EraseProofs FillProofs
  GeomModel GeomBase GeomSpec GeomProofs GeomSkinProofs.
From Coq Require Import ZifyBool ZifyNat ZifyN Sorted.
Local Open Scope N_scope.

Definition strip_spec (idx : list N) (s : list N) : list N := map (rank idx) (filter (survives idx) s).

Lemma strip_spec_le idx s : vlen (strip_spec idx s) <= vlen s.
Proof. unfold strip_spec, vlen. rewrite map_length. pose proof (filter_length_le' (survives idx) s). lia. Qed.

Lemma strip_spec_cons idx p r :
  strip_spec idx (p :: r) = if memN p idx then strip_spec idx r else rank idx p :: strip_spec idx r.
Proof. unfold strip_spec. cbn [filter]. unfold survives at 1. destruct (memN p idx); reflexivity. Qed.

Lemma vget_app_mid {A} (pre : list A) x post : vget (pre ++ x :: post) (vlen pre) = Some x.
Proof. unfold vget, vlen. rewrite Nat2N.id, nth_error_app2 by lia. rewrite Nat.sub_diag. reflexivity. Qed.

Lemma erase_at_app_mid {A} (pre : list A) x post : erase_at (vlen pre) (pre ++ x :: post) = pre ++ post.
Proof.
  unfold erase_at, vlen. rewrite Nat2N.id.
  rewrite firstn_app, firstn_all, Nat.sub_diag. cbn [firstn]. rewrite app_nil_r.
  replace (S (length pre)) with (length pre + 1)%nat by lia.
  rewrite skipn_app, skipn_all2 by lia. cbn [app].
  replace (length pre + 1 - length pre)%nat with 1%nat by lia. reflexivity.
Qed.

Lemma vset_app_mid {A} (pre : list A) x y post : vset (pre ++ x :: post) (vlen pre) y = Some (pre ++ y :: post).
Proof.
  pose proof (vset_mid pre x y post) as H. rewrite <- app_assoc in H. exact H.
Qed.

Lemma strip_del_ok idx n : n <= 65536 -> forall rest done fuel,
  Forall (fun p => p < n) rest -> vlen done + vlen rest < 65536 -> (length rest < fuel)%nat ->
  strip_del_loop fuel (collapse_spec idx n) (done ++ rest) (vlen done + vlen rest) (vlen done) =
  Ok (done ++ strip_spec idx rest, vlen done + vlen (strip_spec idx rest)).
Proof.
  intros Hn. induction rest as [|p r IH]; intros done fuel Hall Hlen Hf.
  - destruct fuel as [|f]; [cbn in Hf; lia|]. cbn [strip_del_loop].
    change (vlen (@nil N)) with 0. rewrite N.add_0_r. destruct (N.ltb_spec (vlen done) (vlen done)); [lia|].
    unfold strip_spec. cbn [filter map]. change (vlen (@nil N)) with 0. rewrite N.add_0_r. reflexivity.
  - destruct fuel as [|f]; [cbn in Hf; lia|]. cbn [length] in Hf. inversion Hall as [|? ? Hp Hall']; subst.
    assert (Hl : vlen (p :: r) = vlen r + 1) by (unfold vlen; cbn [length]; lia). rewrite Hl in *.
    cbn [strip_del_loop].
    destruct (N.ltb_spec (vlen done) (vlen done + (vlen r + 1))); [|lia].
    rewrite vget_app_mid. rewrite collapse_spec_vget by exact Hp.
    rewrite strip_spec_cons.
    destruct (memN p idx) eqn:Hm.
    + change (Z.eqb (-1) (-1)) with true. cbn iota. rewrite erase_at_app_mid.
      unfold dec16. destruct (N.eqb_spec (vlen done + (vlen r + 1)) 0); [lia|].
      replace (vlen done + (vlen r + 1) - 1) with (vlen done + vlen r) by lia.
      apply IH; [exact Hall'|lia|lia].
    + pose proof (rank_le idx p). destruct (Z.eqb_spec (Z.of_N (rank idx p)) (-1)); [lia|].
      rewrite vset_app_mid. rewrite wrap16Z_small by lia. rewrite wrap16_small by lia.
      specialize (IH (done ++ [rank idx p]) f Hall').
      assert (Hd : vlen (done ++ [rank idx p]) = vlen done + 1) by (unfold vlen; rewrite app_length; cbn [length]; lia).
      rewrite Hd in IH. rewrite <- app_assoc in IH. cbn [app] in IH.
      replace (vlen done + (vlen r + 1)) with (vlen done + 1 + vlen r) by lia.
      rewrite IH by lia. f_equal. f_equal.
      * rewrite <- app_assoc. reflexivity.
      * unfold vlen. cbn [length]. lia.
Qed.

Definition strip_in (n : N) (len_strip : N * list N) : Prop :=
  fst len_strip = vlen (snd len_strip) /\ Forall (fun p => p < n) (snd len_strip) /\ vlen (snd len_strip) < 65536.

Lemma strips_del_ok idx n : n <= 65536 -> forall prest srest sdone pdone fuel,
  length sdone = length pdone -> length srest = length prest ->
  Forall (strip_in n) (combine srest prest) ->
  vlen sdone + vlen srest < 65536 -> (length srest < fuel)%nat ->
  strips_del_loop fuel (collapse_spec idx n) (sdone ++ srest) (pdone ++ prest) (vlen sdone) =
  Ok (sdone ++ map (fun s => vlen (strip_spec idx s)) prest, pdone ++ map (strip_spec idx) prest).
Proof.
  intros Hn. induction prest as [|s prest IH]; intros srest sdone pdone fuel Hd Hr Hall Hlen Hf.
  - destruct srest; [|discriminate]. destruct fuel as [|f]; [cbn in Hf; lia|]. cbn [strips_del_loop].
    rewrite !app_nil_r. destruct (N.ltb_spec (vlen sdone) (vlen sdone)); [lia|]. reflexivity.
  - destruct srest as [|l srest]; [discriminate|]. destruct fuel as [|f]; [cbn in Hf; lia|].
    cbn [length] in Hr, Hf. cbn [combine] in Hall. inversion Hall as [|? ? Hs Hall']; subst.
    destruct Hs as (Hl & Hpts & Hsl). cbn [fst snd] in Hl, Hpts, Hsl.
    assert (Hlv : vlen (l :: srest) = vlen srest + 1) by (unfold vlen; cbn [length]; lia). rewrite Hlv in Hlen.
    cbn [strips_del_loop].
    assert (Hvs : vlen (sdone ++ l :: srest) = vlen sdone + vlen srest + 1)
      by (unfold vlen; rewrite app_length; cbn [length]; lia).
    rewrite Hvs. destruct (N.ltb_spec (vlen sdone) (vlen sdone + vlen srest + 1)); [|lia].
    rewrite vget_app_mid.
    assert (Hpd : vlen sdone = vlen pdone) by (unfold vlen; lia).
    replace (vget (pdone ++ s :: prest) (vlen sdone)) with (Some s) by (rewrite Hpd; symmetry; apply vget_app_mid).
    pose proof (strip_del_ok idx n Hn s [] (S (N.to_nat l)) Hpts) as Hin. cbn [app] in Hin.
    change (vlen (@nil N)) with 0 in Hin. rewrite !N.add_0_l in Hin. rewrite <- Hl in Hin.
    rewrite Hin by (unfold vlen in *; lia). cbn [bind fst snd].
    rewrite vset_app_mid.
    replace (vset (pdone ++ s :: prest) (vlen sdone) (strip_spec idx s)) with (Some (pdone ++ strip_spec idx s :: prest))
      by (rewrite Hpd; symmetry; apply vset_app_mid).
    rewrite wrap16_small by lia.
    specialize (IH srest (sdone ++ [vlen (strip_spec idx s)]) (pdone ++ [strip_spec idx s]) f).
    assert (Hd2 : vlen (sdone ++ [vlen (strip_spec idx s)]) = vlen sdone + 1)
      by (unfold vlen; rewrite app_length; cbn [length]; lia).
    rewrite Hd2 in IH. rewrite <- !app_assoc in IH. cbn [app] in IH.
    rewrite IH; try lia; try assumption.
    + cbn [map]. reflexivity.
    + rewrite !app_length. cbn [length]. lia.
Qed.

Definition gd_tristrips_spec (g : gdata) (idx : list N) : gdata :=
  let g1 := gd_base_spec g idx in
  let pts := map (strip_spec idx) (gd_points g) in
  let lens := map (fun s => vlen (strip_spec idx s)) (gd_points g) in
  mkGdata (gd_kind g1) (gd_nv g1) (gd_verts g1) (gd_norms g1) (gd_tans g1) (gd_bitans g1) (gd_colors g1)
          (gd_uvsets g1) (strips_count lens) (gd_ntp g1) (gd_tris g1) lens pts (gd_lflags g1).

Lemma strips_wf_in nv slens points :
  forallb (strip_ok nv) (combine slens points) = true -> forallb (fun l => l <? 65536) slens = true ->
  length slens = length points -> Forall (strip_in nv) (combine slens points).
Proof.
  revert points. induction slens as [|l slens IH]; intros [|s points] H1 H2 Hl; cbn [length] in Hl; try discriminate; [constructor|].
  cbn [combine forallb] in *. apply andb_prop in H1, H2. destruct H1 as [Hs H1]. destruct H2 as [Hl2 H2].
  constructor; [|apply IH; [assumption|assumption|lia]].
  unfold strip_ok in Hs. cbn [fst snd] in Hs. apply andb_prop in Hs. destruct Hs as [Hs1 Hs2].
  apply N.eqb_eq in Hs1. apply N.ltb_lt in Hl2. unfold strip_in. cbn [fst snd].
  split; [exact Hs1|]. split; [|lia].
  apply Forall_forall. intros p Hp. rewrite forallb_forall in Hs2. specialize (Hs2 p Hp). apply N.ltb_lt. exact Hs2.
Qed.

Theorem gd_tristrips_delete_ok g idx :
  sorted_lt idx -> gd_kind g = GKTriStrips -> gd_wf g = true ->
  gd_delete g idx = Ok (gd_tristrips_spec g idx).
Proof.
  intros Hs Hk Hwf. pose proof (gd_wf_base g Hwf) as Hb.
  unfold gd_wf in Hwf. rewrite Hk in Hwf.
  apply andb_prop in Hwf. destruct Hwf as [_ Hwf]. repeat (apply andb_prop in Hwf; destruct Hwf as [Hwf ?]).
  apply N.eqb_eq in Hwf. apply N.ltb_lt in H1.
  assert (Hnv : vlen (gd_verts g) < 65536).
  { unfold gd_base_wf in Hb. repeat (apply andb_prop in Hb; destruct Hb as [Hb ?]). apply N.ltb_lt. assumption. }
  unfold gd_delete. rewrite Hk. unfold gd_tristrips_delete.
  rewrite collapse_sz_ok by (assumption || lia). cbn [bind].
  rewrite gd_base_delete_ok by assumption. cbn [bind].
  unfold gd_base_spec at 1 2 3. cbn [gd_slens gd_points].
  pose proof (strips_del_ok idx (vlen (gd_verts g)) ltac:(lia) (gd_points g) (gd_slens g) [] [] (S (length (gd_slens g)))) as HL.
  cbn [app] in HL. change (vlen (@nil N)) with 0 in HL.
  rewrite HL; clear HL.
  - cbn [bind fst snd]. reflexivity.
  - reflexivity.
  - unfold vlen in Hwf. lia.
  - apply strips_wf_in; [assumption|assumption|unfold vlen in Hwf; lia].
  - lia.
  - lia.
Qed.

(* all strip points stay below the new vertex count; lengths agree *)
Theorem gd_tristrips_spec_wf g idx :
  gd_kind g = GKTriStrips -> gd_wf g = true -> gd_wf (gd_tristrips_spec g idx) = true.
Proof.
  intros Hk Hwf. pose proof (gd_wf_base g Hwf) as Hb. pose proof (gd_base_spec_wf g idx Hb) as Hb'.
  unfold gd_wf in Hwf. rewrite Hk in Hwf.
  apply andb_prop in Hwf. destruct Hwf as [_ Hwf]. repeat (apply andb_prop in Hwf; destruct Hwf as [Hwf ?]).
  apply N.eqb_eq in Hwf. apply N.ltb_lt in H1.
  unfold gd_wf. unfold gd_base_wf in Hb'. unfold gd_tristrips_spec. unfold gd_base_spec in *.
  cbn [gd_kind gd_nv gd_verts gd_norms gd_tans gd_bitans gd_colors gd_uvsets gd_slens gd_points] in *.
  rewrite Hb'. rewrite Hk. cbn [andb].
  assert (Hlen : length (gd_slens g) = length (gd_points g)) by (unfold vlen in Hwf; lia).
  pose proof (strips_wf_in _ _ _ H0 H Hlen) as Hin.
  assert (Hv1 : vlen (map (fun s => vlen (strip_spec idx s)) (gd_points g)) = vlen (gd_points g))
    by (unfold vlen; rewrite map_length; reflexivity).
  assert (Hv2 : vlen (map (strip_spec idx) (gd_points g)) = vlen (gd_points g))
    by (unfold vlen; rewrite map_length; reflexivity).
  rewrite Hv1, Hv2, N.eqb_refl.
  destruct (N.ltb_spec (vlen (gd_points g)) 65536); [|lia]. cbn [andb].
  apply andb_true_intro. split.
  - clear -Hin Hlen. revert Hin Hlen. generalize (gd_slens g) as sl. induction (gd_points g) as [|s ps IH]; intros sl Hin Hlen; [reflexivity|].
    destruct sl as [|l sl]; [discriminate|]. cbn [combine] in Hin. inversion Hin as [|? ? Hs Hin']; subst.
    cbn [map combine forallb]. rewrite (IH sl) by (assumption || (cbn [length] in Hlen; lia)). rewrite andb_true_r.
    unfold strip_ok. cbn [fst snd]. rewrite N.eqb_refl. cbn [andb].
    destruct Hs as (_ & Hp & _). cbn [snd] in Hp.
    apply forallb_forall. intros y Hy. unfold strip_spec in Hy. apply in_map_iff in Hy. destruct Hy as (p & <- & Hy).
    apply filter_In in Hy. destruct Hy as [Hy Hsv]. rewrite Forall_forall in Hp. specialize (Hp p Hy).
    apply N.ltb_lt. rewrite erase_spec_vlen. apply rank_lt; [exact Hp|].
    unfold survives in Hsv. apply negb_true_iff in Hsv. exact Hsv.
  - apply forallb_forall. intros l Hl. apply in_map_iff in Hl. destruct Hl as (s & <- & Hs).
    pose proof (strip_spec_le idx s).
    assert (vlen s < 65536).
    { clear -Hin Hlen Hs. revert Hin Hlen Hs. generalize (gd_slens g) as sl. induction (gd_points g) as [|s0 ps IH]; intros sl Hin Hlen Hs; [contradiction|].
      destruct sl as [|l sl]; [discriminate|]. cbn [combine] in Hin. inversion Hin as [|? ? Hs0 Hin']; subst.
      destruct Hs as [<-|Hs]; [destruct Hs0 as (_ & _ & H3); exact H3|]. apply (IH sl); [assumption|cbn [length] in Hlen; lia|assumption]. }
    apply N.ltb_lt. lia.
Qed.
