(* After the repair of the re-fit: deleting vertices of a shape whose segment tables were written by
   SetSegmentation keeps the label of every surviving triangle - GetSegmentation returns the old
   labels with the entries of the dropped triangles erased. *)
From NiflyVerif Require Import Res UtilModel UtilSpec CompactProofs EraseProofs FillProofs
  GeomModel SegModel GeomBase GeomSpec GeomProofs GeomSkinProofs GeomStripProofs SegSort SegProofs RefitProofs.
From Coq Require Import ZifyBool ZifyNat ZifyN Sorted Permutation.
Local Open Scope N_scope.

(* ---------------------------------------------------------------------------------------- *)
(* erasing positions from a list: lengths and sortedness *)

Lemma erase_from_count {A} (D : list N) : NoDup D -> forall (v : list A) pos,
  vlen (erase_from pos v D) + count_in D pos (pos + vlen v) = vlen v.
Proof.
  intros Hnd. induction v as [|x v IH]; intros pos.
  - cbn [erase_from]. change (vlen (@nil A)) with 0. rewrite N.add_0_r.
    pose proof (count_in_bound D pos pos Hnd). lia.
  - cbn [erase_from].
    assert (Hl : vlen (x :: v) = vlen v + 1) by (unfold vlen; cbn [length]; lia). rewrite Hl.
    pose proof (count_in_split D pos (pos + 1) (pos + (vlen v + 1)) ltac:(lia) ltac:(lia)) as Hsp.
    replace (pos + (vlen v + 1)) with (pos + 1 + vlen v) in * by lia.
    specialize (IH (pos + 1)).
    assert (H1 : count_in D pos (pos + 1) = if memN pos D then 1 else 0).
    { unfold count_in. clear -Hnd. induction D as [|d D IHD]; [reflexivity|]. inversion Hnd as [|? ? Hnin Hnd']; subst.
      rewrite memN_cons. cbn [filter].
      destruct (N.eqb_spec pos d) as [->|Hne]; cbn [orb].
      - destruct (N.leb_spec d d); [|lia]. destruct (N.ltb_spec d (d + 1)); [|lia]. cbn [andb].
        assert (Hm : memN d D = false) by (apply memN_false_iff; apply Forall_forall; intros y Hy ->; contradiction).
        specialize (IHD Hnd'). rewrite Hm in IHD. unfold vlen in *. cbn [length]. lia.
      - assert (Hf : (pos <=? d) && (d <? pos + 1) = false).
        { destruct (N.leb_spec pos d); destruct (N.ltb_spec d (pos + 1)); cbn [andb]; try reflexivity. lia. }
        rewrite Hf. apply IHD. exact Hnd'. }
    rewrite Hsp, H1. destruct (memN pos D); [lia|]. unfold vlen in *. cbn [length]. lia.
Qed.

Lemma erase_from_sorted (D : list N) : forall (v : list Z) pos,
  StronglySorted Z.le v -> StronglySorted Z.le (erase_from pos v D).
Proof.
  induction v as [|x v IH]; intros pos Hs; [constructor|]. inversion Hs as [|? ? Hs' Hall]; subst.
  cbn [erase_from]. destruct (memN pos D); [apply IH; exact Hs'|].
  constructor; [apply IH; exact Hs'|].
  clear -Hall. revert pos. induction v as [|y v IHv]; intros pos; [constructor|]. inversion Hall; subst.
  cbn [erase_from]. destruct (memN (pos + 1) D); [apply IHv; assumption|]. constructor; [assumption|apply IHv; assumption].
Qed.

Lemma erase_from_forall {A} (P : A -> Prop) D : forall (v : list A) pos, Forall P v -> Forall P (erase_from pos v D).
Proof.
  induction v as [|x v IH]; intros pos Hall; [constructor|]. inversion Hall; subst. cbn [erase_from].
  destruct (memN pos D); [apply IH; assumption|constructor; [assumption|apply IH; assumption]].
Qed.

Lemma count_in_rev D a b : count_in (rev D) a b = count_in D a b.
Proof.
  unfold count_in, vlen. f_equal. induction D as [|d D IH]; [reflexivity|]. cbn [rev filter].
  rewrite filter_app, app_length, IH. cbn [filter]. destruct ((a <=? d) && (d <? b)); cbn [length]; lia.
Qed.

(* the number of keys below p after erasing the positions D from a sorted key list *)
Lemma cntlt_erase K D p : StronglySorted Z.le K -> NoDup D ->
  cntlt (erase_spec K D) p = cntlt K p - count_in D 0 (cntlt K p).
Proof.
  intros Hs Hnd. pose proof (sorted_split K p Hs) as Hsp.
  set (L1 := filter (fun k => Z.ltb k p) K) in *. set (L2 := filter (fun k => negb (Z.ltb k p)) K) in *.
  assert (Hc : cntlt K p = vlen L1) by reflexivity.
  unfold erase_spec. rewrite Hsp at 1. rewrite erase_from_app, cntlt_app.
  rewrite (cntlt_all (erase_from 0 L1 D)).
  2:{ apply erase_from_forall. apply Forall_forall. intros k Hk. apply filter_In in Hk. destruct Hk as [_ Hk].
      apply Z.ltb_lt. exact Hk. }
  rewrite (cntlt_none (erase_from (0 + vlen L1) L2 D)).
  2:{ apply erase_from_forall. apply Forall_forall. intros k Hk. apply filter_In in Hk. destruct Hk as [_ Hk].
      apply negb_true_iff, Z.ltb_ge in Hk. exact Hk. }
  pose proof (erase_from_count D Hnd L1 0) as He. rewrite N.add_0_l in He. rewrite Hc. lia.
Qed.

(* ---------------------------------------------------------------------------------------- *)
(* re-fitting the tables of SetSegmentation gives the tables of the erased key list *)

Lemma subs_spec_ext (f g : Z -> N) : (forall p, f p = g p) -> forall n q, subs_spec f n q = subs_spec g n q.
Proof. intros H. induction n as [|n IH]; intros q; [reflexivity|]. cbn [subs_spec]. rewrite IH, !H. reflexivity. Qed.

Lemma segs_spec_ext (f g : Z -> N) : (forall p, f p = g p) -> forall segs P, segs_spec f segs P = segs_spec g segs P.
Proof.
  intros H. induction segs as [|s r IH]; intros P; [reflexivity|]. cbn [segs_spec].
  rewrite IH, !H, (subs_spec_ext f g H). reflexivity.
Qed.

Section RefitSpec.
  Variable D : list N.                       (* deletedTris, strictly descending *)
  Hypothesis Hdesc : StronglySorted (fun a b => b < a) D.
  Hypothesis Hnd : NoDup D.
  Variable cnt : Z -> N.
  Hypothesis Hmono : forall a b, (a <= b)%Z -> cnt a <= cnt b.
  Variable nt : N.
  Hypothesis Hle : forall p, cnt p <= nt.
  Hypothesis Hnt : 3 * nt < 4294967296.

  Definition cnt' (p : Z) : N := cnt p - count_in D 0 (cnt p).

  Lemma cnt'_diff a b : (a <= b)%Z ->
    cnt' b - cnt' a = (cnt b - cnt a) - count_in D (cnt a) (cnt b) /\ cnt' a <= cnt' b /\ cnt' b <= cnt b.
  Proof.
    intros Hab. unfold cnt'. pose proof (Hmono a b Hab) as Hm.
    pose proof (count_in_split D 0 (cnt a) (cnt b) ltac:(lia) Hm) as Hsp.
    pose proof (count_in_bound D 0 (cnt a) Hnd). pose proof (count_in_bound D (cnt a) (cnt b) Hnd).
    pose proof (count_in_bound D 0 (cnt b) Hnd). lia.
  Qed.

  Lemma shrink_range a b : (a <= b)%Z ->
    shrink_count D (3 * cnt a) (cnt b - cnt a) = cnt' b - cnt' a.
  Proof.
    intros Hab. pose proof (Hmono a b Hab). pose proof (Hle b).
    rewrite (shrink_count_tile D Hdesc) by lia.
    replace (cnt a + (cnt b - cnt a)) with (cnt b) by lia.
    destruct (cnt'_diff a b Hab) as (H1 & _). lia.
  Qed.

  Lemma shrink_sub_spec q :
    shrink_sub D (mkSubseg (3 * cnt q) (cnt (q + 1) - cnt q)) = mkSubseg (3 * cnt q) (cnt' (q + 1) - cnt' q).
  Proof. unfold shrink_sub. cbn [ss_start ss_num]. rewrite (shrink_range q (q + 1)) by lia. reflexivity. Qed.

  Lemma refit_subs_spec : forall n q,
    layout_subs (3 * cnt' q) (map (shrink_sub D) (subs_spec cnt n q)) = subs_spec cnt' n q /\
    sum_nums (map (shrink_sub D) (subs_spec cnt n q)) = cnt' (q + Z.of_nat n) - cnt' q.
  Proof.
    induction n as [|n IH]; intros q.
    - cbn. rewrite Z.add_0_r. split; [reflexivity|lia].
    - cbn [subs_spec map]. rewrite shrink_sub_spec. cbn [layout_subs sum_nums fold_right ss_start ss_num].
      destruct (cnt'_diff q (q + 1) ltac:(lia)) as (_ & Hm1 & Hb1). pose proof (Hle (q + 1)).
      rewrite wrap32_small by lia.
      replace (3 * cnt' q + (cnt' (q + 1) - cnt' q) * 3) with (3 * cnt' (q + 1)) by lia.
      destruct (IH (q + 1)%Z) as [IH1 IH2]. rewrite IH1. split; [reflexivity|].
      fold (sum_nums (map (shrink_sub D) (subs_spec cnt n (q + 1)))). rewrite IH2.
      destruct (cnt'_diff (q + 1) (q + 1 + Z.of_nat n) ltac:(lia)) as (_ & Hm2 & _).
      replace (q + Z.of_nat (S n))%Z with (q + 1 + Z.of_nat n)%Z by lia. lia.
  Qed.

  Lemma seg_shrink_spec P P' nsub subs : (P <= P')%Z ->
    seg_shrink D (mkSeg (3 * cnt P) (cnt P' - cnt P) nsub subs) =
    mkSeg (3 * cnt P) (cnt' P' - cnt' P) nsub (map (shrink_sub D) subs).
  Proof. intros H. unfold seg_shrink. cbn [sg_start sg_num sg_nsub sg_subs]. rewrite (shrink_range P P') by exact H. reflexivity. Qed.

  Lemma refit_segs_spec : forall segs P,
    layout_segs (3 * cnt' P) (map (seg_shrink D) (segs_spec cnt segs P)) = segs_spec cnt' segs P.
  Proof.
    induction segs as [|s r IH]; intros P; [reflexivity|].
    cbn [segs_spec map]. set (cc := length (gi_subs s)).
    rewrite seg_shrink_spec by lia. cbn [layout_segs sg_start sg_num sg_nsub sg_subs].
    destruct (refit_subs_spec cc (P + 1)%Z) as [Hl Hsum].
    destruct (cnt'_diff P (P + 1) ltac:(lia)) as (_ & Hm1 & _).
    destruct (cnt'_diff (P + 1) (P + 1 + Z.of_nat cc) ltac:(lia)) as (_ & Hm2 & Hb2).
    pose proof (Hle (P + 1 + Z.of_nat cc)).
    replace (P + Z.of_nat cc + 1)%Z with (P + 1 + Z.of_nat cc)%Z in * by lia.
    rewrite seg_own_ok by (rewrite ?Hsum; lia). rewrite Hsum.
    rewrite wrap32_small by lia.
    replace (3 * cnt' P + (cnt' (P + 1 + Z.of_nat cc) - cnt' P - (cnt' (P + 1 + Z.of_nat cc) - cnt' (P + 1))) * 3)
      with (3 * cnt' (P + 1)) by lia.
    rewrite Hl. rewrite wrap32_small by lia.
    replace (3 * cnt' P + (cnt' (P + 1 + Z.of_nat cc) - cnt' P) * 3) with (3 * cnt' (P + 1 + Z.of_nat cc)) by lia.
    rewrite IH. reflexivity.
  Qed.
End RefitSpec.

(* ---------------------------------------------------------------------------------------- *)
(* the statement *)

Theorem refit_keeps_labels b idx (K : list Z) (shape : list seginfo) :
  sorted_lt idx -> bs_kind b = BSSubIndex -> bs_core_wf b = true -> bs_ssen b = vlen (bs_sse b) ->
  StronglySorted Z.le K -> Forall (fun k => (0 <= k < Z.of_nat (ids_total shape))%Z) K ->
  vlen K = bs_nt b -> 3 * bs_nt b < 4294967296 ->
  sn_segs (bs_segn b) = segs_spec (cntlt K) shape 0 -> sn_nseg (bs_segn b) = vlen (sn_segs (bs_segn b)) ->
  N.of_nat (ids_total shape) <= vlen (sn_recs (bs_segn b)) ->
  exists b' inf', bs_delete b idx = Ok b' /\
    bs_tris b' = tris_spec idx (bs_tris b) /\
    get_segmentation b' = Ok (inf', erase_spec K (del_pos idx (bs_tris b))) /\
    inf_shape (inf_segs inf') = shape_spec shape 0.
Proof.
  intros Hs Hk Hwf Hsse Hsorted Hrange HlenK Hb Hsegs Hnseg Hrecs.
  set (D := del_pos idx (bs_tris b)). set (Dd := rev D).
  assert (HsD : sorted_lt D) by apply del_pos_from_sorted.
  assert (Hdesc : StronglySorted (fun a b => b < a) Dd) by (apply rev_sorted_desc; exact HsD).
  assert (HndD : NoDup D) by (apply sorted_lt_nodup; exact HsD).
  assert (Hnd : NoDup Dd) by (apply NoDup_rev; exact HndD).
  assert (Htab : seg_tables_wf b = true).
  { unfold seg_tables_wf. rewrite Hnseg, Hsse, !N.eqb_refl. cbn [andb]. rewrite andb_true_r.
    rewrite Hsegs. clear. generalize 0%Z. induction shape as [|s r IH]; intros P; [reflexivity|].
    cbn [segs_spec forallb sg_nsub sg_subs]. unfold vlen. rewrite subs_spec_length, N.eqb_refl. apply IH. }
  exists (bs_sits_spec b idx). pose proof (bs_sits_delete_ok b idx Hs Hk Hwf Htab) as Hdel.
  unfold bs_core_wf in Hwf. repeat (apply andb_prop in Hwf; destruct Hwf as [Hwf ?]). apply N.eqb_eq in H2.
  (* the re-fitted tables are those of the erased key list *)
  set (K' := erase_spec K D).
  assert (HK's : StronglySorted Z.le K') by (apply erase_from_sorted; exact Hsorted).
  assert (HK'r : Forall (fun k => (0 <= k < Z.of_nat (ids_total shape))%Z) K') by (apply erase_from_forall; exact Hrange).
  assert (Hlen' : vlen K' = vlen (tris_spec idx (bs_tris b))).
  { pose proof (erase_from_count D HndD K 0) as He. rewrite N.add_0_l in He. fold (erase_spec K D) in He. fold K' in He.
    assert (Hc : count_in D 0 (vlen K) = vlen D).
    { apply count_in_all. rewrite HlenK, H2. pose proof (del_pos_from_lt idx (bs_tris b) 0) as Hlt. rewrite N.add_0_l in Hlt. exact Hlt. }
    pose proof (del_pos_count idx (bs_tris b) 0) as Hcnt. unfold D, del_pos, vlen in *. lia. }
  assert (Htabs : sn_segs (bs_segn (bs_sits_spec b idx)) = segs_spec (cntlt K') shape 0).
  { unfold bs_sits_spec, bs_set_segs, segn_refit_spec, segs_refit_spec, bs_base_spec. cbn [bs_segn sn_segs bs_deleted].
    fold D. fold Dd. rewrite Hsegs.
    pose proof (refit_segs_spec Dd Hdesc Hnd (cntlt K) (cntlt_mono K) (bs_nt b)
                  ltac:(intros p; rewrite <- HlenK; apply cntlt_le) Hb shape 0%Z) as Hr.
    assert (Hc0 : cnt' Dd (cntlt K) 0 = 0).
    { unfold cnt'. rewrite (cntlt_none K 0); [reflexivity|]. eapply Forall_impl; [|exact Hrange]. cbn; intros; lia. }
    rewrite Hc0 in Hr.
    assert (Hext : forall p, cnt' Dd (cntlt K) p = cntlt K' p).
    { intros p. unfold cnt', K'. rewrite cntlt_erase by assumption. unfold Dd. rewrite count_in_rev. reflexivity. }
    rewrite (segs_spec_ext _ _ Hext) in Hr. rewrite <- Hr.
    unfold layout_all. destruct (map (seg_shrink Dd) (segs_spec (cntlt K) shape 0)) as [|s0 r0] eqn:Hm; [reflexivity|].
    f_equal. destruct shape as [|sh shr]; [discriminate|]. cbn [segs_spec map] in Hm. injection Hm as <- _.
    unfold seg_shrink. cbn [sg_start]. rewrite (cntlt_none K 0); [reflexivity|].
    eapply Forall_impl; [|exact Hrange]. cbn; intros; lia. }
  (* read them back *)
  assert (Hnt' : bs_nt (bs_sits_spec b idx) = vlen K').
  { unfold bs_sits_spec, bs_set_segs, bs_base_spec. cbn [bs_nt]. symmetry. exact Hlen'. }
  assert (H3nt : 3 * vlen K' < 4294967296).
  { rewrite Hlen'. pose proof (tris_spec_length idx (bs_tris b)). unfold vlen in *. lia. }
  destruct (get_segs_ok K' HK's H3nt shape 0%Z (sn_recs (bs_segn (bs_sits_spec b idx))) 0) as (infs & Hget & Hshape).
  { unfold bs_sits_spec, bs_set_segs, segn_refit_spec, bs_base_spec. cbn [bs_segn sn_recs]. lia. }
  exists (mkSeginf infs (sn_ssf (bs_segn (bs_sits_spec b idx)))).
  split; [exact Hdel|]. split; [reflexivity|]. split; [|exact Hshape].
  unfold get_segmentation. rewrite Htabs, Hnt'.
  change (fun p : Z => cntlt K' p) with (cntlt K') in Hget.
  replace (repeat (-1)%Z (N.to_nat (vlen K'))) with (map (fun k => if Z.ltb k 0 then k else (-1)%Z) K').
  2:{ unfold vlen. rewrite Nat2N.id. clear -HK'r. induction HK'r as [|k l Hk0 Hall IH]; [reflexivity|].
      cbn [map length repeat]. destruct (Z.ltb_spec k 0); [lia|]. f_equal. exact IH. }
  rewrite Hget. cbn [bind fst snd]. f_equal. f_equal.
  rewrite <- (map_id K') at 2. apply map_ext_Forall. eapply Forall_impl; [|exact HK'r]. cbn beta. intros k Hk0.
  destruct (Z.ltb_spec k (0 + Z.of_nat (ids_total shape))); [reflexivity|lia].
Qed.

(* ---------------------------------------------------------------------------------------- *)
(* SetSegmentation followed by a vertex deletion *)

Lemma set_segmentation_frame b inf labels b' : set_segmentation b inf labels = Ok b' ->
  bs_kind b' = bs_kind b /\ bs_nv b' = bs_nv b /\ bs_vdata b' = bs_vdata b /\ bs_dyn b' = bs_dyn b /\
  bs_ssen b' = bs_ssen b /\ bs_sse b' = bs_sse b.
Proof.
  unfold set_segmentation. intros H.
  destruct (negb (vlen labels =? bs_nt b)); [inversion H; subst; auto 10|].
  destruct (o2n_segs (inf_segs inf) [] 0%Z) as [[o2n newid]| |]; cbn [bind] in H; try discriminate.
  destruct (mapM (new_label o2n) labels) as [keys| |]; cbn [bind] in H; try discriminate.
  destruct (mapM _ (map fst _)) as [skeys| |]; cbn [bind] in H; try discriminate.
  destruct (pti_for _ _ _ _) as [s1| |]; cbn [bind] in H; try discriminate.
  destruct (pti_tail _ _ _ _) as [pti| |]; cbn [bind] in H; try discriminate.
  destruct (build_segs _ _ _ _ _) as [[[[[sgs ais] recs] parent] segidx]| |]; cbn [bind] in H; try discriminate.
  inversion H; subst. cbn. auto 10.
Qed.

Lemma forallb_perm {A} (f : A -> bool) l1 l2 : Permutation l1 l2 -> forallb f l2 = true -> forallb f l1 = true.
Proof.
  intros Hp H. apply forallb_forall. intros x Hx. rewrite forallb_forall in H. apply H.
  eapply Permutation_in; [exact Hp|exact Hx].
Qed.

Theorem set_then_delete_keeps_labels b inf labels idx :
  let ids := inf_ids (inf_segs inf) in
  let nt := bs_nt b in
  NoDup ids -> Forall (fun i => (0 <= i)%Z) ids -> valid_labels ids labels ->
  (labels <> [] -> inf_segs inf <> []) ->
  vlen labels = nt -> 3 * nt < 4294967296 ->
  (Z.of_nat (ids_total (inf_segs inf)) < 2147483648)%Z ->
  bs_kind b = BSSubIndex -> bs_core_wf b = true -> bs_ssen b = vlen (bs_sse b) -> sorted_lt idx ->
  exists b1 b2 inf1 inf2 L,
    set_segmentation b inf labels = Ok b1 /\ get_segmentation b1 = Ok (inf1, L) /\
    bs_delete b1 idx = Ok b2 /\ bs_tris b2 = tris_spec idx (bs_tris b1) /\
    get_segmentation b2 = Ok (inf2, erase_spec L (del_pos idx (bs_tris b1))) /\
    inf_shape (inf_segs inf2) = inf_shape (inf_segs inf1).
Proof.
  intros ids nt Hnd Hpos Hval Hne Hlab Hnt Hsmall Hk Hwf Hsse Hs.
  pose proof Hwf as Hwf0. unfold bs_core_wf in Hwf0. repeat (apply andb_prop in Hwf0; destruct Hwf0 as [Hwf0 ?]).
  apply N.eqb_eq in H2, Hwf0. apply N.ltb_lt in H3.
  destruct (set_get_labels b inf labels Hnd Hpos Hval Hne Hlab (eq_sym H2) Hnt Hsmall)
    as (b1 & Hset & Hnt1 & Hnp1 & Hns1 & Htr1 & Htile & Hsegs & Hrecs & inf1 & Hget1 & Hsh1).
  set (L := map snd (stable_sort (combine (nseq (bs_nt b)) (map (renumber (inf_ids (inf_segs inf))) labels)))) in *.
  destruct (set_segmentation_frame _ _ _ _ Hset) as (Fk & Fnv & Fvd & Fdyn & Fsn & Fsse).
  pose proof (set_segmentation_perm _ _ _ _ Hset) as Hperm.
  destruct (renumber_loop_ok inf labels Hnd Hpos Hval Hne) as (o2n & Ho2n & Hkeys & Hrange).
  assert (HlenK : N.to_nat (bs_nt b) = length (map (renumber (inf_ids (inf_segs inf))) labels))
    by (rewrite map_length; unfold vlen in Hlab; fold nt; lia).
  assert (HLs : StronglySorted Z.le L) by (apply sorted_keys_sorted).
  assert (HLr : Forall (fun k => (0 <= k < Z.of_nat (ids_total (inf_segs inf)))%Z) L).
  { eapply Permutation_Forall; [symmetry; apply sorted_keys_perm; exact HlenK|exact Hrange]. }
  assert (HLl : vlen L = bs_nt b1).
  { rewrite Hnt1. unfold L, vlen. rewrite map_length, sorted_length by exact HlenK. lia. }
  assert (Hwf1 : bs_core_wf b1 = true).
  { unfold bs_core_wf. rewrite Fnv, Fvd, Fk, Hk, Hwf0, N.eqb_refl.
    assert (Hvl : vlen (bs_tris b1) = vlen (bs_tris b)) by (unfold vlen; rewrite (Permutation_length Hperm); reflexivity).
    rewrite Hnt1, Hvl, H2, N.eqb_refl.
    destruct (N.ltb_spec (vlen (bs_vdata b)) 65536); [|lia].
    destruct (N.ltb_spec (vlen (bs_tris b)) 2147483648); [|lia]. cbn [andb].
    rewrite (forallb_perm _ _ _ Hperm H0). reflexivity. }
  destruct (refit_keeps_labels b1 idx L (inf_segs inf) Hs ltac:(congruence) Hwf1 ltac:(congruence) HLs HLr HLl
              ltac:(rewrite Hnt1; exact Hnt) Hsegs Hns1
              ltac:(rewrite Hrecs; unfold vlen; rewrite recs_spec_length; lia))
    as (b2 & inf2 & Hdel & Htr2 & Hget2 & Hsh2).
  exists b1, b2, inf1, inf2, L. repeat split; try assumption. congruence.
Qed.
