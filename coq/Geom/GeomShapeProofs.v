(* RemoveEmptyPartitions, the skin instance, and NifFile::DeleteVertsForShape as a whole. *)
From NiflyVerif Require Import Res UtilModel UtilSpec CompactProofs EraseProofs FillProofs
  StripProofs GeomModel GeomBase GeomSpec GeomProofs GeomSkinProofs GeomPartProofs GeomStripProofs RefitProofs.
From Coq Require Import ZifyBool ZifyNat ZifyN Sorted Permutation.
Local Open Scope N_scope.

(* positions (counted from i) of the elements satisfying P *)
Fixpoint pos_where {A} (P : A -> bool) (i : N) (l : list A) : list N :=
  match l with
  | [] => []
  | x :: r => if P x then i :: pos_where P (i + 1) r else pos_where P (i + 1) r
  end.

Lemma pos_where_ge {A} (P : A -> bool) : forall l i, Forall (fun k => i <= k) (pos_where P i l).
Proof.
  induction l as [|x r IH]; intros i; cbn [pos_where]; [constructor|].
  destruct (P x).
  - constructor; [lia|]. eapply Forall_impl; [|apply IH]. cbn; intros; lia.
  - eapply Forall_impl; [|apply IH]. cbn; intros; lia.
Qed.

Lemma pos_where_sorted {A} (P : A -> bool) : forall l i, sorted_lt (pos_where P i l).
Proof.
  induction l as [|x r IH]; intros i; cbn [pos_where]; [constructor|].
  destruct (P x); [|apply IH].
  constructor; [apply IH|]. eapply Forall_impl; [|apply pos_where_ge]. cbn; intros; lia.
Qed.

Lemma erase_from_pos_where {A B} (P : A -> bool) : forall (l : list A) (w : list B) i, length w = length l ->
  erase_from i w (pos_where P i l) = map snd (filter (fun x => negb (P (fst x))) (combine l w)).
Proof.
  induction l as [|v r IH]; intros [|x w] i Hl; cbn [length] in Hl; try discriminate; [reflexivity|].
  cbn [pos_where combine filter erase_from fst].
  destruct (P v) eqn:Hm; cbn [negb].
  - rewrite memN_cons, N.eqb_refl. cbn [orb]. rewrite erase_from_drop_small by lia. apply IH. lia.
  - assert (Hh : memN i (pos_where P (i + 1) r) = false).
    { apply memN_false_iff. eapply Forall_impl; [|apply pos_where_ge]. cbn; intros; lia. }
    rewrite Hh. cbn [map snd]. f_equal. apply IH. lia.
Qed.

Lemma erase_spec_pos_where_self {A} (P : A -> bool) (l : list A) :
  erase_spec l (pos_where P 0 l) = filter (fun x => negb (P x)) l.
Proof.
  unfold erase_spec. rewrite erase_from_pos_where by reflexivity.
  induction l as [|v r IH]; [reflexivity|]. cbn [combine filter fst]. destruct (P v); cbn [negb map snd]; rewrite IH; reflexivity.
Qed.

Lemma empty_parts_pos ps : forall i, empty_parts ps i = pos_where (fun p => p_nt p =? 0) i ps.
Proof. induction ps as [|p r IH]; intros i; cbn [empty_parts pos_where]; [reflexivity|]. rewrite IH. reflexivity. Qed.

Lemma pos_where_nil_filter {A} (P : A -> bool) (l : list A) : forall i,
  pos_where P i l = [] -> filter (fun x => negb (P x)) l = l.
Proof.
  induction l as [|x r IH]; intros i H; [reflexivity|]. cbn [pos_where filter] in *.
  destruct (P x); [discriminate|]. cbn [negb]. f_equal. apply (IH (i + 1)). exact H.
Qed.

Lemma pos_where_nil_keep {A B} (P : A -> bool) : forall (l : list A) (w : list B) i, length w = length l ->
  pos_where P i l = [] -> map snd (filter (fun x => negb (P (fst x))) (combine l w)) = w.
Proof.
  induction l as [|x r IH]; intros [|d w] i Hl He; cbn [length] in Hl; try discriminate; [reflexivity|].
  cbn [pos_where] in He. cbn [combine filter fst]. revert He. destruct (P x); intros He; [discriminate|].
  cbn [negb map snd]. f_equal. apply (IH w (i + 1)); [lia|exact He].
Qed.

(* RemoveEmptyPartitions after a deletion (triParts was cleared) *)
Theorem skinpart_remove_empty_ok sp : sp_triparts sp = [] -> sp_np sp = vlen (sp_parts sp) ->
  vlen (sp_parts sp) < 4294967296 ->
  exists np', skinpart_remove_empty sp =
    Ok (mkSkinpart np' (sp_nv sp) (sp_vdata sp) (filter nonempty_part (sp_parts sp)) (sp_mapped sp) [],
        empty_parts (sp_parts sp) 0) /\ np' = vlen (filter nonempty_part (sp_parts sp)).
Proof.
  intros Htp Hnp Hlen. unfold skinpart_remove_empty.
  destruct (empty_parts (sp_parts sp) 0) as [|d0 del] eqn:Hdel; cbn [isnil].
  - exists (sp_np sp). rewrite empty_parts_pos in Hdel.
    pose proof (pos_where_nil_filter _ _ _ Hdel) as Hf. unfold nonempty_part. rewrite Hf.
    split; [|exact Hnp]. destruct sp; cbn in *. subst. reflexivity.
  - rewrite Htp. cbn [isnil bind]. rewrite <- Hdel.
    rewrite erase32_ok; [|rewrite empty_parts_pos; apply pos_where_sorted|exact Hlen].
    cbn [bind]. rewrite empty_parts_pos, erase_spec_pos_where_self.
    pose proof (filter_length_le'' (fun x => negb (p_nt x =? 0)) (sp_parts sp)).
    eexists. split; [|reflexivity]. unfold nonempty_part. rewrite wrap32_small by lia. reflexivity.
Qed.

(* ---------------------------------------------------------------------------------------- *)
(* the skin instance *)

Definition skin_wf (nv : N) (k : skin) : bool :=
  match sk_data k with Some bones => forallb (bone_wf nv) bones | None => true end
  && match sk_part k with
     | Some sp => skinpart_wf nv sp
                  && match sk_dismember k with Some dm => vlen dm =? vlen (sp_parts sp) | None => true end
     | None => true
     end.

Definition keep_dm (idx : list N) (sp : skinpart) (dm : list N) : list N :=
  map snd (filter (fun x => nonempty_part (fst x)) (combine (map (part_spec idx (sp_mapped sp)) (sp_parts sp)) dm)).

Definition skin_spec (idx : list N) (k : skin) : skin :=
  mkSkin (option_map (map (bone_spec idx)) (sk_data k))
         (option_map (skinpart_spec idx) (sk_part k))
         (match sk_part k, sk_dismember k with
          | Some sp, Some dm => Some (keep_dm idx sp dm)
          | _, dm => dm
          end).

Lemma keep_dm_length idx sp dm : length dm = length (sp_parts sp) ->
  length (keep_dm idx sp dm) = length (filter nonempty_part (map (part_spec idx (sp_mapped sp)) (sp_parts sp))).
Proof.
  unfold keep_dm. set (ps := map (part_spec idx (sp_mapped sp)) (sp_parts sp)).
  intros Hl. assert (Hl2 : length dm = length ps) by (unfold ps; rewrite map_length; exact Hl). clear Hl.
  revert dm Hl2. induction ps as [|p r IH]; intros [|d dm] Hl; cbn [length] in Hl; try discriminate; [reflexivity|].
  cbn [combine filter fst]. destruct (nonempty_part p); cbn [map length]; rewrite IH by lia; reflexivity.
Qed.

Theorem skin_delete_ok idx nv k : idx_ok idx -> nv <= 65536 -> skin_wf nv k = true ->
  skin_delete k idx = Ok (skin_spec idx k).
Proof.
  intros Hok Hnv Hwf. pose proof Hok as (Hne & Hs & Hall).
  unfold skin_wf in Hwf. apply andb_prop in Hwf. destruct Hwf as [Hsd Hsp].
  unfold skin_delete, skin_spec.
  assert (Hd : opt_bind (sk_data k) (fun d => skindata_delete d idx) = Ok (option_map (map (bone_spec idx)) (sk_data k))).
  { destruct (sk_data k) as [bones|]; [|reflexivity]. cbn [opt_bind option_map].
    rewrite (skindata_delete_ok idx nv) by assumption. reflexivity. }
  rewrite Hd. cbn [bind].
  destruct (sk_part k) as [sp|]; [|reflexivity].
  apply andb_prop in Hsp. destruct Hsp as [Hspwf Hdm].
  rewrite (skinpart_delete_ok idx nv) by assumption. cbn [bind].
  pose proof Hspwf as Hspwf'. unfold skinpart_wf in Hspwf'.
  repeat (apply andb_prop in Hspwf'; destruct Hspwf' as [Hspwf' ?]).
  apply N.eqb_eq in Hspwf'. apply N.ltb_lt in H2.
  set (sp1 := mkSkinpart _ _ _ _ _ _).
  destruct (skinpart_remove_empty_ok sp1) as (np' & Hre & Hnp').
  { reflexivity. }
  { unfold sp1. cbn [sp_np sp_parts]. unfold vlen. rewrite map_length. exact Hspwf'. }
  { unfold sp1. cbn [sp_parts]. unfold vlen. rewrite map_length. unfold vlen in H2. exact H2. }
  rewrite Hre. cbn [bind]. subst sp1. cbn [sp_parts sp_nv sp_vdata sp_mapped] in *.
  set (ps := map (part_spec idx (sp_mapped sp)) (sp_parts sp)) in *.
  assert (Hsp2 : mkSkinpart np' (if isnil (sp_vdata sp) then sp_nv sp else vlen (erase_spec (sp_vdata sp) idx))
                            (erase_spec (sp_vdata sp) idx) (filter nonempty_part ps) (sp_mapped sp) []
                 = skinpart_spec idx sp).
  { unfold skinpart_spec. rewrite Hnp'. reflexivity. }
  rewrite Hsp2.
  destruct (isnil (empty_parts ps 0)) eqn:Hdel.
  - (* nothing removed: the dismember list is kept; it equals the filtered one *)
    cbn [option_map]. f_equal. f_equal.
    destruct (sk_dismember k) as [dm|]; [|reflexivity]. f_equal. unfold keep_dm. fold ps.
    apply N.eqb_eq in Hdm.
    destruct (empty_parts ps 0) eqn:He; [|cbn in Hdel; discriminate]. rewrite empty_parts_pos in He.
    assert (Hl2 : length dm = length ps) by (unfold ps; rewrite map_length; unfold vlen in Hdm; lia).
    symmetry. change (fun x : part * N => nonempty_part (fst x)) with (fun x : part * N => negb ((fun p => p_nt p =? 0) (fst x))).
    apply (pos_where_nil_keep (fun p => p_nt p =? 0) ps dm 0 Hl2 He).
  - destruct (sk_dismember k) as [dm|]; [|reflexivity]. apply N.eqb_eq in Hdm.
    rewrite erase32_ok.
    2:{ rewrite empty_parts_pos. apply pos_where_sorted. }
    2:{ lia. }
    cbn [bind]. rewrite empty_parts_pos. unfold erase_spec.
    rewrite erase_from_pos_where by (unfold ps; rewrite map_length; unfold vlen in Hdm; lia).
    change (map snd (filter (fun x => negb (p_nt (fst x) =? 0)) (combine ps dm))) with (keep_dm idx sp dm).
    assert (Hkl : vlen (keep_dm idx sp dm) = vlen (filter nonempty_part ps)).
    { unfold vlen. rewrite keep_dm_length; [reflexivity|]. unfold vlen in Hdm. lia. }
    rewrite Hkl. destruct (N.ltb_spec (vlen (filter nonempty_part ps)) (vlen (filter nonempty_part ps))); [lia|].
    rewrite andb_false_r. reflexivity.
Qed.

Lemma erase_spec_nil_nil {A} idx : erase_spec (@nil A) idx = [].
Proof. reflexivity. Qed.

Theorem skin_spec_wf idx nv k : nv < 65536 -> skin_wf nv k = true -> skin_wf (rank idx nv) (skin_spec idx k) = true.
Proof.
  intros Hnv Hwf. unfold skin_wf in *. apply andb_prop in Hwf. destruct Hwf as [Hsd Hsp].
  unfold skin_spec. cbn [sk_data sk_part sk_dismember].
  apply andb_true_intro. split.
  - destruct (sk_data k) as [bones|]; [|reflexivity]. cbn [option_map].
    apply forallb_forall. intros b Hb. apply in_map_iff in Hb. destruct Hb as (b0 & <- & Hb0).
    rewrite forallb_forall in Hsd. apply bone_spec_wf. apply Hsd. exact Hb0.
  - destruct (sk_part k) as [sp|]; [|reflexivity]. cbn [option_map].
    apply andb_prop in Hsp. destruct Hsp as [Hspwf Hdm].
    unfold skinpart_wf in Hspwf. repeat (apply andb_prop in Hspwf; destruct Hspwf as [Hspwf ?]).
    apply N.eqb_eq in Hspwf. apply N.ltb_lt in H1, H2.
    set (ps2 := filter nonempty_part (map (part_spec idx (sp_mapped sp)) (sp_parts sp))).
    assert (Hps2 : vlen ps2 <= vlen (sp_parts sp)).
    { unfold ps2. pose proof (filter_length_le'' nonempty_part (map (part_spec idx (sp_mapped sp)) (sp_parts sp))) as Hf.
      unfold vlen in *. rewrite map_length in Hf. exact Hf. }
    apply andb_true_intro. split.
    + unfold skinpart_wf, skinpart_spec. fold ps2. cbn [sp_np sp_parts sp_mapped sp_vdata sp_nv].
      rewrite N.eqb_refl. pose proof (rank_le idx nv).
      destruct (N.ltb_spec (vlen ps2) 4294967296); [|lia]. destruct (N.ltb_spec (rank idx nv) 65536); [|lia]. cbn [andb].
      apply andb_true_intro. split.
      * apply forallb_forall. intros p2 Hp2. unfold ps2 in Hp2. apply filter_In in Hp2. destruct Hp2 as [Hp2 Hne].
        apply in_map_iff in Hp2. destruct Hp2 as (p & <- & Hp). rewrite forallb_forall in H0.
        apply part_spec_wf; [apply H0; exact Hp|]. unfold nonempty_part in Hne. apply negb_true_iff in Hne.
        apply N.eqb_neq in Hne. exact Hne.
      * destruct (sp_vdata sp) as [|v0 vd] eqn:Hvd; [reflexivity|]. cbn [isnil orb] in H |- *.
        apply andb_prop in H. destruct H as [Hv1 Hv2]. apply N.eqb_eq in Hv1.
        rewrite erase_spec_vlen, Hv1, N.eqb_refl. apply orb_true_r.
    + destruct (sk_dismember k) as [dm|]; [|reflexivity]. apply N.eqb_eq in Hdm. apply N.eqb_eq.
      unfold skinpart_spec. cbn [sp_parts]. unfold vlen. rewrite keep_dm_length; [reflexivity|]. unfold vlen in Hdm. lia.
Qed.

(* ---------------------------------------------------------------------------------------- *)
(* NifFile::DeleteVertsForShape: NiTriShape-family data, BSTriShape / BSDynamicTriShape /
   BSMeshLODTriShape, skin instance with NiSkinData / NiSkinPartition / dismember list, LOCKEDNORM *)

Definition shape_nv (s : shape) : N :=
  match sh_gdata s, sh_bs s with
  | Some g, _ => vlen (gd_verts g)
  | None, Some b => vlen (bs_vdata b)
  | None, None => 0
  end.

(* the segment tables of a BSSubIndexTriShape must agree with their counters (else the re-fit indexes outside them) *)
Definition bs_supported (b : bsshape) : bool := match bs_kind b with BSSubIndex => seg_tables_wf b | _ => true end.

Definition locked_wf (nv : N) (l : list N) : bool := (vlen l <? 4294967295) && forallb (fun x => x <? nv) l.

Definition shape_wf (s : shape) : bool :=
  match sh_gdata s with Some g => gd_wf g | None => true end
  && match sh_bs s with Some b => bs_core_wf b && bs_supported b | None => true end
  && match sh_gdata s, sh_bs s with Some _, Some _ => false | _, _ => true end
  && (shape_nv s <? 65536)
  && match sh_skin s with Some k => skin_wf (shape_nv s) k | None => true end
  && forallb (locked_wf (shape_nv s)) (sh_locked s).

Definition gd_spec (idx : list N) (g : gdata) : gdata :=
  match gd_kind g with
  | GKTriShape => gd_trishape_spec g idx
  | GKLines => gd_lines_spec g idx
  | GKTriStrips => gd_tristrips_spec g idx
  | GKBase => gd_base_spec g idx
  end.

Definition bs_spec (idx : list N) (b : bsshape) : bsshape :=
  match bs_kind b with
  | BSDynamic => bs_dyn_spec b idx
  | BSMeshLOD => bs_lod_spec b idx
  | BSSubIndex => bs_sits_spec b idx
  | BSPlain => bs_base_spec b idx
  end.

Definition shape_spec (idx : list N) (s : shape) : shape :=
  mkShape (option_map (gd_spec idx) (sh_gdata s)) (option_map (bs_spec idx) (sh_bs s))
          (option_map (skin_spec idx) (sh_skin s)) (map (locked_spec idx) (sh_locked s)).

(* the "all vertices or all triangles are gone" result of DeleteVertsForShape *)
Definition shape_emptied (s' : shape) : bool :=
  match sh_gdata s' with Some g => (gd_nv g =? 0) || (gd_nt g =? 0) | None => false end
  || match sh_bs s' with Some b => (bs_nv b =? 0) || (bs_nt b =? 0) | None => false end.

Lemma gd_delete_supported_ok g idx : sorted_lt idx -> gd_wf g = true ->
  gd_delete g idx = Ok (gd_spec idx g).
Proof.
  intros Hs Hwf. unfold gd_spec. destruct (gd_kind g) eqn:Hk.
  - apply gd_trishape_delete_ok; assumption.
  - apply gd_tristrips_delete_ok; assumption.
  - apply gd_lines_delete_ok; assumption.
  - apply gd_base_kind_delete_ok; assumption.
Qed.

Lemma bs_delete_supported_ok b idx : sorted_lt idx -> bs_core_wf b = true -> bs_supported b = true ->
  bs_delete b idx = Ok (bs_spec idx b).
Proof.
  intros Hs Hwf Hsup. unfold bs_spec. unfold bs_supported in Hsup.
  destruct (bs_kind b) eqn:Hk.
  - apply bs_plain_delete_ok; assumption.
  - apply bs_dyn_delete_ok; assumption.
  - apply bs_lod_delete_ok; assumption.
  - apply bs_sits_delete_ok; assumption.
Qed.

Lemma gd_spec_num_triangles idx g : exists nt, gd_num_triangles (gd_spec idx g) = Ok nt.
Proof.
  unfold gd_num_triangles. destruct (gd_kind (gd_spec idx g)); try (eexists; reflexivity).
  rewrite strips_correct. cbn [bind]. eexists; reflexivity.
Qed.

Theorem delete_verts_ok s idx : idx_ok idx -> shape_wf s = true ->
  exists flag, delete_verts s idx = Ok (shape_spec idx s, flag).
Proof.
  intros Hok Hwf. pose proof Hok as (Hne & Hs & Hall).
  unfold shape_wf in Hwf. repeat (apply andb_prop in Hwf; destruct Hwf as [Hwf ?]).
  apply N.ltb_lt in H1.
  unfold delete_verts. destruct idx as [|i0 idx']; [congruence|]. set (idx := i0 :: idx') in *.
  unfold shape_spec.
  assert (Hg : exists fg, match sh_gdata s with
          | None => Ok (None, false)
          | Some g => bind (gd_delete g idx) (fun g' => bind (gd_num_triangles g') (fun nt => Ok (Some g', (gd_nv g' =? 0) || (nt =? 0))))
          end = Ok (option_map (gd_spec idx) (sh_gdata s), fg)).
  { destruct (sh_gdata s) as [g|]; [|eexists; reflexivity].
    rewrite gd_delete_supported_ok by assumption. cbn [bind]. destruct (gd_spec_num_triangles idx g) as (nt & Hnt).
    rewrite Hnt. cbn [bind option_map]. eexists; reflexivity. }
  destruct Hg as (fg & Hg). rewrite Hg. cbn [bind].
  assert (Hb : exists fb, match sh_bs s with
          | None => Ok (None, false)
          | Some b => bind (bs_delete b idx) (fun b' => Ok (Some b', (bs_nv b' =? 0) || (bs_nt b' =? 0)))
          end = Ok (option_map (bs_spec idx) (sh_bs s), fb)).
  { destruct (sh_bs s) as [b|]; [|eexists; reflexivity]. apply andb_prop in H3. destruct H3 as [Hb1 Hb2].
    rewrite bs_delete_supported_ok by assumption. cbn [bind option_map]. eexists; reflexivity. }
  destruct Hb as (fb & Hb). rewrite Hb. cbn [bind].
  assert (Hk : opt_bind (sh_skin s) (fun k => skin_delete k idx) = Ok (option_map (skin_spec idx) (sh_skin s))).
  { destruct (sh_skin s) as [k|]; [|reflexivity]. cbn [opt_bind option_map].
    rewrite (skin_delete_ok idx (shape_nv s)) by (assumption || lia). reflexivity. }
  rewrite Hk. cbn [bind].
  rewrite (mapM_ok _ (locked_spec idx)).
  - cbn [bind fst snd]. eexists; reflexivity.
  - apply Forall_forall. intros l Hl. rewrite forallb_forall in H. specialize (H l Hl).
    unfold locked_wf in H. apply andb_prop in H. destruct H as [Hl1 Hl2]. apply N.ltb_lt in Hl1.
    apply lockednorm_delete_ok; [exact Hok|exact Hl1|].
    apply Forall_forall. intros x Hx. rewrite forallb_forall in Hl2. specialize (Hl2 x Hx). apply N.ltb_lt in Hl2. lia.
Qed.

(* ---------------------------------------------------------------------------------------- *)
(* the result is well-formed again (so the theorems apply to the next deletion of a history) *)

Lemma gd_wf_split g : gd_wf g = true <->
  gd_base_wf g = true /\
  match gd_kind g with
  | GKTriShape => (gd_nt g =? vlen (gd_tris g)) && (vlen (gd_tris g) <? 65536)
                  && (gd_ntp g =? 3 * gd_nt g) && forallb (tri_lt (vlen (gd_verts g))) (gd_tris g)
  | GKTriStrips => (vlen (gd_slens g) =? vlen (gd_points g)) && (vlen (gd_slens g) <? 65536)
                   && forallb (strip_ok (vlen (gd_verts g))) (combine (gd_slens g) (gd_points g))
                   && forallb (fun l => l <? 65536) (gd_slens g)
  | GKLines => vlen (gd_lflags g) =? vlen (gd_verts g)
  | GKBase => true
  end = true.
Proof. unfold gd_wf, gd_base_wf. rewrite andb_true_iff. tauto. Qed.

Lemma gd_spec_wf idx g : gd_wf g = true -> gd_wf (gd_spec idx g) = true.
Proof.
  intros Hwf. unfold gd_spec. destruct (gd_kind g) eqn:Hk.
  - apply gd_trishape_spec_wf; assumption.
  - apply gd_tristrips_spec_wf; assumption.
  - apply gd_wf_split in Hwf. destruct Hwf as [Hb Hl]. rewrite Hk in Hl. apply N.eqb_eq in Hl.
    apply gd_wf_split. split.
    + apply (gd_base_spec_wf g idx Hb).
    + unfold gd_lines_spec, gd_base_spec. cbn [gd_kind gd_lflags gd_verts]. rewrite Hk.
      apply N.eqb_eq. apply erase_spec_vlen_eq. exact Hl.
  - apply gd_wf_split in Hwf. destruct Hwf as [Hb _]. apply gd_wf_split. split.
    + apply (gd_base_spec_wf g idx Hb).
    + unfold gd_base_spec. cbn [gd_kind]. rewrite Hk. reflexivity.
Qed.

Lemma bs_spec_wf idx b : bs_core_wf b = true -> bs_core_wf (bs_spec idx b) = true.
Proof.
  intros Hwf. unfold bs_spec.
  destruct (bs_kind b) eqn:Hk.
  - apply bs_base_spec_wf; [exact Hwf|congruence].
  - apply bs_dyn_spec_wf; assumption.
  - pose proof (bs_base_spec_wf b idx Hwf ltac:(congruence)) as H.
    unfold bs_lod_spec, bs_set_lod. unfold bs_core_wf in *. exact H.
  - pose proof (bs_base_spec_wf b idx Hwf ltac:(congruence)) as H.
    unfold bs_sits_spec, bs_set_segs. unfold bs_core_wf in *. exact H.
Qed.

Lemma bs_spec_supported idx b : bs_supported b = true -> bs_supported (bs_spec idx b) = true.
Proof.
  unfold bs_supported, bs_spec. destruct (bs_kind b) eqn:Hk; intros H; cbn [bs_kind bs_base_spec bs_dyn_spec bs_lod_spec bs_set_dyn bs_set_lod bs_sits_spec bs_set_segs];
    rewrite ?Hk; try reflexivity.
  apply bs_sits_spec_tables. exact H.
Qed.

Lemma gd_spec_kind idx g : gd_kind (gd_spec idx g) = gd_kind g.
Proof. unfold gd_spec. destruct (gd_kind g) eqn:Hk; cbn; exact Hk. Qed.

Lemma bs_spec_kind idx b : bs_kind (bs_spec idx b) = bs_kind b.
Proof. unfold bs_spec. destruct (bs_kind b) eqn:Hk; cbn; exact Hk. Qed.

Lemma gd_spec_verts idx g : gd_verts (gd_spec idx g) = erase_spec (gd_verts g) idx.
Proof. unfold gd_spec. destruct (gd_kind g); reflexivity. Qed.

Lemma bs_spec_vdata idx b : bs_vdata (bs_spec idx b) = erase_spec (bs_vdata b) idx.
Proof. unfold bs_spec. destruct (bs_kind b); reflexivity. Qed.

Lemma shape_spec_nv idx s : shape_nv (shape_spec idx s) = rank idx (shape_nv s).
Proof.
  unfold shape_nv, shape_spec. cbn [sh_gdata sh_bs].
  destruct (sh_gdata s) as [g|]; cbn [option_map].
  - rewrite gd_spec_verts. apply erase_spec_vlen.
  - destruct (sh_bs s) as [b|]; cbn [option_map]; [|reflexivity]. rewrite bs_spec_vdata. apply erase_spec_vlen.
Qed.

Theorem shape_spec_wf idx s : shape_wf s = true -> shape_wf (shape_spec idx s) = true.
Proof.
  intros Hwf. unfold shape_wf in Hwf. repeat (apply andb_prop in Hwf; destruct Hwf as [Hwf ?]).
  apply N.ltb_lt in H1.
  unfold shape_wf. rewrite shape_spec_nv. pose proof (rank_le idx (shape_nv s)) as Hr.
  unfold shape_spec at 1 2 3 4 5 6. cbn [sh_gdata sh_bs sh_skin sh_locked].
  repeat (apply andb_true_intro; split).
  - destruct (sh_gdata s) as [g|]; [|reflexivity]. cbn [option_map]. apply gd_spec_wf. exact Hwf.
  - destruct (sh_bs s) as [b|]; [|reflexivity]. cbn [option_map]. apply andb_prop in H3. destruct H3 as [Hb1 Hb2].
    rewrite bs_spec_wf by assumption. apply bs_spec_supported. exact Hb2.
  - destruct (sh_gdata s), (sh_bs s); cbn [option_map]; try reflexivity. discriminate.
  - apply N.ltb_lt. lia.
  - destruct (sh_skin s) as [k|]; [|reflexivity]. cbn [option_map]. apply skin_spec_wf; assumption.
  - apply forallb_forall. intros l' Hl'. apply in_map_iff in Hl'. destruct Hl' as (l & <- & Hl).
    rewrite forallb_forall in H. specialize (H l Hl). unfold locked_wf in *. apply andb_prop in H. destruct H as [Hl1 Hl2].
    apply N.ltb_lt in Hl1. apply andb_true_intro. split.
    + apply N.ltb_lt. unfold locked_spec, vlen. rewrite map_length.
      pose proof (filter_length_le' (survives idx) (sort_asc l)). rewrite sort_asc_length in H. unfold vlen in Hl1. lia.
    + apply forallb_forall. intros x Hx.
      assert (Hall : Forall (fun x => x < shape_nv s) l).
      { apply Forall_forall. intros y Hy. rewrite forallb_forall in Hl2. specialize (Hl2 y Hy). apply N.ltb_lt. exact Hl2. }
      pose proof (locked_spec_lt idx (shape_nv s) l Hall) as Hlt. rewrite Forall_forall in Hlt. apply N.ltb_lt. apply Hlt. exact Hx.
Qed.

(* histories: any sequence of valid index lists keeps the shape well-formed and never faults *)
Fixpoint delete_history (s : shape) (steps : list (list N)) : res shape :=
  match steps with
  | [] => Ok s
  | idx :: r => bind (delete_verts s idx) (fun x => delete_history (fst x) r)
  end.

Theorem delete_history_ok : forall steps s, shape_wf s = true -> Forall idx_ok steps ->
  exists s', delete_history s steps = Ok s' /\ shape_wf s' = true.
Proof.
  induction steps as [|idx r IH]; intros s Hwf Hall.
  - exists s. split; [reflexivity|exact Hwf].
  - inversion Hall as [|? ? Hok Hall']; subst. cbn [delete_history].
    destruct (delete_verts_ok s idx Hok Hwf) as (flag & Hd). rewrite Hd. cbn [bind fst].
    apply IH; [apply shape_spec_wf; exact Hwf|exact Hall'].
Qed.
