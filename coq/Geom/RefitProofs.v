(* The segment re-fit of BSSubIndexTriShape::notifyVerticesDelete (Geometry.cpp:1251-1311):
   the alignment loops lay the ranges out one after the other; the shrinking loops subtract from
   every range the number of dropped triangles inside it. Consequence: segments stay contiguous,
   ordered, inside the triangle list and sum to the new triangle count; sub-segments stay
   contiguous, start after the triangles the segment owns itself and end where the segment ends
   (since the repair of C17-refit-first-subsegment-start). *)
From NiflyVerif Require Import Res UtilModel UtilSpec CompactProofs EraseProofs FillProofs
  GeomModel SegModel GeomBase GeomSpec GeomProofs GeomSkinProofs GeomStripProofs SegSort SegProofs.
From Coq Require Import ZifyBool ZifyNat ZifyN Sorted.
Local Open Scope N_scope.

(* ---------------------------------------------------------------------------------------- *)
(* what the alignment loops compute *)

Fixpoint layout_subs (start : N) (subs : list subseg) : list subseg :=
  match subs with
  | [] => []
  | s :: r => mkSubseg start (ss_num s) :: layout_subs (wrap32 (start + ss_num s * 3)) r
  end.

Fixpoint layout_segs (start : N) (segs : list seg) : list seg :=
  match segs with
  | [] => []
  | s :: r => mkSeg start (sg_num s) (sg_nsub s)
                    (layout_subs (wrap32 (start + seg_own (sg_num s) (sg_subs s) * 3)) (sg_subs s))
              :: layout_segs (wrap32 (start + sg_num s * 3)) r
  end.

Fixpoint layout_sse (start : N) (segs : list ssegd) : list ssegd :=
  match segs with
  | [] => []
  | s :: r => mkSsegd start (sd_num s) :: layout_sse (wrap32 (start + sd_num s * 3)) r
  end.

Lemma subseg_eta s : mkSubseg (ss_start s) (ss_num s) = s.
Proof. destruct s; reflexivity. Qed.

Lemma align_subs_step todo pos segstart nsub subs j :
  align_subs (S todo) pos segstart nsub subs j =
  match vget subs pos with
  | None => Fault
  | Some cur =>
    let cur' := if j =? 0 then mkSubseg segstart (ss_num cur) else cur in
    match vset subs pos cur' with
    | None => Fault
    | Some subs1 =>
      if nsub <=? j + 1 then align_subs todo (pos + 1) segstart nsub subs1 j
      else match vget subs1 (j + 1) with
           | None => Fault
           | Some nxt =>
             match vset subs1 (j + 1) (mkSubseg (wrap32 (ss_start cur' + ss_num cur' * 3)) (ss_num nxt)) with
             | None => Fault
             | Some subs2 => align_subs todo (pos + 1) segstart nsub subs2 (j + 1)
             end
           end
    end
  end.
Proof. reflexivity. Qed.

Lemma align_segs_step todo pos nseg segs i :
  align_segs (S todo) pos nseg segs i =
  match vget segs pos with
  | None => Fault
  | Some cur =>
    bind (align_subs (length (sg_subs cur)) 0 (wrap32 (sg_start cur + seg_own (sg_num cur) (sg_subs cur) * 3))
                     (sg_nsub cur) (sg_subs cur) 0) (fun subs' =>
    let cur' := mkSeg (sg_start cur) (sg_num cur) (sg_nsub cur) subs' in
    match vset segs pos cur' with
    | None => Fault
    | Some segs1 =>
      if nseg <=? i + 1 then align_segs todo (pos + 1) nseg segs1 i
      else match vget segs1 (i + 1) with
           | None => Fault
           | Some nxt =>
             match vset segs1 (i + 1) (mkSeg (wrap32 (sg_start cur' + sg_num cur' * 3)) (sg_num nxt) (sg_nsub nxt) (sg_subs nxt)) with
             | None => Fault
             | Some segs2 => align_segs todo (pos + 1) nseg segs2 (i + 1)
             end
           end
    end)
  end.
Proof. reflexivity. Qed.

Lemma align_sse_step todo pos nseg segs i :
  align_sse (S todo) pos nseg segs i =
  match vget segs pos with
  | None => Fault
  | Some cur =>
    if nseg <=? i + 1 then align_sse todo (pos + 1) nseg segs i
    else match vget segs (i + 1) with
         | None => Fault
         | Some nxt =>
           match vset segs (i + 1) (mkSsegd (wrap32 (sd_index cur + sd_num cur * 3)) (sd_num nxt)) with
           | None => Fault
           | Some segs2 => align_sse todo (pos + 1) nseg segs2 (i + 1)
           end
         end
  end.
Proof. reflexivity. Qed.

Lemma align_subs_ok segstart : forall rest cur done j nsub,
  vlen done = j -> nsub = j + 1 + vlen rest ->
  align_subs (S (length rest)) j segstart nsub (done ++ cur :: rest) j =
  Ok (done ++ layout_subs (if j =? 0 then segstart else ss_start cur) (cur :: rest)).
Proof.
  induction rest as [|nxt rest IH]; intros cur done j nsub Hj Hn.
  - cbn [length]. rewrite align_subs_step. cbv zeta. rewrite <- Hj. rewrite vget_app_mid.
    rewrite vset_app_mid. change (vlen (@nil subseg)) with 0 in Hn.
    destruct (N.leb_spec nsub (vlen done + 1)); [|lia].
    cbn [align_subs layout_subs]. destruct (vlen done =? 0); [reflexivity|]. rewrite subseg_eta. reflexivity.
  - cbn [length]. rewrite align_subs_step. cbv zeta. rewrite <- Hj. rewrite vget_app_mid. rewrite vset_app_mid.
    assert (Hl : vlen (nxt :: rest) = vlen rest + 1) by (unfold vlen; cbn [length]; lia). rewrite Hl in Hn.
    destruct (N.leb_spec nsub (vlen done + 1)); [lia|].
    set (cur' := if vlen done =? 0 then mkSubseg segstart (ss_num cur) else cur).
    assert (Hd1 : vlen (done ++ [cur']) = vlen done + 1) by (unfold vlen; rewrite app_length; cbn [length]; lia).
    replace (done ++ cur' :: nxt :: rest) with ((done ++ [cur']) ++ nxt :: rest) by (rewrite <- app_assoc; reflexivity).
    rewrite <- Hd1. rewrite vget_app_mid. rewrite vset_app_mid.
    rewrite (IH _ (done ++ [cur']) (vlen (done ++ [cur'])) nsub eq_refl) by lia.
    rewrite Hd1. destruct (N.eqb_spec (vlen done + 1) 0); [lia|].
    cbn [ss_start layout_subs]. rewrite <- app_assoc. cbn [app]. f_equal. f_equal.
    unfold cur'. destruct (vlen done =? 0); cbn [ss_start ss_num]; rewrite ?subseg_eta; reflexivity.
Qed.

Lemma align_subs_all segstart subs : subs <> [] ->
  align_subs (length subs) 0 segstart (vlen subs) subs 0 = Ok (layout_subs segstart subs).
Proof.
  destruct subs as [|cur rest]; [congruence|]. intros _.
  pose proof (align_subs_ok segstart rest cur [] 0 (vlen (cur :: rest)) eq_refl) as H.
  cbn [app] in H. apply H. unfold vlen. cbn [length]. lia.
Qed.

Lemma align_subs_nil segstart nsub : align_subs 0 0 segstart nsub [] 0 = Ok [].
Proof. reflexivity. Qed.

Lemma seg_eta s : mkSeg (sg_start s) (sg_num s) (sg_nsub s) (sg_subs s) = s.
Proof. destruct s; reflexivity. Qed.

Definition seg_counts_ok (s : seg) : Prop := sg_nsub s = vlen (sg_subs s).

Lemma align_one_subs s start : seg_counts_ok s ->
  align_subs (length (sg_subs s)) 0 start (sg_nsub s) (sg_subs s) 0 = Ok (layout_subs start (sg_subs s)).
Proof.
  intros H. rewrite H. destruct (sg_subs s) as [|c r] eqn:Hs; [reflexivity|].
  rewrite <- Hs. apply align_subs_all. rewrite Hs. discriminate.
Qed.

Lemma align_segs_ok : forall rest cur done i nseg,
  vlen done = i -> nseg = i + 1 + vlen rest -> Forall seg_counts_ok (cur :: rest) ->
  align_segs (S (length rest)) i nseg (done ++ cur :: rest) i =
  Ok (done ++ layout_segs (sg_start cur) (cur :: rest)).
Proof.
  induction rest as [|nxt rest IH]; intros cur done i nseg Hi Hn Hall.
  - assert (Hc : seg_counts_ok cur) by (inversion Hall; assumption).
    cbn [length]. rewrite align_segs_step. rewrite <- Hi. rewrite vget_app_mid.
    rewrite align_one_subs by exact Hc. cbn [bind]. cbv zeta. rewrite vset_app_mid.
    change (vlen (@nil seg)) with 0 in Hn. destruct (N.leb_spec nseg (vlen done + 1)); [|lia].
    cbn [align_segs]. reflexivity.
  - assert (Hc : seg_counts_ok cur) by (inversion Hall; assumption).
    assert (Hall' : Forall seg_counts_ok (nxt :: rest)) by (inversion Hall; assumption).
    cbn [length]. rewrite align_segs_step. rewrite <- Hi. rewrite vget_app_mid.
    rewrite align_one_subs by exact Hc. cbn [bind]. cbv zeta. rewrite vset_app_mid.
    assert (Hl : vlen (nxt :: rest) = vlen rest + 1) by (unfold vlen; cbn [length]; lia). rewrite Hl in Hn.
    destruct (N.leb_spec nseg (vlen done + 1)); [lia|].
    set (cur' := mkSeg (sg_start cur) (sg_num cur) (sg_nsub cur)
                       (layout_subs (wrap32 (sg_start cur + seg_own (sg_num cur) (sg_subs cur) * 3)) (sg_subs cur))).
    assert (Hd1 : vlen (done ++ [cur']) = vlen done + 1) by (unfold vlen; rewrite app_length; cbn [length]; lia).
    replace (done ++ cur' :: nxt :: rest) with ((done ++ [cur']) ++ nxt :: rest) by (rewrite <- app_assoc; reflexivity).
    rewrite <- Hd1. rewrite vget_app_mid. rewrite vset_app_mid.
    rewrite (IH _ (done ++ [cur']) (vlen (done ++ [cur'])) nseg eq_refl).
    + cbn [sg_start layout_segs]. rewrite <- app_assoc. cbn [app]. unfold cur'. cbn [sg_start sg_num]. reflexivity.
    + lia.
    + inversion Hall' as [|? ? Hn1 Hall'']; subst. constructor; [exact Hn1|exact Hall''].
Qed.

Lemma align_segs_all segs : Forall seg_counts_ok segs ->
  align_segs (length segs) 0 (vlen segs) segs 0 =
  Ok (match segs with [] => [] | s :: _ => layout_segs (sg_start s) segs end).
Proof.
  destruct segs as [|cur rest]; [reflexivity|]. intros Hall.
  pose proof (align_segs_ok rest cur [] 0 (vlen (cur :: rest)) eq_refl) as H. cbn [app] in H. apply H; [|exact Hall].
  unfold vlen. cbn [length]. lia.
Qed.

Lemma ssegd_eta s : mkSsegd (sd_index s) (sd_num s) = s.
Proof. destruct s; reflexivity. Qed.

Lemma align_sse_ok : forall rest cur done i nseg,
  vlen done = i -> nseg = i + 1 + vlen rest ->
  align_sse (S (length rest)) i nseg (done ++ cur :: rest) i = Ok (done ++ layout_sse (sd_index cur) (cur :: rest)).
Proof.
  induction rest as [|nxt rest IH]; intros cur done i nseg Hi Hn.
  - subst i. cbn [length]. rewrite align_sse_step. rewrite vget_app_mid. change (vlen (@nil ssegd)) with 0 in Hn.
    destruct (N.leb_spec nseg (vlen done + 1)); [|lia]. cbn [align_sse layout_sse]. rewrite ssegd_eta. reflexivity.
  - subst i. cbn [length]. rewrite align_sse_step. rewrite vget_app_mid.
    assert (Hl : vlen (nxt :: rest) = vlen rest + 1) by (unfold vlen; cbn [length]; lia). rewrite Hl in Hn.
    destruct (N.leb_spec nseg (vlen done + 1)); [lia|].
    assert (Hd1 : vlen (done ++ [cur]) = vlen done + 1) by (unfold vlen; rewrite app_length; cbn [length]; lia).
    replace (done ++ cur :: nxt :: rest) with ((done ++ [cur]) ++ nxt :: rest) by (rewrite <- app_assoc; reflexivity).
    rewrite <- Hd1. rewrite vget_app_mid. rewrite vset_app_mid.
    rewrite (IH _ (done ++ [cur]) (vlen (done ++ [cur])) nseg eq_refl) by lia.
    cbn [sd_index layout_sse]. rewrite <- app_assoc. cbn [app]. rewrite ssegd_eta. reflexivity.
Qed.

Lemma align_sse_all segs :
  align_sse (length segs) 0 (vlen segs) segs 0 =
  Ok (match segs with [] => [] | s :: _ => layout_sse (sd_index s) segs end).
Proof.
  destruct segs as [|cur rest]; [reflexivity|].
  pose proof (align_sse_ok rest cur [] 0 (vlen (cur :: rest)) eq_refl) as H. cbn [app] in H. apply H.
  unfold vlen. cbn [length]. lia.
Qed.

(* ---------------------------------------------------------------------------------------- *)
(* the shrinking loop counts the dropped triangles inside the range *)

Definition count_in (D : list N) (lo hi : N) : N := vlen (filter (fun d => (lo <=? d) && (d <? hi)) D).

Definition shrink_step (lo : N) (n id : N) : N :=
  if (0 <? n) && (lo <=? id) && (id <? wrap32 (lo + n)) then n - 1 else n.

(* D strictly descending, every element below lo + n: each element at or above lo takes one off *)
Lemma shrink_below lo : forall D n,
  StronglySorted (fun a b => b < a) D -> Forall (fun d => d < lo + n) D -> lo + n < 4294967296 ->
  fold_left (shrink_step lo) D n = n - vlen (filter (fun d => lo <=? d) D).
Proof.
  induction D as [|d D IH]; intros n Hs Hall Hb; [cbn; lia|].
  inversion Hs as [|? ? Hs' Hlt]; subst. inversion Hall as [|? ? Hd Hall']; subst.
  cbn [fold_left filter]. unfold shrink_step at 2. rewrite wrap32_small by lia.
  destruct (N.leb_spec lo d) as [Hle|Hgt].
  - destruct (N.ltb_spec 0 n); [|lia]. destruct (N.ltb_spec d (lo + n)); [|lia]. cbn [andb].
    rewrite IH; [unfold vlen; cbn [length]; lia|exact Hs'| |lia].
    apply Forall_forall. intros x Hx. rewrite Forall_forall in Hlt. specialize (Hlt x Hx). lia.
  - rewrite andb_false_r. cbn [andb]. rewrite IH; [reflexivity|exact Hs'|exact Hall'|lia].
Qed.

Lemma shrink_count_ok lo : forall D n,
  StronglySorted (fun a b => b < a) D -> lo + n < 4294967296 ->
  fold_left (shrink_step lo) D n = n - count_in D lo (lo + n).
Proof.
  induction D as [|d D IH]; intros n Hs Hb; [cbn; lia|].
  inversion Hs as [|? ? Hs' Hlt]; subst.
  destruct (N.ltb_spec d (lo + n)) as [Hin|Hout].
  - (* from here on everything is below the upper end *)
    rewrite shrink_below; [|exact Hs| |exact Hb].
    + unfold count_in. f_equal. f_equal. apply filter_ext_in. intros x Hx.
      assert (x < lo + n).
      { destruct Hx as [<-|Hx]; [exact Hin|]. rewrite Forall_forall in Hlt. specialize (Hlt x Hx). lia. }
      destruct (N.ltb_spec x (lo + n)); [|lia]. rewrite andb_true_r. reflexivity.
    + constructor; [exact Hin|]. apply Forall_forall. intros x Hx. rewrite Forall_forall in Hlt. specialize (Hlt x Hx). lia.
  - cbn [fold_left]. unfold shrink_step at 2. rewrite wrap32_small by lia.
    destruct (N.ltb_spec d (lo + n)); [lia|]. rewrite andb_false_r.
    rewrite IH by assumption. unfold count_in. cbn [filter].
    destruct (N.ltb_spec d (lo + n)); [lia|]. rewrite andb_false_r. reflexivity.
Qed.

Lemma shrink_count_eq D start n : shrink_count D start n = fold_left (shrink_step (start / 3)) D n.
Proof. reflexivity. Qed.

Lemma ss_snoc {A} (R : A -> A -> Prop) l x : StronglySorted R l -> Forall (fun y => R y x) l ->
  StronglySorted R (l ++ [x]).
Proof.
  induction 1 as [|y l Hs IH Hall]; intros Hx; cbn [app]; [constructor; constructor|].
  inversion Hx; subst. constructor; [apply IH; assumption|].
  apply Forall_app. split; [exact Hall|]. constructor; [assumption|constructor].
Qed.

Lemma rev_sorted_desc D : sorted_lt D -> StronglySorted (fun a b => b < a) (rev D).
Proof.
  induction 1 as [|x D Hs IH Hall]; [constructor|]. cbn [rev]. apply ss_snoc; [exact IH|].
  apply Forall_rev. exact Hall.
Qed.

(* ---------------------------------------------------------------------------------------- *)
(* the re-fit as a function *)

Definition seg_tables_wf (b : bsshape) : bool :=
  (sn_nseg (bs_segn b) =? vlen (sn_segs (bs_segn b)))
  && forallb (fun s => sg_nsub s =? vlen (sg_subs s)) (sn_segs (bs_segn b))
  && (bs_ssen b =? vlen (bs_sse b)).

Definition layout_all (segs : list seg) : list seg :=
  match segs with [] => [] | s :: _ => layout_segs (sg_start s) segs end.
Definition layout_sse_all (segs : list ssegd) : list ssegd :=
  match segs with [] => [] | s :: _ => layout_sse (sd_index s) segs end.

Definition segs_refit_spec (deleted : list N) (segs : list seg) : list seg :=
  layout_all (map (seg_shrink deleted) segs).

Definition sse_refit_spec (deleted : list N) (segs : list ssegd) : list ssegd :=
  layout_sse_all (map (fun s => mkSsegd (sd_index s) (shrink_count deleted (sd_index s) (sd_num s))) segs).

Definition segn_refit_spec (deleted : list N) (sn : segmentation) : segmentation :=
  mkSegmentation (wrap32 (sn_nprim sn + 4294967296 - wrap32 (vlen deleted))) (sn_nseg sn) (sn_ntotal sn)
                 (segs_refit_spec deleted (sn_segs sn)) (sn_sub_nseg sn) (sn_sub_ntotal sn)
                 (sn_arrayidx sn) (sn_recs sn) (sn_ssf sn).

Lemma seg_shrink_counts deleted s : seg_counts_ok s -> seg_counts_ok (seg_shrink deleted s).
Proof. unfold seg_counts_ok, seg_shrink. cbn [sg_nsub sg_subs]. unfold vlen. rewrite map_length. tauto. Qed.

Theorem segn_refit_ok deleted sn :
  sn_nseg sn = vlen (sn_segs sn) -> Forall seg_counts_ok (sn_segs sn) ->
  segn_refit deleted sn = Ok (segn_refit_spec deleted sn).
Proof.
  intros Hn Hall. unfold segn_refit, segn_refit_spec, segs_refit_spec.
  set (segs1 := map (seg_shrink deleted) (sn_segs sn)).
  assert (Hl : vlen segs1 = vlen (sn_segs sn)) by (unfold segs1, vlen; rewrite map_length; reflexivity).
  rewrite Hn, <- Hl. rewrite align_segs_all.
  - cbn [bind]. rewrite Hl, <- Hn. reflexivity.
  - unfold segs1. apply Forall_forall. intros s Hs. apply in_map_iff in Hs. destruct Hs as (s0 & <- & Hs0).
    apply seg_shrink_counts. rewrite Forall_forall in Hall. apply Hall. exact Hs0.
Qed.

Theorem sse_refit_ok deleted nseg segs : nseg = vlen segs ->
  sse_refit deleted nseg segs = Ok (sse_refit_spec deleted segs).
Proof.
  intros Hn. unfold sse_refit, sse_refit_spec.
  set (segs1 := map _ segs).
  assert (Hl : vlen segs1 = vlen segs) by (unfold segs1, vlen; rewrite map_length; reflexivity).
  rewrite Hn, <- Hl. apply align_sse_all.
Qed.

Definition bs_sits_spec (b : bsshape) (idx : list N) : bsshape :=
  let b1 := bs_base_spec b idx in
  bs_set_segs b1 (segn_refit_spec (bs_deleted b1) (bs_segn b1)) (sse_refit_spec (bs_deleted b1) (bs_sse b1)).

Theorem bs_sits_delete_ok b idx : sorted_lt idx -> bs_kind b = BSSubIndex -> bs_core_wf b = true ->
  seg_tables_wf b = true -> bs_delete b idx = Ok (bs_sits_spec b idx).
Proof.
  intros Hs Hk Hwf Hseg. unfold seg_tables_wf in Hseg.
  apply andb_prop in Hseg. destruct Hseg as [Hseg H3]. apply andb_prop in Hseg. destruct Hseg as [H1 H2].
  apply N.eqb_eq in H1, H3.
  unfold bs_delete. rewrite bs_base_delete_ok by assumption. cbn [bind].
  unfold bs_base_spec at 1. cbn [bs_kind]. rewrite Hk.
  rewrite segn_refit_ok.
  - cbn [bind]. rewrite sse_refit_ok by (unfold bs_base_spec; cbn [bs_ssen bs_sse]; exact H3).
    cbn [bind]. reflexivity.
  - unfold bs_base_spec. cbn [bs_segn]. exact H1.
  - unfold bs_base_spec. cbn [bs_segn]. apply Forall_forall. intros s Hs0.
    rewrite forallb_forall in H2. specialize (H2 s Hs0). apply N.eqb_eq in H2. exact H2.
Qed.

Lemma layout_subs_length start subs : length (layout_subs start subs) = length subs.
Proof. revert start. induction subs as [|s r IH]; intros start; cbn [layout_subs length]; [reflexivity|]. rewrite IH. reflexivity. Qed.

Lemma layout_segs_length start segs : length (layout_segs start segs) = length segs.
Proof. revert start. induction segs as [|s r IH]; intros start; cbn [layout_segs length]; [reflexivity|]. rewrite IH. reflexivity. Qed.

Lemma layout_sse_length start segs : length (layout_sse start segs) = length segs.
Proof. revert start. induction segs as [|s r IH]; intros start; cbn [layout_sse length]; [reflexivity|]. rewrite IH. reflexivity. Qed.

Lemma layout_segs_counts start segs : Forall seg_counts_ok segs -> Forall seg_counts_ok (layout_segs start segs).
Proof.
  revert start. induction segs as [|s r IH]; intros start Hall; cbn [layout_segs]; [constructor|].
  inversion Hall; subst. constructor; [|apply IH; assumption].
  unfold seg_counts_ok in *. cbn [sg_nsub sg_subs]. unfold vlen. rewrite layout_subs_length. assumption.
Qed.

Theorem bs_sits_spec_tables b idx : seg_tables_wf b = true -> seg_tables_wf (bs_sits_spec b idx) = true.
Proof.
  intros Hseg. unfold seg_tables_wf in *.
  apply andb_prop in Hseg. destruct Hseg as [Hseg H3]. apply andb_prop in Hseg. destruct Hseg as [H1 H2].
  apply N.eqb_eq in H1, H3.
  unfold bs_sits_spec, bs_set_segs, bs_base_spec, segn_refit_spec, segs_refit_spec, sse_refit_spec.
  cbn [bs_segn bs_ssen bs_sse sn_nseg sn_segs bs_deleted].
  set (D := rev (del_pos idx (bs_tris b))).
  assert (L1 : vlen (layout_all (map (seg_shrink D) (sn_segs (bs_segn b)))) = vlen (sn_segs (bs_segn b))).
  { unfold layout_all, vlen. destruct (map (seg_shrink D) (sn_segs (bs_segn b))) as [|s r] eqn:Hm.
    - apply (f_equal (@length seg)) in Hm. rewrite map_length in Hm. cbn in Hm. cbn. lia.
    - rewrite layout_segs_length. rewrite <- Hm. rewrite map_length. reflexivity. }
  assert (L2 : vlen (layout_sse_all (map (fun s => mkSsegd (sd_index s) (shrink_count D (sd_index s) (sd_num s))) (bs_sse b))) = vlen (bs_sse b)).
  { unfold layout_sse_all, vlen. destruct (map _ (bs_sse b)) as [|s r] eqn:Hm.
    - apply (f_equal (@length ssegd)) in Hm. rewrite map_length in Hm. cbn in Hm. cbn. lia.
    - rewrite layout_sse_length. rewrite <- Hm. rewrite map_length. reflexivity. }
  rewrite L1, L2, H1, H3, !N.eqb_refl. cbn [andb]. rewrite andb_true_r.
  assert (Hc : Forall seg_counts_ok (layout_all (map (seg_shrink D) (sn_segs (bs_segn b))))).
  { assert (Hm : Forall seg_counts_ok (map (seg_shrink D) (sn_segs (bs_segn b)))).
    { apply Forall_forall. intros s Hs. apply in_map_iff in Hs. destruct Hs as (s0 & <- & Hs0).
      apply seg_shrink_counts. rewrite forallb_forall in H2. specialize (H2 s0 Hs0). apply N.eqb_eq in H2. exact H2. }
    unfold layout_all. destruct (map (seg_shrink D) (sn_segs (bs_segn b))) as [|s r]; [constructor|].
    apply layout_segs_counts. exact Hm. }
  apply forallb_forall. intros s Hs. rewrite Forall_forall in Hc. specialize (Hc s Hs). apply N.eqb_eq. exact Hc.
Qed.

(* ---------------------------------------------------------------------------------------- *)
(* the range facts the re-fit keeps: the tiling of SetSegmentation ([segs_tile]) is preserved *)

Lemma count_in_split D a b c : a <= b -> b <= c -> count_in D a c = count_in D a b + count_in D b c.
Proof.
  intros Hab Hbc. unfold count_in, vlen. induction D as [|d D IH]; [reflexivity|]. cbn [filter].
  destruct (N.leb_spec a d); destruct (N.ltb_spec d c); destruct (N.ltb_spec d b); destruct (N.leb_spec b d);
    cbn [andb length]; lia.
Qed.

Lemma nodup_range_length (l : list N) a b : NoDup l -> Forall (fun d => a <= d /\ d < b) l -> vlen l <= b - a.
Proof.
  intros Hnd Hall.
  set (rng := map (fun k => a + N.of_nat k) (seq 0 (N.to_nat (b - a)))).
  assert (Hincl : incl l rng).
  { intros d Hd. rewrite Forall_forall in Hall. specialize (Hall d Hd). unfold rng. apply in_map_iff.
    exists (N.to_nat (d - a)). split; [lia|]. apply in_seq. lia. }
  pose proof (NoDup_incl_length Hnd Hincl) as Hlen. unfold rng in Hlen. rewrite map_length, seq_length in Hlen.
  unfold vlen. lia.
Qed.

Lemma count_in_bound D a b : NoDup D -> count_in D a b <= b - a.
Proof.
  intros Hnd. unfold count_in. apply nodup_range_length.
  - apply NoDup_filter. exact Hnd.
  - apply Forall_forall. intros d Hd. apply filter_In in Hd. destruct Hd as [_ Hd].
    apply andb_prop in Hd. destruct Hd as [H1 H2]. apply N.leb_le in H1. apply N.ltb_lt in H2. lia.
Qed.

Lemma count_in_all D b : Forall (fun d => d < b) D -> count_in D 0 b = vlen D.
Proof.
  intros Hall. unfold count_in, vlen. induction Hall as [|d D Hd Hall IH]; [reflexivity|]. cbn [filter].
  destruct (N.leb_spec 0 d); [|lia]. destruct (N.ltb_spec d b); [|lia]. cbn [andb length]. lia.
Qed.

Definition sum_nums (subs : list subseg) : N := fold_right (fun ss a => ss_num ss + a) 0 subs.

Lemma seg_own_ok : forall subs num, sum_nums subs <= num -> num < 4294967296 ->
  seg_own num subs = num - sum_nums subs.
Proof.
  unfold seg_own. induction subs as [|s r IH]; intros num Hs Hn; cbn [fold_left sum_nums fold_right] in *; [lia|].
  assert (Hsn : ss_num s <= num) by lia.
  rewrite (wrap32_small (ss_num s)) by lia.
  assert (Hw : wrap32 (num + 4294967296 - ss_num s) = num - ss_num s).
  { unfold wrap32, wrapN. change (2 ^ 32) with 4294967296.
    replace (num + 4294967296 - ss_num s) with ((num - ss_num s) + 1 * 4294967296) by lia.
    rewrite N.mod_add by lia. apply N.mod_small. lia. }
  rewrite Hw. rewrite IH by (fold (sum_nums r) in *; lia). fold (sum_nums r). lia.
Qed.

Lemma subs_tile_sum : forall p subs e, subs_tile p subs e -> p + sum_nums subs = e.
Proof. induction 1 as [p|p s r e Hst Hr IH]; cbn [sum_nums fold_right]; [lia|]. fold (sum_nums r). lia. Qed.

Lemma layout_subs_sum start subs : sum_nums (layout_subs start subs) = sum_nums subs.
Proof.
  revert start. induction subs as [|s r IH]; intros start; [reflexivity|]. cbn [layout_subs sum_nums fold_right ss_num].
  fold (sum_nums (layout_subs (wrap32 (start + ss_num s * 3)) r)). fold (sum_nums r). rewrite IH. reflexivity.
Qed.

Section Refit.
  Variable D : list N.                      (* deletedTris: strictly descending *)
  Hypothesis Hdesc : StronglySorted (fun a b => b < a) D.
  Hypothesis Hnd : NoDup D.

  Lemma shrink_count_tile p n : p + n < 4294967296 -> 3 * p < 4294967296 ->
    shrink_count D (3 * p) n = n - count_in D p (p + n).
  Proof.
    intros H1 H2. rewrite shrink_count_eq. rewrite N.mul_comm, N.div_mul by lia.
    apply shrink_count_ok; assumption.
  Qed.

  Definition shrink_sub (ss : subseg) : subseg := mkSubseg (ss_start ss) (shrink_count D (ss_start ss) (ss_num ss)).

  Lemma subs_tile_le : forall p subs e, subs_tile p subs e -> p <= e.
  Proof. induction 1; lia. Qed.

  Lemma refit_subs : forall p subs e, subs_tile p subs e -> forall q, q <= p -> 3 * e < 4294967296 ->
    subs_tile q (layout_subs (3 * q) (map shrink_sub subs)) (q + ((e - p) - count_in D p e)).
  Proof.
    induction 1 as [p|p s r e Hst Hr IH]; intros q Hq He.
    - cbn [map layout_subs]. replace (q + (p - p - count_in D p p)) with q by lia. constructor.
    - pose proof (subs_tile_le _ _ _ Hr) as Hle.
      set (n' := ss_num s - count_in D p (p + ss_num s)).
      assert (Hsh : shrink_sub s = mkSubseg (3 * p) n').
      { unfold shrink_sub. rewrite Hst. rewrite shrink_count_tile by lia. reflexivity. }
      cbn [map layout_subs]. rewrite Hsh. cbn [ss_num ss_start].
      pose proof (count_in_bound D p (p + ss_num s) Hnd) as Hb1.
      pose proof (count_in_bound D (p + ss_num s) e Hnd) as Hb2.
      pose proof (count_in_split D p (p + ss_num s) e ltac:(lia) Hle) as Hsp.
      constructor; [reflexivity|]. cbn [ss_num].
      rewrite wrap32_small by (unfold n'; lia).
      replace (3 * q + n' * 3) with (3 * (q + n')) by lia.
      replace (q + (e - p - count_in D p e)) with (q + n' + (e - (p + ss_num s) - count_in D (p + ss_num s) e))
        by (unfold n'; lia).
      apply IH; [unfold n'; lia|exact He].
  Qed.

  (* a segment keeps its shape: own triangles first, then the sub-segments, ending at its end *)
  Lemma refit_seg pos s q : seg_tile pos s -> q <= pos -> 3 * (pos + sg_num s) < 4294967296 ->
    let s' := seg_shrink D s in
    seg_tile q (mkSeg (3 * q) (sg_num s') (sg_nsub s')
                      (layout_subs (wrap32 (3 * q + seg_own (sg_num s') (sg_subs s') * 3)) (sg_subs s'))) /\
    sg_num s' = sg_num s - count_in D pos (pos + sg_num s).
  Proof.
    intros (Hst & Hns & own & Hown & Hsubs) Hq Hb s'.
    assert (Hnum : sg_num s' = sg_num s - count_in D pos (pos + sg_num s)).
    { unfold s', seg_shrink. cbn [sg_num]. rewrite Hst. apply shrink_count_tile; lia. }
    split; [|exact Hnum].
    assert (Hsubs' : sg_subs s' = map shrink_sub (sg_subs s)) by reflexivity.
    pose proof (count_in_split D pos (pos + own) (pos + sg_num s) ltac:(lia) ltac:(lia)) as Hsp.
    pose proof (count_in_bound D pos (pos + own) Hnd) as Hb1.
    pose proof (count_in_bound D (pos + own) (pos + sg_num s) Hnd) as Hb2.
    set (csub := count_in D (pos + own) (pos + sg_num s)) in *.
    set (cown := count_in D pos (pos + own)) in *.
    (* the shrunk sub-segments still sum to what is left of the sub-segment part *)
    assert (Hsum : sum_nums (sg_subs s') = (sg_num s - own) - csub).
    { pose proof (refit_subs _ _ _ Hsubs 0 ltac:(lia) ltac:(lia)) as Ht.
      apply subs_tile_sum in Ht. rewrite layout_subs_sum in Ht. rewrite Hsubs'. lia. }
    assert (Hown' : seg_own (sg_num s') (sg_subs s') = own - cown).
    { rewrite seg_own_ok by lia. lia. }
    unfold seg_tile. cbn [sg_start sg_nsub sg_subs sg_num].
    split; [reflexivity|]. split.
    { unfold s', seg_shrink. cbn [sg_nsub sg_subs]. unfold vlen. rewrite layout_subs_length, map_length. exact Hns. }
    exists (own - cown). split; [lia|].
    rewrite Hown'. rewrite wrap32_small by lia.
    replace (3 * q + (own - cown) * 3) with (3 * (q + (own - cown))) by lia.
    replace (q + sg_num s') with (q + (own - cown) + ((pos + sg_num s - (pos + own)) - csub)) by lia.
    rewrite Hsubs'. apply (refit_subs _ _ _ Hsubs); lia.
  Qed.

  Lemma segs_tile_le : forall p segs e, segs_tile p segs e -> p <= e.
  Proof. induction 1; lia. Qed.

  Lemma refit_segs : forall pos segs e, segs_tile pos segs e -> forall q, q <= pos -> 3 * e < 4294967296 ->
    segs_tile q (layout_segs (3 * q) (map (seg_shrink D) segs)) (q + ((e - pos) - count_in D pos e)).
  Proof.
    induction 1 as [p|p s r e Hs Hr IH]; intros q Hq He.
    - cbn [map layout_segs]. replace (q + (p - p - count_in D p p)) with q by lia. constructor.
    - pose proof (segs_tile_le _ _ _ Hr) as Hle.
      destruct (refit_seg p s q Hs Hq ltac:(lia)) as [Hw Hnum].
      cbn [map layout_segs].
      pose proof (count_in_bound D p (p + sg_num s) Hnd) as Hb1.
      pose proof (count_in_bound D (p + sg_num s) e Hnd) as Hb2.
      pose proof (count_in_split D p (p + sg_num s) e ltac:(lia) Hle) as Hsp.
      set (n' := sg_num (seg_shrink D s)) in *.
      constructor.
      + exact Hw.
      + cbn [sg_num]. rewrite wrap32_small by lia.
        replace (3 * q + n' * 3) with (3 * (q + n')) by lia.
        replace (q + (e - p - count_in D p e)) with (q + n' + (e - (p + sg_num s) - count_in D (p + sg_num s) e)) by lia.
        apply IH; [lia|exact He].
  Qed.
End Refit.

(* the statement for a deletion: tables that tile the triangle list as SetSegmentation leaves them
   still tile the new triangle list after the re-fit, and every range has lost exactly the dropped
   triangles that lay inside it *)
Theorem refit_keeps_ranges idx tris segs :
  segs_tile 0 segs (vlen tris) -> 3 * vlen tris < 4294967296 ->
  segs_tile 0 (segs_refit_spec (rev (del_pos idx tris)) segs) (vlen (tris_spec idx tris)).
Proof.
  intros Ht Hb. set (D := rev (del_pos idx tris)).
  assert (Hsd : sorted_lt (del_pos idx tris)) by apply del_pos_from_sorted.
  assert (Hdesc : StronglySorted (fun a b => b < a) D) by (apply rev_sorted_desc; exact Hsd).
  assert (Hnd : NoDup D) by (apply NoDup_rev; apply sorted_lt_nodup; exact Hsd).
  pose proof (refit_segs D Hdesc Hnd 0 segs (vlen tris) Ht 0 ltac:(lia) Hb) as H.
  assert (Hcnt : count_in D 0 (vlen tris) = vlen D).
  { apply count_in_all. apply Forall_rev. pose proof (del_pos_from_lt idx tris 0) as Hlt.
    rewrite N.add_0_l in Hlt. exact Hlt. }
  assert (Hlen : vlen (tris_spec idx tris) = vlen tris - vlen D).
  { pose proof (del_pos_count idx tris 0) as Hc. unfold D, vlen. rewrite rev_length. unfold del_pos. lia. }
  rewrite Hcnt, N.sub_0_r, N.add_0_l, <- Hlen in H.
  unfold segs_refit_spec, layout_all. destruct segs as [|s r]; [exact H|].
  cbn [map]. cbn [map] in H.
  assert (Hs0 : sg_start (seg_shrink D s) = 3 * 0).
  { inversion Ht as [|? ? ? ? Hst _]; subst. destruct Hst as (Hst & _). unfold seg_shrink. cbn [sg_start]. exact Hst. }
  rewrite Hs0. exact H.
Qed.

(* through DeleteVertsForShape's BSSubIndexTriShape branch *)
Theorem bs_sits_delete_ranges b idx :
  sorted_lt idx -> bs_kind b = BSSubIndex -> bs_core_wf b = true -> seg_tables_wf b = true ->
  segs_tile 0 (sn_segs (bs_segn b)) (bs_nt b) -> sn_nprim (bs_segn b) = bs_nt b -> 3 * bs_nt b < 4294967296 ->
  exists b', bs_delete b idx = Ok b' /\
    bs_tris b' = tris_spec idx (bs_tris b) /\ bs_nt b' = vlen (bs_tris b') /\
    sn_nprim (bs_segn b') = bs_nt b' /\
    segs_tile 0 (sn_segs (bs_segn b')) (bs_nt b').
Proof.
  intros Hs Hk Hwf Hseg Htile Hnp Hb.
  exists (bs_sits_spec b idx). split; [apply bs_sits_delete_ok; assumption|].
  unfold bs_core_wf in Hwf. repeat (apply andb_prop in Hwf; destruct Hwf as [Hwf ?]).
  apply N.eqb_eq in H2.
  unfold bs_sits_spec, bs_set_segs, bs_base_spec, segn_refit_spec.
  cbn [bs_tris bs_nt bs_segn sn_nprim sn_segs bs_deleted].
  split; [reflexivity|]. split; [reflexivity|].
  assert (Hlen : vlen (tris_spec idx (bs_tris b)) = vlen (bs_tris b) - vlen (rev (del_pos idx (bs_tris b)))).
  { pose proof (del_pos_count idx (bs_tris b) 0) as Hc. unfold vlen. rewrite rev_length. unfold del_pos. lia. }
  assert (Hdl : vlen (rev (del_pos idx (bs_tris b))) <= vlen (bs_tris b)).
  { pose proof (del_pos_count idx (bs_tris b) 0) as Hc. unfold vlen. rewrite rev_length. unfold del_pos. lia. }
  split.
  - rewrite Hnp, H2, Hlen. rewrite (wrap32_small (vlen (rev (del_pos idx (bs_tris b))))) by lia.
    unfold wrap32, wrapN. change (2 ^ 32) with 4294967296.
    replace (vlen (bs_tris b) + 4294967296 - vlen (rev (del_pos idx (bs_tris b))))
      with ((vlen (bs_tris b) - vlen (rev (del_pos idx (bs_tris b)))) + 1 * 4294967296) by lia.
    rewrite N.mod_add by lia. apply N.mod_small. lia.
  - apply refit_keeps_ranges; rewrite <- H2; assumption.
Qed.
