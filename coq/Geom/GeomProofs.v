(* The geometry models of Geom/GeomModel.v equal the specifications of Geom/GeomSpec.v on
   well-formed shapes, for every strictly ascending index list: NiGeometryData family and
   BSTriShape family. All reduce to erase_correct / collapse_correct / apply_map_tris_correct. *)
From NiflyVerif Require Import Res UtilModel UtilSpec CompactProofs EraseProofs FillProofs
  GeomModel GeomBase GeomSpec.
From Coq Require Import ZifyBool ZifyNat ZifyN Sorted.
Local Open Scope N_scope.

Lemma mapM_ok {A B} (f : A -> res B) (g : A -> B) (l : list A) :
  Forall (fun x => f x = Ok (g x)) l -> mapM f l = Ok (map g l).
Proof.
  induction 1 as [|x l Hx Hall IH]; [reflexivity|].
  cbn [mapM map]. rewrite Hx. cbn [bind]. rewrite IH. reflexivity.
Qed.

Lemma wrap16_small x : x < 65536 -> wrap16 x = x.
Proof. intros H. unfold wrap16, wrapN. apply N.mod_small. exact H. Qed.

Lemma wrap32_small x : x < 4294967296 -> wrap32 x = x.
Proof. intros H. unfold wrap32, wrapN. apply N.mod_small. exact H. Qed.

Lemma pow16 : 2 ^ 16 = 65536. Proof. reflexivity. Qed.
Lemma pow31 : 2 ^ 31 = 2147483648. Proof. reflexivity. Qed.
Lemma pow32 : 2 ^ 32 = 4294967296. Proof. reflexivity. Qed.
Lemma pow64 : 2 ^ 64 = 18446744073709551616. Proof. reflexivity. Qed.

Lemma erase16_ok (v : list tok) idx : sorted_lt idx -> vlen v < 65536 ->
  erase16 v idx = Ok (erase_spec v idx).
Proof. intros Hs Hv. unfold erase16. apply erase_correct; [exact Hs|rewrite pow16; exact Hv]. Qed.

Lemma erase_spec_le {A} (v : list A) idx : vlen (erase_spec v idx) <= vlen v.
Proof. rewrite erase_spec_vlen. apply rank_le. Qed.

Lemma attr_ok_spec nv a : attr_ok nv a = true -> vlen a = 0 \/ vlen a = nv.
Proof. unfold attr_ok. rewrite orb_true_iff, !N.eqb_eq. tauto. Qed.

Lemma vlen_0_nil {A} (l : list A) : vlen l = 0 -> l = [].
Proof. destruct l; [reflexivity|]. unfold vlen. cbn [length]. lia. Qed.

Lemma erase_nonempty_ok nv a idx : sorted_lt idx -> nv < 65536 -> attr_ok nv a = true ->
  erase_nonempty a idx = Ok (erase_spec a idx).
Proof.
  intros Hs Hnv Ha. unfold erase_nonempty. destruct a as [|x a]; [reflexivity|].
  cbn [isnil]. apply erase16_ok; [exact Hs|]. destruct (attr_ok_spec _ _ Ha) as [H|H]; lia.
Qed.

(* an attribute array stays either absent or one-per-vertex *)
Lemma attr_ok_erase {A} nv (v : list A) a idx : vlen v = nv -> attr_ok nv a = true ->
  attr_ok (vlen (erase_spec v idx)) (erase_spec a idx) = true.
Proof.
  intros Hv Ha. unfold attr_ok. destruct (attr_ok_spec _ _ Ha) as [H|H].
  - rewrite (vlen_0_nil _ H). reflexivity.
  - rewrite (erase_spec_vlen_eq a v idx) by lia. rewrite N.eqb_refl. apply orb_true_r.
Qed.

(* ---------------------------------------------------------------------------------------- *)
(* NiGeometryData::notifyVerticesDelete *)

Definition gd_base_wf (g : gdata) : bool :=
  let nv := vlen (gd_verts g) in
  (gd_nv g =? nv) && (nv <? 65536)
  && attr_ok nv (gd_norms g) && attr_ok nv (gd_tans g) && attr_ok nv (gd_bitans g)
  && attr_ok nv (gd_colors g) && forallb (attr_ok nv) (gd_uvsets g).

Lemma gd_wf_base g : gd_wf g = true -> gd_base_wf g = true.
Proof. unfold gd_wf, gd_base_wf. intros H. apply andb_prop in H. tauto. Qed.

Lemma gd_base_delete_ok g idx : sorted_lt idx -> gd_base_wf g = true ->
  gd_base_delete g idx = Ok (gd_base_spec g idx).
Proof.
  intros Hs Hwf. unfold gd_base_wf in Hwf.
  repeat (apply andb_prop in Hwf; destruct Hwf as [Hwf ?]).
  apply N.ltb_lt in H4.
  unfold gd_base_delete, gd_base_spec.
  rewrite erase16_ok by assumption. cbn [bind].
  rewrite !(erase_nonempty_ok (vlen (gd_verts g))) by assumption. cbn [bind].
  rewrite (mapM_ok _ (fun uv => erase_spec uv idx)).
  - cbn [bind]. rewrite wrap16_small; [reflexivity|].
    pose proof (erase_spec_le (gd_verts g) idx). lia.
  - rewrite forallb_forall in H. apply Forall_forall. intros uv Huv.
    apply erase16_ok; [exact Hs|]. destruct (attr_ok_spec _ _ (H uv Huv)); lia.
Qed.

Lemma gd_base_spec_wf g idx : gd_base_wf g = true -> gd_base_wf (gd_base_spec g idx) = true.
Proof.
  intros Hwf. unfold gd_base_wf in *.
  repeat (apply andb_prop in Hwf; destruct Hwf as [Hwf ?]).
  apply N.ltb_lt in H4.
  unfold gd_base_spec. cbn [gd_nv gd_verts gd_norms gd_tans gd_bitans gd_colors gd_uvsets].
  rewrite N.eqb_refl.
  pose proof (erase_spec_le (gd_verts g) idx) as Hle.
  destruct (N.ltb_spec (vlen (erase_spec (gd_verts g) idx)) 65536); [|lia].
  rewrite !(attr_ok_erase (vlen (gd_verts g))) by (reflexivity || assumption).
  cbn [andb]. rewrite forallb_forall. intros uv Huv. apply in_map_iff in Huv.
  destruct Huv as (uv0 & <- & Huv0). rewrite forallb_forall in H.
  apply (attr_ok_erase (vlen (gd_verts g))); [reflexivity|]. apply H. exact Huv0.
Qed.

(* ---------------------------------------------------------------------------------------- *)
(* NiTriShapeData::notifyVerticesDelete *)

Lemma collapse_sz_ok idx n : sorted_lt idx -> n < 2147483648 ->
  collapse_sz idx n = Ok (collapse_spec idx n).
Proof.
  intros Hs Hn. unfold collapse_sz. apply collapse_correct; [exact Hs| |rewrite pow31; exact Hn].
  rewrite pow64. lia.
Qed.

Lemma collapse_u16_ok idx n : sorted_lt idx -> n < 65536 ->
  collapse_u16 idx n = Ok (collapse_spec idx n).
Proof.
  intros Hs Hn. unfold collapse_u16. apply collapse_correct; [exact Hs| |rewrite pow31; lia].
  rewrite pow16. exact Hn.
Qed.

Theorem gd_trishape_delete_ok g idx :
  sorted_lt idx -> gd_kind g = GKTriShape -> gd_wf g = true ->
  gd_delete g idx = Ok (gd_trishape_spec g idx).
Proof.
  intros Hs Hk Hwf. pose proof (gd_wf_base g Hwf) as Hb.
  unfold gd_wf in Hwf. rewrite Hk in Hwf.
  apply andb_prop in Hwf. destruct Hwf as [Hwf0 Hwf].
  repeat (apply andb_prop in Hwf; destruct Hwf as [Hwf ?]).
  assert (Hnv : vlen (gd_verts g) < 65536).
  { unfold gd_base_wf in Hb. repeat (apply andb_prop in Hb; destruct Hb as [Hb ?]). apply N.ltb_lt. assumption. }
  apply N.ltb_lt in H1. apply N.eqb_eq in Hwf, H0.
  unfold gd_delete. rewrite Hk. unfold gd_trishape_delete.
  rewrite collapse_sz_ok by (assumption || lia). cbn [bind].
  rewrite apply_map_tris_correct by (rewrite ?pow31; lia). cbn [bind].
  rewrite apply_map_spec_collapse by (assumption || lia). cbn [fst].
  pose proof (tris_spec_length idx (gd_tris g)) as Hl.
  rewrite gd_base_delete_ok; [|exact Hs|exact Hb].
  unfold gd_trishape_spec, gd_base_spec. cbn -[N.mul].
  rewrite wrap16_small by (unfold vlen in *; lia).
  rewrite wrap32_small by (unfold vlen in *; lia). reflexivity.
Qed.

Theorem gd_trishape_spec_wf g idx :
  gd_kind g = GKTriShape -> gd_wf g = true -> gd_wf (gd_trishape_spec g idx) = true.
Proof.
  intros Hk Hwf. pose proof (gd_wf_base g Hwf) as Hb.
  pose proof (gd_base_spec_wf g idx Hb) as Hb'.
  unfold gd_wf in Hwf. rewrite Hk in Hwf.
  apply andb_prop in Hwf. destruct Hwf as [Hwf0 Hwf].
  repeat (apply andb_prop in Hwf; destruct Hwf as [Hwf ?]).
  apply N.ltb_lt in H1.
  unfold gd_wf. unfold gd_base_wf in Hb'.
  unfold gd_trishape_spec. unfold gd_base_spec in *.
  cbn [gd_kind gd_nv gd_verts gd_norms gd_tans gd_bitans gd_colors gd_uvsets gd_nt gd_ntp gd_tris] in *.
  rewrite Hb'. rewrite Hk. cbn [andb].
  rewrite !N.eqb_refl. cbn [andb].
  pose proof (tris_spec_length idx (gd_tris g)) as Hl.
  destruct (N.ltb_spec (vlen (tris_spec idx (gd_tris g))) 65536); [|unfold vlen in *; lia].
  cbn [andb]. rewrite erase_spec_vlen. apply tris_spec_lt. exact H.
Qed.

(* ---------------------------------------------------------------------------------------- *)
(* NiLinesData / plain NiGeometryData *)

Theorem gd_lines_delete_ok g idx :
  sorted_lt idx -> gd_kind g = GKLines -> gd_wf g = true ->
  gd_delete g idx = Ok (gd_lines_spec g idx).
Proof.
  intros Hs Hk Hwf. pose proof (gd_wf_base g Hwf) as Hb.
  unfold gd_wf in Hwf. rewrite Hk in Hwf.
  apply andb_prop in Hwf. destruct Hwf as [Hwf0 Hwf]. apply N.eqb_eq in Hwf.
  assert (Hnv : vlen (gd_verts g) < 65536).
  { unfold gd_base_wf in Hb. repeat (apply andb_prop in Hb; destruct Hb as [Hb ?]). apply N.ltb_lt. assumption. }
  unfold gd_delete. rewrite Hk. unfold gd_lines_delete.
  rewrite gd_base_delete_ok by assumption. cbn [bind].
  unfold gd_lines_spec. cbn [gd_base_spec gd_lflags].
  rewrite erase16_ok by (assumption || lia). reflexivity.
Qed.

Theorem gd_base_kind_delete_ok g idx :
  sorted_lt idx -> gd_kind g = GKBase -> gd_wf g = true ->
  gd_delete g idx = Ok (gd_base_spec g idx).
Proof.
  intros Hs Hk Hwf. unfold gd_delete. rewrite Hk. apply gd_base_delete_ok; [exact Hs|].
  apply gd_wf_base. exact Hwf.
Qed.

(* ---------------------------------------------------------------------------------------- *)
(* BSTriShape::notifyVerticesDelete and the Dynamic / MeshLOD overrides *)

Theorem bs_base_delete_ok b idx : sorted_lt idx -> bs_core_wf b = true ->
  bs_base_delete b idx = Ok (bs_base_spec b idx).
Proof.
  intros Hs Hwf. unfold bs_core_wf in Hwf.
  repeat (apply andb_prop in Hwf; destruct Hwf as [Hwf ?]).
  apply N.ltb_lt in H1, H3.
  unfold bs_base_delete, bs_base_spec.
  rewrite collapse_sz_ok by (assumption || lia). cbn [bind].
  rewrite erase16_ok by assumption. cbn [bind].
  rewrite apply_map_tris_correct by (rewrite ?pow31, ?pow32; lia). cbn [bind].
  rewrite apply_map_spec_collapse by (assumption || lia). cbn [fst snd].
  rewrite sort_desc_sorted by apply del_pos_from_sorted.
  pose proof (erase_spec_le (bs_vdata b) idx).
  pose proof (tris_spec_length idx (bs_tris b)).
  rewrite wrap16_small by lia. rewrite wrap32_small by (unfold vlen in *; lia). reflexivity.
Qed.

Lemma bs_base_spec_wf b idx : bs_core_wf b = true ->
  bs_kind b <> BSDynamic -> bs_core_wf (bs_base_spec b idx) = true.
Proof.
  intros Hwf Hk. unfold bs_core_wf in *.
  repeat (apply andb_prop in Hwf; destruct Hwf as [Hwf ?]).
  apply N.ltb_lt in H1, H3.
  unfold bs_base_spec. cbn [bs_nv bs_vdata bs_nt bs_tris bs_kind bs_dyn].
  rewrite !N.eqb_refl.
  pose proof (erase_spec_le (bs_vdata b) idx).
  pose proof (tris_spec_length idx (bs_tris b)).
  destruct (N.ltb_spec (vlen (erase_spec (bs_vdata b) idx)) 65536); [|lia].
  destruct (N.ltb_spec (vlen (tris_spec idx (bs_tris b))) 2147483648); [|unfold vlen in *; lia].
  cbn [andb]. rewrite erase_spec_vlen. rewrite tris_spec_lt by assumption.
  destruct (bs_kind b); try reflexivity. congruence.
Qed.

Definition bs_dyn_spec (b : bsshape) (idx : list N) : bsshape :=
  let dd := erase_spec (bs_dyn b) idx in bs_set_dyn (bs_base_spec b idx) dd (16 * vlen dd).
Definition bs_lod_spec (b : bsshape) (idx : list N) : bsshape :=
  let b1 := bs_base_spec b idx in bs_set_lod b1 0 0 (bs_nt b1).

Theorem bs_plain_delete_ok b idx : sorted_lt idx -> bs_kind b = BSPlain -> bs_core_wf b = true ->
  bs_delete b idx = Ok (bs_base_spec b idx).
Proof.
  intros Hs Hk Hwf. unfold bs_delete. rewrite bs_base_delete_ok by assumption. cbn [bind].
  unfold bs_base_spec at 1. cbn [bs_kind]. rewrite Hk. reflexivity.
Qed.

Theorem bs_dyn_delete_ok b idx : sorted_lt idx -> bs_kind b = BSDynamic -> bs_core_wf b = true ->
  bs_delete b idx = Ok (bs_dyn_spec b idx).
Proof.
  intros Hs Hk Hwf. unfold bs_delete. rewrite bs_base_delete_ok by assumption. cbn [bind].
  unfold bs_core_wf in Hwf. rewrite Hk in Hwf.
  repeat (apply andb_prop in Hwf; destruct Hwf as [Hwf ?]).
  apply N.ltb_lt in H3. apply N.eqb_eq in H.
  unfold bs_base_spec at 1. cbn [bs_kind]. rewrite Hk.
  unfold bs_base_spec at 1. cbn [bs_dyn].
  rewrite erase_correct by (rewrite ?pow16; assumption || lia). cbn [bind].
  pose proof (erase_spec_le (bs_dyn b) idx).
  rewrite (wrap32_small (vlen (erase_spec (bs_dyn b) idx))) by lia. rewrite wrap32_small by lia.
  rewrite N.mul_comm. reflexivity.
Qed.

Theorem bs_lod_delete_ok b idx : sorted_lt idx -> bs_kind b = BSMeshLOD -> bs_core_wf b = true ->
  bs_delete b idx = Ok (bs_lod_spec b idx).
Proof.
  intros Hs Hk Hwf. unfold bs_delete. rewrite bs_base_delete_ok by assumption. cbn [bind].
  unfold bs_base_spec at 1. cbn [bs_kind]. rewrite Hk. reflexivity.
Qed.

Lemma bs_dyn_spec_wf b idx : bs_kind b = BSDynamic -> bs_core_wf b = true ->
  bs_core_wf (bs_dyn_spec b idx) = true.
Proof.
  intros Hk Hwf. unfold bs_core_wf in *. rewrite Hk in Hwf.
  repeat (apply andb_prop in Hwf; destruct Hwf as [Hwf ?]).
  apply N.ltb_lt in H1, H3. apply N.eqb_eq in H.
  unfold bs_dyn_spec, bs_set_dyn, bs_base_spec. cbn [bs_nv bs_vdata bs_nt bs_tris bs_kind bs_dyn].
  rewrite !N.eqb_refl.
  pose proof (erase_spec_le (bs_vdata b) idx).
  pose proof (tris_spec_length idx (bs_tris b)).
  destruct (N.ltb_spec (vlen (erase_spec (bs_vdata b) idx)) 65536); [|lia].
  destruct (N.ltb_spec (vlen (tris_spec idx (bs_tris b))) 2147483648); [|unfold vlen in *; lia].
  cbn [andb]. rewrite erase_spec_vlen at 1. rewrite tris_spec_lt by assumption.
  rewrite Hk. cbn [andb]. apply N.eqb_eq. apply erase_spec_vlen_eq. exact H.
Qed.
