(* Deleting twice equals deleting once the union of the first list and the second list translated
   back to the original numbering. *)
From NiflyVerif Require Import Res UtilModel UtilSpec CompactProofs EraseProofs FillProofs
  GeomModel GeomBase GeomSpec GeomProofs.
From Coq Require Import ZifyBool ZifyNat ZifyN Sorted.
Local Open Scope N_scope.

(* positions of the original numbering that are gone after deleting idx1 and then idx2 (given in
   the numbering after the first deletion) *)
Definition gone2 (idx1 idx2 : list N) (p : N) : bool := memN p idx1 || memN (rank idx1 p) idx2.
Definition union2 (idx1 idx2 : list N) (n : N) : list N := filter (gone2 idx1 idx2) (nseq n).

Lemma nseq_in n p : In p (nseq n) <-> p < n.
Proof.
  unfold nseq. rewrite in_map_iff. split.
  - intros (k & <- & Hk). apply in_seq in Hk. lia.
  - intros H. exists (N.to_nat p). split; [lia|]. apply in_seq. lia.
Qed.

Lemma memN_union2 idx1 idx2 n p : p < n -> memN p (union2 idx1 idx2 n) = gone2 idx1 idx2 p.
Proof.
  intros Hp. destruct (gone2 idx1 idx2 p) eqn:Hg.
  - apply memN_true_iff. apply filter_In. split; [apply nseq_in; exact Hp|exact Hg].
  - apply memN_false_iff. apply Forall_forall. intros k Hk ->. apply filter_In in Hk. destruct Hk as [_ Hk]. congruence.
Qed.

Lemma seq_sorted : forall len start, StronglySorted N.lt (map N.of_nat (seq start len)).
Proof.
  induction len as [|len IH]; intros start; cbn [seq map]; [constructor|].
  constructor; [apply IH|]. apply Forall_forall. intros x Hx. apply in_map_iff in Hx.
  destruct Hx as (k & <- & Hk). apply in_seq in Hk. lia.
Qed.

Lemma filter_sorted (f : N -> bool) l : StronglySorted N.lt l -> StronglySorted N.lt (filter f l).
Proof.
  induction 1 as [|x l Hs IH Hall]; [constructor|]. cbn [filter]. destruct (f x); [|exact IH].
  constructor; [exact IH|]. apply Forall_forall. intros y Hy. apply filter_In in Hy. destruct Hy as [Hy _].
  rewrite Forall_forall in Hall. apply Hall. exact Hy.
Qed.

Lemma union2_sorted idx1 idx2 n : sorted_lt (union2 idx1 idx2 n).
Proof. unfold union2, sorted_lt, nseq. apply filter_sorted. apply seq_sorted. Qed.

Lemma union2_lt idx1 idx2 n : Forall (fun k => k < n) (union2 idx1 idx2 n).
Proof.
  apply Forall_forall. intros k Hk. unfold union2 in Hk. apply filter_In in Hk. destruct Hk as [Hk _].
  apply nseq_in. exact Hk.
Qed.

(* erasing by a predicate on positions *)
Fixpoint erase_by {A} (d : N -> bool) (pos : N) (v : list A) : list A :=
  match v with
  | [] => []
  | x :: r => if d pos then erase_by d (pos + 1) r else x :: erase_by d (pos + 1) r
  end.

Lemma erase_from_by {A} (v : list A) : forall pos idx (d : N -> bool),
  (forall i, pos <= i < pos + vlen v -> memN i idx = d i) -> erase_from pos v idx = erase_by d pos v.
Proof.
  induction v as [|x r IH]; intros pos idx d H; [reflexivity|]. cbn [erase_from erase_by].
  assert (Hl : vlen (x :: r) = vlen r + 1) by (unfold vlen; cbn [length]; lia).
  rewrite (H pos) by lia. rewrite (IH (pos + 1) idx d) by (intros i Hi; apply H; lia). reflexivity.
Qed.

Lemma erase_twice_by {A} idx1 idx2 : forall (v : list A) p,
  erase_from (rank idx1 p) (erase_from p v idx1) idx2 = erase_by (gone2 idx1 idx2) p v.
Proof.
  induction v as [|x r IH]; intros p; [reflexivity|]. cbn [erase_from erase_by]. unfold gone2 at 1.
  destruct (memN p idx1) eqn:Hm; cbn [orb].
  - rewrite <- IH. rewrite rank_succ, Hm, N.add_0_r. reflexivity.
  - cbn [erase_from]. destruct (memN (rank idx1 p) idx2) eqn:Hm2.
    + rewrite <- IH. rewrite (rank_succ idx1 p), Hm. reflexivity.
    + f_equal. rewrite <- IH. rewrite (rank_succ idx1 p), Hm. reflexivity.
Qed.

Theorem erase_spec_twice {A} (v : list A) idx1 idx2 :
  erase_spec (erase_spec v idx1) idx2 = erase_spec v (union2 idx1 idx2 (vlen v)).
Proof.
  unfold erase_spec. pose proof (erase_twice_by idx1 idx2 v 0) as H. rewrite rank_0 in H. rewrite H.
  symmetry. apply erase_from_by. intros i Hi. apply memN_union2. lia.
Qed.

(* the same union works for every array of that length or shorter *)
Theorem erase_spec_twice_n {A} (v : list A) idx1 idx2 n : vlen v <= n ->
  erase_spec (erase_spec v idx1) idx2 = erase_spec v (union2 idx1 idx2 n).
Proof.
  intros Hn. unfold erase_spec. pose proof (erase_twice_by idx1 idx2 v 0) as H. rewrite rank_0 in H. rewrite H.
  symmetry. apply erase_from_by. intros i Hi. apply memN_union2. lia.
Qed.

Theorem rank_twice idx1 idx2 n p : p <= n -> rank idx2 (rank idx1 p) = rank (union2 idx1 idx2 n) p.
Proof.
  induction p as [|p IH] using N.peano_ind; intros Hp; [reflexivity|].
  replace (N.succ p) with (p + 1) by lia. rewrite (rank_succ (union2 idx1 idx2 n)), memN_union2 by lia.
  rewrite <- IH by lia. unfold gone2. rewrite (rank_succ idx1 p).
  destruct (memN p idx1); cbn [orb]; [rewrite !N.add_0_r; reflexivity|].
  rewrite (rank_succ idx2). reflexivity.
Qed.

Lemma tri_survives_twice idx1 idx2 n t : tri_lt n t = true ->
  tri_survives (union2 idx1 idx2 n) t =
  tri_survives idx1 t && tri_survives idx2 (remap_tri idx1 t).
Proof.
  destruct t as [[a b] c]. unfold tri_lt. intros H.
  repeat (apply andb_prop in H; destruct H as [H ?]). apply N.ltb_lt in H, H0, H1.
  unfold tri_survives, survives, remap_tri. rewrite !memN_union2 by assumption. unfold gone2.
  destruct (memN a idx1), (memN b idx1), (memN c idx1),
           (memN (rank idx1 a) idx2), (memN (rank idx1 b) idx2), (memN (rank idx1 c) idx2); reflexivity.
Qed.

Theorem tris_spec_twice idx1 idx2 n tris : forallb (tri_lt n) tris = true ->
  tris_spec idx2 (tris_spec idx1 tris) = tris_spec (union2 idx1 idx2 n) tris.
Proof.
  unfold tris_spec. induction tris as [|t tris IH]; intros Hall; [reflexivity|].
  cbn [forallb] in Hall. apply andb_prop in Hall. destruct Hall as [Ht Hall]. specialize (IH Hall).
  cbn [filter]. rewrite (tri_survives_twice idx1 idx2 n t Ht).
  destruct (tri_survives idx1 t) eqn:H1; cbn [andb map filter]; [|exact IH].
  destruct (tri_survives idx2 (remap_tri idx1 t)) eqn:H2; cbn [map]; [|exact IH].
  f_equal; [|exact IH].
  destruct t as [[a b] c]. unfold tri_lt in Ht.
  repeat (apply andb_prop in Ht; destruct Ht as [Ht ?]). apply N.ltb_lt in Ht, H, H0.
  cbn [remap_tri]. rewrite !(rank_twice idx1 idx2 n) by lia. reflexivity.
Qed.

(* ---------------------------------------------------------------------------------------- *)
(* the geometry blocks *)

Theorem gd_trishape_spec_twice g idx1 idx2 : gd_kind g = GKTriShape -> gd_wf g = true ->
  gd_trishape_spec (gd_trishape_spec g idx1) idx2 = gd_trishape_spec g (union2 idx1 idx2 (vlen (gd_verts g))).
Proof.
  intros Hk Hwf. pose proof (gd_wf_base g Hwf) as Hb.
  unfold gd_wf in Hwf. rewrite Hk in Hwf.
  apply andb_prop in Hwf. destruct Hwf as [_ Hwf]. repeat (apply andb_prop in Hwf; destruct Hwf as [Hwf ?]).
  unfold gd_base_wf in Hb. repeat (apply andb_prop in Hb; destruct Hb as [Hb ?]).
  set (n := vlen (gd_verts g)) in *.
  assert (Hattr : forall a, attr_ok n a = true -> erase_spec (erase_spec a idx1) idx2 = erase_spec a (union2 idx1 idx2 n)).
  { intros a Ha. apply erase_spec_twice_n. destruct (attr_ok_spec _ _ Ha); lia. }
  unfold gd_trishape_spec, gd_base_spec.
  cbn [gd_kind gd_nv gd_verts gd_norms gd_tans gd_bitans gd_colors gd_uvsets gd_nt gd_ntp gd_tris gd_slens gd_points gd_lflags].
  rewrite (tris_spec_twice idx1 idx2 n) by assumption.
  rewrite (erase_spec_twice_n (gd_verts g) idx1 idx2 n) by (unfold n; lia).
  rewrite !Hattr by assumption.
  f_equal. rewrite map_map. apply map_ext_in. intros uv Huv. apply Hattr.
  rewrite forallb_forall in H2. apply H2. exact Huv.
Qed.

Theorem bs_base_spec_twice b idx1 idx2 : bs_core_wf b = true ->
  let u := union2 idx1 idx2 (vlen (bs_vdata b)) in
  bs_vdata (bs_base_spec (bs_base_spec b idx1) idx2) = bs_vdata (bs_base_spec b u) /\
  bs_tris (bs_base_spec (bs_base_spec b idx1) idx2) = bs_tris (bs_base_spec b u) /\
  bs_nv (bs_base_spec (bs_base_spec b idx1) idx2) = bs_nv (bs_base_spec b u) /\
  bs_nt (bs_base_spec (bs_base_spec b idx1) idx2) = bs_nt (bs_base_spec b u).
Proof.
  intros Hwf u. unfold bs_core_wf in Hwf. repeat (apply andb_prop in Hwf; destruct Hwf as [Hwf ?]).
  unfold bs_base_spec. cbn [bs_vdata bs_tris bs_nv bs_nt]. unfold u.
  rewrite (tris_spec_twice idx1 idx2 (vlen (bs_vdata b))) by assumption.
  rewrite (erase_spec_twice (bs_vdata b) idx1 idx2). auto.
Qed.

Lemma survives_union2 idx1 idx2 n i : i < n ->
  survives (union2 idx1 idx2 n) i = survives idx1 i && survives idx2 (rank idx1 i).
Proof.
  intros Hi. unfold survives. rewrite memN_union2 by exact Hi. unfold gone2.
  destruct (memN i idx1), (memN (rank idx1 i) idx2); reflexivity.
Qed.

(* NiSkinData weights *)
Theorem weights_spec_twice idx1 idx2 n ws : forallb (fun x => fst x <? n) ws = true ->
  weights_spec idx2 (weights_spec idx1 ws) = weights_spec (union2 idx1 idx2 n) ws.
Proof.
  unfold weights_spec. induction ws as [|[i w] ws IH]; intros Hall; [reflexivity|].
  cbn [forallb fst] in Hall. apply andb_prop in Hall. destruct Hall as [Hi Hall]. apply N.ltb_lt in Hi.
  specialize (IH Hall). cbn [filter fst]. rewrite (survives_union2 idx1 idx2 n i Hi).
  destruct (survives idx1 i) eqn:H1; cbn [andb map filter fst snd]; [|exact IH].
  destruct (survives idx2 (rank idx1 i)) eqn:H2; cbn [map fst snd]; [|exact IH].
  f_equal; [|exact IH]. rewrite (rank_twice idx1 idx2 n) by lia. reflexivity.
Qed.
