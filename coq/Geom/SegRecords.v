(* The data SetSegmentation / GetSegmentation carry besides the ids: per sub-segment the
   userSlotID and the (material, extraData) token, through subSegmentData.dataRecords, and the
   ssf file name. Theorems about the existing model (SegModel.v):
     SetSegmentation (Geometry.cpp:1482-1509) stores, per segment, one record for the segment itself
       and one per sub-segment with  userSlotID = (sub.userSlotID < 30 ? subSegmentNumber++ :
       sub.userSlotID), material/extraData copied;
     GetSegmentation (Geometry.cpp:1404-1411) reads, per sub-segment, the record at ++arrayIndex:
       userSlotID = (rec.userSlotID < 30 ? 0 : rec.userSlotID), material/extraData copied. *)
From NiflyVerif Require Import Res UtilModel GeomModel SegModel GeomBase SegSort SegProofs.
From Coq Require Import ZifyBool ZifyNat ZifyN.
Local Open Scope N_scope.

(* what the API carries per sub-segment besides its id *)
Definition sub_data (u : subinfo) : N * tok := (si_slot u, si_data u).
Definition inf_data (segs : list seginfo) : list (list (N * tok)) :=
  map (fun s => map sub_data (gi_subs s)) segs.

(* GetSegmentation's reading of one record *)
Definition rec_read (rc : segrec) : N * tok :=
  (if sr_slot rc <? 30 then 0 else sr_slot rc, sr_data rc).

(* the documented normalisation: user slots below 30 are sub-segment numbers, reported as 0 *)
Definition slot_norm (d : N * tok) : N * tok := (if fst d <? 30 then 0 else fst d, snd d).

(* sub-segments of one segment whose slot is below 30 (they are numbered 1, 2, ... when stored) *)
Definition low_count (subs : list subinfo) : N := vlen (filter (fun u => si_slot u <? 30) subs).

(* ---------------------------------------------------------------- list helpers *)
Lemma skipn_skipn' {A} (a b : nat) (l : list A) : skipn a (skipn b l) = skipn (b + a) l.
Proof.
  revert l. induction b as [|b IH]; intros l; [reflexivity|].
  destruct l as [|x r]; [rewrite !skipn_nil; reflexivity|]. cbn [skipn plus]. apply IH.
Qed.

Lemma skipn_nth_error {A} (n : nat) (l : list A) x : nth_error l n = Some x -> skipn n l = x :: skipn (S n) l.
Proof.
  revert l. induction n as [|n IH]; intros [|y r] H; cbn in H; try discriminate.
  - injection H as ->. reflexivity.
  - cbn [skipn]. apply IH. exact H.
Qed.

(* ---------------------------------------------------------------- GetSegmentation: which
   records it reads, whatever the tables and labels are *)
Lemma get_subs_data : forall subs recs nt lbl pid ai sis lbl2 pid2 ai2,
  get_subs subs recs nt lbl pid ai = Ok (sis, lbl2, pid2, ai2) ->
  map sub_data sis = map rec_read (firstn (length subs) (skipn (S (N.to_nat ai)) recs)) /\
  ai2 = ai + vlen subs.
Proof.
  induction subs as [|s r IH]; intros recs nt lbl pid ai sis lbl2 pid2 ai2 H; cbn [get_subs] in H; cbv zeta in H.
  - injection H as <- _ _ <-. split; [reflexivity|]. unfold vlen. cbn [length]. lia.
  - destruct (vget recs (ai + 1)) as [rc|] eqn:Er; [|discriminate].
    match type of H with bind ?X _ = _ => destruct X as [[[[sis' l2] p2] a2]| |] eqn:Erun end;
      cbn [bind] in H; try discriminate.
    injection H as <- _ _ <-.
    destruct (IH _ _ _ _ _ _ _ _ _ Erun) as [Hd Ha].
    split.
    + cbn [map length firstn]. unfold vget in Er.
      replace (N.to_nat (ai + 1)) with (S (N.to_nat ai)) in * by lia.
      rewrite (skipn_nth_error _ _ _ Er). cbn [firstn map]. f_equal. exact Hd.
    + rewrite Ha. unfold vlen. cbn [length]. lia.
Qed.

(* the records a run over segments with these sub-segment counts reads: per segment, skip the
   segment's own record, read one record per sub-segment *)
Fixpoint read_data (lens : list nat) (recs : list segrec) : list (list (N * tok)) :=
  match lens with
  | [] => []
  | n :: r => map rec_read (firstn n (skipn 1 recs)) :: read_data r (skipn (S n) recs)
  end.

Lemma get_segs_data : forall segs recs nt lbl pid ai infs lbl2,
  get_segs segs recs nt lbl pid ai = Ok (infs, lbl2) ->
  inf_data infs = read_data (map (fun s => length (sg_subs s)) segs) (skipn (N.to_nat ai) recs).
Proof.
  induction segs as [|s r IH]; intros recs nt lbl pid ai infs lbl2 H; cbn [get_segs] in H; cbv zeta in H.
  - injection H as <- _. reflexivity.
  - match type of H with bind ?X _ = _ => destruct X as [[[[sis l2] p2] a2]| |] eqn:Esub end;
      cbn [bind] in H; try discriminate.
    match type of H with bind ?X _ = _ => destruct X as [[infs' l3]| |] eqn:Erun end;
      cbn [bind fst snd] in H; try discriminate.
    injection H as <- _.
    destruct (get_subs_data _ _ _ _ _ _ _ _ _ _ Esub) as [Hd Ha].
    cbn [map read_data]. unfold inf_data. cbn [map gi_subs]. f_equal.
    + rewrite Hd, skipn_skipn'. replace (N.to_nat ai + 1)%nat with (S (N.to_nat ai)) by lia. reflexivity.
    + fold (inf_data infs'). rewrite (IH _ _ _ _ _ _ _ Erun). rewrite skipn_skipn'. f_equal. f_equal.
      subst a2. unfold vlen. lia.
Qed.

(* ---------------------------------------------------------------- what SetSegmentation's record
   list gives back when it is read that way *)
Lemma read_data_recs_spec : forall segs segidx,
  read_data (map (fun s => length (gi_subs s)) segs) (recs_spec segs segidx) =
  map (fun s => map rec_read (subrecs (gi_subs s) 1)) segs.
Proof.
  induction segs as [|s r IH]; intros segidx; [reflexivity|].
  cbn [map read_data recs_spec]. f_equal.
  - cbn [app skipn]. rewrite firstn_app, subrecs_length, Nat.sub_diag. cbn [firstn].
    rewrite app_nil_r. rewrite <- (subrecs_length (gi_subs s) 1) at 1. rewrite firstn_all. reflexivity.
  - cbn [app skipn]. rewrite skipn_app, subrecs_length, Nat.sub_diag. cbn [skipn].
    rewrite <- (subrecs_length (gi_subs s) 1) at 1. rewrite skipn_all. cbn [app]. apply IH.
Qed.

Lemma segs_spec_lens cnt : forall segs pid,
  map (fun s => length (sg_subs s)) (segs_spec cnt segs pid) = map (fun s => length (gi_subs s)) segs.
Proof.
  induction segs as [|s r IH]; intros pid; [reflexivity|].
  cbn [segs_spec map sg_subs]. rewrite subs_spec_length, IH. reflexivity.
Qed.

(* the sub-segment numbers stay below 30 as long as fewer than 30 of them are handed out *)
Lemma subrecs_read : forall subs subno, subno + low_count subs <= 30 ->
  map rec_read (subrecs subs subno) = map (fun u => slot_norm (sub_data u)) subs.
Proof.
  unfold low_count, vlen.
  induction subs as [|s r IH]; intros subno H; [reflexivity|].
  cbn [subrecs map filter] in *. unfold rec_read at 1, slot_norm at 1, sub_data at 1.
  cbn [sr_slot sr_data fst snd].
  destruct (N.ltb_spec (si_slot s) 30) as [Hlow|Hhigh]; cbn [length] in H.
  - destruct (N.ltb_spec subno 30); [|lia]. f_equal. apply IH. lia.
  - destruct (N.ltb_spec (si_slot s) 30); [lia|]. f_equal. apply IH. lia.
Qed.

(* the ssf name is stored as given (any run that gets past the size test) *)
Lemma set_segmentation_ssf b inf labels b' :
  vlen labels = bs_nt b -> set_segmentation b inf labels = Ok b' -> sn_ssf (bs_segn b') = inf_ssf inf.
Proof.
  unfold set_segmentation. intros Hl. rewrite Hl, N.eqb_refl. cbn [negb].
  destruct (o2n_segs (inf_segs inf) [] 0%Z) as [[o2n newid]| |]; cbn [bind]; try discriminate.
  destruct (mapM (new_label o2n) labels) as [keys| |]; cbn [bind]; try discriminate.
  match goal with |- bind ?X _ = _ -> _ => destruct X as [skeys| |] end; cbn [bind]; try discriminate.
  match goal with |- bind ?X _ = _ -> _ => destruct X as [s1| |] end; cbn [bind]; try discriminate.
  match goal with |- bind ?X _ = _ -> _ => destruct X as [pti| |] end; cbn [bind]; try discriminate.
  match goal with |- bind ?X _ = _ -> _ => destruct X as [[[[[sgs ais] recs] parent] segidx]| |] end;
    cbn [bind]; try discriminate.
  intros H. injection H as <-. reflexivity.
Qed.

(* the size test: a label list that does not have one entry per triangle changes nothing *)
Theorem set_segmentation_size_mismatch b inf labels :
  vlen labels <> bs_nt b -> set_segmentation b inf labels = Ok b.
Proof.
  intros H. unfold set_segmentation. destruct (N.eqb_spec (vlen labels) (bs_nt b)); [contradiction|reflexivity].
Qed.

(* ---------------------------------------------------------------- the theorems *)
Section Records.
  Variable b : bsshape.
  Variable inf : seginf.
  Variable labels : list Z.
  Let ids := inf_ids (inf_segs inf).
  Let nt := bs_nt b.
  Hypothesis Hnd : NoDup ids.
  Hypothesis Hpos : Forall (fun i => (0 <= i)%Z) ids.
  Hypothesis Hval : valid_labels ids labels.
  Hypothesis Hne : labels <> [] -> inf_segs inf <> [].
  Hypothesis Hlab : vlen labels = nt.
  Hypothesis Htris : vlen (bs_tris b) = nt.
  Hypothesis Hnt : 3 * nt < 4294967296.
  Hypothesis Hsmall : (Z.of_nat (ids_total (inf_segs inf)) < 2147483648)%Z.

  (* ALL infos (any user slots): the records read back are the stored ones as GetSegmentation
     reads them, in order, segment by segment; the ssf name comes back unchanged *)
  Theorem set_get_records_general :
    exists b' inf' L, set_segmentation b inf labels = Ok b' /\ get_segmentation b' = Ok (inf', L) /\
      inf_data (inf_segs inf') = map (fun s => map rec_read (subrecs (gi_subs s) 1)) (inf_segs inf) /\
      inf_ssf inf' = inf_ssf inf.
  Proof.
    destruct (set_get_labels b inf labels Hnd Hpos Hval Hne Hlab Htris Hnt Hsmall)
      as (b' & Hset & _ & _ & _ & _ & _ & Hsegs & Hrecs & inf' & Hget & _).
    exists b', inf'. eexists. split; [exact Hset|]. split; [exact Hget|].
    pose proof (set_segmentation_ssf b inf labels b' Hlab Hset) as Hssf.
    unfold get_segmentation in Hget.
    match type of Hget with bind ?X _ = _ => destruct X as [[infs l2]| |] eqn:Erun end;
      cbn [bind fst snd] in Hget; try discriminate.
    injection Hget as <- _. cbn [inf_segs inf_ssf]. split; [|exact Hssf].
    rewrite (get_segs_data _ _ _ _ _ _ _ _ Erun). cbn [N.to_nat skipn].
    rewrite Hsegs, Hrecs, segs_spec_lens. apply read_data_recs_spec.
  Qed.

  (* the well-formedness the C++ needs: fewer than 30 sub-segments with a user slot below 30 in
     every segment (their numbers 1, 2, ... must stay below 30 to be told apart from real slots).
     Then every sub-segment's (userSlotID, material/extraData) comes back in order, the slot
     normalised as documented (below 30 -> 0, otherwise unchanged). *)
  Theorem set_get_records :
    Forall (fun s => low_count (gi_subs s) < 30) (inf_segs inf) ->
    exists b' inf' L, set_segmentation b inf labels = Ok b' /\ get_segmentation b' = Ok (inf', L) /\
      inf_data (inf_segs inf') = map (map slot_norm) (inf_data (inf_segs inf)) /\
      inf_ssf inf' = inf_ssf inf.
  Proof.
    intros Hlow. destruct set_get_records_general as (b' & inf' & L & Hset & Hget & Hd & Hssf).
    exists b', inf', L. split; [exact Hset|]. split; [exact Hget|]. split; [|exact Hssf].
    rewrite Hd. unfold inf_data. rewrite map_map. apply map_ext_in. intros s Hs.
    rewrite Forall_forall in Hlow. specialize (Hlow s Hs).
    rewrite subrecs_read by lia. rewrite map_map. reflexivity.
  Qed.

  (* ... and exactly equal when the slots handed in are already normal (0 or at least 30) *)
  Theorem set_get_records_exact :
    Forall (fun s => low_count (gi_subs s) < 30) (inf_segs inf) ->
    Forall (fun s => Forall (fun u => si_slot u = 0 \/ 30 <= si_slot u) (gi_subs s)) (inf_segs inf) ->
    exists b' inf' L, set_segmentation b inf labels = Ok b' /\ get_segmentation b' = Ok (inf', L) /\
      inf_data (inf_segs inf') = inf_data (inf_segs inf) /\ inf_ssf inf' = inf_ssf inf.
  Proof.
    intros Hlow Hnorm. destruct (set_get_records Hlow) as (b' & inf' & L & Hset & Hget & Hd & Hssf).
    exists b', inf', L. split; [exact Hset|]. split; [exact Hget|]. split; [|exact Hssf].
    rewrite Hd. unfold inf_data. rewrite map_map. apply map_ext_in. intros s Hs.
    rewrite Forall_forall in Hnorm. specialize (Hnorm s Hs).
    rewrite map_map. apply map_ext_in. intros u Hu. rewrite Forall_forall in Hnorm. specialize (Hnorm u Hu).
    unfold slot_norm, sub_data. cbn [fst snd]. destruct (N.ltb_spec (si_slot u) 30); [|reflexivity].
    destruct Hnorm as [->|]; [reflexivity|lia].
  Qed.
End Records.

(* ---------------------------------------------------------------- the ill-formed branch: a
   segment with 30 sub-segments whose user slots are all 0 (below 30). The 30th gets the number 30
   when stored, which GetSegmentation takes for a real slot: it reads 30 where 0 was set.
   (All other hypotheses of the theorem hold: distinct ids 0..30, one triangle labelled 0.) *)
Definition rec_w_subs : list subinfo := map (fun k => mkSubinfo (Z.of_nat k) 0 7) (seq 1 30).
Definition rec_w_inf : seginf := mkSeginf [mkSeginfo 0 rec_w_subs] 9.
Definition rec_w_shape : bsshape :=
  mkBs BSSubIndex 3 (nseq 3) 1 [(0, 1, 2)] [] [] 0 0 0 0 (mkSegmentation 0 0 0 [] 0 0 [] [] 0) 0 [].

Theorem set_get_records_refuted :
  exists b inf labels b' inf' L,
    NoDup (inf_ids (inf_segs inf)) /\ Forall (fun i => (0 <= i)%Z) (inf_ids (inf_segs inf)) /\
    valid_labels (inf_ids (inf_segs inf)) labels /\ vlen labels = bs_nt b /\ vlen (bs_tris b) = bs_nt b /\
    Forall (fun s => low_count (gi_subs s) = 30) (inf_segs inf) /\
    set_segmentation b inf labels = Ok b' /\ get_segmentation b' = Ok (inf', L) /\
    inf_data (inf_segs inf) = [repeat (0, 7) 30] /\
    inf_data (inf_segs inf') = [repeat (0, 7) 29 ++ [(30, 7)]].
Proof.
  exists rec_w_shape, rec_w_inf, [0%Z].
  eexists. eexists. eexists.
  split; [vm_compute; repeat (apply NoDup_cons; [cbn; intuition discriminate|]); apply NoDup_nil|].
  split; [vm_compute; repeat constructor; discriminate|].
  split; [repeat constructor; left; reflexivity|].
  split; [reflexivity|]. split; [reflexivity|].
  split; [repeat constructor|].
  split; [vm_compute; reflexivity|].
  split; [vm_compute; reflexivity|].
  split; vm_compute; reflexivity.
Qed.
