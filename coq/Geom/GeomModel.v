(* Geometry / skin layer, part 1: loop-faithful models of every notifyVerticesDelete override
   (src/Geometry.cpp, src/Skin.cpp) and of NifFile::DeleteVertsForShape (src/NifFile.cpp),
   built on the utility models of Util/UtilModel.v.

   Per-vertex payloads (positions, normals, colours, packed BSVertexData, weights, ...) are opaque
   tokens [tok]: the code only moves them. Every counter is kept next to the container it is
   supposed to describe, with its C width. Container accesses go through [vget]/[vset]. *)
From NiflyVerif Require Export Res UtilModel.
Local Open Scope N_scope.

Notation tok := N (only parsing).   (* opaque payload token *)
Definition wrap32 (x : N) : N := wrapN 32 x.
Definition dec16 (x : N) : N := if x =? 0 then 65535 else x - 1.          (* uint16_t --x *)
Definition dec32 (x : N) : N := if x =? 0 then 4294967295 else x - 1.     (* uint32_t --x *)
Definition isnil {A} (l : list A) : bool := match l with [] => true | _ => false end.

Fixpoint mapM {A B} (f : A -> res B) (l : list A) : res (list B) :=
  match l with
  | [] => Ok []
  | x :: r => bind (f x) (fun y => bind (mapM f r) (fun ys => Ok (y :: ys)))
  end.

(* v.erase(v.begin() + i), i < v.size() checked by the caller's vget *)
Definition erase_at {A} (i : N) (v : list A) : list A :=
  firstn (N.to_nat i) v ++ skipn (S (N.to_nat i)) v.

(* EraseVectorIndices<std::vector<T>, uint16_t> on token vectors *)
Definition erase16 (v : list tok) (idx : list N) : res (list tok) := erase_model 16 0 v idx.
(* GenerateIndexCollapseMap(vertIndices, v.size())  -- IndexType2 = size_t *)
Definition collapse_sz (idx : list N) (n : N) : res (list Z) := collapse_model 64 false idx n.
(* GenerateIndexCollapseMap(vertIndices, (uint16_t) mapSize) *)
Definition collapse_u16 (idx : list N) (n : N) : res (list Z) := collapse_model 16 false idx n.

(* A loop that walks a vector from its last element down to index 0 with an unsigned index that
   stops when it wraps ([stop] = the all-ones value), erasing or replacing the current element:
     for (i = n - 1; i != stop; i--) { x = v[i]; if (drop x) { v.erase(begin()+i); cnt--; } else v[i] = f x; }
   shared by NiSkinData::notifyVerticesDelete and the LOCKEDNORM loop of DeleteVertsForShape. *)
Section DownLoop.
  Context {A : Type}.
  Variable step : A -> res (option A).
  Variable dec : N -> N.
  Variable stop : N.
  Fixpoint down_loop (fuel : nat) (v : list A) (cnt : N) (i : N) : res (list A * N) :=
    match fuel with
    | O => OutOfFuel
    | S f =>
      if i =? stop then Ok (v, cnt)
      else
        match vget v i with
        | None => Fault
        | Some x =>
          bind (step x) (fun o =>
            match o with
            | None => down_loop f (erase_at i v) (dec cnt) (dec i)
            | Some y => match vset v i y with
                        | None => Fault
                        | Some v' => down_loop f v' cnt (dec i)
                        end
            end)
        end
    end.
End DownLoop.

(* ------------------------------------------------------------------------------------------ *)
(* NiGeometryData and its subclasses (one record; the kind selects the override)             *)

Inductive gkind := GKTriShape | GKTriStrips | GKLines | GKBase.

Record gdata := mkGdata {
  gd_kind : gkind;
  gd_nv : N;                       (* uint16_t numVertices *)
  gd_verts : list tok;
  gd_norms : list tok;
  gd_tans : list tok;
  gd_bitans : list tok;
  gd_colors : list tok;
  gd_uvsets : list (list tok);
  gd_nt : N;                       (* uint16_t numTriangles (NiTriBasedGeomData) *)
  gd_ntp : N;                      (* uint32_t numTrianglePoints (NiTriShapeData) *)
  gd_tris : list tri;              (* NiTriShapeData::triangles *)
  gd_slens : list N;               (* StripsInfo::stripLengths (uint16_t each) *)
  gd_points : list (list N);       (* StripsInfo::points *)
  gd_lflags : list tok             (* NiLinesData::lineFlags *)
}.

(* if (!v.empty()) EraseVectorIndices(v, idx); *)
Definition erase_nonempty (v : list tok) (idx : list N) : res (list tok) :=
  if isnil v then Ok v else erase16 v idx.

(* NiGeometryData::notifyVerticesDelete  (Geometry.cpp:242-255) *)
Definition gd_base_delete (g : gdata) (idx : list N) : res gdata :=
  bind (erase16 (gd_verts g) idx) (fun v' =>
  let nv' := wrap16 (vlen v') in
  bind (erase_nonempty (gd_norms g) idx) (fun n' =>
  bind (erase_nonempty (gd_tans g) idx) (fun t' =>
  bind (erase_nonempty (gd_bitans g) idx) (fun b' =>
  bind (erase_nonempty (gd_colors g) idx) (fun c' =>
  bind (mapM (fun uv => erase16 uv idx) (gd_uvsets g)) (fun uv' =>
  Ok (mkGdata (gd_kind g) nv' v' n' t' b' c' uv' (gd_nt g) (gd_ntp g) (gd_tris g)
              (gd_slens g) (gd_points g) (gd_lflags g)))))))).

(* NiTriShapeData::notifyVerticesDelete  (Geometry.cpp:1945-1952):
   ApplyMapToTriangles(triangles, indexCollapse) with IndexType2 = int *)
Definition gd_trishape_delete (g : gdata) (idx : list N) : res gdata :=
  bind (collapse_sz idx (vlen (gd_verts g))) (fun cm =>
  bind (apply_map_tris_model 31 true (gd_tris g) cm) (fun r =>
  let tris' := fst r in
  let nt' := wrap16 (vlen tris') in
  let ntp' := wrap32 (3 * nt') in
  gd_base_delete (mkGdata (gd_kind g) (gd_nv g) (gd_verts g) (gd_norms g) (gd_tans g) (gd_bitans g)
                          (gd_colors g) (gd_uvsets g) nt' ntp' tris' (gd_slens g) (gd_points g)
                          (gd_lflags g)) idx)).

(* the inner strip loop of NiTriStripsData::notifyVerticesDelete (Geometry.cpp:2114-2122):
     for (uint16_t j = 0; j < stripLengths[i]; j++)
       if (indexCollapse[points[i][j]] == -1) { points[i].erase(begin()+j); stripLengths[i]--; --j; }
       else points[i][j] = (uint16_t) indexCollapse[points[i][j]];                              *)
Fixpoint strip_del_loop (fuel : nat) (cm : list Z) (strip : list N) (len j : N) : res (list N * N) :=
  match fuel with
  | O => OutOfFuel
  | S f =>
    if j <? len then
      match vget strip j with
      | None => Fault
      | Some p =>
        match vget cm p with
        | None => Fault
        | Some m =>
          if Z.eqb m (-1) then strip_del_loop f cm (erase_at j strip) (dec16 len) j   (* --j; ++j *)
          else match vset strip j (wrap16Z m) with
               | None => Fault
               | Some strip' => strip_del_loop f cm strip' len (wrap16 (j + 1))
               end
        end
      end
    else Ok (strip, len)
  end.

(* the outer loop: for (uint16_t i = 0; i < stripLengths.size(); i++) *)
Fixpoint strips_del_loop (fuel : nat) (cm : list Z) (slens : list N) (points : list (list N)) (i : N)
  : res (list N * list (list N)) :=
  match fuel with
  | O => OutOfFuel
  | S f =>
    if i <? vlen slens then
      match vget slens i, vget points i with
      | Some len, Some strip =>
        bind (strip_del_loop (S (N.to_nat len)) cm strip len 0) (fun r =>
        match vset slens i (snd r), vset points i (fst r) with
        | Some slens', Some points' => strips_del_loop f cm slens' points' (wrap16 (i + 1))
        | _, _ => Fault
        end)
      | _, _ => Fault
      end
    else Ok (slens, points)
  end.

(* numTriangles = 0; for (auto len : stripLengths) if (len - 2 > 0) numTriangles += len - 2; *)
Definition strips_count (slens : list N) : N :=
  fold_left (fun acc len => if 2 <? len then wrap16 (acc + (len - 2)) else acc) slens 0.

(* NiTriStripsData::notifyVerticesDelete  (Geometry.cpp:2107-2129) *)
Definition gd_tristrips_delete (g : gdata) (idx : list N) : res gdata :=
  bind (collapse_sz idx (vlen (gd_verts g))) (fun cm =>
  bind (gd_base_delete g idx) (fun g1 =>
  bind (strips_del_loop (S (length (gd_slens g1))) cm (gd_slens g1) (gd_points g1) 0) (fun r =>
  Ok (mkGdata (gd_kind g1) (gd_nv g1) (gd_verts g1) (gd_norms g1) (gd_tans g1) (gd_bitans g1)
              (gd_colors g1) (gd_uvsets g1) (strips_count (fst r)) (gd_ntp g1) (gd_tris g1)
              (fst r) (snd r) (gd_lflags g1))))).

(* NiLinesData::notifyVerticesDelete  (Geometry.cpp:2263-2267) *)
Definition gd_lines_delete (g : gdata) (idx : list N) : res gdata :=
  bind (gd_base_delete g idx) (fun g1 =>
  bind (erase16 (gd_lflags g1) idx) (fun lf =>
  Ok (mkGdata (gd_kind g1) (gd_nv g1) (gd_verts g1) (gd_norms g1) (gd_tans g1) (gd_bitans g1)
              (gd_colors g1) (gd_uvsets g1) (gd_nt g1) (gd_ntp g1) (gd_tris g1)
              (gd_slens g1) (gd_points g1) lf))).

Definition gd_delete (g : gdata) (idx : list N) : res gdata :=
  match gd_kind g with
  | GKTriShape => gd_trishape_delete g idx
  | GKTriStrips => gd_tristrips_delete g idx
  | GKLines => gd_lines_delete g idx
  | GKBase => gd_base_delete g idx
  end.

(* GetNumTriangles(): NiTriShapeData returns the counter, NiTriStripsData the number of
   non-degenerate strip windows, the others 0 *)
Definition gd_num_triangles (g : gdata) : res N :=
  match gd_kind g with
  | GKTriShape => Ok (gd_nt g)
  | GKTriStrips => bind (strips_model (gd_points g)) (fun t => Ok (vlen t))
  | _ => Ok 0
  end.

(* ------------------------------------------------------------------------------------------ *)
(* BSTriShape and its subclasses                                                              *)

Record subseg := mkSubseg { ss_start : N; ss_num : N }.         (* uint32_t startIndex, numPrimitives *)
Record seg := mkSeg { sg_start : N; sg_num : N; sg_nsub : N; sg_subs : list subseg }.
Record ssegd := mkSsegd { sd_index : N; sd_num : N }.           (* BSGeometrySegmentData: index, numTris *)
(* BSSITSSubSegmentDataRecord: userSlotID and one token for (material, extraData) *)
Record segrec := mkSegrec { sr_slot : N; sr_data : tok }.

Record segmentation := mkSegmentation {
  sn_nprim : N;                 (* uint32_t numPrimitives *)
  sn_nseg : N;                  (* uint32_t numSegments *)
  sn_ntotal : N;                (* uint32_t numTotalSegments *)
  sn_segs : list seg;
  sn_sub_nseg : N;              (* subSegmentData.numSegments *)
  sn_sub_ntotal : N;            (* subSegmentData.numTotalSegments *)
  sn_arrayidx : list N;         (* subSegmentData.arrayIndices *)
  sn_recs : list segrec;        (* subSegmentData.dataRecords *)
  sn_ssf : tok                  (* subSegmentData.ssfFile *)
}.

Inductive bskind := BSPlain | BSDynamic | BSMeshLOD | BSSubIndex.

Record bsshape := mkBs {
  bs_kind : bskind;
  bs_nv : N;                    (* uint16_t numVertices *)
  bs_vdata : list tok;          (* vertData *)
  bs_nt : N;                    (* uint32_t numTriangles *)
  bs_tris : list tri;
  bs_deleted : list N;          (* deletedTris *)
  bs_dyn : list tok;            (* BSDynamicTriShape::dynamicData *)
  bs_dynsize : N;               (* dynamicDataSize *)
  bs_lod0 : N; bs_lod1 : N; bs_lod2 : N;
  bs_segn : segmentation;       (* BSSubIndexTriShape::segmentation (FO4) *)
  bs_ssen : N;                  (* BSSubIndexTriShape::numSegments (SSE) *)
  bs_sse : list ssegd           (* BSSubIndexTriShape::segments (SSE) *)
}.

(* std::sort(first, last, std::greater<>()) as an insertion sort *)
Fixpoint insert_desc (x : N) (l : list N) : list N :=
  match l with
  | [] => [x]
  | y :: r => if y <? x then x :: l else y :: insert_desc x r
  end.
Definition sort_desc (l : list N) : list N := fold_right insert_desc [] l.

(* BSTriShape::notifyVerticesDelete  (Geometry.cpp:602-614): IndexType2 of ApplyMapToTriangles is
   uint32_t (deletedTris is a std::vector<uint32_t>) *)
Definition bs_base_delete (b : bsshape) (idx : list N) : res bsshape :=
  bind (collapse_sz idx (vlen (bs_vdata b))) (fun cm =>
  bind (erase16 (bs_vdata b) idx) (fun vd' =>
  let nv' := wrap16 (vlen vd') in
  bind (apply_map_tris_model 32 false (bs_tris b) cm) (fun r =>
  let tris' := fst r in
  Ok (mkBs (bs_kind b) nv' vd' (wrap32 (vlen tris')) tris' (sort_desc (snd r))
           (bs_dyn b) (bs_dynsize b) (bs_lod0 b) (bs_lod1 b) (bs_lod2 b)
           (bs_segn b) (bs_ssen b) (bs_sse b))))).

(* for (auto& id : deletedTris)
     if (n > 0 && id >= start / 3 && id < start / 3 + n) n--;          all uint32_t *)
Definition shrink_count (deleted : list N) (start n : N) : N :=
  fold_left (fun n id =>
    if (0 <? n) && (start / 3 <=? id) && (id <? wrap32 (start / 3 + n)) then n - 1 else n)
    deleted n.

Definition seg_shrink (deleted : list N) (s : seg) : seg :=
  mkSeg (sg_start s) (shrink_count deleted (sg_start s) (sg_num s)) (sg_nsub s)
        (map (fun ss => mkSubseg (ss_start ss) (shrink_count deleted (ss_start ss) (ss_num ss)))
             (sg_subs s)).

(* "Align sub segments" (Geometry.cpp:1272-1283): a range-for over segment.subSegments with a
   separate counter j that is only advanced when the body does not [continue]:
     if (j == 0) sub.startIndex = segment.startIndex + numOwnPrimitives * 3;   ([segstart] below)
     if (j + 1 >= segment.numSubSegments) continue;
     subSegments[j + 1].startIndex = sub.startIndex + sub.numPrimitives * 3;  j++;
   [todo] = the elements the range-for has still to visit; [subs] = the whole vector. *)
Fixpoint align_subs (todo : nat) (pos : N) (segstart nsub : N) (subs : list subseg) (j : N)
  : res (list subseg) :=
  match todo with
  | O => Ok subs
  | S todo' =>
    match vget subs pos with
    | None => Fault
    | Some cur =>
      let cur' := if j =? 0 then mkSubseg segstart (ss_num cur) else cur in
      match vset subs pos cur' with
      | None => Fault
      | Some subs1 =>
        if nsub <=? j + 1 then align_subs todo' (pos + 1) segstart nsub subs1 j
        else
          match vget subs1 (j + 1) with
          | None => Fault
          | Some nxt =>
            match vset subs1 (j + 1) (mkSubseg (wrap32 (ss_start cur' + ss_num cur' * 3)) (ss_num nxt)) with
            | None => Fault
            | Some subs2 => align_subs todo' (pos + 1) segstart nsub subs2 (j + 1)
            end
          end
      end
    end
  end.

(* uint32_t numOwnPrimitives = segment.numPrimitives;
   for (auto& subSegment : segment.subSegments) numOwnPrimitives -= subSegment.numPrimitives; *)
Definition seg_own (num : N) (subs : list subseg) : N :=
  fold_left (fun o ss => wrap32 (o + 4294967296 - wrap32 (ss_num ss))) subs num.

(* "Align segments", same shape with the counter i; the first sub-segment of a segment starts
   after the triangles the segment owns itself: segment.startIndex + numOwnPrimitives * 3 *)
Fixpoint align_segs (todo : nat) (pos : N) (nseg : N) (segs : list seg) (i : N) : res (list seg) :=
  match todo with
  | O => Ok segs
  | S todo' =>
    match vget segs pos with
    | None => Fault
    | Some cur =>
      bind (align_subs (length (sg_subs cur)) 0
                       (wrap32 (sg_start cur + seg_own (sg_num cur) (sg_subs cur) * 3))
                       (sg_nsub cur) (sg_subs cur) 0) (fun subs' =>
      let cur' := mkSeg (sg_start cur) (sg_num cur) (sg_nsub cur) subs' in
      match vset segs pos cur' with
      | None => Fault
      | Some segs1 =>
        if nseg <=? i + 1 then align_segs todo' (pos + 1) nseg segs1 i
        else
          match vget segs1 (i + 1) with
          | None => Fault
          | Some nxt =>
            match vset segs1 (i + 1) (mkSeg (wrap32 (sg_start cur' + sg_num cur' * 3)) (sg_num nxt)
                                            (sg_nsub nxt) (sg_subs nxt)) with
            | None => Fault
            | Some segs2 => align_segs todo' (pos + 1) nseg segs2 (i + 1)
            end
          end
      end)
    end
  end.

(* "Align SSE segments" (Geometry.cpp:1302-1311) *)
Fixpoint align_sse (todo : nat) (pos : N) (nseg : N) (segs : list ssegd) (i : N) : res (list ssegd) :=
  match todo with
  | O => Ok segs
  | S todo' =>
    match vget segs pos with
    | None => Fault
    | Some cur =>
      if nseg <=? i + 1 then align_sse todo' (pos + 1) nseg segs i
      else
        match vget segs (i + 1) with
        | None => Fault
        | Some nxt =>
          match vset segs (i + 1) (mkSsegd (wrap32 (sd_index cur + sd_num cur * 3)) (sd_num nxt)) with
          | None => Fault
          | Some segs2 => align_sse todo' (pos + 1) nseg segs2 (i + 1)
          end
        end
    end
  end.

(* the part of BSSubIndexTriShape::notifyVerticesDelete after the base call (Geometry.cpp:1251-1311) *)
Definition segn_refit (deleted : list N) (sn : segmentation) : res segmentation :=
  let nprim := wrap32 (sn_nprim sn + 4294967296 - wrap32 (vlen deleted)) in
  let segs1 := map (seg_shrink deleted) (sn_segs sn) in
  bind (align_segs (length segs1) 0 (sn_nseg sn) segs1 0) (fun segs2 =>
  Ok (mkSegmentation nprim (sn_nseg sn) (sn_ntotal sn) segs2 (sn_sub_nseg sn) (sn_sub_ntotal sn)
                     (sn_arrayidx sn) (sn_recs sn) (sn_ssf sn))).

Definition sse_refit (deleted : list N) (nseg : N) (segs : list ssegd) : res (list ssegd) :=
  let segs1 := map (fun s => mkSsegd (sd_index s) (shrink_count deleted (sd_index s) (sd_num s))) segs in
  align_sse (length segs1) 0 nseg segs1 0.

Definition bs_delete (b : bsshape) (idx : list N) : res bsshape :=
  bind (bs_base_delete b idx) (fun b1 =>
  match bs_kind b1 with
  | BSPlain => Ok b1
  | BSDynamic =>                                       (* Geometry.cpp: dynamicDataSize = uint32(size) * 16 *)
    bind (erase_model 16 0 (bs_dyn b1) idx) (fun dd =>
    Ok (mkBs (bs_kind b1) (bs_nv b1) (bs_vdata b1) (bs_nt b1) (bs_tris b1) (bs_deleted b1)
             dd (wrap32 (wrap32 (vlen dd) * 16)) (bs_lod0 b1) (bs_lod1 b1) (bs_lod2 b1)
             (bs_segn b1) (bs_ssen b1) (bs_sse b1)))
  | BSMeshLOD =>                                       (* Geometry.cpp:1522-1529 *)
    Ok (mkBs (bs_kind b1) (bs_nv b1) (bs_vdata b1) (bs_nt b1) (bs_tris b1) (bs_deleted b1)
             (bs_dyn b1) (bs_dynsize b1) 0 0 (bs_nt b1)
             (bs_segn b1) (bs_ssen b1) (bs_sse b1))
  | BSSubIndex =>                                      (* Geometry.cpp:1248-1312 *)
    bind (segn_refit (bs_deleted b1) (bs_segn b1)) (fun sn' =>
    bind (sse_refit (bs_deleted b1) (bs_ssen b1) (bs_sse b1)) (fun sse' =>
    Ok (mkBs (bs_kind b1) (bs_nv b1) (bs_vdata b1) (bs_nt b1) (bs_tris b1) (bs_deleted b1)
             (bs_dyn b1) (bs_dynsize b1) (bs_lod0 b1) (bs_lod1 b1) (bs_lod2 b1)
             sn' (bs_ssen b1) sse')))
  end).

(* ------------------------------------------------------------------------------------------ *)
(* NiSkinData                                                                                 *)

Record bone := mkBone { bn_nv : N; bn_weights : list (N * tok) }.   (* uint16_t numVertices; (index, weight) *)

(* the weight-index update of one element (Skin.cpp:64-73): None = erase it *)
Definition sd_step (cm : list Z) (hi cnt : N) (x : N * tok) : res (option (N * tok)) :=
  let '(ix, wt) := x in
  if hi <? ix then Ok (Some (wrap16 (ix + 65536 - wrap16 cnt), wt))
  else match vget cm ix with
       | None => Fault
       | Some m => if Z.eqb m (-1) then Ok None else Ok (Some (wrap16Z m, wt))
       end.

(* for (uint16_t i = b.numVertices - 1; i != (uint16_t) -1; i--)  (Skin.cpp:63-74) *)
Definition sd_loop (fuel : nat) (cm : list Z) (hi cnt : N) (ws : list (N * tok)) (nvb i : N)
  : res (list (N * tok) * N) :=
  down_loop (sd_step cm hi cnt) dec16 65535 fuel ws nvb i.

Definition bone_delete (cm : list Z) (hi cnt : N) (b : bone) : res bone :=
  bind (sd_loop (S (N.to_nat (bn_nv b))) cm hi cnt (bn_weights b) (bn_nv b) (dec16 (bn_nv b)))
       (fun r => Ok (mkBone (snd r) (fst r))).

(* NiSkinData::notifyVerticesDelete  (Skin.cpp:54-76); vertIndices.back() on an empty vector is
   undefined: Fault *)
Definition skindata_delete (bones : list bone) (idx : list N) : res (list bone) :=
  match idx with
  | [] => Fault
  | _ =>
    let hi := last idx 0 in
    bind (collapse_u16 idx (wrap16 (hi + 1))) (fun cm =>
    mapM (bone_delete cm hi (vlen idx)) bones)
  end.

(* ------------------------------------------------------------------------------------------ *)
(* NiSkinPartition                                                                            *)

Record part := mkPart {
  p_nv : N; p_nt : N; p_nstrips : N;             (* uint16_t counters *)
  p_vmap : list N;
  p_hasvw : bool; p_vw : list tok;
  p_hasbi : bool; p_bi : list tok;
  p_slens : list N; p_hasfaces : bool; p_strips : list (list N);
  p_tris : list tri;
  p_ttris : list tri                              (* trueTriangles *)
}.

Record skinpart := mkSkinpart {
  sp_np : N;                    (* uint32_t numPartitions *)
  sp_nv : N;                    (* uint32_t numVertices *)
  sp_vdata : list tok;          (* vertData (SSE) *)
  sp_parts : list part;
  sp_mapped : bool;             (* bMappedIndices *)
  sp_triparts : list Z
}.

Definition set_part_faces (p : part) nt nstrips slens hasfaces strips tris ttris : part :=
  mkPart (p_nv p) nt nstrips (p_vmap p) (p_hasvw p) (p_vw p) (p_hasbi p) (p_bi p)
         slens hasfaces strips tris ttris.

(* PartitionBlock::ConvertStripsToTriangles  (Skin.cpp:333-345) *)
Definition part_convert_strips (p : part) : res part :=
  if p_nstrips p =? 0 then Ok p
  else bind (strips_model (p_strips p)) (fun t =>
       Ok (set_part_faces p (wrap16 (vlen t)) 0 [] true [] t [])).

Definition tri_rot (t : tri) : tri :=                      (* Triangle::rot, Object3d.hpp:1427 *)
  let '(p1, p2, p3) := t in
  if (p2 <? p1) && (p2 <? p3) then (p2, p3, p1)
  else if p3 <? p1 then (p3, p1, p2) else t.

Definition tri_uses (i : N) (t : tri) : bool :=
  let '(p1, p2, p3) := t in (p1 =? i) || (p2 =? i) || (p3 =? i).

Definition nseq (n : N) : list N := map N.of_nat (seq 0 (N.to_nat n)).

(* PartitionBlock::GenerateVertexMapFromTrueTriangles  (Skin.cpp:404-420): the marking loop only
   writes below CalcMaxTriangleIndex + 1; the collecting loop runs i over uint16_t(size) *)
Definition part_gen_vmap (p : part) : part :=
  let n := wrap16 (max_tri_index (p_ttris p) + 1) in
  let vm := filter (fun i => existsb (tri_uses i) (p_ttris p)) (nseq n) in
  mkPart (wrap16 (vlen vm)) (p_nt p) (p_nstrips p) vm (p_hasvw p) (p_vw p) (p_hasbi p) (p_bi p)
         (p_slens p) (p_hasfaces p) (p_strips p) (p_tris p) (p_ttris p).

(* the inverse-map loop of GenerateMappedTrianglesFromTrueTrianglesAndVertexMap (Skin.cpp:384-390) *)
Fixpoint invmap_loop (vm : list N) (mi : N) (inv : list Z) : res (list Z) :=
  match vm with
  | [] => Ok inv
  | v :: r =>
    let inv1 := if vlen inv <=? v then vresize 0%Z inv (v + 1) else inv in
    match vset inv1 v (Z.of_N mi) with
    | None => Fault
    | Some inv2 => invmap_loop r (wrap16 (mi + 1)) inv2
    end
  end.

(* PartitionBlock::GenerateMappedTrianglesFromTrueTrianglesAndVertexMap  (Skin.cpp:376-402);
   the collecting loop runs mi below uint16_t(vertexMap.size()) *)
Definition part_gen_mapped (p : part) : res part :=
  if isnil (p_vmap p) || isnil (p_ttris p) then
    Ok (set_part_faces p (if p_nstrips p =? 0 then 0 else p_nt p) (p_nstrips p) (p_slens p)
                       (p_hasfaces p) (p_strips p) [] (p_ttris p))
  else
    let vm16 := firstn (N.to_nat (wrap16 (vlen (p_vmap p)))) (p_vmap p) in
    bind (invmap_loop vm16 0 (repeat 0%Z (N.to_nat (last (p_vmap p) 0 + 1)))) (fun inv =>
    bind (apply_map_tris_model 31 true (p_ttris p) inv) (fun r =>
    let tris := map tri_rot (fst r) in
    if vlen tris =? vlen (p_ttris p)
    then Ok (set_part_faces p (p_nt p) (p_nstrips p) (p_slens p) (p_hasfaces p) (p_strips p) tris (p_ttris p))
    else Ok (set_part_faces p (wrap16 (vlen tris)) (p_nstrips p) (p_slens p) (p_hasfaces p)
                            (p_strips p) tris []))).

(* NiSkinPartition::PrepareVertexMapsAndTriangles, one partition  (Skin.cpp:437-449) *)
Definition part_prepare (mapped : bool) (p : part) : res part :=
  let p1 := if isnil (p_vmap p) then part_gen_vmap p else p in
  if isnil (p_tris p1) then
    if mapped then part_gen_mapped p1
    else Ok (set_part_faces p1 (p_nt p1) (p_nstrips p1) (p_slens p1) (p_hasfaces p1) (p_strips p1)
                            (p_ttris p1) (p_ttris p1))
  else Ok p1.

(* vertexMapDelList: positions i of vertexMap with indexCollapse[vertexMap[i]] == -1 *)
Fixpoint vmap_dellist (cm : list Z) (vm : list N) (i : N) : res (list N) :=
  match vm with
  | [] => Ok []
  | v :: r =>
    match vget cm v with
    | None => Fault
    | Some m => bind (vmap_dellist cm r (i + 1)) (fun l => Ok (if Z.eqb m (-1) then i :: l else l))
    end
  end.

(* the per-partition body of NiSkinPartition::notifyVerticesDelete  (Skin.cpp:261-295) *)
Definition part_delete (mapped : bool) (cm : list Z) (p : part) : res part :=
  let oldn := vlen (p_vmap p) in
  bind (vmap_dellist cm (p_vmap p) 0) (fun dl =>
  bind (erase_model 32 0 (p_vmap p) dl) (fun vm1 =>
  bind (if p_hasvw p then erase_model 32 0 (p_vw p) dl else Ok (p_vw p)) (fun vw' =>
  bind (if p_hasbi p then erase_model 32 0 (p_bi p) dl else Ok (p_bi p)) (fun bi' =>
  let nv' := wrap16 (vlen vm1) in
  bind (mapM (fun i => match vget cm i with None => Fault | Some m => Ok (wrap16Z m) end) vm1) (fun vm2 =>
  if negb mapped then
    bind (apply_map_tris_model 31 true (p_tris p) cm) (fun r =>
    Ok (mkPart nv' (wrap16 (vlen (fst r))) (p_nstrips p) vm2 (p_hasvw p) vw' (p_hasbi p) bi'
               (p_slens p) (p_hasfaces p) (p_strips p) (fst r) (fst r)))
  else
    bind (collapse_sz dl oldn) (fun mc =>
    bind (apply_map_tris_model 31 true (p_tris p) mc) (fun r =>
    Ok (mkPart nv' (wrap16 (vlen (fst r))) (p_nstrips p) vm2 (p_hasvw p) vw' (p_hasbi p) bi'
               (p_slens p) (p_hasfaces p) (p_strips p) (fst r) [])))))))).

(* maxVertInd  (Skin.cpp:248-254) *)
Definition sp_max_vert (mapped : bool) (parts : list part) : N :=
  fold_left (fun m p =>
    let m1 := fold_left N.max (p_vmap p) m in
    if negb mapped then N.max m1 (max_tri_index (p_tris p)) else m1) parts 0.

(* NiSkinPartition::notifyVerticesDelete  (Skin.cpp:234-301) *)
Definition skinpart_delete (sp : skinpart) (idx : list N) : res skinpart :=
  match idx with
  | [] => Ok sp
  | _ =>
    bind (mapM part_convert_strips (sp_parts sp)) (fun ps1 =>
    bind (mapM (part_prepare (sp_mapped sp)) ps1) (fun ps2 =>
    let mx := sp_max_vert (sp_mapped sp) ps2 in
    bind (collapse_u16 idx (wrap16 (mx + 1))) (fun cm =>
    bind (mapM (part_delete (sp_mapped sp) cm) ps2) (fun ps3 =>
    if isnil (sp_vdata sp)
    then Ok (mkSkinpart (sp_np sp) (sp_nv sp) (sp_vdata sp) ps3 (sp_mapped sp) [])
    else bind (erase16 (sp_vdata sp) idx) (fun vd =>
         Ok (mkSkinpart (sp_np sp) (wrap32 (vlen vd)) vd ps3 (sp_mapped sp) []))))))
  end.

(* RemoveEmptyPartitions: outDeletedIndices  (Skin.cpp:320-331) *)
Fixpoint empty_parts (ps : list part) (i : N) : list N :=
  match ps with
  | [] => []
  | p :: r => if p_nt p =? 0 then i :: empty_parts r (i + 1) else empty_parts r (i + 1)
  end.

Definition dummy_part : part := mkPart 0 0 0 [] false [] false [] [] false [] [] [].

(* RemoveEmptyPartitions + DeletePartitions (triParts is empty here, so the renumbering of
   triParts in DeletePartitions is skipped unless the caller kept one) *)
Definition skinpart_remove_empty (sp : skinpart) : res (skinpart * list N) :=
  let del := empty_parts (sp_parts sp) 0 in
  if isnil del then Ok (sp, del)
  else
    bind (if isnil (sp_triparts sp) then Ok (sp_triparts sp)
          else bind (collapse_model 32 false del (sp_np sp)) (fun pm =>
               mapM (fun pi => if (Z.leb 0 pi && Z.ltb pi (to_int (vlen pm)))%bool
                               then match vget pm (Z.to_N pi) with None => Fault | Some x => Ok x end
                               else Ok pi) (sp_triparts sp))) (fun tp =>
    bind (erase_model 32 dummy_part (sp_parts sp) del) (fun ps =>
    Ok (mkSkinpart (wrap32 (vlen ps)) (sp_nv sp) (sp_vdata sp) ps (sp_mapped sp) tp, del))).

(* ------------------------------------------------------------------------------------------ *)
(* LOCKEDNORM integer lists (NifFile.cpp:4171-4195)                                            *)

Fixpoint insert_asc (x : N) (l : list N) : list N :=
  match l with
  | [] => [x]
  | y :: r => if x <? y then x :: l else y :: insert_asc x r
  end.
Definition sort_asc (l : list N) : list N := fold_right insert_asc [] l.

Definition ln_step (cm : list Z) (hi cnt : N) (val : N) : res (option N) :=
  if hi <? val then Ok (Some (wrap32 (val + 4294967296 - wrap32 cnt)))
  else match vget cm val with
       | None => Fault
       | Some m => if Z.eqb m (-1) then Ok None else Ok (Some (Z.to_N (Z.modulo m 4294967296)))
       end.

(* for (uint32_t i = integersData.size() - 1; i != NIF_NPOS; i--) ; the loop has no counter of
   its own besides i: the counter slot of [down_loop] carries 0 *)
Definition ln_loop (fuel : nat) (cm : list Z) (hi cnt : N) (v : list N) (i : N) : res (list N) :=
  bind (down_loop (ln_step cm hi cnt) dec32 4294967295 fuel v 0 i) (fun r => Ok (fst r)).

Definition lockednorm_delete (v : list N) (idx : list N) : res (list N) :=
  let v1 := sort_asc v in
  let hi := last idx 0 in
  bind (collapse_u16 idx (wrap16 (hi + 1))) (fun cm =>
  ln_loop (S (length v1)) cm hi (vlen idx) v1 (dec32 (wrap32 (vlen v1)))).

(* ------------------------------------------------------------------------------------------ *)
(* NifFile::DeleteVertsForShape  (NifFile.cpp:4123-4198)                                       *)

Record skin := mkSkin {
  sk_data : option (list bone);       (* NiSkinData reachable through skinInst->dataRef *)
  sk_part : option skinpart;          (* NiSkinPartition *)
  sk_dismember : option (list tok)    (* BSDismemberSkinInstance::partitions, when the instance is one *)
}.

Record shape := mkShape {
  sh_gdata : option gdata;            (* NiTriBasedGeomData behind DataRef() *)
  sh_bs : option bsshape;             (* the shape itself when it is a BSTriShape *)
  sh_skin : option skin;              (* NiSkinInstance behind SkinInstanceRef() *)
  sh_locked : list (list N)           (* every LOCKEDNORM NiIntegersExtraData of the shape *)
}.

Definition opt_bind {A} (o : option A) (f : A -> res A) : res (option A) :=
  match o with None => Ok None | Some a => bind (f a) (fun a' => Ok (Some a')) end.

Definition skin_delete (k : skin) (idx : list N) : res skin :=
  bind (opt_bind (sk_data k) (fun d => skindata_delete d idx)) (fun d' =>
  match sk_part k with
  | None => Ok (mkSkin d' None (sk_dismember k))
  | Some sp =>
    bind (skinpart_delete sp idx) (fun sp1 =>
    bind (skinpart_remove_empty sp1) (fun r =>
    let '(sp2, del) := r in
    if isnil del then Ok (mkSkin d' (Some sp2) (sk_dismember k))
    else
      match sk_dismember k with
      | None => Ok (mkSkin d' (Some sp2) None)
      | Some dm =>
        (* BSDismemberSkinInstance::DeletePartitions; UpdatePartitionFlags reads
           skinPart->partitions[i] for every 1 <= i below the dismember list's size *)
        bind (erase_model 32 0 dm del) (fun dm' =>
        if (1 <? vlen dm') && (vlen (sp_parts sp2) <? vlen dm') then Fault
        else Ok (mkSkin d' (Some sp2) (Some dm')))
      end))
  end).

Definition delete_verts (s : shape) (idx : list N) : res (shape * bool) :=
  match idx with
  | [] => Ok (s, false)
  | _ =>
    bind (match sh_gdata s with
          | None => Ok (None, false)
          | Some g => bind (gd_delete g idx) (fun g' =>
                      bind (gd_num_triangles g') (fun nt =>
                      Ok (Some g', (gd_nv g' =? 0) || (nt =? 0))))
          end) (fun rg =>
    bind (match sh_bs s with
          | None => Ok (None, false)
          | Some b => bind (bs_delete b idx) (fun b' => Ok (Some b', (bs_nv b' =? 0) || (bs_nt b' =? 0)))
          end) (fun rb =>
    bind (opt_bind (sh_skin s) (fun k => skin_delete k idx)) (fun k' =>
    bind (mapM (fun l => lockednorm_delete l idx) (sh_locked s)) (fun ln' =>
    Ok (mkShape (fst rg) (fst rb) k' ln', snd rg || snd rb)))))
  end.
