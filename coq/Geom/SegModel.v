(* Geometry layer, part 2: BSSubIndexTriShape::SetSegmentation / GetSegmentation
   (src/Geometry.cpp:1364-1513) and NiShape::ReorderTriangles (src/Geometry.cpp:406-424). *)
From NiflyVerif Require Export Res UtilModel GeomModel.
Local Open Scope N_scope.

(* NifSubSegmentInfo / NifSegmentInfo / NifSegmentationInfo: partID is an int *)
Record subinfo := mkSubinfo { si_id : Z; si_slot : N; si_data : tok }.
Record seginfo := mkSeginfo { gi_id : Z; gi_subs : list subinfo }.
Record seginf := mkSeginf { inf_segs : list seginfo; inf_ssf : tok }.

(* if (id >= (int) map.size()) map.resize(id + 1);  map[id] = newPartID++;
   a negative id converts to a huge size_t index: outside the vector *)
Definition o2n_set (m : list Z) (id : Z) (newid : Z) : res (list Z) :=
  let m1 := if Z.leb (Z.of_N (vlen m)) id then vresize 0%Z m (Z.to_N (id + 1)) else m in
  if Z.ltb id 0 then Fault
  else match vset m1 (Z.to_N id) newid with None => Fault | Some m2 => Ok m2 end.

Fixpoint o2n_subs (subs : list subinfo) (m : list Z) (newid : Z) : res (list Z * Z) :=
  match subs with
  | [] => Ok (m, newid)
  | s :: r => bind (o2n_set m (si_id s) newid) (fun m' => o2n_subs r m' (newid + 1)%Z)
  end.

(* the renumbering loop (Geometry.cpp:1413-1425) *)
Fixpoint o2n_segs (segs : list seginfo) (m : list Z) (newid : Z) : res (list Z * Z) :=
  match segs with
  | [] => Ok (m, newid)
  | s :: r =>
    bind (o2n_set m (gi_id s) newid) (fun m1 =>
    bind (o2n_subs (gi_subs s) m1 (newid + 1)%Z) (fun r1 => o2n_segs r (fst r1) (snd r1)))
  end.

(* triParts[i] = inTriParts[i] >= 0 ? oldToNewPartIDs[inTriParts[i]] : 0   (Geometry.cpp:1427-1430) *)
Definition new_label (o2n : list Z) (l : Z) : res Z :=
  if Z.leb 0 l then match vget o2n (Z.to_N l) with None => Fault | Some x => Ok x end
  else Ok 0%Z.

(* std::stable_sort(triInds, [&](i, j) { return triParts[i] < triParts[j]; }) on (index, key)
   pairs as a stable insertion sort: an element goes in front of the first one that is not
   smaller *)
Fixpoint ins_stable (x : N * Z) (l : list (N * Z)) : list (N * Z) :=
  match l with
  | [] => [x]
  | y :: r => if Z.ltb (snd y) (snd x) then y :: ins_stable x r else x :: l
  end.
Definition stable_sort (l : list (N * Z)) : list (N * Z) := fold_right ins_stable [] l.

(* NiShape::ReorderTriangles (Geometry.cpp:406-424) for a shape whose GetTriangles succeeds;
   None = "return false" (triangles untouched) *)
Definition reorder_tris (tris : list tri) (inds : list N) : option (list tri) :=
  if negb (vlen tris =? vlen inds) then None
  else
    let out := flat_map (fun id => match vget tris id with Some t => [t] | None => [] end) inds in
    if negb (vlen out =? vlen tris) then None else Some out.

(* for (i < numTris) while (triParts[triInds[i]] >= nextPartID) partTriInds[nextPartID++] = i; *)
Fixpoint pti_while (fuel : nat) (key : Z) (i : N) (pti : list N) (next : Z) : res (list N * Z) :=
  match fuel with
  | O => OutOfFuel
  | S f =>
    if Z.leb next key then
      match vset pti (Z.to_N next) i with
      | None => Fault
      | Some pti' => pti_while f key i pti' (next + 1)%Z
      end
    else Ok (pti, next)
  end.

Fixpoint pti_for (keys : list Z) (i : N) (pti : list N) (next : Z) : res (list N * Z) :=
  match keys with
  | [] => Ok (pti, next)
  | k :: r => bind (pti_while (S (length pti)) k i pti next) (fun s => pti_for r (i + 1) (fst s) (snd s))
  end.

(* while (nextPartID < (int) partTriInds.size()) partTriInds[nextPartID++] = numTris; *)
Fixpoint pti_tail (fuel : nat) (nt : N) (pti : list N) (next : Z) : res (list N) :=
  match fuel with
  | O => OutOfFuel
  | S f =>
    if Z.ltb next (Z.of_N (vlen pti)) then
      match vset pti (Z.to_N next) nt with
      | None => Fault
      | Some pti' => pti_tail f nt pti' (next + 1)%Z
      end
    else Ok pti
  end.

Definition pti_get (pti : list N) (p : Z) : res N :=
  if Z.ltb p 0 then Fault else match vget pti (Z.to_N p) with None => Fault | Some x => Ok x end.

(* the sub-segment loop of the table construction (Geometry.cpp:1480-1501) *)
Fixpoint build_subs (subs : list subinfo) (pti : list N) (partID : Z) (parent : N) (subno : N)
  : res (list subseg * list segrec * Z) :=
  match subs with
  | [] => Ok ([], [], partID)
  | s :: r =>
    bind (pti_get pti (partID + 1)) (fun hi =>
    bind (pti_get pti partID) (fun lo =>
    let ss := mkSubseg (wrap32 (lo * 3)) (wrap32 (hi + 4294967296 - lo)) in
    let slot := if si_slot s <? 30 then subno else si_slot s in
    let subno' := if si_slot s <? 30 then wrap32 (subno + 1) else subno in
    bind (build_subs r pti (partID + 1)%Z parent subno') (fun rr =>
    let '(sss, recs, pid) := rr in
    Ok (ss :: sss, mkSegrec slot (si_data s) :: recs, pid))))
  end.

(* the segment loop (Geometry.cpp:1464-1505); the data token of a segment's own record is 0 *)
Fixpoint build_segs (segs : list seginfo) (pti : list N) (partID : Z) (parent : N) (segidx : N)
  : res (list seg * list N * list segrec * N * N) :=
  match segs with
  | [] => Ok ([], [], [], parent, segidx)
  | s :: r =>
    let cc := vlen (gi_subs s) in
    bind (pti_get pti (partID + Z.of_N (wrap32 cc) + 1)) (fun hi =>
    bind (pti_get pti partID) (fun lo =>
    bind (build_subs (gi_subs s) pti (partID + 1)%Z parent 1) (fun rs =>
    let '(sss, srecs, pid) := rs in
    let sg := mkSeg (wrap32 (lo * 3)) (wrap32 (hi + 4294967296 - lo)) (wrap32 cc) sss in
    bind (build_segs r pti pid (wrap32 (parent + wrap32 cc + 1)) (wrap32 (segidx + 1))) (fun rr =>
    let '(sgs, ais, recs, parent', segidx') := rr in
    Ok (sg :: sgs, parent :: ais, (mkSegrec segidx 0 :: srecs) ++ recs, parent', segidx')))))
  end.

(* BSSubIndexTriShape::SetSegmentation (Geometry.cpp:1407-1513) *)
Definition set_segmentation (b : bsshape) (inf : seginf) (labels : list Z) : res bsshape :=
  let nt := bs_nt b in                                   (* GetNumTriangles() *)
  if negb (vlen labels =? nt) then Ok b
  else
    bind (o2n_segs (inf_segs inf) [] 0%Z) (fun r0 =>
    let '(o2n, newid) := r0 in
    bind (mapM (new_label o2n) labels) (fun keys =>
    let sorted := stable_sort (combine (nseq nt) keys) in
    let inds := map fst sorted in
    let tris' := match reorder_tris (bs_tris b) inds with Some t => t | None => bs_tris b end in
    let nt' := match reorder_tris (bs_tris b) inds with Some t => wrap32 (vlen t) | None => bs_nt b end in
    bind (mapM (fun ix => match vget keys ix with None => Fault | Some k => Ok k end) inds) (fun skeys =>
    let pti0 := repeat 0 (Z.to_nat (newid + 1)) in
    bind (pti_for skeys 0 pti0 0%Z) (fun s1 =>
    bind (pti_tail (S (length pti0)) nt (fst s1) (snd s1)) (fun pti =>
    bind (build_segs (inf_segs inf) pti 0%Z 0 0) (fun rb =>
    let '(sgs, ais, recs, parent, segidx) := rb in
    Ok (mkBs (bs_kind b) (bs_nv b) (bs_vdata b) nt' tris' (bs_deleted b)
             (bs_dyn b) (bs_dynsize b) (bs_lod0 b) (bs_lod1 b) (bs_lod2 b)
             (mkSegmentation nt segidx parent sgs segidx parent ais recs (inf_ssf inf))
             (bs_ssen b) (bs_sse b)))))))).

(* triParts[id] = partID for startIndex <= id < endIndex (endIndex <= numTris) *)
Definition fill_range (lbl : list Z) (lo hi : N) (p : Z) : list Z :=
  map (fun x => let '(i, l) := x in if (lo <=? i) && (i <? hi) then p else l)
      (combine (nseq (vlen lbl)) lbl).

Fixpoint get_subs (subs : list subseg) (recs : list segrec) (nt : N) (lbl : list Z) (partID : Z) (ai : N)
  : res (list subinfo * list Z * Z * N) :=
  match subs with
  | [] => Ok ([], lbl, partID, ai)
  | s :: r =>
    let lo := ss_start s / 3 in
    let hi := N.min nt (wrap32 (lo + ss_num s)) in
    let lbl' := fill_range lbl lo hi partID in
    let ai' := ai + 1 in                                  (* int arrayIndex++ *)
    match vget recs ai' with
    | None => Fault
    | Some rc =>
      bind (get_subs r recs nt lbl' (partID + 1)%Z ai') (fun rr =>
      let '(sis, lbl2, pid, ai2) := rr in
      Ok (mkSubinfo partID (if sr_slot rc <? 30 then 0 else sr_slot rc) (sr_data rc) :: sis, lbl2, pid, ai2))
    end
  end.

Fixpoint get_segs (segs : list seg) (recs : list segrec) (nt : N) (lbl : list Z) (partID : Z) (ai : N)
  : res (list seginfo * list Z) :=
  match segs with
  | [] => Ok ([], lbl)
  | s :: r =>
    let lo := sg_start s / 3 in
    let hi := N.min nt (wrap32 (lo + sg_num s)) in
    let lbl' := fill_range lbl lo hi partID in
    bind (get_subs (sg_subs s) recs nt lbl' (partID + 1)%Z ai) (fun rs =>
    let '(sis, lbl2, pid, ai2) := rs in
    bind (get_segs r recs nt lbl2 pid (ai2 + 1)) (fun rr =>
    Ok (mkSeginfo partID sis :: fst rr, snd rr)))
  end.

(* BSSubIndexTriShape::GetSegmentation (Geometry.cpp:1364-1405) *)
Definition get_segmentation (b : bsshape) : res (seginf * list Z) :=
  let nt := bs_nt b in
  bind (get_segs (sn_segs (bs_segn b)) (sn_recs (bs_segn b)) nt (repeat (-1)%Z (N.to_nat nt)) 0%Z 0)
       (fun r => Ok (mkSeginf (fst r) (sn_ssf (bs_segn b)), snd r)).
