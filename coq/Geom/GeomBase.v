(* Index arithmetic shared by the geometry proofs: ranks, survivors, remapped triangle lists,
   and what the utility specs of Util/UtilSpec.v amount to on well-formed inputs. *)
From NiflyVerif Require Import Res UtilModel UtilSpec CompactProofs EraseProofs FillProofs GeomModel.
From Coq Require Import ZifyBool ZifyNat ZifyN Sorted.
Local Open Scope N_scope.

(* ---------------------------------------------------------------------------------------- *)
(* survivors and ranks *)

Definition survives (idx : list N) (i : N) : bool := negb (memN i idx).

Lemma erase_from_vlen {A} : forall (v : list A) pos idx,
  vlen (erase_from pos v idx) = rank_from pos (length v) idx.
Proof.
  induction v as [|x v IH]; intros pos idx; cbn [erase_from rank_from length]; [reflexivity|].
  destruct (memN pos idx).
  - rewrite IH. lia.
  - unfold vlen in *. cbn [length]. rewrite Nat2N.inj_succ, IH. lia.
Qed.

Lemma erase_spec_vlen {A} (v : list A) idx : vlen (erase_spec v idx) = rank idx (vlen v).
Proof. unfold erase_spec, rank. rewrite erase_from_vlen. unfold vlen. rewrite Nat2N.id. reflexivity. Qed.

Lemma erase_spec_vlen_eq {A B} (v : list A) (u : list B) idx :
  vlen v = vlen u -> vlen (erase_spec v idx) = vlen (erase_spec u idx).
Proof. intros H. rewrite !erase_spec_vlen, H. reflexivity. Qed.

Lemma erase_spec_nil {A} idx : erase_spec (@nil A) idx = [].
Proof. reflexivity. Qed.

Lemma rank_mono idx i j : i <= j -> rank idx i <= rank idx j.
Proof.
  intros H. replace j with (i + (j - i)) by lia. generalize (j - i) as d. clear H j.
  intros d. induction d as [|d IH] using N.peano_ind; [rewrite N.add_0_r; lia|].
  replace (i + N.succ d) with (i + d + 1) by lia. rewrite rank_succ. destruct (memN (i + d) idx); lia.
Qed.

Lemma rank_lt idx i j : i < j -> memN i idx = false -> rank idx i < rank idx j.
Proof.
  intros H Hm. pose proof (rank_mono idx (i + 1) j ltac:(lia)) as H1.
  rewrite rank_succ, Hm in H1. lia.
Qed.

Lemma rank_0 idx : rank idx 0 = 0.
Proof. reflexivity. Qed.

(* number of listed indices below a bound *)
Definition cnt_below (idx : list N) (i : N) : N := vlen (filter (fun k => k <? i) idx).

Lemma memN_cons i k l : memN i (k :: l) = (i =? k) || memN i l.
Proof. reflexivity. Qed.

Lemma cnt_below_succ idx i : NoDup idx ->
  cnt_below idx (i + 1) = cnt_below idx i + (if memN i idx then 1 else 0).
Proof.
  unfold cnt_below, vlen. induction idx as [|k idx IH]; intros Hnd; [reflexivity|].
  inversion Hnd as [|? ? Hnin Hnd']; subst. specialize (IH Hnd').
  rewrite memN_cons. cbn [filter].
  destruct (N.eqb_spec i k) as [->|Hne]; cbn [orb].
  - assert (Hm : memN k idx = false).
    { apply memN_false_iff. apply Forall_forall. intros x Hx ->. contradiction. }
    rewrite Hm in IH.
    destruct (N.ltb_spec k (k + 1)); [|lia]. destruct (N.ltb_spec k k); [lia|].
    cbn [length]. lia.
  - destruct (N.ltb_spec k (i + 1)); destruct (N.ltb_spec k i); try lia; cbn [length];
      destruct (memN i idx); lia.
Qed.

Lemma rank_cnt idx i : NoDup idx -> rank idx i + cnt_below idx i = i.
Proof.
  intros Hnd. induction i as [|i IH] using N.peano_ind.
  - unfold cnt_below. rewrite rank_0. replace (filter (fun k => k <? 0) idx) with (@nil N); [reflexivity|].
    clear. induction idx as [|k idx IH]; [reflexivity|]. cbn [filter]. destruct (N.ltb_spec k 0); [lia|exact IH].
  - replace (N.succ i) with (i + 1) by lia. rewrite rank_succ, cnt_below_succ by exact Hnd.
    destruct (memN i idx); lia.
Qed.

Lemma sorted_lt_nodup idx : sorted_lt idx -> NoDup idx.
Proof.
  induction 1 as [|k idx Hs IH Hall]; constructor; auto.
  intros Hin. rewrite Forall_forall in Hall. specialize (Hall k Hin). lia.
Qed.

Lemma cnt_below_all idx i : Forall (fun k => k < i) idx -> cnt_below idx i = vlen idx.
Proof.
  unfold cnt_below, vlen. induction 1 as [|k idx Hk Hall IH]; [reflexivity|].
  cbn [filter]. destruct (N.ltb_spec k i); [|lia]. cbn [length]. lia.
Qed.

(* an index above every listed one just moves down by their number *)
Lemma rank_above idx i : sorted_lt idx -> Forall (fun k => k < i) idx -> rank idx i = i - vlen idx.
Proof.
  intros Hs Hall. pose proof (rank_cnt idx i (sorted_lt_nodup idx Hs)) as H.
  rewrite cnt_below_all in H by exact Hall. lia.
Qed.

Lemma sorted_lt_last_max idx d : sorted_lt idx -> Forall (fun k => k <= last idx d) idx.
Proof.
  induction 1 as [|k idx Hs IH Hall]; [constructor|].
  destruct idx as [|k2 idx]; [constructor; [cbn; lia|constructor]|].
  change (last (k :: k2 :: idx) d) with (last (k2 :: idx) d).
  constructor; [|exact IH].
  inversion IH; subst. inversion Hall; subst. lia.
Qed.

Lemma last_in {A} (l : list A) d : l <> [] -> In (last l d) l.
Proof.
  induction l as [|x l IH]; [congruence|]. intros _. destruct l as [|y l]; [left; reflexivity|].
  right. apply IH. congruence.
Qed.

(* ---------------------------------------------------------------------------------------- *)
(* collapse map entries *)

Lemma collapse_spec_vlen idx n : vlen (collapse_spec idx n) = n.
Proof. unfold collapse_spec, vlen. rewrite map_length, seq_length. lia. Qed.

Lemma collapse_spec_nth idx n p : p < n ->
  nth_error (collapse_spec idx n) (N.to_nat p) =
  Some (if memN p idx then (-1)%Z else Z.of_N (rank idx p)).
Proof.
  intros H. unfold collapse_spec.
  erewrite map_nth_error with (d := N.to_nat p).
  - rewrite N2Nat.id. reflexivity.
  - rewrite nth_error_nth' with (d := 0%nat) by (rewrite seq_length; lia).
    rewrite seq_nth by lia. reflexivity.
Qed.

Lemma collapse_spec_vget idx n p : p < n ->
  vget (collapse_spec idx n) p = Some (if memN p idx then (-1)%Z else Z.of_N (rank idx p)).
Proof. apply collapse_spec_nth. Qed.

(* ---------------------------------------------------------------------------------------- *)
(* triangle lists *)

Definition tri_lt (n : N) (t : tri) : bool := let '(a, b, c) := t in (a <? n) && (b <? n) && (c <? n).
Definition tri_survives (idx : list N) (t : tri) : bool :=
  let '(a, b, c) := t in survives idx a && survives idx b && survives idx c.
Definition remap_tri (idx : list N) (t : tri) : tri :=
  let '(a, b, c) := t in (rank idx a, rank idx b, rank idx c).

(* exactly the triangles none of whose corners is listed, re-indexed, in order *)
Definition tris_spec (idx : list N) (tris : list tri) : list tri :=
  map (remap_tri idx) (filter (tri_survives idx) tris).

(* positions (counted from pos) of the triangles that use a listed corner *)
Fixpoint del_pos_from (pos : N) (idx : list N) (tris : list tri) : list N :=
  match tris with
  | [] => []
  | t :: r => if tri_survives idx t then del_pos_from (pos + 1) idx r
              else pos :: del_pos_from (pos + 1) idx r
  end.
Definition del_pos (idx : list N) (tris : list tri) : list N := del_pos_from 0 idx tris.

Lemma store16_small x : x < 65536 -> store16 (Z.of_N x) = x.
Proof. intros H. unfold store16. rewrite Z.mod_small by lia. lia. Qed.

Lemma map_corner_collapse idx n p : p < n ->
  map_corner (collapse_spec idx n) p = if memN p idx then None else Some (Z.of_N (rank idx p)).
Proof.
  intros H. unfold map_corner. rewrite collapse_spec_nth by exact H.
  destruct (memN p idx); [reflexivity|].
  destruct (Z.ltb_spec (Z.of_N (rank idx p)) 0); [lia|reflexivity].
Qed.

Lemma apply_map_from_collapse idx n : n <= 65536 -> forall tris pos,
  forallb (tri_lt n) tris = true ->
  apply_map_from pos tris (collapse_spec idx n) = (tris_spec idx tris, del_pos_from pos idx tris).
Proof.
  intros Hn. induction tris as [|[[a b] c] tris IH]; intros pos Hall; [reflexivity|].
  cbn [forallb] in Hall. apply andb_prop in Hall. destruct Hall as [Ht Hall].
  unfold tri_lt in Ht. apply andb_prop in Ht. destruct Ht as [Ht Hc]. apply andb_prop in Ht.
  destruct Ht as [Ha Hb]. apply N.ltb_lt in Ha, Hb, Hc.
  cbn [apply_map_from]. rewrite IH by exact Hall.
  unfold map_tri. rewrite !map_corner_collapse by assumption.
  unfold tris_spec. cbn [filter del_pos_from]. unfold tri_survives, survives.
  pose proof (rank_le idx a). pose proof (rank_le idx b). pose proof (rank_le idx c).
  destruct (memN a idx); cbn [negb andb]; [reflexivity|].
  destruct (memN b idx); cbn [negb andb]; [reflexivity|].
  destruct (memN c idx); cbn [negb andb]; [reflexivity|].
  cbn [map remap_tri]. rewrite !store16_small by lia. reflexivity.
Qed.

Lemma apply_map_spec_collapse idx n tris : n <= 65536 -> forallb (tri_lt n) tris = true ->
  apply_map_spec tris (collapse_spec idx n) = (tris_spec idx tris, del_pos idx tris).
Proof. intros. apply apply_map_from_collapse; assumption. Qed.

Lemma filter_length_le' {A} (f : A -> bool) l : (length (filter f l) <= length l)%nat.
Proof. induction l as [|x l IH]; cbn [filter length]; [lia|]. destruct (f x); cbn [length]; lia. Qed.

Lemma tris_spec_length idx tris : (length (tris_spec idx tris) <= length tris)%nat.
Proof. unfold tris_spec. rewrite map_length. apply filter_length_le'. Qed.

Lemma tris_spec_lt idx n tris : forallb (tri_lt n) tris = true ->
  forallb (tri_lt (rank idx n)) (tris_spec idx tris) = true.
Proof.
  unfold tris_spec. induction tris as [|[[a b] c] tris IH]; intros Hall; [reflexivity|].
  cbn [forallb] in Hall. apply andb_prop in Hall. destruct Hall as [Ht Hall].
  cbn [filter]. destruct (tri_survives idx (a, b, c)) eqn:Hs; [|apply IH; exact Hall].
  cbn [map forallb]. rewrite IH by exact Hall. rewrite andb_true_r.
  unfold tri_lt in *. unfold tri_survives, survives in Hs.
  repeat (apply andb_prop in Hs; destruct Hs as [Hs ?]).
  repeat (apply andb_prop in Ht; destruct Ht as [Ht ?]).
  apply negb_true_iff in Hs, H, H0. apply N.ltb_lt in Ht, H1, H2.
  cbn [remap_tri].
  rewrite !andb_true_iff, !N.ltb_lt. repeat split; apply rank_lt; assumption.
Qed.

(* the dropped positions come out strictly ascending *)
Lemma del_pos_from_ge idx : forall tris pos, Forall (fun k => pos <= k) (del_pos_from pos idx tris).
Proof.
  induction tris as [|t tris IH]; intros pos; cbn [del_pos_from]; [constructor|].
  destruct (tri_survives idx t).
  - eapply Forall_impl; [|apply IH]. cbn; intros; lia.
  - constructor; [lia|]. eapply Forall_impl; [|apply IH]. cbn; intros; lia.
Qed.

Lemma del_pos_from_sorted idx : forall tris pos, sorted_lt (del_pos_from pos idx tris).
Proof.
  induction tris as [|t tris IH]; intros pos; cbn [del_pos_from]; [constructor|].
  destruct (tri_survives idx t); [apply IH|].
  constructor; [apply IH|]. eapply Forall_impl; [|apply del_pos_from_ge]. cbn; intros; lia.
Qed.

Lemma del_pos_from_lt idx : forall tris pos,
  Forall (fun k => k < pos + vlen tris) (del_pos_from pos idx tris).
Proof.
  induction tris as [|t tris IH]; intros pos; cbn [del_pos_from]; [constructor|].
  assert (Hl : pos + 1 + vlen tris = pos + vlen (t :: tris)) by (unfold vlen; cbn [length]; lia).
  destruct (tri_survives idx t).
  - rewrite <- Hl. apply IH.
  - constructor; [unfold vlen; cbn [length]; lia|]. rewrite <- Hl. apply IH.
Qed.

Lemma del_pos_count idx : forall tris pos,
  (length (del_pos_from pos idx tris) + length (tris_spec idx tris) = length tris)%nat.
Proof.
  unfold tris_spec. induction tris as [|t tris IH]; intros pos; cbn [del_pos_from filter]; [reflexivity|].
  destruct (tri_survives idx t); cbn [map length]; specialize (IH (pos + 1)); rewrite map_length in *; lia.
Qed.

(* std::sort(..., greater) on a strictly ascending list is its reversal *)
Lemma insert_desc_small x l : Forall (fun y => x < y) l -> insert_desc x l = l ++ [x].
Proof.
  induction 1 as [|y l Hy Hall IH]; [reflexivity|].
  cbn [insert_desc]. destruct (N.ltb_spec y x); [lia|]. rewrite IH. reflexivity.
Qed.

Lemma sort_desc_sorted l : sorted_lt l -> sort_desc l = rev l.
Proof.
  induction 1 as [|x l Hs IH Hall]; [reflexivity|].
  unfold sort_desc in *. cbn [fold_right rev]. rewrite IH. apply insert_desc_small.
  apply Forall_rev. exact Hall.
Qed.
