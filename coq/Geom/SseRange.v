(* The SSE-style segment table (BSSubIndexTriShape::segments, BSGeometrySegmentData: index,
   numTris) under the re-fit of BSSubIndexTriShape::notifyVerticesDelete (Geometry.cpp:1302-1319):
   range facts. The table is re-fitted like the FO4 one: every segment loses the dropped triangles
   inside its range, then segment i+1 is made to start where segment i ends; the start of the FIRST
   segment is never touched. So the guarantee needs a table that tiles the triangle list from 0. *)
From NiflyVerif Require Import Res UtilModel UtilSpec EraseProofs GeomModel GeomBase GeomSpec GeomProofs
  GeomShapeProofs SegProofs RefitProofs.
From Coq Require Import ZifyBool ZifyNat ZifyN Sorted.
Local Open Scope N_scope.

(* segments contiguous and in order from triangle p to triangle e; index = 3 * first triangle *)
Inductive sse_tile : N -> list ssegd -> N -> Prop :=
| sst_nil p : sse_tile p [] p
| sst_cons p s r e : sd_index s = 3 * p -> sse_tile (p + sd_num s) r e -> sse_tile p (s :: r) e.

Lemma sse_tile_le : forall p segs e, sse_tile p segs e -> p <= e.
Proof. induction 1; lia. Qed.

(* what tiling gives for every single segment: its start is a multiple of 3 and its triangle range
   [index/3, index/3 + numTris) lies inside [p, e) *)
Lemma sse_tile_in_range : forall p segs e, sse_tile p segs e ->
  Forall (fun s => sd_index s mod 3 = 0 /\ p <= sd_index s / 3 /\ sd_index s / 3 + sd_num s <= e) segs.
Proof.
  induction 1 as [p|p s r e Hs Hr IH]; [constructor|].
  pose proof (sse_tile_le _ _ _ Hr) as Hle.
  constructor.
  - rewrite Hs. rewrite N.mul_comm, N.mod_mul, N.div_mul by lia. lia.
  - eapply Forall_impl; [|exact IH]. cbn beta. intros a (H1 & H2 & H3). repeat split; [exact H1|lia|exact H3].
Qed.

Lemma sse_tile_sum : forall p segs e, sse_tile p segs e ->
  p + fold_right (fun s a => sd_num s + a) 0 segs = e.
Proof. induction 1 as [p|p s r e Hs Hr IH]; cbn [fold_right]; lia. Qed.

Definition sse_shrink (D : list N) (s : ssegd) : ssegd :=
  mkSsegd (sd_index s) (shrink_count D (sd_index s) (sd_num s)).

Section SseRefit.
  Variable D : list N.                      (* deletedTris: strictly descending *)
  Hypothesis Hdesc : StronglySorted (fun a b => b < a) D.
  Hypothesis Hnd : NoDup D.

  Lemma refit_sse : forall pos segs e, sse_tile pos segs e -> forall q, q <= pos -> 3 * e < 4294967296 ->
    sse_tile q (layout_sse (3 * q) (map (sse_shrink D) segs)) (q + ((e - pos) - count_in D pos e)).
  Proof.
    induction 1 as [p|p s r e Hs Hr IH]; intros q Hq He.
    - cbn [map layout_sse]. replace (q + (p - p - count_in D p p)) with q by lia. constructor.
    - pose proof (sse_tile_le _ _ _ Hr) as Hle.
      cbn [map layout_sse]. unfold sse_shrink at 1 2. cbn [sd_num sd_index].
      assert (Hn : shrink_count D (sd_index s) (sd_num s) = sd_num s - count_in D p (p + sd_num s)).
      { rewrite Hs. apply shrink_count_tile; [exact Hdesc|lia|lia]. }
      pose proof (count_in_bound D p (p + sd_num s) Hnd) as Hb1.
      pose proof (count_in_bound D (p + sd_num s) e Hnd) as Hb2.
      pose proof (count_in_split D p (p + sd_num s) e ltac:(lia) Hle) as Hsp.
      set (n' := shrink_count D (sd_index s) (sd_num s)) in *.
      constructor.
      + reflexivity.
      + cbn [sd_num]. rewrite wrap32_small by lia.
        replace (3 * q + n' * 3) with (3 * (q + n')) by lia.
        replace (q + (e - p - count_in D p e)) with (q + n' + (e - (p + sd_num s) - count_in D (p + sd_num s) e)) by lia.
        apply IH; [lia|exact He].
  Qed.
End SseRefit.

(* the statement for a deletion: a table that tiles the triangle list still tiles the new triangle
   list after the re-fit (every range has lost exactly the dropped triangles inside it) *)
Theorem sse_refit_keeps_ranges idx tris segs :
  sse_tile 0 segs (vlen tris) -> 3 * vlen tris < 4294967296 ->
  sse_tile 0 (sse_refit_spec (rev (del_pos idx tris)) segs) (vlen (tris_spec idx tris)).
Proof.
  intros Ht Hb. set (D := rev (del_pos idx tris)).
  assert (Hsd : sorted_lt (del_pos idx tris)) by apply del_pos_from_sorted.
  assert (Hdesc : StronglySorted (fun a b => b < a) D) by (apply rev_sorted_desc; exact Hsd).
  assert (Hnd : NoDup D) by (apply NoDup_rev; apply sorted_lt_nodup; exact Hsd).
  pose proof (refit_sse D Hdesc Hnd 0 segs (vlen tris) Ht 0 ltac:(lia) Hb) as H.
  assert (Hcnt : count_in D 0 (vlen tris) = vlen D).
  { apply count_in_all. apply Forall_rev. pose proof (del_pos_from_lt idx tris 0) as Hlt.
    rewrite N.add_0_l in Hlt. exact Hlt. }
  assert (Hlen : vlen (tris_spec idx tris) = vlen tris - vlen D).
  { pose proof (del_pos_count idx tris 0) as Hc. unfold D, vlen. rewrite rev_length. unfold del_pos. lia. }
  rewrite Hcnt, N.sub_0_r, N.add_0_l, <- Hlen in H.
  unfold sse_refit_spec, layout_sse_all. destruct segs as [|s r]; [exact H|].
  cbn [map]. cbn [map] in H. cbn [sd_index].
  assert (Hs0 : sd_index s = 3 * 0) by (inversion Ht; assumption).
  unfold sse_shrink in H. rewrite Hs0 in H |- *. exact H.
Qed.

(* through DeleteVertsForShape's BSSubIndexTriShape branch *)
Theorem bs_sits_delete_sse_ranges b idx :
  sorted_lt idx -> bs_kind b = BSSubIndex -> bs_core_wf b = true -> seg_tables_wf b = true ->
  sse_tile 0 (bs_sse b) (bs_nt b) -> 3 * bs_nt b < 4294967296 ->
  exists b', bs_delete b idx = Ok b' /\
    bs_tris b' = tris_spec idx (bs_tris b) /\ bs_nt b' = vlen (bs_tris b') /\
    bs_ssen b' = vlen (bs_sse b') /\
    sse_tile 0 (bs_sse b') (bs_nt b') /\
    Forall (fun s => sd_index s mod 3 = 0 /\ sd_index s / 3 + sd_num s <= bs_nt b') (bs_sse b').
Proof.
  intros Hs Hk Hwf Hseg Htile Hb.
  exists (bs_sits_spec b idx). split; [apply bs_sits_delete_ok; assumption|].
  pose proof (bs_sits_spec_tables b idx Hseg) as Hseg'.
  unfold bs_core_wf in Hwf. repeat (apply andb_prop in Hwf; destruct Hwf as [Hwf ?]).
  apply N.eqb_eq in H2.
  assert (Ht' : sse_tile 0 (bs_sse (bs_sits_spec b idx)) (bs_nt (bs_sits_spec b idx))).
  { unfold bs_sits_spec, bs_set_segs, bs_base_spec. cbn [bs_tris bs_nt bs_sse bs_deleted].
    apply sse_refit_keeps_ranges; rewrite <- H2; assumption. }
  split; [reflexivity|]. split; [reflexivity|].
  split.
  - unfold seg_tables_wf in Hseg'. apply andb_prop in Hseg'. destruct Hseg' as [_ Hn3]. apply N.eqb_eq in Hn3. exact Hn3.
  - split; [exact Ht'|].
    eapply Forall_impl; [|apply (sse_tile_in_range _ _ _ Ht')]. cbn beta. intros a (H1' & _ & H3'). split; assumption.
Qed.

(* ---- without the tiling hypothesis the code does NOT keep the ranges inside the triangle list.
   Witness: six triangles on 18 vertices, ONE segment covering triangles 2..5 (index 6, numTris 4:
   inside the triangle list, but not starting at 0); deleting vertex 0 drops triangle 0, the segment
   keeps index 6 and numTris 4, i.e. triangles 2..5 of a list that now has only 5. *)
Definition sse_w_tris : list tri := [(0,1,2); (3,4,5); (6,7,8); (9,10,11); (12,13,14); (15,16,17)].
Definition sse_w_shape (sse : list ssegd) : bsshape :=
  mkBs BSSubIndex 18 (nseq 18) 6 sse_w_tris [] [] 0 0 0 0
       (mkSegmentation 0 0 0 [] 0 0 [] [] 0) (vlen sse) sse.

Definition sse_in_range (nt : N) (segs : list ssegd) : bool :=
  forallb (fun s => (sd_index s mod 3 =? 0) && (sd_index s / 3 + sd_num s <=? nt)) segs.

Theorem sse_refit_ranges_refuted :
  exists b idx b',
    sorted_lt idx /\ bs_kind b = BSSubIndex /\ bs_core_wf b = true /\ seg_tables_wf b = true /\
    3 * bs_nt b < 4294967296 /\
    sse_in_range (bs_nt b) (bs_sse b) = true /\            (* every segment inside the triangle list *)
    bs_delete b idx = Ok b' /\
    bs_nt b' = 5 /\ bs_sse b' = [mkSsegd 6 4] /\
    sse_in_range (bs_nt b') (bs_sse b') = false.           (* ... but not afterwards *)
Proof.
  exists (sse_w_shape [mkSsegd 6 4]), [0], (bs_sits_spec (sse_w_shape [mkSsegd 6 4]) [0]).
  split; [repeat constructor|].
  split; [reflexivity|]. split; [reflexivity|]. split; [reflexivity|].
  split; [reflexivity|]. split; [reflexivity|].
  split; [vm_compute; reflexivity|].
  split; [vm_compute; reflexivity|]. split; vm_compute; reflexivity.
Qed.

(* second witness: two overlapping segments (triangles 0..3 and 2..5), each inside the list;
   deleting vertex 9 (triangle 3, counted by both) leaves 0..2 and 3..5 of a 5-triangle list *)
Theorem sse_refit_overlap_refuted :
  exists b idx b',
    sorted_lt idx /\ bs_core_wf b = true /\ seg_tables_wf b = true /\
    sse_in_range (bs_nt b) (bs_sse b) = true /\
    bs_delete b idx = Ok b' /\
    bs_nt b' = 5 /\ bs_sse b' = [mkSsegd 0 3; mkSsegd 9 3] /\
    sse_in_range (bs_nt b') (bs_sse b') = false.
Proof.
  exists (sse_w_shape [mkSsegd 0 4; mkSsegd 6 4]), [9], (bs_sits_spec (sse_w_shape [mkSsegd 0 4; mkSsegd 6 4]) [9]).
  split; [repeat constructor|].
  split; [reflexivity|]. split; [reflexivity|]. split; [reflexivity|].
  split; [vm_compute; reflexivity|].
  split; [vm_compute; reflexivity|]. split; vm_compute; reflexivity.
Qed.

(* a tiling instance for the hypotheses of the positive theorem: 0..1 | 2..3 | 4..5 *)
Example sse_tile_example : sse_tile 0 [mkSsegd 0 2; mkSsegd 6 2; mkSsegd 12 2] 6.
Proof. repeat (constructor; [reflexivity|]). constructor. Qed.
