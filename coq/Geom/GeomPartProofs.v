(* NiSkinPartition::notifyVerticesDelete on prepared partitions (no strips, vertex map and
   triangle list present): vertex map, per-vertex weights / bone indices and triangles of every
   partition are exactly those of the surviving vertices, re-indexed; all indices stay in range. *)
From NiflyVerif Require Import Res UtilModel UtilSpec CompactProofs EraseProofs FillProofs
  GeomModel GeomBase GeomSpec GeomProofs GeomSkinProofs.
From Coq Require Import ZifyBool ZifyNat ZifyN Sorted Permutation.
Local Open Scope N_scope.

(* positions (counted from i) of the vertex-map entries that are listed in idx *)
Fixpoint dlpos (idx : list N) (i : N) (vm : list N) : list N :=
  match vm with
  | [] => []
  | v :: r => if memN v idx then i :: dlpos idx (i + 1) r else dlpos idx (i + 1) r
  end.

Lemma dlpos_ge idx : forall vm i, Forall (fun k => i <= k) (dlpos idx i vm).
Proof.
  induction vm as [|v r IH]; intros i; cbn [dlpos]; [constructor|].
  destruct (memN v idx).
  - constructor; [lia|]. eapply Forall_impl; [|apply IH]. cbn; intros; lia.
  - eapply Forall_impl; [|apply IH]. cbn; intros; lia.
Qed.

Lemma dlpos_sorted idx : forall vm i, sorted_lt (dlpos idx i vm).
Proof.
  induction vm as [|v r IH]; intros i; cbn [dlpos]; [constructor|].
  destruct (memN v idx); [|apply IH].
  constructor; [apply IH|]. eapply Forall_impl; [|apply dlpos_ge]. cbn; intros; lia.
Qed.

Lemma dlpos_lt idx : forall vm i, Forall (fun k => k < i + vlen vm) (dlpos idx i vm).
Proof.
  induction vm as [|v r IH]; intros i; cbn [dlpos]; [constructor|].
  assert (Hl : i + 1 + vlen r = i + vlen (v :: r)) by (unfold vlen; cbn [length]; lia).
  destruct (memN v idx).
  - constructor; [unfold vlen; cbn [length]; lia|]. rewrite <- Hl. apply IH.
  - rewrite <- Hl. apply IH.
Qed.

Lemma vmap_dellist_ok idx n : forall vm i, Forall (fun v => v < n) vm ->
  vmap_dellist (collapse_spec idx n) vm i = Ok (dlpos idx i vm).
Proof.
  induction vm as [|v r IH]; intros i Hall; [reflexivity|]. inversion Hall; subst.
  cbn [vmap_dellist dlpos]. rewrite collapse_spec_vget by assumption. rewrite IH by assumption. cbn [bind].
  destruct (memN v idx); [reflexivity|].
  destruct (Z.eqb_spec (Z.of_N (rank idx v)) (-1)); [lia|reflexivity].
Qed.

Lemma erase_from_drop_small {A} : forall (v : list A) pos k l, k < pos ->
  erase_from pos v (k :: l) = erase_from pos v l.
Proof.
  induction v as [|x v IH]; intros pos k l Hk; [reflexivity|]. cbn [erase_from].
  rewrite memN_cons. destruct (N.eqb_spec pos k); [lia|]. cbn [orb].
  rewrite IH by lia. reflexivity.
Qed.

Lemma memN_dlpos_head idx i r : memN i (dlpos idx (i + 1) r) = false.
Proof.
  apply memN_false_iff. eapply Forall_impl; [|apply dlpos_ge]. cbn; intros; lia.
Qed.

(* erasing the listed positions keeps exactly the partner entries of surviving vertices *)
Lemma erase_from_dlpos {A} idx : forall (vm : list N) (w : list A) i, length w = length vm ->
  erase_from i w (dlpos idx i vm) = map snd (filter (fun x => survives idx (fst x)) (combine vm w)).
Proof.
  induction vm as [|v r IH]; intros [|x w] i Hl; cbn [length] in Hl; try discriminate; [reflexivity|].
  cbn [dlpos combine filter erase_from fst]. unfold survives at 1.
  destruct (memN v idx) eqn:Hm; cbn [negb].
  - rewrite memN_cons, N.eqb_refl. cbn [orb]. rewrite erase_from_drop_small by lia. apply IH. lia.
  - rewrite memN_dlpos_head. cbn [map snd]. f_equal. apply IH. lia.
Qed.

Lemma erase_spec_dlpos_self idx (vm : list N) :
  erase_spec vm (dlpos idx 0 vm) = filter (survives idx) vm.
Proof.
  unfold erase_spec. rewrite erase_from_dlpos by reflexivity.
  induction vm as [|v r IH]; [reflexivity|]. cbn [combine filter fst]. destruct (survives idx v); cbn [map snd]; rewrite IH; reflexivity.
Qed.

Definition keep_partner {A} (idx : list N) (vm : list N) (w : list A) : list A :=
  map snd (filter (fun x => survives idx (fst x)) (combine vm w)).

Lemma keep_partner_length {A} idx (vm : list N) (w : list A) : length w = length vm ->
  length (keep_partner idx vm w) = length (filter (survives idx) vm).
Proof.
  unfold keep_partner. revert w. induction vm as [|v r IH]; intros [|x w] Hl; cbn [length] in Hl; try discriminate; [reflexivity|].
  cbn [combine filter fst]. destruct (survives idx v); cbn [map length]; rewrite IH by lia; reflexivity.
Qed.

(* ---------------------------------------------------------------------------------------- *)
(* one partition *)

Definition tri_in (vm : list N) (t : tri) : bool :=
  let '(a, b, c) := t in memN a vm && memN b vm && memN c vm.

(* prepared partition of a shape with nv vertices *)
Definition part_wf (nv : N) (mapped : bool) (p : part) : bool :=
  (p_nstrips p =? 0) && isnil (p_strips p)
  && (p_nv p =? vlen (p_vmap p)) && (vlen (p_vmap p) <? 65536) && forallb (fun v => v <? nv) (p_vmap p)
  && negb (isnil (p_vmap p)) && negb (isnil (p_tris p))
  && (if p_hasvw p then vlen (p_vw p) =? vlen (p_vmap p) else true)
  && (if p_hasbi p then vlen (p_bi p) =? vlen (p_vmap p) else true)
  && (p_nt p =? vlen (p_tris p)) && (vlen (p_tris p) <? 65536)
  && (if mapped then forallb (tri_lt (vlen (p_vmap p))) (p_tris p)
      else forallb (tri_lt nv) (p_tris p) && forallb (tri_in (p_vmap p)) (p_tris p)).

Definition part_spec (idx : list N) (mapped : bool) (p : part) : part :=
  let dl := dlpos idx 0 (p_vmap p) in
  let vm' := map (rank idx) (filter (survives idx) (p_vmap p)) in
  let t' := if mapped then tris_spec dl (p_tris p) else tris_spec idx (p_tris p) in
  mkPart (vlen vm') (vlen t') (p_nstrips p) vm'
         (p_hasvw p) (if p_hasvw p then keep_partner idx (p_vmap p) (p_vw p) else p_vw p)
         (p_hasbi p) (if p_hasbi p then keep_partner idx (p_vmap p) (p_bi p) else p_bi p)
         (p_slens p) (p_hasfaces p) (p_strips p) t' (if mapped then [] else t').

Lemma erase32_ok {A} (d : A) (v : list A) dl : sorted_lt dl -> vlen v < 4294967296 ->
  erase_model 32 d v dl = Ok (erase_spec v dl).
Proof. intros Hs Hv. apply erase_correct; [exact Hs|]. rewrite pow32. exact Hv. Qed.

Lemma filter_length_le'' {A} (f : A -> bool) l : vlen (filter f l) <= vlen l.
Proof. unfold vlen. pose proof (filter_length_le' f l). lia. Qed.

Theorem part_delete_ok idx n nv mapped p :
  sorted_lt idx -> n <= 65536 ->
  Forall (fun v => v < n) (p_vmap p) ->
  (mapped = false -> forallb (tri_lt n) (p_tris p) = true) ->
  part_wf nv mapped p = true ->
  part_delete mapped (collapse_spec idx n) p = Ok (part_spec idx mapped p).
Proof.
  intros Hs Hn Hvm Htn Hwf. unfold part_wf in Hwf.
  repeat (apply andb_prop in Hwf; destruct Hwf as [Hwf ?]).
  apply N.ltb_lt in H0, H7. apply N.eqb_eq in H1.
  unfold part_delete, part_spec.
  rewrite vmap_dellist_ok by exact Hvm. cbn [bind].
  pose proof (dlpos_sorted idx (p_vmap p) 0) as Hds.
  rewrite erase32_ok by (assumption || lia). cbn [bind].
  rewrite erase_spec_dlpos_self.
  (* weights and bone indices *)
  assert (Hvw : (if p_hasvw p then erase_model 32 0 (p_vw p) (dlpos idx 0 (p_vmap p)) else Ok (p_vw p)) =
                Ok (if p_hasvw p then keep_partner idx (p_vmap p) (p_vw p) else p_vw p)).
  { destruct (p_hasvw p); [|reflexivity]. apply N.eqb_eq in H3.
    rewrite erase32_ok by (assumption || lia). unfold erase_spec, keep_partner.
    rewrite erase_from_dlpos; [reflexivity|]. unfold vlen in H3. lia. }
  assert (Hbi : (if p_hasbi p then erase_model 32 0 (p_bi p) (dlpos idx 0 (p_vmap p)) else Ok (p_bi p)) =
                Ok (if p_hasbi p then keep_partner idx (p_vmap p) (p_bi p) else p_bi p)).
  { destruct (p_hasbi p); [|reflexivity]. apply N.eqb_eq in H2.
    rewrite erase32_ok by (assumption || lia). unfold erase_spec, keep_partner.
    rewrite erase_from_dlpos; [reflexivity|]. unfold vlen in H2. lia. }
  rewrite Hvw, Hbi. cbn [bind].
  (* the composed vertex map *)
  rewrite (mapM_ok _ (rank idx)).
  2:{ apply Forall_forall. intros v Hv. apply filter_In in Hv. destruct Hv as [Hv Hsv].
      rewrite Forall_forall in Hvm. rewrite collapse_spec_vget by (apply Hvm; exact Hv).
      unfold survives in Hsv. apply negb_true_iff in Hsv. rewrite Hsv.
      pose proof (rank_le idx v). specialize (Hvm v Hv). rewrite wrap16Z_small by lia. reflexivity. }
  cbn [bind].
  pose proof (filter_length_le'' (survives idx) (p_vmap p)) as Hfl.
  assert (Hvl : vlen (map (rank idx) (filter (survives idx) (p_vmap p))) = vlen (filter (survives idx) (p_vmap p)))
    by (unfold vlen; rewrite map_length; reflexivity).
  rewrite (wrap16_small (vlen (filter (survives idx) (p_vmap p)))) by lia.
  destruct mapped; cbn [negb].
  - rewrite collapse_sz_ok by (try apply dlpos_sorted; lia). cbn [bind].
    rewrite apply_map_tris_correct by (rewrite ?pow31; lia). cbn [bind].
    rewrite apply_map_spec_collapse by (assumption || lia). cbn [fst].
    pose proof (tris_spec_length (dlpos idx 0 (p_vmap p)) (p_tris p)).
    rewrite wrap16_small by (unfold vlen in *; lia). rewrite Hvl. reflexivity.
  - rewrite apply_map_tris_correct by (rewrite ?pow31; lia). cbn [bind].
    rewrite apply_map_spec_collapse by (try apply Htn; reflexivity || lia). cbn [fst].
    pose proof (tris_spec_length idx (p_tris p)).
    rewrite wrap16_small by (unfold vlen in *; lia). rewrite Hvl. reflexivity.
Qed.

(* ---------------------------------------------------------------------------------------- *)
(* the result is a prepared partition again, unless it lost all its triangles (then
   RemoveEmptyPartitions drops it) *)

Lemma memN_map_rank idx a vm : memN a vm = true -> survives idx a = true ->
  memN (rank idx a) (map (rank idx) (filter (survives idx) vm)) = true.
Proof.
  intros Hin Hsv. apply memN_true_iff. apply in_map. apply filter_In. split; [|exact Hsv].
  apply memN_true_iff. exact Hin.
Qed.

Lemma tris_spec_in idx vm tris : forallb (tri_in vm) tris = true ->
  forallb (tri_in (map (rank idx) (filter (survives idx) vm))) (tris_spec idx tris) = true.
Proof.
  unfold tris_spec. induction tris as [|[[a b] c] tris IH]; intros Hall; [reflexivity|].
  cbn [forallb] in Hall. apply andb_prop in Hall. destruct Hall as [Ht Hall].
  cbn [filter]. destruct (tri_survives idx (a, b, c)) eqn:Hs; [|apply IH; exact Hall].
  cbn [map forallb]. rewrite IH by exact Hall. rewrite andb_true_r.
  unfold tri_in in *. unfold tri_survives in Hs.
  repeat (apply andb_prop in Hs; destruct Hs as [Hs ?]).
  repeat (apply andb_prop in Ht; destruct Ht as [Ht ?]).
  cbn [remap_tri]. rewrite !memN_map_rank by assumption. reflexivity.
Qed.

Lemma nonempty_tri_lt n (t : tri) tris : forallb (tri_lt n) (t :: tris) = true -> 0 < n.
Proof.
  cbn [forallb]. destruct t as [[a b] c]. unfold tri_lt. intros H.
  repeat (apply andb_prop in H; destruct H as [H ?]). apply N.ltb_lt in H. lia.
Qed.

Theorem part_spec_wf idx nv mapped p : part_wf nv mapped p = true ->
  p_nt (part_spec idx mapped p) <> 0 -> part_wf (rank idx nv) mapped (part_spec idx mapped p) = true.
Proof.
  intros Hwf Hnt. unfold part_wf in Hwf.
  repeat (apply andb_prop in Hwf; destruct Hwf as [Hwf ?]).
  apply N.ltb_lt in H0, H7.
  set (vm' := map (rank idx) (filter (survives idx) (p_vmap p))).
  assert (Hvl : vlen vm' = vlen (filter (survives idx) (p_vmap p))) by (unfold vm', vlen; rewrite map_length; reflexivity).
  pose proof (filter_length_le'' (survives idx) (p_vmap p)) as Hfl.
  assert (Hent : forallb (fun v => v <? rank idx nv) vm' = true).
  { apply forallb_forall. intros y Hy. apply in_map_iff in Hy. destruct Hy as (v & <- & Hv).
    apply filter_In in Hv. destruct Hv as [Hv Hsv]. rewrite forallb_forall in H6. specialize (H6 v Hv).
    apply N.ltb_lt in H6. apply N.ltb_lt. apply rank_lt; [exact H6|].
    unfold survives in Hsv. apply negb_true_iff in Hsv. exact Hsv. }
  unfold part_spec in Hnt. unfold part_spec. cbn [p_nt] in Hnt. fold vm'.
  unfold part_wf. cbn [p_nstrips p_strips p_nv p_vmap p_tris p_hasvw p_vw p_hasbi p_bi p_nt].
  rewrite Hwf, H9. rewrite !N.eqb_refl. rewrite Hent.
  assert (Hvm65 : vlen vm' < 65536) by (clear -Hvl Hfl H7; lia).
  destruct (N.ltb_spec (vlen vm') 65536) as [_|Hc]; [|clear -Hc Hvm65; lia]. cbn [andb].
  (* partner arrays *)
  assert (Hvw : (if p_hasvw p then vlen (if p_hasvw p then keep_partner idx (p_vmap p) (p_vw p) else p_vw p) =? vlen vm' else true) = true).
  { destruct (p_hasvw p); [|reflexivity]. apply N.eqb_eq in H3. apply N.eqb_eq. rewrite Hvl. unfold vlen.
    rewrite keep_partner_length; [reflexivity|]. unfold vlen in H3. lia. }
  assert (Hbi : (if p_hasbi p then vlen (if p_hasbi p then keep_partner idx (p_vmap p) (p_bi p) else p_bi p) =? vlen vm' else true) = true).
  { destruct (p_hasbi p); [|reflexivity]. apply N.eqb_eq in H2. apply N.eqb_eq. rewrite Hvl. unfold vlen.
    rewrite keep_partner_length; [reflexivity|]. unfold vlen in H2. lia. }
  rewrite Hvw, Hbi.
  destruct mapped.
  - set (t' := tris_spec (dlpos idx 0 (p_vmap p)) (p_tris p)) in *.
    pose proof (tris_spec_length (dlpos idx 0 (p_vmap p)) (p_tris p)) as Htl. fold t' in Htl.
    destruct (N.ltb_spec (vlen t') 65536) as [_|Hc]; [|clear -Hc Htl H0; unfold vlen in *; lia].
    assert (Hlt : forallb (tri_lt (vlen vm')) t' = true).
    { rewrite Hvl. rewrite <- erase_spec_dlpos_self. rewrite erase_spec_vlen. apply tris_spec_lt. exact H. }
    rewrite Hlt. destruct t' as [|t0 t''] eqn:Ht'; [cbn in Hnt; congruence|].
    pose proof (nonempty_tri_lt _ _ _ Hlt) as Hpos.
    destruct vm' as [|v0 vm'']; [clear -Hpos; cbn in Hpos; lia|]. reflexivity.
  - apply andb_prop in H. destruct H as [Hlt Hin].
    set (t' := tris_spec idx (p_tris p)) in *.
    pose proof (tris_spec_length idx (p_tris p)) as Htl. fold t' in Htl.
    destruct (N.ltb_spec (vlen t') 65536) as [_|Hc]; [|clear -Hc Htl H0; unfold vlen in *; lia].
    assert (Hlt' : forallb (tri_lt (rank idx nv)) t' = true) by (apply tris_spec_lt; exact Hlt).
    assert (Hin' : forallb (tri_in vm') t' = true) by (apply tris_spec_in; exact Hin).
    rewrite Hlt', Hin'. destruct t' as [|t0 t''] eqn:Ht'; [cbn in Hnt; congruence|].
    destruct vm' as [|v0 vm'']; [|reflexivity].
    cbn [forallb] in Hin'. destruct t0 as [[a b0] c]. cbn in Hin'. discriminate.
Qed.

(* ---------------------------------------------------------------------------------------- *)
(* the whole NiSkinPartition block *)

Lemma fold_max_ge_init l : forall m, m <= fold_left N.max l m.
Proof. induction l as [|x l IH]; intros m; cbn [fold_left]; [lia|]. specialize (IH (N.max m x)). lia. Qed.

Lemma fold_max_ge_elem l : forall m x, In x l -> x <= fold_left N.max l m.
Proof.
  induction l as [|y l IH]; intros m x Hin; [contradiction|]. cbn [fold_left]. destruct Hin as [->|Hin].
  - pose proof (fold_max_ge_init l (N.max m x)). lia.
  - apply IH. exact Hin.
Qed.

Lemma fold_max_le l b : forall m, m <= b -> Forall (fun x => x <= b) l -> fold_left N.max l m <= b.
Proof.
  induction l as [|y l IH]; intros m Hm Hall; cbn [fold_left]; [exact Hm|]. inversion Hall; subst.
  apply IH; [lia|assumption].
Qed.

Definition tri_le (b : N) (t : tri) : Prop := let '(p1, p2, p3) := t in p1 <= b /\ p2 <= b /\ p3 <= b.

Lemma max_tri_fold_ge_init l : forall m,
  m <= fold_left (fun m t => let '(p1, p2, p3) := t in N.max (N.max (N.max m p1) p2) p3) l m.
Proof.
  induction l as [|[[a b] c] l IH]; intros m; cbn [fold_left]; [lia|].
  specialize (IH (N.max (N.max (N.max m a) b) c)). lia.
Qed.

Lemma max_tri_fold_ge l : forall m t, In t l ->
  tri_le (fold_left (fun m t => let '(p1, p2, p3) := t in N.max (N.max (N.max m p1) p2) p3) l m) t.
Proof.
  induction l as [|[[a b] c] l IH]; intros m t Hin; [contradiction|]. cbn [fold_left]. destruct Hin as [<-|Hin].
  - pose proof (max_tri_fold_ge_init l (N.max (N.max (N.max m a) b) c)). unfold tri_le. lia.
  - apply IH. exact Hin.
Qed.

Lemma max_tri_fold_le l b : forall m, m <= b -> Forall (tri_le b) l ->
  fold_left (fun m t => let '(p1, p2, p3) := t in N.max (N.max (N.max m p1) p2) p3) l m <= b.
Proof.
  induction l as [|[[a c] d] l IH]; intros m Hm Hall; cbn [fold_left]; [exact Hm|]. inversion Hall as [|? ? Ht Hall']; subst.
  unfold tri_le in Ht. apply IH; [lia|assumption].
Qed.

Definition part_max (mapped : bool) (m : N) (p : part) : N :=
  let m1 := fold_left N.max (p_vmap p) m in
  if negb mapped then N.max m1 (max_tri_index (p_tris p)) else m1.

Lemma sp_max_vert_fold mapped parts : sp_max_vert mapped parts = fold_left (part_max mapped) parts 0.
Proof. reflexivity. Qed.

Lemma part_max_ge mapped m p : m <= part_max mapped m p.
Proof. unfold part_max. pose proof (fold_max_ge_init (p_vmap p) m). destruct (negb mapped); lia. Qed.

Lemma fold_part_max_ge_init mapped parts : forall m, m <= fold_left (part_max mapped) parts m.
Proof.
  induction parts as [|p r IH]; intros m; cbn [fold_left]; [lia|].
  pose proof (part_max_ge mapped m p). specialize (IH (part_max mapped m p)). lia.
Qed.

Lemma part_max_ge_vm mapped m p v : In v (p_vmap p) -> v <= part_max mapped m p.
Proof. intros Hv. unfold part_max. pose proof (fold_max_ge_elem (p_vmap p) m v Hv). destruct (negb mapped); lia. Qed.

Lemma part_max_ge_tri m p t : In t (p_tris p) -> tri_le (part_max false m p) t.
Proof.
  intros Ht. unfold part_max. cbn [negb]. pose proof (max_tri_fold_ge (p_tris p) 0 t Ht) as Hle.
  unfold max_tri_index. destruct t as [[a b] c]. unfold tri_le in *. lia.
Qed.

Lemma fold_part_max_ge mapped parts : forall m p, In p parts ->
  Forall (fun v => v <= fold_left (part_max mapped) parts m) (p_vmap p) /\
  (mapped = false -> Forall (tri_le (fold_left (part_max mapped) parts m)) (p_tris p)).
Proof.
  induction parts as [|q r IH]; intros m p Hin; [contradiction|]. cbn [fold_left]. destruct Hin as [<-|Hin].
  - pose proof (fold_part_max_ge_init mapped r (part_max mapped m q)) as Hge.
    split.
    + apply Forall_forall. intros v Hv. pose proof (part_max_ge_vm mapped m q v Hv). lia.
    + intros ->. apply Forall_forall. intros t Ht.
      pose proof (part_max_ge_tri m q t Ht) as Hle. destruct t as [[a b] c]. unfold tri_le in *. lia.
  - apply IH. exact Hin.
Qed.

Lemma fold_part_max_le mapped b parts : forall m, m <= b ->
  Forall (fun p => Forall (fun v => v <= b) (p_vmap p) /\ (mapped = false -> Forall (tri_le b) (p_tris p))) parts ->
  fold_left (part_max mapped) parts m <= b.
Proof.
  induction parts as [|p r IH]; intros m Hm Hall; cbn [fold_left]; [exact Hm|]. inversion Hall as [|? ? [Hv Ht] Hall']; subst.
  apply IH; [|assumption]. unfold part_max.
  pose proof (fold_max_le (p_vmap p) b m Hm Hv).
  destruct mapped; cbn [negb]; [assumption|].
  pose proof (max_tri_fold_le (p_tris p) b 0 ltac:(lia) (Ht eq_refl)). unfold max_tri_index. lia.
Qed.

Definition skinpart_wf (nv : N) (sp : skinpart) : bool :=
  (sp_np sp =? vlen (sp_parts sp)) && (vlen (sp_parts sp) <? 4294967296) && (nv <? 65536)
  && forallb (part_wf nv (sp_mapped sp)) (sp_parts sp)
  && (isnil (sp_vdata sp) || ((vlen (sp_vdata sp) =? nv) && (sp_nv sp =? nv))).

Definition nonempty_part (p : part) : bool := negb (p_nt p =? 0).

Definition skinpart_spec (idx : list N) (sp : skinpart) : skinpart :=
  let parts2 := filter nonempty_part (map (part_spec idx (sp_mapped sp)) (sp_parts sp)) in
  let vd := erase_spec (sp_vdata sp) idx in
  mkSkinpart (vlen parts2) (if isnil (sp_vdata sp) then sp_nv sp else vlen vd) vd parts2 (sp_mapped sp) [].

Lemma part_wf_prepared nv mapped p : part_wf nv mapped p = true ->
  part_convert_strips p = Ok p /\ part_prepare mapped p = Ok p.
Proof.
  intros Hwf. unfold part_wf in Hwf. repeat (apply andb_prop in Hwf; destruct Hwf as [Hwf ?]).
  split.
  - unfold part_convert_strips. rewrite Hwf. reflexivity.
  - unfold part_prepare. destruct (p_vmap p); [discriminate|]. cbn [isnil]. destruct (p_tris p); [discriminate|]. reflexivity.
Qed.

Lemma tri_lt_le b t : tri_lt (b + 1) t = true <-> tri_le b t.
Proof.
  destruct t as [[a c] d]. unfold tri_lt, tri_le. rewrite !andb_true_iff, !N.ltb_lt. lia.
Qed.

Lemma part_wf_bounds nv mapped p : part_wf nv mapped p = true ->
  Forall (fun v => v < nv) (p_vmap p) /\ (mapped = false -> forallb (tri_lt nv) (p_tris p) = true).
Proof.
  intros Hwf. unfold part_wf in Hwf. repeat (apply andb_prop in Hwf; destruct Hwf as [Hwf ?]).
  split.
  - apply Forall_forall. intros v Hv. rewrite forallb_forall in H6. specialize (H6 v Hv). apply N.ltb_lt. exact H6.
  - intros ->. apply andb_prop in H. tauto.
Qed.

Theorem skinpart_delete_ok idx nv sp : idx <> [] -> sorted_lt idx -> skinpart_wf nv sp = true ->
  skinpart_delete sp idx =
  Ok (mkSkinpart (sp_np sp) (if isnil (sp_vdata sp) then sp_nv sp else vlen (erase_spec (sp_vdata sp) idx))
                 (erase_spec (sp_vdata sp) idx)
                 (map (part_spec idx (sp_mapped sp)) (sp_parts sp)) (sp_mapped sp) []).
Proof.
  intros Hne Hs Hwf. unfold skinpart_wf in Hwf.
  repeat (apply andb_prop in Hwf; destruct Hwf as [Hwf ?]).
  apply N.ltb_lt in H1, H2. rename H0 into Hparts. rename H into Hvd.
  unfold skinpart_delete. destruct idx as [|i0 idx']; [congruence|]. set (idx := i0 :: idx') in *.
  assert (Hprep : Forall (fun p => part_convert_strips p = Ok p /\ part_prepare (sp_mapped sp) p = Ok p) (sp_parts sp)).
  { apply Forall_forall. intros p Hp. rewrite forallb_forall in Hparts. apply (part_wf_prepared nv). apply Hparts. exact Hp. }
  rewrite (mapM_ok _ (fun p => p)) by (eapply Forall_impl; [|exact Hprep]; cbn; tauto). rewrite map_id. cbn [bind].
  rewrite (mapM_ok _ (fun p => p)) by (eapply Forall_impl; [|exact Hprep]; cbn; tauto). rewrite map_id. cbn [bind].
  rewrite sp_max_vert_fold. set (mx := fold_left (part_max (sp_mapped sp)) (sp_parts sp) 0).
  assert (Hmx : mx < 65535).
  { assert (mx <= 65534); [|lia]. apply fold_part_max_le; [lia|].
    apply Forall_forall. intros p Hp. rewrite forallb_forall in Hparts.
    destruct (part_wf_bounds nv _ p (Hparts p Hp)) as [Hb Ht].
    split; [eapply Forall_impl; [|exact Hb]; cbn; intros; lia|].
    intros Hm. specialize (Ht Hm). apply Forall_forall. intros t Ht'. rewrite forallb_forall in Ht.
    specialize (Ht t Ht'). destruct t as [[a b] c]. unfold tri_lt in Ht. unfold tri_le.
    repeat (apply andb_prop in Ht; destruct Ht as [Ht ?]). apply N.ltb_lt in Ht, H, H0. lia. }
  rewrite wrap16_small by lia. rewrite collapse_u16_ok by (assumption || lia). cbn [bind].
  rewrite (mapM_ok _ (part_spec idx (sp_mapped sp))).
  2:{ apply Forall_forall. intros p Hp. rewrite forallb_forall in Hparts.
      destruct (fold_part_max_ge (sp_mapped sp) (sp_parts sp) 0 p Hp) as [Hv Ht]. fold mx in Hv, Ht.
      apply (part_delete_ok idx (mx + 1) nv); try assumption; try lia; try (apply Hparts; exact Hp).
      - eapply Forall_impl; [|exact Hv]. cbn; intros; lia.
      - intros Hm. specialize (Ht Hm). apply forallb_forall. intros t Ht'. rewrite Forall_forall in Ht.
        apply tri_lt_le. apply Ht. exact Ht'. }
  cbn [bind].
  destruct (sp_vdata sp) as [|v0 vd] eqn:Hvdata; cbn [isnil].
  - reflexivity.
  - cbn [isnil orb] in Hvd. apply andb_prop in Hvd. destruct Hvd as [Hv1 Hv2]. apply N.eqb_eq in Hv1.
    rewrite erase16_ok by (assumption || lia). cbn [bind].
    pose proof (erase_spec_le (v0 :: vd) idx). rewrite wrap32_small by lia. reflexivity.
Qed.
