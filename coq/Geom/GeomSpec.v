(* What vertex deletion is supposed to do, stated without loops, counters or maps, and the
   well-formedness predicates (boolean, so they can be evaluated on a concrete shape). *)
From NiflyVerif Require Import Res UtilModel UtilSpec EraseProofs GeomModel GeomBase.
Local Open Scope N_scope.

(* a per-vertex array is either absent or has one element per vertex *)
Definition attr_ok (nv : N) (a : list tok) : bool := (vlen a =? 0) || (vlen a =? nv).

Definition strip_ok (nv : N) (len_strip : N * list N) : bool :=
  (fst len_strip =? vlen (snd len_strip)) && forallb (fun p => p <? nv) (snd len_strip).

(* NiGeometryData and subclasses: counters equal lengths, indices in range, 16-bit vertex count *)
Definition gd_wf (g : gdata) : bool :=
  let nv := vlen (gd_verts g) in
  (gd_nv g =? nv) && (nv <? 65536)
  && attr_ok nv (gd_norms g) && attr_ok nv (gd_tans g) && attr_ok nv (gd_bitans g)
  && attr_ok nv (gd_colors g) && forallb (attr_ok nv) (gd_uvsets g)
  && match gd_kind g with
     | GKTriShape => (gd_nt g =? vlen (gd_tris g)) && (vlen (gd_tris g) <? 65536)
                     && (gd_ntp g =? 3 * gd_nt g) && forallb (tri_lt nv) (gd_tris g)
     | GKTriStrips => (vlen (gd_slens g) =? vlen (gd_points g)) && (vlen (gd_slens g) <? 65536)
                      && forallb (strip_ok nv) (combine (gd_slens g) (gd_points g))
                      && forallb (fun l => l <? 65536) (gd_slens g)
     | GKLines => vlen (gd_lflags g) =? nv
     | GKBase => true
     end.

(* the state after deleting the vertices listed in idx: survivors in order for the vertex array
   and every per-vertex array; counters recomputed from the lengths *)
Definition gd_base_spec (g : gdata) (idx : list N) : gdata :=
  let v' := erase_spec (gd_verts g) idx in
  mkGdata (gd_kind g) (vlen v') v' (erase_spec (gd_norms g) idx) (erase_spec (gd_tans g) idx)
          (erase_spec (gd_bitans g) idx) (erase_spec (gd_colors g) idx)
          (map (fun uv => erase_spec uv idx) (gd_uvsets g))
          (gd_nt g) (gd_ntp g) (gd_tris g) (gd_slens g) (gd_points g) (gd_lflags g).

Definition gd_trishape_spec (g : gdata) (idx : list N) : gdata :=
  let t' := tris_spec idx (gd_tris g) in
  let g1 := gd_base_spec g idx in
  mkGdata (gd_kind g1) (gd_nv g1) (gd_verts g1) (gd_norms g1) (gd_tans g1) (gd_bitans g1) (gd_colors g1)
          (gd_uvsets g1) (vlen t') (3 * vlen t') t' (gd_slens g1) (gd_points g1) (gd_lflags g1).

Definition gd_lines_spec (g : gdata) (idx : list N) : gdata :=
  let g1 := gd_base_spec g idx in
  mkGdata (gd_kind g1) (gd_nv g1) (gd_verts g1) (gd_norms g1) (gd_tans g1) (gd_bitans g1) (gd_colors g1)
          (gd_uvsets g1) (gd_nt g1) (gd_ntp g1) (gd_tris g1) (gd_slens g1) (gd_points g1)
          (erase_spec (gd_lflags g1) idx).

(* BSTriShape and subclasses *)
Definition bs_core_wf (b : bsshape) : bool :=
  let nv := vlen (bs_vdata b) in
  (bs_nv b =? nv) && (nv <? 65536) && (bs_nt b =? vlen (bs_tris b)) && (vlen (bs_tris b) <? 2147483648)
  && forallb (tri_lt nv) (bs_tris b)
  && match bs_kind b with
     | BSDynamic => vlen (bs_dyn b) =? nv
     | _ => true
     end.

(* the byte-size counter of a BSDynamicTriShape describes its dynamic data: 16 bytes per vertex *)
Definition bs_dynsize_ok (b : bsshape) : bool := bs_dynsize b =? 16 * vlen (bs_dyn b).

(* core of the result, for every BSTriShape kind: vertex data, triangles, counters, and the list
   of dropped triangle positions (descending) handed to the sub-index re-fit *)
Definition bs_base_spec (b : bsshape) (idx : list N) : bsshape :=
  let vd' := erase_spec (bs_vdata b) idx in
  let t' := tris_spec idx (bs_tris b) in
  mkBs (bs_kind b) (vlen vd') vd' (vlen t') t' (rev (del_pos idx (bs_tris b)))
       (bs_dyn b) (bs_dynsize b) (bs_lod0 b) (bs_lod1 b) (bs_lod2 b) (bs_segn b) (bs_ssen b) (bs_sse b).

Definition bs_set_dyn (b : bsshape) dd dds : bsshape :=
  mkBs (bs_kind b) (bs_nv b) (bs_vdata b) (bs_nt b) (bs_tris b) (bs_deleted b) dd dds
       (bs_lod0 b) (bs_lod1 b) (bs_lod2 b) (bs_segn b) (bs_ssen b) (bs_sse b).
Definition bs_set_lod (b : bsshape) l0 l1 l2 : bsshape :=
  mkBs (bs_kind b) (bs_nv b) (bs_vdata b) (bs_nt b) (bs_tris b) (bs_deleted b) (bs_dyn b) (bs_dynsize b)
       l0 l1 l2 (bs_segn b) (bs_ssen b) (bs_sse b).
Definition bs_set_segs (b : bsshape) sn sse : bsshape :=
  mkBs (bs_kind b) (bs_nv b) (bs_vdata b) (bs_nt b) (bs_tris b) (bs_deleted b) (bs_dyn b) (bs_dynsize b)
       (bs_lod0 b) (bs_lod1 b) (bs_lod2 b) sn (bs_ssen b) sse.

(* NiSkinData: the weights of surviving vertices, re-indexed, in order *)
Definition weights_spec (idx : list N) (ws : list (N * tok)) : list (N * tok) :=
  map (fun x => (rank idx (fst x), snd x)) (filter (fun x => survives idx (fst x)) ws).
Definition bone_spec (idx : list N) (b : bone) : bone :=
  let ws := weights_spec idx (bn_weights b) in mkBone (vlen ws) ws.
Definition bone_wf (nv : N) (b : bone) : bool :=
  (bn_nv b =? vlen (bn_weights b)) && (vlen (bn_weights b) <? 65536)
  && forallb (fun x => fst x <? nv) (bn_weights b).

(* LOCKEDNORM lists: sorted, then survivors re-indexed *)
Definition locked_spec (idx : list N) (v : list N) : list N :=
  map (rank idx) (filter (survives idx) (sort_asc v)).
