(* NiSkinData::notifyVerticesDelete and the LOCKEDNORM loop of DeleteVertsForShape: the downward
   erase-or-replace loop equals "keep the entries of surviving vertices, re-indexed, in order". *)
From NiflyVerif Require Import Res UtilModel UtilSpec CompactProofs EraseProofs FillProofs
  GeomModel GeomBase GeomSpec GeomProofs.
From Coq Require Import ZifyBool ZifyNat ZifyN Sorted Permutation.
Local Open Scope N_scope.

Fixpoint fmap_opt {A B} (f : A -> option B) (l : list A) : list B :=
  match l with
  | [] => []
  | x :: r => match f x with Some y => y :: fmap_opt f r | None => fmap_opt f r end
  end.

Lemma fmap_opt_app {A B} (f : A -> option B) l1 l2 :
  fmap_opt f (l1 ++ l2) = fmap_opt f l1 ++ fmap_opt f l2.
Proof.
  induction l1 as [|x l1 IH]; [reflexivity|]. cbn [app fmap_opt]. rewrite IH.
  destruct (f x); reflexivity.
Qed.

Lemma fmap_opt_filter_map {A B} (p : A -> bool) (g : A -> B) l :
  fmap_opt (fun x => if p x then Some (g x) else None) l = map g (filter p l).
Proof.
  induction l as [|x l IH]; [reflexivity|]. cbn [fmap_opt filter]. destruct (p x); cbn [map]; rewrite IH; reflexivity.
Qed.

Lemma fmap_opt_length {A B} (f : A -> option B) l : (length (fmap_opt f l) <= length l)%nat.
Proof. induction l as [|x l IH]; cbn [fmap_opt length]; [lia|]. destruct (f x); cbn [length]; lia. Qed.

Definition fst_res {A B} (r : res (A * B)) : res A := bind r (fun x => Ok (fst x)).

(* the counter slot of the downward loop never influences the vector *)
Lemma down_loop_cnt_irrelevant {A} (step : A -> res (option A)) dec stop : forall fuel c1 c2 l i,
  fst_res (down_loop step dec stop fuel l c1 i) = fst_res (down_loop step dec stop fuel l c2 i).
Proof.
  induction fuel as [|f IHf]; intros c1 c2 l i; [reflexivity|]. cbn [down_loop].
  destruct (i =? stop); [reflexivity|]. destruct (vget l i) as [x|]; [|reflexivity].
  destruct (step x) as [[y|]| |]; cbn [bind]; try reflexivity.
  - destruct (vset l i y); [apply IHf|reflexivity].
  - apply IHf.
Qed.

Lemma vget_mid {A} (pre : list A) x done : vget ((pre ++ [x]) ++ done) (vlen pre) = Some x.
  Proof.
    unfold vget, vlen. rewrite Nat2N.id, <- app_assoc. rewrite nth_error_app2 by lia.
    rewrite Nat.sub_diag. reflexivity.
  Qed.

Lemma erase_at_mid {A} (pre : list A) x done : erase_at (vlen pre) ((pre ++ [x]) ++ done) = pre ++ done.
  Proof.
    unfold erase_at, vlen. rewrite Nat2N.id, <- app_assoc.
    rewrite firstn_app, firstn_all, Nat.sub_diag. cbn [firstn]. rewrite app_nil_r.
    replace (S (length pre)) with (length pre + 1)%nat by lia.
    rewrite skipn_app, skipn_all2 by lia. cbn [app].
    replace (length pre + 1 - length pre)%nat with 1%nat by lia. reflexivity.
  Qed.

Lemma vset_mid {A} (pre : list A) x y done :
    vset ((pre ++ [x]) ++ done) (vlen pre) y = Some (pre ++ y :: done).
  Proof.
    unfold vset, vlen. rewrite Nat2N.id.
    destruct (N.ltb_spec (N.of_nat (length pre)) (N.of_nat (length ((pre ++ [x]) ++ done)))) as [_|Hc].
    2:{ rewrite !app_length in Hc. cbn [length] in Hc. lia. }
    f_equal. rewrite <- app_assoc.
    rewrite firstn_app, firstn_all, Nat.sub_diag. cbn [firstn]. rewrite app_nil_r. f_equal.
    replace (S (length pre)) with (length pre + 1)%nat by lia.
    rewrite skipn_app, skipn_all2 by lia. cbn [app].
    replace (length pre + 1 - length pre)%nat with 1%nat by lia. reflexivity.
  Qed.


Section DownLoopOk.
  Context {A : Type}.
  Variable step : A -> res (option A).
  Variable stepf : A -> option A.
  Variable dec : N -> N.
  Variable stop : N.
  Hypothesis dec_0 : dec 0 = stop.
  Hypothesis dec_pos : forall k, 0 < k -> dec k = k - 1.

  (* the loop has processed [done] (kept as is) and now stands on the last element of [pre] *)
  Lemma down_loop_ok : forall pre done fuel cnt,
    Forall (fun x => step x = Ok (stepf x)) pre ->
    (length pre < fuel)%nat -> vlen pre <= stop -> vlen pre <= cnt ->
    down_loop step dec stop fuel (pre ++ done) cnt (dec (vlen pre)) =
    Ok (fmap_opt stepf pre ++ done, cnt - (vlen pre - vlen (fmap_opt stepf pre))).
  Proof.
    induction pre as [|x pre IH] using rev_ind; intros done fuel cnt Hst Hf Hstop Hcnt.
    - destruct fuel as [|f]; [cbn in Hf; lia|]. cbn [down_loop app fmap_opt].
      change (vlen (@nil A)) with 0. rewrite dec_0, N.eqb_refl. f_equal. f_equal. lia.
    - destruct fuel as [|f]; [cbn in Hf; lia|].
      assert (Hl : vlen (pre ++ [x]) = vlen pre + 1) by (unfold vlen; rewrite app_length; cbn [length]; lia).
      rewrite Hl in *. rewrite dec_pos by lia. replace (vlen pre + 1 - 1) with (vlen pre) by lia.
      cbn [down_loop].
      destruct (N.eqb_spec (vlen pre) stop) as [He|_]; [lia|].
      rewrite vget_mid.
      apply Forall_app in Hst. destruct Hst as [Hpre Hx]. inversion Hx as [|? ? Hx1 _]; subst.
      rewrite Hx1. cbn [bind]. rewrite fmap_opt_app. cbn [fmap_opt].
      rewrite app_length in Hf. cbn [length] in Hf.
      destruct (stepf x) as [y|].
      + rewrite vset_mid. rewrite IH by (assumption || lia).
        rewrite <- app_assoc. cbn [app]. f_equal. f_equal.
        unfold vlen. rewrite app_length. cbn [length].
        pose proof (fmap_opt_length stepf pre). unfold vlen in *. lia.
      + rewrite erase_at_mid. rewrite (dec_pos cnt) by lia.
        rewrite IH by (assumption || lia).
        rewrite app_nil_r. f_equal. f_equal.
        pose proof (fmap_opt_length stepf pre). unfold vlen in *. lia.
  Qed.
End DownLoopOk.

(* ---------------------------------------------------------------------------------------- *)
(* NiSkinData *)

Lemma dec16_0 : dec16 0 = 65535. Proof. reflexivity. Qed.
Lemma dec16_pos k : 0 < k -> dec16 k = k - 1.
Proof. intros H. unfold dec16. destruct (N.eqb_spec k 0); [lia|reflexivity]. Qed.
Lemma dec32_0 : dec32 0 = 4294967295. Proof. reflexivity. Qed.
Lemma dec32_pos k : 0 < k -> dec32 k = k - 1.
Proof. intros H. unfold dec32. destruct (N.eqb_spec k 0); [lia|reflexivity]. Qed.

Lemma wrap16Z_small x : x < 65536 -> wrap16Z (Z.of_N x) = x.
Proof. intros H. unfold wrap16Z. rewrite Z.mod_small by lia. lia. Qed.

(* the hypotheses on the index list shared by every consumer of "highestRemoved":
   non-empty, strictly ascending, below the 16-bit limit *)
Definition idx_ok (idx : list N) : Prop :=
  idx <> [] /\ sorted_lt idx /\ Forall (fun k => k < 65535) idx.

Lemma idx_ok_last idx : idx_ok idx -> last idx 0 < 65535 /\ Forall (fun k => k <= last idx 0) idx.
Proof.
  intros (Hne & Hs & Hall). split.
  - rewrite Forall_forall in Hall. apply Hall. apply last_in. exact Hne.
  - apply sorted_lt_last_max. exact Hs.
Qed.

Lemma sd_step_ok idx x : idx_ok idx -> fst x < 65536 ->
  sd_step (collapse_spec idx (last idx 0 + 1)) (last idx 0) (vlen idx) x =
  Ok (if survives idx (fst x) then Some (rank idx (fst x), snd x) else None).
Proof.
  intros Hok Hx. destruct (idx_ok_last idx Hok) as [Hhi Hmax]. destruct Hok as (Hne & Hs & Hall).
  destruct x as [ix wt]. cbn [fst snd] in *. unfold sd_step, survives.
  destruct (N.ltb_spec (last idx 0) ix) as [Hgt|Hle].
  - assert (Hlt : Forall (fun k => k < ix) idx) by (eapply Forall_impl; [|exact Hmax]; cbn; intros; lia).
    assert (Hm : memN ix idx = false).
    { apply memN_false_iff. eapply Forall_impl; [|exact Hlt]. cbn; intros; lia. }
    rewrite Hm. cbn [negb]. rewrite rank_above by assumption.
    assert (Hc : vlen idx <= ix).
    { pose proof (rank_cnt idx ix (sorted_lt_nodup idx Hs)) as H. rewrite cnt_below_all in H by exact Hlt. lia. }
    rewrite (wrap16_small (vlen idx)) by lia.
    do 3 f_equal. unfold wrap16, wrapN. change (2 ^ 16) with 65536.
    replace (ix + 65536 - vlen idx) with ((ix - vlen idx) + 1 * 65536) by lia.
    rewrite N.mod_add by lia. apply N.mod_small. lia.
  - rewrite collapse_spec_vget by lia.
    destruct (memN ix idx); cbn [negb]; [reflexivity|].
    pose proof (rank_le idx ix).
    destruct (Z.eqb_spec (Z.of_N (rank idx ix)) (-1)); [lia|].
    rewrite wrap16Z_small by lia. reflexivity.
Qed.

Theorem bone_delete_ok idx nv b : idx_ok idx -> nv <= 65536 -> bone_wf nv b = true ->
  bone_delete (collapse_spec idx (last idx 0 + 1)) (last idx 0) (vlen idx) b = Ok (bone_spec idx b).
Proof.
  intros Hok Hnv Hwf. unfold bone_wf in Hwf.
  repeat (apply andb_prop in Hwf; destruct Hwf as [Hwf ?]).
  apply N.eqb_eq in Hwf. apply N.ltb_lt in H0.
  unfold bone_delete, sd_loop. rewrite Hwf.
  pose proof (down_loop_ok (sd_step (collapse_spec idx (last idx 0 + 1)) (last idx 0) (vlen idx))
    (fun x => if survives idx (fst x) then Some (rank idx (fst x), snd x) else None)
    dec16 65535 dec16_0 dec16_pos (bn_weights b) [] (S (N.to_nat (vlen (bn_weights b)))) (vlen (bn_weights b))) as HL.
  rewrite !app_nil_r in HL. rewrite HL; clear HL.
  - cbn [bind fst snd]. unfold bone_spec, weights_spec.
    rewrite (fmap_opt_filter_map (fun x => survives idx (fst x)) (fun x => (rank idx (fst x), snd x))).
    f_equal. f_equal.
    set (ws' := map _ (filter _ (bn_weights b))).
    assert (Hle : vlen ws' <= vlen (bn_weights b)).
    { unfold ws', vlen. rewrite map_length. pose proof (filter_length_le' (fun x => survives idx (fst x)) (bn_weights b)). lia. }
    lia.
  - rewrite forallb_forall in H. apply Forall_forall. intros x Hx. apply sd_step_ok; [exact Hok|].
    specialize (H x Hx). apply N.ltb_lt in H. lia.
  - unfold vlen. lia.
  - lia.
  - lia.
Qed.

Theorem skindata_delete_ok idx nv bones : idx_ok idx -> nv <= 65536 ->
  forallb (bone_wf nv) bones = true ->
  skindata_delete bones idx = Ok (map (bone_spec idx) bones).
Proof.
  intros Hok Hnv Hwf. destruct (idx_ok_last idx Hok) as [Hhi Hmax].
  pose proof Hok as (Hne & Hs & Hall).
  unfold skindata_delete. destruct idx as [|i0 idx']; [congruence|].
  set (idx := i0 :: idx') in *.
  rewrite wrap16_small by lia. rewrite collapse_u16_ok by (assumption || lia). cbn [bind].
  apply mapM_ok. rewrite forallb_forall in Hwf. apply Forall_forall. intros b Hb.
  apply (bone_delete_ok idx nv); auto.
Qed.

(* every remaining weight index is below the new vertex count, counters agree *)
Lemma bone_spec_wf idx nv b : bone_wf nv b = true -> bone_wf (rank idx nv) (bone_spec idx b) = true.
Proof.
  intros Hwf. unfold bone_wf in *.
  repeat (apply andb_prop in Hwf; destruct Hwf as [Hwf ?]). apply N.ltb_lt in H0.
  unfold bone_spec. cbn [bn_nv bn_weights]. rewrite N.eqb_refl. cbn [andb].
  assert (Hle : vlen (weights_spec idx (bn_weights b)) <= vlen (bn_weights b)).
  { unfold weights_spec, vlen. rewrite map_length.
    pose proof (filter_length_le' (fun x => survives idx (fst x)) (bn_weights b)). lia. }
  destruct (N.ltb_spec (vlen (weights_spec idx (bn_weights b))) 65536); [|lia]. cbn [andb].
  unfold weights_spec. rewrite forallb_forall in *. intros y Hy.
  apply in_map_iff in Hy. destruct Hy as (x & <- & Hx). apply filter_In in Hx. destruct Hx as [Hx Hsv].
  cbn [fst]. apply N.ltb_lt. apply rank_lt.
  - specialize (H x Hx). apply N.ltb_lt in H. exact H.
  - unfold survives in Hsv. apply negb_true_iff in Hsv. exact Hsv.
Qed.

(* ---------------------------------------------------------------------------------------- *)
(* LOCKEDNORM *)

Lemma ln_step_ok idx x : idx_ok idx -> x < 4294967296 ->
  ln_step (collapse_spec idx (last idx 0 + 1)) (last idx 0) (vlen idx) x =
  Ok (if survives idx x then Some (rank idx x) else None).
Proof.
  intros Hok Hx. destruct (idx_ok_last idx Hok) as [Hhi Hmax]. destruct Hok as (Hne & Hs & Hall).
  unfold ln_step, survives.
  destruct (N.ltb_spec (last idx 0) x) as [Hgt|Hle].
  - assert (Hlt : Forall (fun k => k < x) idx) by (eapply Forall_impl; [|exact Hmax]; cbn; intros; lia).
    assert (Hm : memN x idx = false).
    { apply memN_false_iff. eapply Forall_impl; [|exact Hlt]. cbn; intros; lia. }
    rewrite Hm. cbn [negb]. rewrite rank_above by assumption.
    assert (Hc : vlen idx <= x).
    { pose proof (rank_cnt idx x (sorted_lt_nodup idx Hs)) as H. rewrite cnt_below_all in H by exact Hlt. lia. }
    rewrite (wrap32_small (vlen idx)) by lia.
    do 2 f_equal. unfold wrap32, wrapN. change (2 ^ 32) with 4294967296.
    replace (x + 4294967296 - vlen idx) with ((x - vlen idx) + 1 * 4294967296) by lia.
    rewrite N.mod_add by lia. apply N.mod_small. lia.
  - rewrite collapse_spec_vget by lia.
    destruct (memN x idx); cbn [negb]; [reflexivity|].
    pose proof (rank_le idx x).
    destruct (Z.eqb_spec (Z.of_N (rank idx x)) (-1)); [lia|].
    do 2 f_equal. rewrite Z.mod_small by lia. lia.
Qed.

Lemma insert_asc_perm x l : Permutation (insert_asc x l) (x :: l).
Proof.
  induction l as [|y l IH]; [reflexivity|]. cbn [insert_asc]. destruct (x <? y); [reflexivity|].
  rewrite IH. apply perm_swap.
Qed.

Lemma sort_asc_perm l : Permutation (sort_asc l) l.
Proof.
  unfold sort_asc. induction l as [|x l IH]; [reflexivity|]. cbn [fold_right].
  rewrite insert_asc_perm. constructor. exact IH.
Qed.

Lemma sort_asc_length l : length (sort_asc l) = length l.
Proof. apply Permutation_length. apply sort_asc_perm. Qed.

Theorem lockednorm_delete_ok idx v : idx_ok idx -> vlen v < 4294967295 ->
  Forall (fun x => x < 4294967296) v ->
  lockednorm_delete v idx = Ok (locked_spec idx v).
Proof.
  intros Hok Hlen Hv. destruct (idx_ok_last idx Hok) as [Hhi Hmax]. pose proof Hok as (Hne & Hs & Hall).
  unfold lockednorm_delete.
  rewrite wrap16_small by lia. rewrite collapse_u16_ok by (assumption || lia). cbn [bind].
  unfold ln_loop.
  assert (Hl : vlen (sort_asc v) = vlen v) by (unfold vlen; rewrite sort_asc_length; reflexivity).
  rewrite (wrap32_small (vlen (sort_asc v))) by lia.
  change (bind ?r (fun r0 => Ok (fst r0))) with (fst_res r).
  rewrite (down_loop_cnt_irrelevant _ _ _ _ 0 (vlen (sort_asc v))).
  pose proof (down_loop_ok (ln_step (collapse_spec idx (last idx 0 + 1)) (last idx 0) (vlen idx))
    (fun x => if survives idx x then Some (rank idx x) else None)
    dec32 4294967295 dec32_0 dec32_pos (sort_asc v) [] (S (length (sort_asc v))) (vlen (sort_asc v))) as HL.
  rewrite !app_nil_r in HL. rewrite HL; clear HL.
  - unfold fst_res. cbn [bind fst]. unfold locked_spec.
    rewrite (fmap_opt_filter_map (survives idx) (rank idx)). reflexivity.
  - apply Forall_forall. intros x Hx. apply ln_step_ok; [exact Hok|].
    rewrite Forall_forall in Hv. apply Hv. eapply Permutation_in; [apply sort_asc_perm|exact Hx].
  - lia.
  - lia.
  - lia.
Qed.

Lemma locked_spec_lt idx nv v : Forall (fun x => x < nv) v ->
  Forall (fun x => x < rank idx nv) (locked_spec idx v).
Proof.
  intros Hv. unfold locked_spec. apply Forall_forall. intros y Hy.
  apply in_map_iff in Hy. destruct Hy as (x & <- & Hx). apply filter_In in Hx. destruct Hx as [Hx Hsv].
  apply rank_lt.
  - rewrite Forall_forall in Hv. apply Hv. eapply Permutation_in; [apply sort_asc_perm|exact Hx].
  - unfold survives in Hsv. apply negb_true_iff in Hsv. exact Hsv.
Qed.
