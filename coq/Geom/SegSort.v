(* The stable insertion sort used as the model of std::stable_sort: permutation, sortedness,
   stability; and counting lemmas for sorted key lists. *)
From NiflyVerif Require Import Res UtilModel GeomModel SegModel.
From Coq Require Import ZifyBool ZifyNat ZifyN Sorted Permutation.
Local Open Scope N_scope.

Lemma ins_stable_perm x l : Permutation (ins_stable x l) (x :: l).
Proof.
  induction l as [|y l IH]; [reflexivity|]. cbn [ins_stable].
  destruct (Z.ltb (snd y) (snd x)); [|reflexivity].
  rewrite IH. apply perm_swap.
Qed.

Theorem stable_sort_perm l : Permutation (stable_sort l) l.
Proof.
  unfold stable_sort. induction l as [|x l IH]; [reflexivity|]. cbn [fold_right].
  rewrite ins_stable_perm. constructor. exact IH.
Qed.

Definition key_le (a b : N * Z) : Prop := (snd a <= snd b)%Z.

Lemma ins_stable_sorted x l : StronglySorted key_le l -> StronglySorted key_le (ins_stable x l).
Proof.
  induction 1 as [|y l Hs IH Hall]; [constructor; constructor|].
  cbn [ins_stable]. destruct (Z.ltb_spec (snd y) (snd x)) as [Hlt|Hge].
  - constructor; [exact IH|].
    eapply Permutation_Forall; [symmetry; apply ins_stable_perm|].
    constructor; [unfold key_le; lia|exact Hall].
  - constructor; [constructor; assumption|].
    constructor; [unfold key_le; lia|].
    eapply Forall_impl; [|exact Hall]. unfold key_le. intros; lia.
Qed.

Theorem stable_sort_sorted l : StronglySorted key_le (stable_sort l).
Proof.
  unfold stable_sort. induction l as [|x l IH]; [constructor|]. cbn [fold_right].
  apply ins_stable_sorted. exact IH.
Qed.

(* stability: elements with the same key keep their relative order, i.e. for every key the
   sub-list of elements carrying it is unchanged *)
Lemma ins_stable_filter x l k : StronglySorted key_le l ->
  filter (fun y => Z.eqb (snd y) k) (ins_stable x l) = filter (fun y => Z.eqb (snd y) k) (x :: l).
Proof.
  induction 1 as [|y l Hs IH Hall]; [reflexivity|].
  cbn [ins_stable]. destruct (Z.ltb_spec (snd y) (snd x)) as [Hlt|Hge]; [|reflexivity].
  cbn [filter] in *. rewrite IH.
  destruct (Z.eqb_spec (snd y) k); destruct (Z.eqb_spec (snd x) k); try reflexivity. lia.
Qed.

Theorem stable_sort_stable l k :
  filter (fun y => Z.eqb (snd y) k) (stable_sort l) = filter (fun y => Z.eqb (snd y) k) l.
Proof.
  unfold stable_sort. induction l as [|x l IH]; [reflexivity|]. cbn [fold_right].
  rewrite ins_stable_filter by apply stable_sort_sorted.
  cbn [filter]. unfold stable_sort in *. rewrite IH. reflexivity.
Qed.

(* ---------------------------------------------------------------------------------------- *)
(* sorted key lists: the keys below a bound form a prefix *)

Definition cntlt (l : list Z) (q : Z) : N := vlen (filter (fun k => Z.ltb k q) l).

Lemma sorted_split (l : list Z) a : StronglySorted Z.le l ->
  l = filter (fun k => Z.ltb k a) l ++ filter (fun k => negb (Z.ltb k a)) l.
Proof.
  induction 1 as [|k l Hs IH Hall]; [reflexivity|]. cbn [filter].
  destruct (Z.ltb_spec k a) as [Hlt|Hge]; cbn [negb app].
  - f_equal. exact IH.
  - assert (Hnil : filter (fun k0 => Z.ltb k0 a) l = []).
    { clear IH Hs. induction Hall as [|y l Hy Hall IH2]; [reflexivity|]. cbn [filter].
      destruct (Z.ltb_spec y a); [lia|exact IH2]. }
    rewrite Hnil. cbn [app]. f_equal.
    clear IH Hs Hnil. induction Hall as [|y l Hy Hall IH2]; [reflexivity|]. cbn [filter].
    destruct (Z.ltb_spec y a); [lia|]. cbn [negb]. f_equal. exact IH2.
Qed.

Lemma cntlt_mono l a b : (a <= b)%Z -> cntlt l a <= cntlt l b.
Proof.
  intros H. unfold cntlt, vlen. induction l as [|k l IH]; [reflexivity|]. cbn [filter].
  destruct (Z.ltb_spec k a); destruct (Z.ltb_spec k b); cbn [length]; lia.
Qed.

Lemma cntlt_le l a : cntlt l a <= vlen l.
Proof.
  unfold cntlt, vlen. induction l as [|k l IH]; [reflexivity|]. cbn [filter].
  destruct (Z.ltb k a); cbn [length]; lia.
Qed.

Lemma cntlt_all l a : Forall (fun k => (k < a)%Z) l -> cntlt l a = vlen l.
Proof.
  unfold cntlt, vlen. induction 1 as [|k l Hk Hall IH]; [reflexivity|]. cbn [filter].
  destruct (Z.ltb_spec k a); [|lia]. cbn [length]. lia.
Qed.

Lemma cntlt_none l a : Forall (fun k => (a <= k)%Z) l -> cntlt l a = 0.
Proof.
  unfold cntlt, vlen. induction 1 as [|k l Hk Hall IH]; [reflexivity|]. cbn [filter].
  destruct (Z.ltb_spec k a); [lia|exact IH].
Qed.

Lemma cntlt_app l1 l2 a : cntlt (l1 ++ l2) a = cntlt l1 a + cntlt l2 a.
Proof. unfold cntlt, vlen. rewrite filter_app, app_length. lia. Qed.

(* three-way split of a sorted list at a <= b *)
Lemma sorted_split3 (l : list Z) a b : StronglySorted Z.le l -> (a <= b)%Z ->
  exists l1 l2 l3, l = l1 ++ l2 ++ l3 /\
    Forall (fun k => (k < a)%Z) l1 /\ Forall (fun k => (a <= k < b)%Z) l2 /\ Forall (fun k => (b <= k)%Z) l3 /\
    vlen l1 = cntlt l a /\ vlen l1 + vlen l2 = cntlt l b.
Proof.
  intros Hs Hab.
  set (l1 := filter (fun k => Z.ltb k a) l).
  set (r := filter (fun k => negb (Z.ltb k a)) l).
  assert (Hl : l = l1 ++ r) by (apply sorted_split; exact Hs).
  assert (Hr : StronglySorted Z.le r).
  { unfold r. clear -Hs. induction Hs as [|k l Hs IH Hall]; [constructor|]. cbn [filter].
    destruct (negb (Z.ltb k a)); [|exact IH]. constructor; [exact IH|].
    apply Forall_forall. intros x Hx. apply filter_In in Hx. destruct Hx as [Hx _].
    rewrite Forall_forall in Hall. apply Hall. exact Hx. }
  set (l2 := filter (fun k => Z.ltb k b) r).
  set (l3 := filter (fun k => negb (Z.ltb k b)) r).
  assert (Hr2 : r = l2 ++ l3) by (apply sorted_split; exact Hr).
  exists l1, l2, l3.
  assert (F1 : Forall (fun k => (k < a)%Z) l1).
  { apply Forall_forall. intros x Hx. apply filter_In in Hx. destruct Hx as [_ Hx]. apply Z.ltb_lt. exact Hx. }
  assert (F2 : Forall (fun k => (a <= k < b)%Z) l2).
  { apply Forall_forall. intros x Hx. apply filter_In in Hx. destruct Hx as [Hx Hb].
    apply filter_In in Hx. destruct Hx as [_ Ha]. apply Z.ltb_lt in Hb. apply negb_true_iff in Ha.
    apply Z.ltb_ge in Ha. lia. }
  assert (F3 : Forall (fun k => (b <= k)%Z) l3).
  { apply Forall_forall. intros x Hx. apply filter_In in Hx. destruct Hx as [_ Hb].
    apply negb_true_iff in Hb. apply Z.ltb_ge in Hb. exact Hb. }
  split; [rewrite Hl at 1; rewrite Hr2; reflexivity|].
  split; [exact F1|]. split; [exact F2|]. split; [exact F3|].
  split; [reflexivity|].
  rewrite Hl at 1. rewrite Hr2. rewrite !cntlt_app.
  rewrite (cntlt_all l1 b) by (eapply Forall_impl; [|exact F1]; cbn; intros; lia).
  rewrite (cntlt_all l2 b) by (eapply Forall_impl; [|exact F2]; cbn; intros; lia).
  rewrite (cntlt_none l3 b) by exact F3. lia.
Qed.
