(* C12: geometry bookkeeping of the two conversion directions and the reference carry-over. *)
From NiflyVerif Require Import Res UtilModel UtilSpec StripProofs ShapeClass ShapeQuant ShapeModel ShapeLoops
  ShapeBsProofs ShapeBsCreate ShapeGeomProofs ShapeApiTheorems ConvModel.
From Coq Require Import ZifyBool ZifyNat ZifyN.
Local Open Scope N_scope.

Lemma cv_nv_of_small (verts : list sa_v3) : vlen verts <= 65535 ->
  sa_nv_of verts = vlen verts /\ firstn (N.to_nat (sa_nv_of verts)) verts = verts.
Proof.
  intros H. unfold sa_nv_of, sa_u16max, vlen in *. destruct (N.ltb_spec 65535 (N.of_nat (length verts))); [lia|].
  split; [reflexivity|]. rewrite Nnat.Nat2N.id. apply firstn_all.
Qed.

Lemma cv_nt_of_small nv (t : list tri) : nv <> 0 -> vlen t <= 65535 ->
  firstn (N.to_nat (sa_nt_of 65535 nv t)) t = t.
Proof.
  intros NZ H. unfold sa_nt_of, vlen in *. destruct (N.eqb_spec nv 0); [contradiction|].
  destruct (N.ltb_spec 65535 (N.of_nat (length t))); [lia|]. rewrite Nnat.Nat2N.id. apply firstn_all.
Qed.

(* the triangles an LE shape reports: for strips the window definition of C18 *)
Lemma cv_le_triangles_spec strips tris :
  cv_le_triangles strips tris = Ok (match strips with Some pts => strips_spec pts | None => tris end).
Proof. destruct strips; simpl; [apply strips_correct | reflexivity]. Qed.

Section Conv.
  Variable bsphere : list sa_v3 -> sa_bnd.
  Variable btan : list sa_bsvert -> list tri -> nat -> sa_b3 * sa_F * N * N.
  Variable gtan : list sa_v3 -> list sa_v2 -> list sa_v3 -> list tri -> N -> nat -> sa_v3 * sa_v3.
  Variable dec_tok : N -> sa_F.

(* LE -> SE: positions copied 1:1, the triangle LIST kept (strips expanded), in the new storage kind *)
Theorem cv_to_sse_kept seg verts strips tris uvsets norms ms :
  vlen verts <= 65535 ->
  let t := match strips with Some pts => strips_spec pts | None => tris end in
  exists s, cv_to_sse bsphere btan seg verts strips tris uvsets norms ms = Ok s
    /\ sa_wf_bs s /\ sa_b_nv s = vlen verts
    /\ sa_bs_get_verts s = Ok verts
    /\ (verts <> [] -> vlen t <= 65535 -> sa_bs_get_tris s = t /\ sa_b_nt s = vlen t)
    /\ (verts = [] -> sa_bs_get_tris s = [])
    /\ sa_b_kind s = (if seg then sa_KSubIndex else sa_KTri).
Proof.
  intros L t. unfold cv_to_sse. rewrite cv_le_triangles_spec. cbn [bind]. fold t.
  destruct (sa_bs_create_spec bsphere btan gtan sa_getSSE (sa_bs_new (if seg then sa_KSubIndex else sa_KTri)) verts (Some t)
              match uvsets with u :: _ => Some u | [] => None end (if ms then None else Some norms))
    as [s [E [W [A1 [A2 [A3 [A5 [A6 _]]]]]]]].
  destruct (cv_nv_of_small verts L) as [NV FV]. rewrite NV in *. rewrite FV in A5.
  exists s. split; [exact E|]. split; [exact W|]. split; [exact A1|].
  split; [rewrite sa_bs_get_verts_wf by exact W; rewrite A5; reflexivity|].
  change (sa_tri_limit sa_getSSE) with 65535 in *.
  split.
  { intros NE LT. assert (NZ : vlen verts <> 0) by (unfold vlen; destruct verts; [contradiction | simpl; lia]).
    unfold sa_bs_get_tris. rewrite A6, A2. rewrite cv_nt_of_small by assumption. split; [reflexivity|].
    unfold sa_nt_of, vlen. destruct (N.eqb_spec (N.of_nat (length verts)) 0) as [Z|_]; [unfold vlen in NZ; contradiction|].
    unfold vlen in LT. destruct (N.ltb_spec 65535 (N.of_nat (length t))); [lia | reflexivity]. }
  split.
  { intros ->. unfold sa_bs_get_tris. rewrite A6. reflexivity. }
  rewrite A3. destruct seg; reflexivity.
Qed.

(* SE -> LE: the same for a well-formed BSTriShape (numVertices is a uint16) *)
Theorem cv_to_le_kept s ms :
  sa_wf_bs s -> sa_b_nv s <= 65535 ->
  exists g, cv_to_le bsphere gtan dec_tok s ms = Ok g
    /\ sa_g_nv g = sa_b_nv s
    /\ sa_g_get_verts g = Some (map sa_bv_vert (sa_b_vd s))
    /\ (sa_b_nv s <> 0 -> vlen (sa_b_tris s) <= 65535 -> sa_g_tris g = sa_b_tris s)
    /\ (sa_bs_has s sa_VF_UV = true -> sa_g_get_uvs g = Some (map sa_bv_uv (sa_b_vd s))).
Proof.
  intros W NV. unfold cv_to_le. rewrite sa_bs_get_verts_wf, sa_bs_get_uvs_wf by exact W. cbn [bind].
  set (verts := map sa_bv_vert (sa_b_vd s)).
  assert (LV : length verts = N.to_nat (sa_b_nv s)) by (unfold verts; rewrite map_length; exact W).
  set (uvs := match (if sa_bs_has s sa_VF_UV then Some (map sa_bv_uv (sa_b_vd s)) else None) with Some u => u | None => [] end).
  match goal with |- exists g, sa_g_create _ _ _ _ _ _ ?nrm = _ /\ _ => set (nn := nrm) end.
  destruct (sa_g_create_gen_spec bsphere gtan sa_geom_new verts (Some (sa_bs_get_tris s)) (Some uvs) nn)
    as [g [E [A1 [A2 [A3 [A4 [A5 [A6 [A7 [A8 [A9 [A10 [A11 [A12 _]]]]]]]]]]]]]].
  destruct (cv_nv_of_small verts ltac:(unfold vlen; lia)) as [NVE FV]. rewrite NVE in *. rewrite FV in A2.
  assert (VL : vlen verts = sa_b_nv s) by (unfold vlen; lia). rewrite VL in *.
  exists g. split; [exact E|]. split; [exact A1|].
  split; [unfold sa_g_get_verts; rewrite A3, A2; reflexivity|].
  split.
  { intros NZ LT. rewrite A9. unfold sa_bs_get_tris. apply cv_nt_of_small; assumption. }
  intros HU. unfold sa_g_uv_clause in A12. unfold uvs in A12. rewrite HU in A12.
  assert (LU : vlen (map sa_bv_uv (sa_b_vd s)) = sa_b_nv s) by (unfold vlen; rewrite map_length; unfold sa_wf_bs in W; lia).
  rewrite LU, N.eqb_refl in A12. exact A12.
Qed.

End Conv.

(* ---------- references ---------- *)

Theorem cv_refs_carried r : cv_carry r = r.
Proof.
  unfold cv_carry. destruct r as [nm ct co sk sh al pr ex fl tr]. cbn.
  destruct (N.eqb_spec sk cv_NPOS) as [->|_]; destruct (N.eqb_spec sh cv_NPOS) as [->|_]; destruct (N.eqb_spec al cv_NPOS) as [->|_]; reflexivity.
Qed.
Corollary cv_refs_there_and_back r : cv_carry (cv_carry r) = r.
Proof. rewrite !cv_refs_carried. reflexivity. Qed.
