(* C12: the parts of the LE <-> SE conversion (NifFile::OptimizeFor, src/NifFile.cpp:1503-1975) that are
   pure list logic.

   (1) NifFile::RenameDuplicateShapes (NifFile.cpp:2238-2297), loop for loop;
   (2) the geometry bookkeeping of both directions: which vertex / triangle / uv / normal arrays are
       handed to BSTriShape::Create resp. NiTriShapeData::Create (NifFile.cpp:1531-1539, 1652, 1794-1800,
       1889-1893); the Create functions themselves are the C13 models (coq/ShapeApi/ShapeModel.v), the
       strip expansion is the C18 model (coq/Util/UtilModel.v);
   (3) which references of the old shape are copied to the new one (NifFile.cpp:1634-1653, 1895-1912).

   NOT modelled: skin partitions and weights, shader flag edits, block deletion and sorting, FixBSXFlags /
   FixShaderFlags -- those are only explored by the oracle (tools/props/c12.py). *)
From NiflyVerif Require Import Res UtilModel ShapeClass ShapeQuant ShapeModel.
Local Open Scope N_scope.

(* ---------------------------------------------------------------------------------------------- *)
(* (1) RenameDuplicateShapes *)

Definition cv_name := list N.                     (* bytes *)
Definition cv_us : N := 95.                       (* '_' *)

Fixpoint cv_name_eqb (a b : cv_name) : bool :=
  match a, b with
  | [], [] => true
  | x :: a', y :: b' => (x =? y) && cv_name_eqb a' b'
  | _, _ => false
  end.

(* std::to_string of a non-negative int: decimal digits, most significant first *)
Fixpoint cv_digits (f : nat) (n : N) : list N :=
  match f with
  | O => []
  | S f' => if n <? 10 then [48 + n] else cv_digits f' (n / 10) ++ [48 + n mod 10]
  end.
Definition cv_to_string (n : N) : list N := cv_digits (S (N.to_nat (N.log2 n))) n.

Definition cv_suffixed (base : cv_name) (c : N) : cv_name := base ++ cv_us :: cv_to_string c.

(* a child reference of a node that resolves to an NiAVObject: is it an NiShape, and its name *)
Record cv_child := cv_mkChild { cv_is_shape : bool; cv_cname : cv_name }.

(* the lambda countDupes: 0 for the empty name, else how many children carry the name *)
Definition cv_count (kids : list cv_child) (nm : cv_name) : N :=
  match nm with
  | [] => 0
  | _ => vlen (filter (fun k => cv_name_eqb (cv_cname k) nm) kids)
  end.

(* while (countDupes(node, shapeName + dup) > 0) { dupCount++; dup = "_" + to_string(dupCount); }
   (the test was "> 1" before the repair of C12-rename-candidate-taken) *)
Fixpoint cv_find_suffix (fuel : nat) (kids : list cv_child) (base : cv_name) (c : N) : res N :=
  match fuel with
  | O => OutOfFuel
  | S f => if 0 <? cv_count kids (cv_suffixed base c) then cv_find_suffix f kids base (c + 1) else Ok c
  end.

(* the loop over node->childRefs.  [done]: the children already visited (with their current names),
   [todo]: those still to visit; the node's child list is done ++ todo at every moment.
   dup = dupCount, ren = renamed. *)
Fixpoint cv_rename_go (done todo : list cv_child) (dup : N) (ren : bool) : res (list cv_child * bool) :=
  match todo with
  | [] => Ok (done, ren)
  | k :: rest =>
    if cv_is_shape k then
      if dup =? 0 then cv_rename_go (done ++ [k]) rest 1 ren            (* "Skip first child" *)
      else
        let all := done ++ todo in
        if 1 <? cv_count all (cv_cname k) then
          bind (cv_find_suffix (S (length all)) all (cv_cname k) dup) (fun c =>
          cv_rename_go (done ++ [cv_mkChild true (cv_suffixed (cv_cname k) c)]) rest (c + 1) true)
        else cv_rename_go (done ++ [k]) rest dup ren
    else cv_rename_go (done ++ [k]) rest dup ren
  end.

Definition cv_rename_node (kids : list cv_child) : res (list cv_child * bool) := cv_rename_go [] kids 0 false.

(* the scene graph below the root, as far as names go *)
Inductive cv_item :=
| CvShape (nm : cv_name)
| CvNode (nm : cv_name) (kids : list cv_item).

Definition cv_view (l : list cv_item) : list cv_child :=
  map (fun it => match it with CvShape nm => cv_mkChild true nm | CvNode nm _ => cv_mkChild false nm end) l.

(* write the (possibly changed) shape names back, position by position *)
Fixpoint cv_put_names (l : list cv_item) (names : list cv_child) : list cv_item :=
  match l, names with
  | CvShape _ :: l', n :: names' => CvShape (cv_cname n) :: cv_put_names l' names'
  | it :: l', _ :: names' => it :: cv_put_names l' names'
  | _, _ => l
  end.

Definition cv_rename_list (l : list cv_item) : res (list cv_item * bool) :=
  bind (cv_rename_node (cv_view l)) (fun '(names, r) => Ok (cv_put_names l names, r)).

(* nodes = GetChildren<NiNode>() (the root's DIRECT NiNode children only) followed by the root itself;
   nodes further down are never visited *)
Fixpoint cv_rename_children (l : list cv_item) : res (list cv_item * bool) :=
  match l with
  | [] => Ok ([], false)
  | CvNode nm kids :: rest =>
    bind (cv_rename_list kids) (fun '(kids', r1) =>
    bind (cv_rename_children rest) (fun '(rest', r2) => Ok (CvNode nm kids' :: rest', r1 || r2)))
  | it :: rest => bind (cv_rename_children rest) (fun '(rest', r2) => Ok (it :: rest', r2))
  end.

Definition cv_rename_file (root_kids : list cv_item) : res (list cv_item * bool) :=
  bind (cv_rename_children root_kids) (fun '(l1, r1) =>
  bind (cv_rename_list l1) (fun '(l2, r2) => Ok (l2, r1 || r2))).

(* ---------------------------------------------------------------------------------------------- *)
(* (2) geometry bookkeeping *)

(* GetTriangles of the LE shape: the triangle list of NiTriShapeData, the expanded strips of NiTriStripsData *)
Definition cv_le_triangles (strips : option (list (list N))) (tris : list tri) : res (list tri) :=
  match strips with
  | Some pts => strips_model pts
  | None => Ok tris
  end.

Section Conv.
  Variable bsphere : list sa_v3 -> sa_bnd.
  Variable btan : list sa_bsvert -> list tri -> nat -> sa_b3 * sa_F * N * N.
  Variable gtan : list sa_v3 -> list sa_v2 -> list sa_v3 -> list tri -> N -> nat -> sa_v3 * sa_v3.
  (* the binary32 value the normal getter of BSTriShape computes from a stored byte *)
  Variable dec_tok : N -> sa_F.

  (* LE -> SE (NifFile.cpp:1531-1539, 1565-1570, 1621-1632, 1652): vertices, GetTriangles, uv set 0 when
     there is one, normals unless the shader uses model-space normals; BSSegmentedTriShape becomes
     BSSubIndexTriShape, everything else BSTriShape (BSDynamicTriShape with headParts: same Create) *)
  Definition cv_to_sse (segmented : bool) (verts : list sa_v3) (strips : option (list (list N))) (tris : list tri)
             (uvsets : list (list sa_v2)) (norms : list sa_v3) (model_space : bool) : res sa_bstri :=
    bind (cv_le_triangles strips tris) (fun t =>
    sa_bs_create bsphere btan sa_getSSE (sa_bs_new (if segmented then sa_KSubIndex else sa_KTri)) verts (Some t)
                 (match uvsets with u :: _ => Some u | [] => None end)
                 (if model_space then None else Some norms)).

  (* SE -> LE (NifFile.cpp:1794-1800, 1821-1826, 1879-1893): raw vertices, triangles, raw uvs (an empty
     vector when the shape has none), decoded byte normals unless model space *)
  Definition cv_to_le (s : sa_bstri) (model_space : bool) : res sa_geom :=
    bind (sa_bs_get_verts s) (fun verts =>
    bind (sa_bs_get_uvs s) (fun ou =>
    let uvs := match ou with Some u => u | None => [] end in
    let norms := if sa_bs_has s sa_VF_NORMAL
                 then map (fun v => let '(a, b, c) := sa_bv_n v in (dec_tok a, dec_tok b, dec_tok c)) (sa_b_vd s)
                 else [] in
    sa_g_create bsphere gtan sa_geom_new verts (Some (sa_bs_get_tris s)) (Some uvs)
                (if model_space then None else Some norms))).
End Conv.

(* ---------------------------------------------------------------------------------------------- *)
(* (3) references carried from the old shape to the new one *)

Definition cv_ref := N.
Definition cv_NPOS : cv_ref := 4294967295.

Record cv_refs := cv_mkRefs {
  cv_r_name : cv_name;
  cv_r_controller : cv_ref; cv_r_collision : cv_ref;
  cv_r_skin : cv_ref; cv_r_shader : cv_ref; cv_r_alpha : cv_ref;
  cv_r_props : list cv_ref; cv_r_extra : list cv_ref;
  cv_r_flags : N; cv_r_transform : N       (* opaque tokens *)
}.

(* the new shape starts with empty skin / shader / alpha refs and gets the old one's when the old one
   "has" it (ref not empty); controller, collision, property list, extra data list, transform and flags
   are assigned unconditionally.  Both directions do the same. *)
Definition cv_carry (old : cv_refs) : cv_refs :=
  cv_mkRefs (cv_r_name old) (cv_r_controller old) (cv_r_collision old)
            (if cv_r_skin old =? cv_NPOS then cv_NPOS else cv_r_skin old)
            (if cv_r_shader old =? cv_NPOS then cv_NPOS else cv_r_shader old)
            (if cv_r_alpha old =? cv_NPOS then cv_NPOS else cv_r_alpha old)
            (cv_r_props old) (cv_r_extra old) (cv_r_flags old) (cv_r_transform old).
