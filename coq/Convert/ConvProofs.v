(* C12: proofs about the RenameDuplicateShapes model. *)
From NiflyVerif Require Import Res ConvModel.
From Coq Require Import ZifyBool ZifyNat ZifyN.
Local Open Scope N_scope.

(* ---------- names ---------- *)

Lemma cv_name_eqb_spec a b : cv_name_eqb a b = true <-> a = b.
Proof.
  revert b. induction a as [|x a IH]; destruct b as [|y b]; simpl; split; intros H; try discriminate; auto.
  - apply andb_true_iff in H. destruct H as [H1 H2]. apply N.eqb_eq in H1. apply IH in H2. subst. reflexivity.
  - injection H as -> ->. rewrite N.eqb_refl. apply IH. reflexivity.
Qed.
Lemma cv_name_eqb_refl a : cv_name_eqb a a = true.
Proof. apply cv_name_eqb_spec. reflexivity. Qed.

(* ---------- std::to_string ---------- *)

Definition cv_is_digit (d : N) : Prop := 48 <= d <= 57.

Lemma cv_digits_are_digits : forall f n, Forall cv_is_digit (cv_digits f n).
Proof.
  induction f as [|f IH]; intros n; cbn [cv_digits]; [constructor|].
  destruct (N.ltb_spec n 10).
  - constructor; [unfold cv_is_digit; lia | constructor].
  - apply Forall_app. split; [apply IH|]. constructor; [|constructor].
    unfold cv_is_digit. pose proof (N.mod_lt n 10). lia.
Qed.

Definition cv_of_digits (l : list N) : N := fold_left (fun acc d => acc * 10 + (d - 48)) l 0.

Lemma cv_of_digits_snoc l d : cv_of_digits (l ++ [d]) = cv_of_digits l * 10 + (d - 48).
Proof. unfold cv_of_digits. rewrite fold_left_app. reflexivity. Qed.

Lemma cv_of_digits_digits : forall f n, n < 10 ^ N.of_nat f -> cv_of_digits (cv_digits f n) = n.
Proof.
  induction f as [|f IH]; intros n H.
  - change (10 ^ N.of_nat 0) with 1 in H. assert (n = 0) by lia. subst. reflexivity.
  - cbn [cv_digits]. destruct (N.ltb_spec n 10).
    + unfold cv_of_digits. cbn [fold_left]. lia.
    + rewrite cv_of_digits_snoc. rewrite IH.
      * pose proof (N.div_mod n 10). pose proof (N.mod_lt n 10). lia.
      * replace (N.of_nat (S f)) with (N.succ (N.of_nat f)) in H by lia. rewrite N.pow_succ_r' in H.
        apply N.div_lt_upper_bound; lia.
Qed.

Lemma cv_to_string_value n : cv_of_digits (cv_to_string n) = n.
Proof.
  unfold cv_to_string. apply cv_of_digits_digits.
  destruct (N.eq_dec n 0) as [->|NZ]; [simpl; lia|].
  pose proof (N.log2_spec n ltac:(lia)) as [_ H].
  replace (N.of_nat (S (N.to_nat (N.log2 n)))) with (N.succ (N.log2 n)) by lia.
  eapply N.lt_le_trans; [exact H|]. apply N.pow_le_mono_l. lia.
Qed.

Lemma cv_to_string_inj a b : cv_to_string a = cv_to_string b -> a = b.
Proof. intros H. rewrite <- (cv_to_string_value a), <- (cv_to_string_value b), H. reflexivity. Qed.

Lemma cv_to_string_no_us n : ~ In cv_us (cv_to_string n).
Proof.
  intros H. pose proof (cv_digits_are_digits (S (N.to_nat (N.log2 n))) n) as F.
  rewrite Forall_forall in F. specialize (F _ H). unfold cv_is_digit, cv_us in F. lia.
Qed.

(* a string  base ++ '_' ++ digits  determines the digits: the separator is the LAST underscore *)
Lemma cv_split_last (u : N) : forall (s1 s2 d1 d2 : list N),
  ~ In u d1 -> ~ In u d2 -> s1 ++ u :: d1 = s2 ++ u :: d2 -> s1 = s2 /\ d1 = d2.
Proof.
  induction s1 as [|x s1 IH]; intros s2 d1 d2 H1 H2 E.
  - destruct s2 as [|y s2]; simpl in E.
    + injection E as E. auto.
    + injection E as E1 E2. subst y. exfalso. apply H1. rewrite E2. apply in_or_app. right. left. reflexivity.
  - destruct s2 as [|y s2]; simpl in E.
    + injection E as E1 E2. subst x. exfalso. apply H2. rewrite <- E2. apply in_or_app. right. left. reflexivity.
    + injection E as E1 E2. subst y. destruct (IH s2 d1 d2 H1 H2 E2) as [-> ->]. auto.
Qed.

Lemma cv_suffixed_inj x y c c' : cv_suffixed x c = cv_suffixed y c' -> x = y /\ c = c'.
Proof.
  unfold cv_suffixed. intros E.
  destruct (cv_split_last cv_us x y _ _ (cv_to_string_no_us c) (cv_to_string_no_us c') E) as [A B].
  split; [exact A | apply cv_to_string_inj; exact B].
Qed.

Lemma cv_suffixed_nonempty x c : cv_suffixed x c <> [].
Proof. unfold cv_suffixed. destruct x; discriminate. Qed.

(* ---------- countDupes ---------- *)

Lemma cv_count_zero kids nm : (forall k, In k kids -> cv_cname k <> nm) -> cv_count kids nm = 0.
Proof.
  intros H. unfold cv_count. destruct nm as [|a nm]; [reflexivity|].
  assert (E : filter (fun k => cv_name_eqb (cv_cname k) (a :: nm)) kids = []).
  { induction kids as [|k kids IH]; [reflexivity|]. simpl.
    destruct (cv_name_eqb (cv_cname k) (a :: nm)) eqn:Q.
    - apply cv_name_eqb_spec in Q. exfalso. apply (H k); [left; reflexivity | exact Q].
    - apply IH. intros k' Hk'. apply H. right. exact Hk'. }
  rewrite E. reflexivity.
Qed.

Lemma cv_count_app a b nm : cv_count (a ++ b) nm = cv_count a nm + cv_count b nm.
Proof. unfold cv_count, vlen. destruct nm; [reflexivity|]. rewrite filter_app, app_length. lia. Qed.

Lemma cv_count_pos kids k : In k kids -> cv_cname k <> [] -> 1 <= cv_count kids (cv_cname k).
Proof.
  intros H NE. unfold cv_count, vlen. destruct (cv_cname k) eqn:E; [contradiction|]. rewrite <- E.
  induction kids as [|x kids IH]; [destruct H|]. simpl. destruct H as [->|H].
  - rewrite cv_name_eqb_refl. simpl. lia.
  - specialize (IH H). destruct (cv_name_eqb (cv_cname x) (cv_cname k)); simpl; lia.
Qed.

(* ---------- the loop ---------- *)

Definition cv_shape_names (l : list cv_child) : list cv_name := map cv_cname (filter cv_is_shape l).

Lemma cv_shape_names_app a b : cv_shape_names (a ++ b) = cv_shape_names a ++ cv_shape_names b.
Proof. unfold cv_shape_names. rewrite filter_app, map_app. reflexivity. Qed.

Lemma cv_NoDup_snoc {A} (l : list A) (x : A) : NoDup l -> ~ In x l -> NoDup (l ++ [x]).
Proof.
  induction l as [|a l IH]; intros ND NI; simpl.
  - constructor; [intros []|constructor].
  - inversion ND as [|? ? NA ND']; subst. constructor.
    + intros H. apply in_app_or in H. destruct H as [H | [H | []]]; [contradiction | subst; apply NI; left; reflexivity].
    + apply IH; [exact ND' | intros H; apply NI; right; exact H].
Qed.

Lemma cv_count_pos_in kids nm : 0 < cv_count kids nm -> In nm (map cv_cname kids).
Proof.
  unfold cv_count, vlen. destruct nm as [|a nm]; [lia|]. intros H.
  destruct (filter (fun k => cv_name_eqb (cv_cname k) (a :: nm)) kids) as [|k l] eqn:E; [simpl in H; lia|].
  assert (IN : In k (filter (fun k => cv_name_eqb (cv_cname k) (a :: nm)) kids)) by (rewrite E; left; reflexivity).
  apply filter_In in IN. destruct IN as [IN Q]. apply cv_name_eqb_spec in Q. rewrite <- Q. apply in_map. exact IN.
Qed.

Lemma cv_count_zero_inv kids nm : cv_count kids nm = 0 -> nm <> [] -> forall k, In k kids -> cv_cname k <> nm.
Proof.
  intros Z NE k IN EQ. assert (P : 1 <= cv_count kids (cv_cname k)) by (apply cv_count_pos; [exact IN | rewrite EQ; exact NE]).
  rewrite EQ in P. lia.
Qed.

(* the candidate search ends: among n + 1 different candidates one is carried by none of the n children *)
Lemma cv_find_suffix_total base kids : forall fuel c taken,
  NoDup taken -> incl taken (map cv_cname kids) ->
  (forall t, In t taken -> exists c'', c'' < c /\ t = cv_suffixed base c'') ->
  (length kids < length taken + fuel)%nat ->
  exists c', cv_find_suffix fuel kids base c = Ok c' /\ c <= c' /\ cv_count kids (cv_suffixed base c') = 0.
Proof.
  induction fuel as [|f IH]; intros c taken ND INC TK LEN.
  - exfalso. pose proof (NoDup_incl_length ND INC) as L. rewrite map_length in L. lia.
  - cbn [cv_find_suffix]. destruct (N.ltb_spec 0 (cv_count kids (cv_suffixed base c))) as [P | Z].
    + destruct (IH (c + 1) (cv_suffixed base c :: taken)) as [c' [E [LE Z]]].
      * constructor; [|exact ND]. intros IN. destruct (TK _ IN) as [c'' [LT EQ]].
        apply cv_suffixed_inj in EQ. destruct EQ as [_ EQ]. lia.
      * intros t [<- | IN]; [apply cv_count_pos_in; exact P | apply INC; exact IN].
      * intros t [<- | IN]; [exists c; split; [lia | reflexivity]|].
        destruct (TK _ IN) as [c'' [LT EQ]]. exists c''. split; [lia | exact EQ].
      * simpl. lia.
      * exists c'. split; [exact E|]. split; [lia | exact Z].
    + exists c. split; [reflexivity|]. split; lia.
Qed.

Section Distinct.
  Variable orig : list cv_child.
  (* H1: no shape child is unnamed (unnamed shapes are never renamed: cv_rename_empty_refuted) *)
  Hypothesis H1 : forall k, In k orig -> cv_is_shape k = true -> cv_cname k <> [].

  Lemma cv_rename_go_distinct : forall todo done dup ren,
    (forall x, In x todo -> In x orig) ->
    NoDup (cv_shape_names done) ->
    (dup = 0 -> cv_shape_names done = []) ->
    exists r ren', cv_rename_go done todo dup ren = Ok (r, ren')
      /\ NoDup (cv_shape_names r) /\ length r = (length done + length todo)%nat
      /\ map cv_is_shape r = map cv_is_shape (done ++ todo).
  Proof.
    induction todo as [|k rest IH]; intros done dup ren HT ND HZ.
    - exists done, ren. simpl. rewrite app_nil_r. repeat split; auto.
    - cbn [cv_rename_go].
      assert (Ik : In k orig) by (apply HT; left; reflexivity).
      assert (HT' : forall x, In x rest -> In x orig) by (intros x Hx; apply HT; right; exact Hx).
      destruct (cv_is_shape k) eqn:Sk.
      + destruct (N.eqb_spec dup 0) as [Z | NZ].
        * (* the first shape child is skipped *)
          destruct (IH (done ++ [k]) 1 ren) as [r [ren' [E [A [B C]]]]].
          -- exact HT'.
          -- rewrite cv_shape_names_app, (HZ Z). unfold cv_shape_names. simpl. rewrite Sk. simpl. constructor; [intros []|constructor].
          -- intros X. discriminate.
          -- exists r, ren'. split; [exact E|]. split; [exact A|]. split.
             ++ rewrite B, app_length. simpl. lia.
             ++ rewrite C, <- app_assoc. reflexivity.
        * set (all := done ++ k :: rest).
          destruct (N.ltb_spec 1 (cv_count all (cv_cname k))) as [DUP | NODUP].
          -- (* duplicated: the search returns a candidate nobody carries *)
             destruct (cv_find_suffix_total (cv_cname k) all (S (length all)) dup [] (NoDup_nil _)
                         ltac:(intros t []) ltac:(intros t []) ltac:(simpl; lia)) as [c [EF [LE FR]]].
             rewrite EF. cbn [bind].
             set (k' := cv_mkChild true (cv_suffixed (cv_cname k) c)).
             destruct (IH (done ++ [k']) (c + 1) true) as [r [ren' [E [A [B C]]]]].
             ++ exact HT'.
             ++ rewrite cv_shape_names_app. unfold cv_shape_names at 2. simpl.
                apply cv_NoDup_snoc; [exact ND|].
                intros IN. unfold cv_shape_names in IN. apply in_map_iff in IN. destruct IN as [x [EQ Hx]].
                apply filter_In in Hx. destruct Hx as [Hx _].
                apply (cv_count_zero_inv all _ FR (cv_suffixed_nonempty _ _) x); [unfold all; apply in_or_app; left; exact Hx | exact EQ].
             ++ intros X. lia.
             ++ exists r, ren'. split; [exact E|]. split; [exact A|]. split.
                ** rewrite B, app_length. simpl. lia.
                ** rewrite C. unfold all. rewrite <- app_assoc. rewrite !map_app. cbn [map app cv_is_shape k']. rewrite Sk. reflexivity.
          -- (* not duplicated: nobody in [done] has this name *)
             destruct (IH (done ++ [k]) dup ren) as [r [ren' [E [A [B C]]]]].
             ++ exact HT'.
             ++ rewrite cv_shape_names_app. unfold cv_shape_names at 2. simpl. rewrite Sk. simpl.
                apply cv_NoDup_snoc; [exact ND|].
                intros IN. unfold cv_shape_names in IN. apply in_map_iff in IN. destruct IN as [x [EQ Hx]].
                apply filter_In in Hx. destruct Hx as [Hx _].
                assert (NE : cv_cname k <> []) by (apply H1; assumption).
                assert (C1 : 1 <= cv_count done (cv_cname k)).
                { rewrite <- EQ. apply cv_count_pos; [exact Hx | rewrite EQ; exact NE]. }
                assert (C2 : 1 <= cv_count (k :: rest) (cv_cname k)) by (apply cv_count_pos; [left; reflexivity | exact NE]).
                unfold all in NODUP. rewrite cv_count_app in NODUP. lia.
             ++ intros X. contradiction.
             ++ exists r, ren'. split; [exact E|]. split; [exact A|]. split.
                ** rewrite B, app_length. simpl. lia.
                ** rewrite C, <- app_assoc. reflexivity.
      + destruct (IH (done ++ [k]) dup ren) as [r [ren' [E [A [B C]]]]].
        * exact HT'.
        * rewrite cv_shape_names_app. unfold cv_shape_names at 2. simpl. rewrite Sk. simpl. rewrite app_nil_r. exact ND.
        * intros X. rewrite cv_shape_names_app. unfold cv_shape_names at 2. simpl. rewrite Sk. simpl. rewrite app_nil_r. apply HZ. exact X.
        * exists r, ren'. split; [exact E|]. split; [exact A|]. split.
          -- rewrite B, app_length. simpl. lia.
          -- rewrite C, <- app_assoc. reflexivity.
  Qed.

  Theorem cv_rename_distinct :
    exists r ren, cv_rename_node orig = Ok (r, ren) /\ NoDup (cv_shape_names r)
      /\ length r = length orig /\ map cv_is_shape r = map cv_is_shape orig.
  Proof.
    unfold cv_rename_node.
    destruct (cv_rename_go_distinct orig [] 0 false) as [r [ren [E [A [B C]]]]].
    - auto.
    - constructor.
    - reflexivity.
    - exists r, ren. auto.
  Qed.
End Distinct.

(* the loop terminates with a result for EVERY child list (no hypothesis) *)
Lemma cv_rename_go_total : forall todo done dup ren, exists r ren', cv_rename_go done todo dup ren = Ok (r, ren').
Proof.
  induction todo as [|k rest IH]; intros done dup ren; cbn [cv_rename_go]; [eauto|].
  destruct (cv_is_shape k); [|apply IH].
  destruct (dup =? 0); [apply IH|].
  destruct (1 <? cv_count (done ++ k :: rest) (cv_cname k)); [|apply IH].
  destruct (cv_find_suffix_total (cv_cname k) (done ++ k :: rest) (S (length (done ++ k :: rest))) dup [] (NoDup_nil _)
              ltac:(intros t []) ltac:(intros t []) ltac:(simpl; lia)) as [c [EF _]].
  rewrite EF. cbn [bind]. apply IH.
Qed.
Theorem cv_rename_total kids : exists r ren, cv_rename_node kids = Ok (r, ren).
Proof. apply cv_rename_go_total. Qed.

(* ---------- frame, for EVERY child list (no hypothesis): whatever the loop returns has the same
   children in the same order; a child keeps its name or is a shape that got "_<number>" appended;
   the first shape child is never renamed ---------- *)

Definition cv_child_step (k k' : cv_child) : Prop :=
  k' = k \/ (cv_is_shape k = true /\ cv_is_shape k' = true /\ exists c, cv_cname k' = cv_suffixed (cv_cname k) c).

Lemma cv_rename_go_frame : forall todo done dup ren r ren',
  cv_rename_go done todo dup ren = Ok (r, ren') ->
  exists r2, r = done ++ r2 /\ Forall2 cv_child_step todo r2.
Proof.
  induction todo as [|k rest IH]; intros done dup ren r ren' E; cbn [cv_rename_go] in E.
  - injection E as <- _. exists []. rewrite app_nil_r. split; [reflexivity | constructor].
  - destruct (cv_is_shape k) eqn:Sk.
    + destruct (dup =? 0).
      * apply IH in E. destruct E as [r2 [-> F]]. exists (k :: r2). rewrite <- app_assoc. split; [reflexivity|].
        constructor; [left; reflexivity | exact F].
      * destruct (1 <? cv_count (done ++ k :: rest) (cv_cname k)).
        -- destruct (cv_find_suffix _ _ _ _) as [c| |]; cbn [bind] in E; try discriminate.
           apply IH in E. destruct E as [r2 [-> F]]. eexists (_ :: r2). rewrite <- app_assoc. split; [reflexivity|].
           constructor; [|exact F]. right. split; [exact Sk|]. split; [reflexivity|]. exists c. reflexivity.
        -- apply IH in E. destruct E as [r2 [-> F]]. exists (k :: r2). rewrite <- app_assoc. split; [reflexivity|].
           constructor; [left; reflexivity | exact F].
    + apply IH in E. destruct E as [r2 [-> F]]. exists (k :: r2). rewrite <- app_assoc. split; [reflexivity|].
      constructor; [left; reflexivity | exact F].
Qed.

Theorem cv_rename_frame kids r ren : cv_rename_node kids = Ok (r, ren) -> Forall2 cv_child_step kids r.
Proof. intros E. apply cv_rename_go_frame in E. destruct E as [r2 [-> F]]. exact F. Qed.

(* ---------- the unconditional statement is false ---------- *)

Definition cv_A : cv_name := [65].
Definition cv_A_1 : cv_name := [65; 95; 49].
Definition cv_sh (n : cv_name) := cv_mkChild true n.

(* the former counterexample [A_1, A, A] (which the "> 1" test turned into [A_1, A_1, A]) now becomes [A_1, A_2, A] *)
Example cv_rename_former_witness :
  cv_rename_node [cv_sh cv_A_1; cv_sh cv_A; cv_sh cv_A] = Ok ([cv_sh cv_A_1; cv_sh [65; 95; 50]; cv_sh cv_A], true).
Proof. vm_compute. reflexivity. Qed.

(* unnamed shapes are never renamed: countDupes answers 0 for the empty name *)
Theorem cv_rename_empty_refuted :
  exists kids r, cv_rename_node kids = Ok (r, false) /\ cv_shape_names r = [[]; []] /\ ~ NoDup (cv_shape_names r).
Proof.
  exists [cv_sh []; cv_sh []]. eexists. split; [vm_compute; reflexivity|]. split; [reflexivity|].
  intros ND. inversion ND as [|? ? NI _]. apply NI. left. reflexivity.
Qed.

(* only the root and its direct child nodes are visited: duplicates two levels down stay *)
Theorem cv_rename_deep_refuted :
  exists tree, cv_rename_file tree = Ok (tree, false)
    /\ tree = [CvNode [78; 49] [CvNode [78; 50] [CvShape cv_A; CvShape cv_A]]].
Proof. eexists. split; [|reflexivity]. vm_compute. reflexivity. Qed.

(* ... while one level down they are renamed *)
Example cv_rename_child_node :
  cv_rename_file [CvNode [78; 49] [CvShape cv_A; CvShape cv_A]] = Ok ([CvNode [78; 49] [CvShape cv_A; CvShape cv_A_1]], true).
Proof. vm_compute. reflexivity. Qed.

(* the hypotheses of cv_rename_distinct are satisfiable: [A, A, B, A] -> [A, A_1, B, A_2] *)
Example cv_rename_distinct_ex :
  cv_rename_node [cv_sh cv_A; cv_sh cv_A; cv_sh [66]; cv_sh cv_A]
  = Ok ([cv_sh cv_A; cv_sh cv_A_1; cv_sh [66]; cv_sh [65; 95; 50]], true).
Proof. vm_compute. reflexivity. Qed.
