(* model_oracle path: runs the extracted model of the texture path clean-up (coq/Path/PathModel.v,
   POSIX instance of is_relative) and the extracted canonical-form predicate (coq/Path/PathSpec.v).

   clean np=<0|1> terrain=<0|1> p=<hex> [other keys ignored]
       M=<hex clean p> M2=<hex clean (clean p)> S=<1|0 canonical (clean p)>
   load  ... : the same on cstr p (a path read back from a file stops at its first NUL byte)
   canon np= terrain= p=<hex>
       S=<1|0 canonical p>      (used to evaluate the spec on the implementation's outputs) *)
open Model
open Conv

let bytes_of_hex (h : string) : n list =
  let v c = match c with
    | '0' .. '9' -> Char.code c - 48
    | 'a' .. 'f' -> Char.code c - 87
    | 'A' .. 'F' -> Char.code c - 55
    | _ -> 0 in
  let len = String.length h / 2 in
  let rec go i acc = if i < 0 then acc else go (i - 1) (n_of_int (v h.[2 * i] * 16 + v h.[2 * i + 1]) :: acc) in
  go (len - 1) []

let hex_of_bytes (l : n list) : string =
  let b = Buffer.create 64 in
  List.iter (fun x -> Buffer.add_string b (Printf.sprintf "%02x" (int_of_n x land 255))) l;
  Buffer.contents b

let b01 b = if b then "1" else "0"

let run_case (c : case) : string =
  let np = (get c "np" = "1") and terrain = (get c "terrain" = "1") in
  let p = bytes_of_hex (get c "p") in
  match c.op with
  | "clean" | "load" ->
    let p = if c.op = "load" then cstr p else p in
    let m = clean_posix np terrain p in
    let m2 = clean_posix np terrain m in
    "M=" ^ hex_of_bytes m ^ " M2=" ^ hex_of_bytes m2 ^ " S=" ^ b01 (canonical_posix np terrain m)
  | "canon" -> "S=" ^ b01 (canonical_posix np terrain p)
  | _ -> "M=? S=?"

let main () = List.iter (fun l -> if l <> "" then print_endline (run_case (parse_case l))) (read_lines ())
