(* model_oracle sorter: runs the extracted sorter model (coq/Sorter/SorterModel.v, reached only through
   the family-unique entry points of coq/Sorter/SorterExtract.v) on a graph dump of
   harness/o_sorter.cpp and prints the dump(s) the operation is predicted to leave behind.
   Also: enumeration of all small graphs inside the model (a test of the theorems' conclusions). *)
open Model
open Conv

let so_names : (string, int) Hashtbl.t = Hashtbl.create 64
let so_rnames : (int, string) Hashtbl.t = Hashtbl.create 64
let so_intern s =
  try Hashtbl.find so_names s with Not_found ->
    let i = Hashtbl.length so_names + 1 in Hashtbl.add so_names s i; Hashtbl.add so_rnames i s; i
let so_name_of (x : n) = try Hashtbl.find so_rnames (int_of_n x) with Not_found -> "?" ^ str_of_n x

let so_npos = n_of_string "4294967295"
let so_ref s = if s = "x" then so_npos else n_of_string s
let so_str (r : n) = if r = so_npos then "x" else str_of_n r
let so_refs s = List.map so_ref (split_on '.' s)
let so_strs l = join "." so_str l

(* dump field order: uid t name kind extra ctrl props coll children gdata skin shader alpha skdata skpart
   bsdata texset cblocks textkey animnotes animnotes_l notes entities chained entA entB kpre kpost crefs ptrs *)
let so_parse_block (b : string) =
  match String.split_on_char ',' b with
  | [u; t; nm; k; ex; ct; pp; co; ch; gd; sk; sh; al; sd; sp; bd; tx; cb; tk; an; anl; nt; en; ce; ea; eb; kpre; kpost; cr; pt] ->
    sorter_mk_block
      [n_of_string u; n_of_int (so_intern ("T" ^ t)); n_of_int (so_intern ("N" ^ nm)); n_of_string k;
       so_ref ct; so_ref co; so_ref gd; so_ref sk; so_ref sh; so_ref al; so_ref sd; so_ref sp; so_ref bd; so_ref tx;
       so_ref tk; so_ref an; so_ref ea; so_ref eb]
      [so_refs ex; so_refs pp; so_refs ch; so_refs cb; so_refs anl; so_refs nt; so_refs en; so_refs ce;
       so_refs kpre; so_refs kpost; so_refs cr; so_refs pt]
  | l -> failwith ("bad block (" ^ string_of_int (List.length l) ^ " fields) " ^ b)

let so_tail s = String.sub s 1 (String.length s - 1)

let so_dump_block b : string =
  match sorter_block_scalars b, sorter_block_lists b with
  | [u; t; nm; k; ct; co; gd; sk; sh; al; sd; sp; bd; tx; tk; an; ea; eb],
    [ex; pp; ch; cb; anl; nt; en; ce; kpre; kpost; cr; pt] ->
    String.concat "," [
      str_of_n u; so_tail (so_name_of t); so_tail (so_name_of nm); str_of_n k;
      so_strs ex; so_str ct; so_strs pp; so_str co; so_strs ch;
      so_str gd; so_str sk; so_str sh; so_str al; so_str sd; so_str sp; so_str bd; so_str tx;
      so_strs cb; so_str tk; so_str an; so_strs anl; so_strs nt; so_strs en; so_strs ce; so_str ea; so_str eb;
      so_strs kpre; so_strs kpost; so_strs cr; so_strs pt ]
  | _ -> "BADBLOCK"

let so_children b = List.nth (sorter_block_lists b) 2

let so_parse_model (d : string) =
  let kv = List.filter_map (fun t -> match String.index_opt t '=' with
    | Some i -> Some (String.sub t 0 i, String.sub t (i + 1) (String.length t - i - 1)) | None -> None)
    (String.split_on_char '~' d) in
  let g k = try List.assoc k kv with Not_found -> "" in
  sorter_mk_model (List.map so_parse_block (split_on '+' (g "blocks"))) (g "ob" = "1") (g "unk" = "1")

let so_dump_model m : string =
  let g = sorter_model_blocks m in
  "ob=" ^ (if sorter_model_ob m then "1" else "0") ^ " unk=" ^ (if sorter_model_unk m then "1" else "0")
  ^ " n=" ^ string_of_int (List.length g) ^ " blocks=" ^ join "+" so_dump_block g

let so_fuel = lazy (nat_of_int 20000)

let so_run (c : case) : string =
  let m = so_parse_model (get c "dump") in
  let fuel = Lazy.force so_fuel in
  let names = List.map (fun s -> n_of_int (so_intern ("N" ^ s))) (split_on ',' (get c "names")) in
  let show r = str_res so_dump_model r in
  match get c "act" with
  | "sort" -> show (sorter_pretty_sort fuel m)
  | "sort2" ->
    (match sorter_pretty_sort fuel m with
     | Ok m1 -> so_dump_model m1 ^ " | " ^ show (sorter_pretty_sort fuel m1)
     | r -> show r)
  | "opt" -> show (sorter_optimize m)
  | "save" -> show (sorter_default_save fuel m)
  | "order" -> show (sorter_set_shape_order fuel names m)
  | _ -> "?"

(* ---- all graphs with at most [nb] blocks over a handful of block shapes, inside the model ---- *)
let so_mk kind ?(coll = so_npos) ?(children = []) ?(kpre = []) ?(entities = []) uid =
  sorter_mk_block
    [n_of_int uid; n_of_int kind; N0; n_of_int kind; so_npos; coll; so_npos; so_npos; so_npos; so_npos; so_npos;
     so_npos; so_npos; so_npos; so_npos; so_npos; so_npos; so_npos]
    [[]; []; children; []; []; []; entities; []; kpre; []; []; []]

let so_is_perm (l : n list) =
  let n = List.length l in
  let seen = Array.make n false in
  List.for_all (fun x -> let i = int_of_n x in i < n && (let f = not seen.(i) in seen.(i) <- true; f)) l

let so_count x l = List.length (List.filter (fun y -> y = x) l)

(* the conclusions of the theorems, by computation, on one model; returns the name of a failed one *)
let so_check_one m : string option * bool =
  let fuel = Lazy.force so_fuel in
  let g = sorter_model_blocks m in
  match sorter_pretty_indices fuel (sorter_model_ob m) g with
  | OutOfFuel -> (None, false)
  | Fault -> (Some "fault", true)
  | Ok st ->
    let order = sorter_state_order st in
    if not (so_is_perm order) then (Some "perm", true)
    else begin
      (* root first *)
      let n = List.length g in
      let roots = List.filter (fun i -> sorter_has_kind (n_of_int 1) (List.nth g i) && not (sorter_has_parent g (n_of_int i))
                                        && not (sorter_has_kind N0 (List.nth g i))) (List.init n (fun i -> i)) in
      let bad_root = match roots with r :: _ -> List.nth order r <> N0 | [] -> false in
      (* children: same set, no child more often *)
      let bad_children = List.exists2 (fun b b' ->
        let c = so_children b and c' = so_children b' in
        List.exists (fun x -> so_count x c' > so_count x c) c' || List.exists (fun x -> not (List.mem x c')) c)
        g (sorter_state_blocks st) in
      if bad_root then (Some "root_first", true)
      else if bad_children then (Some "children", true)
      else match sorter_pretty_sort fuel m with
        | Ok m1 ->
          (match sorter_pretty_sort fuel m1 with
           | Ok m2 -> if sorter_model_blocks m2 = sorter_model_blocks m1 then (None, true) else (Some "idem", true)
           | _ -> (Some "idem-run", true))
        | _ -> (Some "sort-run", true)
    end

let so_enum (nb : int) (ob : bool) : string =
  (* block shapes: node, ordered node, shape, collision object, bhk shape (child before parent), constraint, plain *)
  let count = ref 0 and bad = ref 0 and diverge = ref 0 and first = ref "" in
  let refs_choices n = so_npos :: List.init n (fun i -> n_of_int i) in
  let rec lists k choices = if k = 0 then [[]] else
    List.concat_map (fun l -> List.map (fun x -> x :: l) choices) (lists (k - 1) choices) in
  let shapes_of n uid =
    let rc = refs_choices n in
    let two = lists 2 rc and one = lists 1 rc in
    List.concat [
      List.map (fun ch -> so_mk 2 ~children:ch uid) ([] :: one @ two);                         (* NiNode *)
      List.map (fun ch -> so_mk 6 ~children:ch uid) two;                                       (* BSOrderedNode *)
      List.map (fun l -> so_mk 8 ~coll:(List.hd l) ~kpre:[so_npos; List.hd l] uid) one;        (* NiShape with collisionRef *)
      List.map (fun l -> so_mk 1 ~kpre:l uid) one;                                             (* collision object -> body *)
      List.map (fun l -> so_mk 8192 ~kpre:l uid) one;                                          (* bhk shape / body *)
      List.map (fun l -> so_mk (8192 + 2048) ~entities:l uid) one;                             (* constraint *)
      List.map (fun l -> so_mk 0 ~kpre:l uid) one ] in
  let rec go n acc uid =
    if uid = n then begin
      let m = sorter_mk_model (List.rev acc) ob false in
      Stdlib.incr count;
      (match so_check_one m with
       | (Some w, _) -> Stdlib.incr bad; if !first = "" then first := w ^ ":" ^ so_dump_model m
       | (None, false) -> Stdlib.incr diverge
       | _ -> ())
    end else List.iter (fun b -> go n (b :: acc) (uid + 1)) (shapes_of n uid) in
  for n = 1 to nb do go n [] 0 done;
  Printf.sprintf "checked=%d diverge=%d bad=%d first=%s" !count !diverge !bad (String.map (fun c -> if c = ' ' then '~' else c) !first)

let main () =
  List.iter (fun line ->
    if line <> "" then begin
      let c = parse_case line in
      let out = match c.op with
        | "m" -> (try so_run c with Failure e -> "ERR:" ^ e)
        | "enum" -> so_enum (get_int c "n") (get c "ob" = "1")
        | _ -> "?" in
      print_string ("M=" ^ out ^ "\n")
    end) (read_lines ())
