(* model_oracle shapeapi (C13): runs the extracted storage / accessor model on the same generated
   cases as harness/o_shapeapi.cpp and prints the same dump format. Parsing, data generation
   (palette formula) and printing only. *)
open Model
open Conv

type sa_item = SaT of int | SaQ of string

let sa_str_item = function SaT i -> string_of_int i | SaQ s -> s

let sa_arr (l : sa_item list) : string =
  let a = Array.of_list l in
  let n = Array.length a in
  let b = Buffer.create 256 in
  Buffer.add_string b (string_of_int n); Buffer.add_char b ':';
  if n <= 48 then
    Array.iteri (fun i x -> if i > 0 then Buffer.add_char b ','; Buffer.add_string b (sa_str_item x)) a
  else
    for j = 0 to 23 do
      if j > 0 then Buffer.add_char b ',';
      Buffer.add_string b (sa_str_item a.((j * (n - 1)) / 23))
    done;
  let pure = Array.for_all (function SaT i -> i < 4294967296 | SaQ _ -> false) a in
  Buffer.add_char b '#';
  if pure then begin
    let h = ref 7 in
    Array.iter (function SaT x -> h := (!h * 65599 + (x mod 2147483647)) mod 2147483647 | SaQ _ -> ()) a;
    Buffer.add_string b (string_of_int !h)
  end else Buffer.add_char b '*';
  Buffer.contents b

let sa_t (x : n) = SaT (int_of_n x)
let sa_q (x : q) = SaQ (str_of_z x.qnum ^ "/" ^ Printf.sprintf "%Lu" (i64_of_pos x.qden))
let sa_f3 l = List.concat_map (fun ((a, b), c) -> [sa_t a; sa_t b; sa_t c]) l
let sa_f2 l = List.concat_map (fun (a, b) -> [sa_t a; sa_t b]) l
let sa_f4 l = List.concat_map (fun (((a, b), c), d) -> [sa_t a; sa_t b; sa_t c; sa_t d]) l
let sa_f1 l = List.map sa_t l
let sa_q3 l = List.concat_map (fun ((a, b), c) -> [sa_q a; sa_q b; sa_q c]) l
let sa_q4 l = List.concat_map (fun (((a, b), c), d) -> [sa_q a; sa_q b; sa_q c; sa_q d]) l
let sa_bnd ((((a, b), c), d) : sa_bnd) =
  String.concat "," (List.map (fun x -> string_of_int (int_of_n x)) [a; b; c; d])
let sa_bool b = if b then "1" else "0"

let sa_dump_state (s : sa_shape) : string =
  match s with
  | Sa_SB b ->
    let vd = b.sa_b_vd in
    let seg = (match b.sa_b_kind with
      | Sa_KTri -> "-"
      | Sa_KSubIndex -> let ((((p, q), r), s), t) = b.sa_b_seg in
        String.concat "/" (List.map (fun x -> string_of_int (int_of_n x)) [p; q; r; s; t])) in
    Printf.sprintf "S nv=%s nt=%s desc=%s ds=%s vs=%s vV=%s vX=%s vU=%s vN=%s vBY=%s vT=%s vBZ=%s vC=%s vE=%s TR=%s BD=%s seg=%s"
      (str_of_n b.sa_b_nv) (str_of_n b.sa_b_nt) (str_of_n b.sa_b_desc) (str_of_n b.sa_b_dataSize) (str_of_n b.sa_b_vertexSize)
      (sa_arr (sa_f3 (List.map (fun v -> v.sa_bv_vert) vd)))
      (sa_arr (sa_f1 (List.map (fun v -> v.sa_bv_bitX) vd)))
      (sa_arr (sa_f2 (List.map (fun v -> v.sa_bv_uv) vd)))
      (sa_arr (sa_f3 (List.map (fun v -> v.sa_bv_n) vd)))
      (sa_arr (sa_f1 (List.map (fun v -> v.sa_bv_bitY) vd)))
      (sa_arr (sa_f3 (List.map (fun v -> v.sa_bv_t) vd)))
      (sa_arr (sa_f1 (List.map (fun v -> v.sa_bv_bitZ) vd)))
      (sa_arr (sa_f4 (List.map (fun v -> v.sa_bv_col) vd)))
      (sa_arr (sa_f1 (List.map (fun v -> v.sa_bv_eye) vd)))
      (sa_arr (sa_f3 b.sa_b_tris)) (sa_bnd b.sa_b_bounds) seg
  | Sa_SG g ->
    Printf.sprintf "G nv=%s hv=%s hn=%s hc=%s df=%s nt=%s ntp=%s ht=%s V=%s N=%s T=%s B=%s C=%s US=%d U=%s TR=%s BD=%s"
      (str_of_n g.sa_g_nv) (sa_bool g.sa_g_hv) (sa_bool g.sa_g_hn) (sa_bool g.sa_g_hc) (str_of_n g.sa_g_df)
      (str_of_n g.sa_g_nt) (str_of_n g.sa_g_ntp) (sa_bool g.sa_g_ht)
      (sa_arr (sa_f3 g.sa_g_verts)) (sa_arr (sa_f3 g.sa_g_norms)) (sa_arr (sa_f3 g.sa_g_tans)) (sa_arr (sa_f3 g.sa_g_bits))
      (sa_arr (sa_f4 g.sa_g_cols)) (List.length g.sa_g_uvs)
      (sa_arr (match g.sa_g_uvs with u :: _ -> sa_f2 u | [] -> []))
      (sa_arr (sa_f3 g.sa_g_tris)) (sa_bnd g.sa_g_bounds)

let sa_opt f = function Some l -> sa_arr (f l) | None -> "-"
let sa_ropt f = function Ok (Some l) -> sa_arr (f l) | Ok None -> "-" | _ -> "FAULT"

let sa_dump_getters (s : sa_shape) : string =
  match s with
  | Sa_SB b ->
    Printf.sprintf "mV=%s mU=%s mN=%s mT=%s mB=%s mC=%s mE=%s mTR=1%s"
      (match sa_bs_get_verts b with Ok l -> sa_arr (sa_f3 l) | _ -> "FAULT")
      (sa_ropt sa_f2 (sa_bs_get_uvs b))
      (sa_ropt sa_q3 (sa_bs_get_normals b))
      (sa_ropt sa_q3 (sa_bs_get_tangents b))
      (sa_ropt (List.concat_map (fun ((a, y), z) -> [sa_t a; sa_q y; sa_q z])) (sa_bs_get_bitangents b))
      (sa_ropt sa_q4 (sa_bs_get_colors b))
      (sa_ropt sa_f1 (sa_bs_get_eye b))
      (sa_arr (sa_f3 (sa_bs_get_tris b)))
  | Sa_SG g ->
    let (ht, tr) = sa_g_get_tris g in
    Printf.sprintf "mV=%s mU=%s mN=%s mT=%s mB=%s mC=%s mE=- mTR=%s%s"
      (sa_opt sa_f3 (sa_g_get_verts g)) (sa_opt sa_f2 (sa_g_get_uvs g)) (sa_opt sa_f3 (sa_g_get_normals g))
      (sa_opt sa_f3 (sa_g_get_tangents g)) (sa_opt sa_f3 (sa_g_get_bitangents g)) (sa_opt sa_f4 (sa_g_get_colors g))
      (sa_bool ht) (sa_arr (sa_f3 tr))

let sa_classes (v : sa_version) : string =
  let r = sa_create_class v in
  Printf.sprintf "cls=%s/%s/%s/%s/%s/sk0/wet%d/nb%d/ch1/Shp"
    (match r.sa_cr_shape with Sa_CBSTriShape -> "BSTriShape" | Sa_CBSSubIndexTriShape -> "BSSubIndexTriShape" | Sa_CNiTriShape -> "NiTriShape")
    (match r.sa_cr_data with Some _ -> "NiTriShapeData" | None -> "-")
    (match r.sa_cr_shader with Sa_CBSLightingShaderProperty -> "BSLightingShaderProperty" | Sa_CBSShaderPPLightingProperty -> "BSShaderPPLightingProperty")
    (match r.sa_cr_link with Sa_LShaderRef -> "ref" | Sa_LPropertyList -> "prop")
    (if r.sa_cr_texset then "BSShaderTextureSet" else "-")
    (if r.sa_cr_wet then 32 else 0)          (* "template/OutfitTemplate_Wet.bgsm" has 32 characters *)
    (1 + int_of_n r.sa_cr_blocks)

let sa_run (c : case) : string =
  let ver = (match get_ilist c "ver" with
    | [f; u; s] -> { sa_vfile = n_of_int f; sa_vuser = n_of_int u; sa_vstream = n_of_int s }
    | _ -> failwith "ver") in
  let pal p = Array.of_list (get_ilist c (match p with 'h' -> "ph" | 'u' -> "pu" | 'c' -> "pc" | _ -> "pp")) in
  let (a, b, cc, d) = (match get_ilist c "seed" with [a; b; c; d] -> (a, b, c, d) | _ -> failwith "seed") in
  let tok p k i j = let v = pal p in n_of_int v.((a * i + b * j + cc * k + d) mod Array.length v) in
  let idx k i j range = n_of_int ((a * i + b * j + cc * k + d) mod (if range = 0 then 1 else range)) in
  let mk3 n k p = List.init n (fun i -> ((tok p k i 0, tok p k i 1), tok p k i 2)) in
  let mk2 n k p = List.init n (fun i -> (tok p k i 0, tok p k i 1)) in
  let mk4 n k p = List.init n (fun i -> (((tok p k i 0, tok p k i 1), tok p k i 2), tok p k i 3)) in
  let mk1 n k p = List.init n (fun i -> tok p k i 0) in
  let mkT n k range = List.init n (fun i -> ((idx k i 0 range, idx k i 1 range), idx k i 2 range)) in
  let nv = get_int c "nv" and nt = get_int c "nt" and nuv = get_int c "nuv" and nn = get_int c "nn" and tr = get_int c "tr" in
  let chr s dflt = if s = "" then dflt else s.[0] in
  let cp = chr (get c "cp") 'p' and cn = chr (get c "cn") 'u' in
  let buf = Buffer.create 4096 in
  (match sa_create sa_unk_bsphere sa_unk_btan sa_unk_gtan ver (mk3 nv 0 cp) (mkT nt 1 tr)
           (if nuv < 0 then None else Some (mk2 nuv 2 cp)) (if nn < 0 then None else Some (mk3 nn 3 cn)) with
   | Ok s0 ->
     Buffer.add_string buf (sa_classes ver ^ " | " ^ sa_dump_state s0 ^ " " ^ sa_dump_getters s0);
     let cur = ref s0 in
     (try
       List.iter (fun opstr ->
         let o = Array.of_list (split_on ':' opstr) in
         let num i = if i < Array.length o then int_of_string o.(i) else 0 in
         let pc i = if i < Array.length o && o.(i) <> "" then o.(i).[0] else 'p' in
         Buffer.add_string buf (" | " ^ opstr ^ " ");
         let ap op = (match sa_step sa_unk_bsphere sa_unk_btan sa_unk_gtan ver !cur op with
           | Ok s -> cur := s; Buffer.add_string buf (sa_dump_state s ^ " " ^ sa_dump_getters s)
           | _ -> Buffer.add_string buf "FAULT"; raise Exit) in
         match o.(0) with
         | "sv" -> ap (Sa_OSetVerts (mk3 (num 1) (num 2) (pc 3)))
         | "su" -> ap (Sa_OSetUvs (mk2 (num 1) (num 2) (pc 3)))
         | "sn" -> ap (Sa_OSetNormals (mk3 (num 1) (num 2) (pc 3)))
         | "st" -> ap (Sa_OSetTangents (mk3 (num 1) (num 2) (pc 3)))
         | "sb" -> ap (Sa_OSetBitangents (mk3 (num 1) (num 2) (pc 3)))
         | "sc" -> ap (Sa_OSetColors (mk4 (num 1) (num 2) (pc 3)))
         | "se" -> ap (Sa_OSetEye (mk1 (num 1) (num 2) (pc 3)))
         | "sr" -> ap (Sa_OSetTris (mkT (num 1) (num 2) (num 3)))
         | "sbd" -> let q = pc 2 and k = num 1 in
           ap (Sa_OSetBounds (((tok q k 0 0, tok q k 0 1), tok q k 0 2), tok q k 0 3))
         | "ub" -> ap Sa_OUpdateBounds
         | "fp" -> ap (Sa_OFullPrec (num 1 <> 0))
         | "vc" -> ap (Sa_OFlagColors (num 1 <> 0))
         | "nm" -> ap (Sa_OFlagNormals (num 1 <> 0))
         | "tg" -> ap (Sa_OFlagTangents (num 1 <> 0))
         | "uv" -> ap (Sa_OFlagUVs (num 1 <> 0))
         | "ct" -> ap Sa_OCalcTangents
         | "save" ->
           (match sa_save_reload sa_unk_bsphere sa_half_mark ver (num 1 <> 0) !cur with
            | Ok (s1, s2) ->
              cur := s2;
              Buffer.add_string buf (sa_dump_state s1 ^ " ~ " ^ sa_dump_state s2 ^ " " ^ sa_dump_getters s2)
            | _ -> Buffer.add_string buf "FAULT"; raise Exit)
         | _ -> Buffer.add_string buf "?") (split_on ';' (get c "ops"))
     with Exit -> ())
   | _ -> Buffer.add_string buf "FAULT");
  Buffer.contents buf

let main () =
  List.iter (fun line ->
    if String.trim line <> "" then begin
      let c = parse_case line in
      let r = (try (match c.op with "shape" -> sa_run c | _ -> "?") with e -> "EXN:" ^ Printexc.to_string e) in
      print_string ("M=" ^ r); print_newline ()
    end) (read_lines ())
