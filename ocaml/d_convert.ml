(* model_oracle convert (C12): runs the extracted model of NifFile::RenameDuplicateShapes on a scene
   tree of names.  Case:  names tree=<item,item,...>   item := s<hexname> | n<hexname>(<items>)
   Output: M=<r> <tree in the same syntax>.  Parsing and printing only. *)
open Model
open Conv

let cv_hex_to_name (h : string) : n list =
  let rec go i acc = if i + 1 >= String.length h + 0 && i >= String.length h then List.rev acc
    else go (i + 2) (n_of_int (int_of_string ("0x" ^ String.sub h i 2)) :: acc) in
  go 0 []
let cv_name_to_hex (l : n list) : string = String.concat "" (List.map (fun x -> Printf.sprintf "%02x" (int_of_n x)) l)

(* recursive descent over the tree syntax *)
let cv_parse (s : string) : cv_item list =
  let pos = ref 0 in
  let len = String.length s in
  let peek () = if !pos < len then s.[!pos] else '\000' in
  let hexrun () =
    let st = !pos in
    while !pos < len && (match s.[!pos] with '0'..'9' | 'a'..'f' -> true | _ -> false) do Stdlib.incr pos done;
    String.sub s st (!pos - st) in
  let rec items () : cv_item list =
    if !pos >= len || peek () = ')' then []
    else begin
      let it = item () in
      if peek () = ',' then (Stdlib.incr pos; it :: items ()) else [it]
    end
  and item () : cv_item =
    let k = peek () in
    Stdlib.incr pos;
    let nm = cv_hex_to_name (hexrun ()) in
    if k = 's' then CvShape nm
    else begin
      let kids = if peek () = '(' then (Stdlib.incr pos; let l = items () in (if peek () = ')' then Stdlib.incr pos); l) else [] in
      CvNode (nm, kids)
    end in
  items ()

let rec cv_print (l : cv_item list) : string =
  String.concat "," (List.map (fun it -> match it with
    | CvShape nm -> "s" ^ cv_name_to_hex nm
    | CvNode (nm, kids) -> "n" ^ cv_name_to_hex nm ^ "(" ^ cv_print kids ^ ")") l)

let main () =
  List.iter (fun line ->
    if String.trim line <> "" then begin
      let c = parse_case line in
      let r = (try (match c.op with
        | "names" ->
          (match cv_rename_file (cv_parse (get c "tree")) with
           | Ok (t, r) -> (if r then "1" else "0") ^ " " ^ cv_print t
           | Fault -> "FAULT" | OutOfFuel -> "OUTOFFUEL")
        | "tostr" -> cv_name_to_hex (cv_to_string (n_of_string (get c "n")))
        | _ -> "?") with e -> "EXN:" ^ Printexc.to_string e) in
      print_string ("M=" ^ r); print_newline ()
    end) (read_lines ())
