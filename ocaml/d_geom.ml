(* model_oracle geom: parses a shape dump (grammar of harness/o_geom.cpp, see tools/geomspec.py),
   runs the extracted models of DeleteVertsForShape / SetSegmentation / GetSegmentation and prints
   the predicted dumps in the same grammar. Parsing and printing only. *)
open Model
open Conv

let geom_split c s = if s = "" then [] else String.split_on_char c s
let geom_n = n_of_string
let geom_sn = str_of_n
let geom_nl sep s = List.map geom_n (geom_split sep s)
(* inner list with "-" for empty *)
let geom_inner sep s = if s = "-" || s = "" then [] else List.map geom_n (geom_split sep s)
let geom_pr_inner sep l = if l = [] then "-" else String.concat sep (List.map geom_sn l)
let geom_tri sep s = match geom_split sep s with
  | [a; b; c] -> ((geom_n a, geom_n b), geom_n c)
  | _ -> failwith ("tri " ^ s)
let geom_pr_tri sep ((a, b), c) = geom_sn a ^ sep ^ geom_sn b ^ sep ^ geom_sn c
let geom_kv (s : string) : (string * string) list =
  List.filter_map (fun t ->
    match String.index_opt t '=' with
    | Some i -> Some (String.sub t 0 i, String.sub t (i + 1) (String.length t - i - 1))
    | None -> None) (String.split_on_char ' ' s)
let geom_get kv k = try List.assoc k kv with Not_found -> ""
let geom_has kv k = List.mem_assoc k kv
let geom_bool s = (s = "1")
let geom_pb b = if b then "1" else "0"

let geom_parse_gdata kv : gdata option =
  if not (geom_has kv "gk") then None else
  let g = geom_get kv in
  Some { gd_kind = (match g "gk" with "tri" -> GKTriShape | "strips" -> GKTriStrips | "lines" -> GKLines | _ -> GKBase);
         gd_nv = geom_n (g "gnv"); gd_verts = geom_nl ',' (g "gV"); gd_norms = geom_nl ',' (g "gN");
         gd_tans = geom_nl ',' (g "gT"); gd_bitans = geom_nl ',' (g "gB"); gd_colors = geom_nl ',' (g "gC");
         gd_uvsets = List.map (geom_inner '.') (geom_split ';' (g "gUV"));
         gd_nt = geom_n (g "gnt"); gd_ntp = geom_n (g "gntp");
         gd_tris = List.map (geom_tri '.') (geom_split ';' (g "gTR"));
         gd_slens = geom_nl ',' (g "gSL");
         gd_points = List.map (geom_inner '.') (geom_split ';' (g "gSP"));
         gd_lflags = geom_nl ',' (g "gLF") }

let geom_print_gdata (g : gdata) : string =
  let k = (match g.gd_kind with GKTriShape -> "tri" | GKTriStrips -> "strips" | GKLines -> "lines" | GKBase -> "base") in
  " gk=" ^ k ^ " gnv=" ^ geom_sn g.gd_nv ^ " gV=" ^ str_nlist g.gd_verts ^ " gN=" ^ str_nlist g.gd_norms
  ^ " gT=" ^ str_nlist g.gd_tans ^ " gB=" ^ str_nlist g.gd_bitans ^ " gC=" ^ str_nlist g.gd_colors
  ^ " gUV=" ^ String.concat ";" (List.map (geom_pr_inner ".") g.gd_uvsets)
  ^ " gnt=" ^ geom_sn g.gd_nt ^ " gntp=" ^ geom_sn g.gd_ntp
  ^ " gTR=" ^ String.concat ";" (List.map (geom_pr_tri ".") g.gd_tris)
  ^ " gSL=" ^ str_nlist g.gd_slens
  ^ " gSP=" ^ String.concat ";" (List.map (geom_pr_inner ".") g.gd_points)
  ^ " gLF=" ^ str_nlist g.gd_lflags

let geom_pair sep s = match geom_split sep s with
  | [a; b] -> (geom_n a, geom_n b)
  | _ -> failwith ("pair " ^ s)

let geom_parse_bs kv : bsshape option =
  if not (geom_has kv "bk") then None else
  let g = geom_get kv in
  let lod = geom_nl ',' (g "blod") in
  let segs = List.map (fun s ->
    match geom_split ':' s with
    | [st; nu; ns; subs] ->
      { sg_start = geom_n st; sg_num = geom_n nu; sg_nsub = geom_n ns;
        sg_subs = (if subs = "-" then [] else
          List.map (fun x -> let (a, b) = geom_pair '.' x in { ss_start = a; ss_num = b }) (geom_split '+' subs)) }
    | _ -> failwith ("seg " ^ s)) (geom_split ';' (g "sSG")) in
  let recs = List.map (fun x -> let (a, b) = geom_pair '.' x in { sr_slot = a; sr_data = b }) (geom_split ';' (g "sRC")) in
  let sn = { sn_nprim = geom_n (g "snp"); sn_nseg = geom_n (g "sns"); sn_ntotal = geom_n (g "snt"); sn_segs = segs;
             sn_sub_nseg = geom_n (g "ssn"); sn_sub_ntotal = geom_n (g "sst"); sn_arrayidx = geom_nl ',' (g "sAI");
             sn_recs = recs; sn_ssf = geom_n (g "sssf") } in
  Some { bs_kind = (match g "bk" with "dyn" -> BSDynamic | "lod" -> BSMeshLOD | "sits" -> BSSubIndex | _ -> BSPlain);
         bs_nv = geom_n (g "bnv"); bs_vdata = geom_nl ',' (g "bVD"); bs_nt = geom_n (g "bnt");
         bs_tris = List.map (geom_tri '.') (geom_split ';' (g "bTR")); bs_deleted = geom_nl ',' (g "bDT");
         bs_dyn = geom_nl ',' (g "bDD"); bs_dynsize = geom_n (g "bdds");
         bs_lod0 = List.nth lod 0; bs_lod1 = List.nth lod 1; bs_lod2 = List.nth lod 2;
         bs_segn = sn; bs_ssen = geom_n (g "ssen");
         bs_sse = List.map (fun x -> let (a, b) = geom_pair '.' x in { sd_index = a; sd_num = b }) (geom_split ';' (g "sSSE")) }

let geom_print_bs (b : bsshape) : string =
  let k = (match b.bs_kind with BSDynamic -> "dyn" | BSMeshLOD -> "lod" | BSSubIndex -> "sits" | BSPlain -> "plain") in
  let sn = b.bs_segn in
  " bk=" ^ k ^ " bnv=" ^ geom_sn b.bs_nv ^ " bVD=" ^ str_nlist b.bs_vdata ^ " bnt=" ^ geom_sn b.bs_nt
  ^ " bTR=" ^ String.concat ";" (List.map (geom_pr_tri ".") b.bs_tris) ^ " bDT=" ^ str_nlist b.bs_deleted
  ^ " bDD=" ^ str_nlist b.bs_dyn ^ " bdds=" ^ geom_sn b.bs_dynsize
  ^ " blod=" ^ geom_sn b.bs_lod0 ^ "," ^ geom_sn b.bs_lod1 ^ "," ^ geom_sn b.bs_lod2
  ^ (match b.bs_kind with
     | BSSubIndex ->
       " snp=" ^ geom_sn sn.sn_nprim ^ " sns=" ^ geom_sn sn.sn_nseg ^ " snt=" ^ geom_sn sn.sn_ntotal
       ^ " sSG=" ^ String.concat ";" (List.map (fun s ->
           geom_sn s.sg_start ^ ":" ^ geom_sn s.sg_num ^ ":" ^ geom_sn s.sg_nsub ^ ":"
           ^ (if s.sg_subs = [] then "-" else
                String.concat "+" (List.map (fun ss -> geom_sn ss.ss_start ^ "." ^ geom_sn ss.ss_num) s.sg_subs))) sn.sn_segs)
       ^ " ssn=" ^ geom_sn sn.sn_sub_nseg ^ " sst=" ^ geom_sn sn.sn_sub_ntotal ^ " sAI=" ^ str_nlist sn.sn_arrayidx
       ^ " sRC=" ^ String.concat ";" (List.map (fun r -> geom_sn r.sr_slot ^ "." ^ geom_sn r.sr_data) sn.sn_recs)
       ^ " sssf=" ^ geom_sn sn.sn_ssf ^ " ssen=" ^ geom_sn b.bs_ssen
       ^ " sSSE=" ^ String.concat ";" (List.map (fun s -> geom_sn s.sd_index ^ "." ^ geom_sn s.sd_num) b.bs_sse)
     | _ -> " snp=0 sns=0 snt=0 sSG= ssn=0 sst=0 sAI= sRC= sssf=0 ssen=0 sSSE=")

let geom_tris_pm s = if s = "-" then [] else List.map (geom_tri '/') (geom_split '+' s)
let geom_pr_tris_pm l = if l = [] then "-" else String.concat "+" (List.map (geom_pr_tri "/") l)

let geom_parse_part (s : string) : part =
  match geom_split ':' s with
  | [nv; nt; ns; hvw; hbi; hf; vm; vw; bi; sl; st; tr; tt] ->
    { p_nv = geom_n nv; p_nt = geom_n nt; p_nstrips = geom_n ns; p_vmap = geom_inner '.' vm;
      p_hasvw = geom_bool hvw; p_vw = geom_inner '.' vw; p_hasbi = geom_bool hbi; p_bi = geom_inner '.' bi;
      p_slens = geom_inner '.' sl; p_hasfaces = geom_bool hf;
      p_strips = (if st = "-" then [] else List.map (fun x -> if x = "_" then [] else geom_nl '.' x) (geom_split '+' st));
      p_tris = geom_tris_pm tr; p_ttris = geom_tris_pm tt }
  | _ -> failwith ("part " ^ s)

let geom_print_part (p : part) : string =
  String.concat ":" [ geom_sn p.p_nv; geom_sn p.p_nt; geom_sn p.p_nstrips; geom_pb p.p_hasvw; geom_pb p.p_hasbi;
    geom_pb p.p_hasfaces; geom_pr_inner "." p.p_vmap; geom_pr_inner "." p.p_vw; geom_pr_inner "." p.p_bi;
    geom_pr_inner "." p.p_slens;
    (if p.p_strips = [] then "-" else String.concat "+" (List.map (fun s -> if s = [] then "_" else String.concat "." (List.map geom_sn s)) p.p_strips));
    geom_pr_tris_pm p.p_tris; geom_pr_tris_pm p.p_ttris ]

let geom_parse_skin kv : skin option =
  if not (geom_has kv "K") then None else
  let g = geom_get kv in
  let sd = if geom_has kv "kSD" then
      Some (List.map (fun b ->
        match geom_split ':' b with
        | [nv; ws] -> { bn_nv = geom_n nv;
                        bn_weights = (if ws = "-" then [] else List.map (geom_pair '.') (geom_split '+' ws)) }
        | _ -> failwith ("bone " ^ b)) (geom_split ';' (g "kSD")))
    else None in
  let sp = if geom_has kv "pnp" then
      Some { sp_np = geom_n (g "pnp"); sp_nv = geom_n (g "pnv"); sp_vdata = geom_nl ',' (g "pVD");
             sp_parts = List.map geom_parse_part (geom_split '|' (g "pP"));
             sp_mapped = geom_bool (g "pmap");
             sp_triparts = List.map z_of_string (geom_split ',' (g "pTP")) }
    else None in
  let dm = if geom_has kv "kDM" then Some (geom_nl ',' (g "kDM")) else None in
  Some { sk_data = sd; sk_part = sp; sk_dismember = dm }

let geom_print_skin (k : skin) : string =
  " K=1"
  ^ (match k.sk_data with
     | None -> ""
     | Some bones -> " kSD=" ^ String.concat ";" (List.map (fun b ->
         geom_sn b.bn_nv ^ ":" ^ (if b.bn_weights = [] then "-" else
           String.concat "+" (List.map (fun (i, w) -> geom_sn i ^ "." ^ geom_sn w) b.bn_weights))) bones))
  ^ (match k.sk_part with
     | None -> ""
     | Some sp -> " pnp=" ^ geom_sn sp.sp_np ^ " pnv=" ^ geom_sn sp.sp_nv ^ " pVD=" ^ str_nlist sp.sp_vdata
                  ^ " pmap=" ^ geom_pb sp.sp_mapped ^ " pTP=" ^ str_zlist sp.sp_triparts
                  ^ " pP=" ^ String.concat "|" (List.map geom_print_part sp.sp_parts))
  ^ (match k.sk_dismember with None -> "" | Some dm -> " kDM=" ^ str_nlist dm)

let geom_parse_shape (s : string) : shape =
  let kv = geom_kv s in
  { sh_gdata = geom_parse_gdata kv; sh_bs = geom_parse_bs kv; sh_skin = geom_parse_skin kv;
    sh_locked = List.map (geom_inner '.') (geom_split ';' (geom_get kv "LN")) }

let geom_print_getseg (b : bsshape) : string =
  let sn = b.bs_segn in
  let need = List.fold_left (fun a s -> a + 1 + List.length s.sg_subs) 0 sn.sn_segs in
  let has_subs = need > List.length sn.sn_segs in
  if has_subs && List.length sn.sn_recs < need then " gsI=SHORTRECORDS gsL="
  else match get_segmentation b with
    | Ok (inf, lbl) ->
      " gsI=" ^ String.concat ";" (List.map (fun s ->
          str_of_z s.gi_id ^ ":" ^ (if s.gi_subs = [] then "-" else
            String.concat "+" (List.map (fun ss -> str_of_z ss.si_id ^ "." ^ geom_sn ss.si_slot ^ "." ^ geom_sn ss.si_data) s.gi_subs)))
          inf.inf_segs)
      ^ " gsL=" ^ str_zlist lbl
    | Fault -> " gsI=FAULT gsL="
    | OutOfFuel -> " gsI=OUTOFFUEL gsL="

let geom_print_shape (s : shape) : string =
  "S"
  ^ (match s.sh_gdata with None -> "" | Some g -> geom_print_gdata g)
  ^ (match s.sh_bs with None -> "" | Some b -> geom_print_bs b)
  ^ (match s.sh_skin with None -> "" | Some k -> geom_print_skin k)
  ^ " LN=" ^ String.concat ";" (List.map (geom_pr_inner ".") s.sh_locked)
  ^ (match s.sh_bs with Some b when b.bs_kind = BSSubIndex -> geom_print_getseg b | _ -> "")
  ^ (* the public accessors: GetNumVertices / GetNumTriangles / GetTriangles *)
  (match s.sh_gdata, s.sh_bs with
   | Some g, _ ->
     let tris = (match g.gd_kind with
       | GKTriShape -> g.gd_tris
       | GKTriStrips -> (match strips_model g.gd_points with Ok t -> t | _ -> [])
       | _ -> []) in
     " anv=" ^ geom_sn g.gd_nv ^ " ant=" ^ (match gd_num_triangles g with Ok x -> geom_sn x | _ -> "FAULT")
     ^ " aTR=" ^ String.concat ";" (List.map (geom_pr_tri ".") tris)
   | None, Some b ->
     " anv=" ^ geom_sn b.bs_nv ^ " ant=" ^ geom_sn b.bs_nt ^ " aTR=" ^ String.concat ";" (List.map (geom_pr_tri ".") b.bs_tris)
   | None, None -> " anv=0 ant=0 aTR=")

let geom_unescape s = String.map (fun c -> if c = '~' then ' ' else c) s

(* inf syntax of the case lines: seg ';' seg, seg = id ':' sub '+' sub, sub = id '.' userSlot.
   The data token of a sub-segment is what the C++ oracle derives from (material, extraData),
   handed over by the checker as dtok=<id>.<token>,... *)
let geom_parse_inf (s : string) (dtok : (string * string) list) (ssf : n) : seginf =
  { inf_segs = List.map (fun sg ->
      match geom_split ':' sg with
      | id :: rest ->
        let subs = (match rest with [] -> [] | x :: _ -> if x = "-" then [] else geom_split '+' x) in
        { gi_id = z_of_string id;
          gi_subs = List.map (fun sb ->
            match geom_split '.' sb with
            | sid :: r -> { si_id = z_of_string sid;
                            si_slot = (match r with u :: _ -> geom_n u | [] -> N0);
                            si_data = (try geom_n (List.assoc sid dtok) with Not_found -> N0) }
            | [] -> failwith "sub") subs }
      | [] -> failwith "seg") (geom_split ';' s);
    inf_ssf = ssf }

let geom_run_case (c : case) : string =
  match c.op with
  | "del" ->
    (* st=<dump with ~ for spaces> steps=i,j;k *)
    let s0 = geom_parse_shape (geom_unescape (get c "st")) in
    let steps = List.map (fun st -> List.filter_map (fun x -> if x = "" || x = "-" then None else Some (geom_n x))
                                      (geom_split ',' st)) (geom_split ';' (get c "steps")) in
    let buf = Buffer.create 4096 in
    Buffer.add_string buf ("M=" ^ geom_print_shape s0);
    let rec go s = function
      | [] -> ()
      | idx :: rest ->
        (match delete_verts s idx with
         | Ok (s', ret) ->
           Buffer.add_string buf (" | ret=" ^ (if ret then "1" else "0") ^ " " ^ geom_print_shape s');
           go s' rest
         | Fault -> Buffer.add_string buf " | FAULT"
         | OutOfFuel -> Buffer.add_string buf " | OUTOFFUEL") in
    go s0 steps;
    Buffer.contents buf
  | "setseg" ->
    (* st=<dump> inf=... labels=... dtok=... ssf=<token> : SetSegmentation then the dump *)
    let s0 = geom_parse_shape (geom_unescape (get c "st")) in
    let dtok = List.filter_map (fun x -> match geom_split '.' x with [a; b] -> Some (a, b) | _ -> None)
        (geom_split ',' (get c "dtok")) in
    let inf = geom_parse_inf (get c "inf") dtok (geom_n (get c "ssf")) in
    let labels = List.map z_of_string (geom_split ',' (get c "labels")) in
    (match s0.sh_bs with
     | None -> "M=NOBS"
     | Some b ->
       (match set_segmentation b inf labels with
        | Ok b' -> "M=" ^ geom_print_shape { s0 with sh_bs = Some b' }
        | Fault -> "M=FAULT"
        | OutOfFuel -> "M=OUTOFFUEL"))
  | _ -> "M=?"

let main () = List.iter (fun l -> if l <> "" then print_endline (geom_run_case (parse_case l))) (read_lines ())
