(* model_oracle geom: parses a shape dump (grammar of harness/o_geom.cpp, see tools/geomspec.py),
   runs the extracted models of DeleteVertsForShape / SetSegmentation / GetSegmentation and prints
   the predicted dumps in the same grammar. Parsing and printing only. *)
open Model
open Conv

let geom_split c s = if s = "" then [] else String.split_on_char c s
let geom_n = n_of_string
let geom_sn = str_of_n
let geom_nl sep s = List.map geom_n (geom_split sep s)
(* inner list with "-" for empty *)
let geom_inner sep s = if s = "-" || s = "" then [] else List.map geom_n (geom_split sep s)
let geom_pr_inner sep l = if l = [] then "-" else String.concat sep (List.map geom_sn l)
let geom_tri sep s = match geom_split sep s with
  | [a; b; c] -> ((geom_n a, geom_n b), geom_n c)
  | _ -> failwith ("tri " ^ s)
let geom_pr_tri sep ((a, b), c) = geom_sn a ^ sep ^ geom_sn b ^ sep ^ geom_sn c
let geom_kv (s : string) : (string * string) list =
  List.filter_map (fun t ->
    match String.index_opt t '=' with
    | Some i -> Some (String.sub t 0 i, String.sub t (i + 1) (String.length t - i - 1))
    | None -> None) (String.split_on_char ' ' s)
let geom_get kv k = try List.assoc k kv with Not_found -> ""
let geom_has kv k = List.mem_assoc k kv
let geom_bool s = (s = "1")
let geom_pb b = if b then "1" else "0"

let geom_parse_gdata kv =
  if not (geom_has kv "gk") then None else
  let g = geom_get kv in
  let kc = (match g "gk" with "tri" -> 0 | "strips" -> 1 | "lines" -> 2 | _ -> 3) in
  Some (geom_mkGdata (geom_gkind_of (n_of_int kc)) (geom_n (g "gnv")) (geom_nl ',' (g "gV")) (geom_nl ',' (g "gN"))
          (geom_nl ',' (g "gT")) (geom_nl ',' (g "gB")) (geom_nl ',' (g "gC"))
          (List.map (geom_inner '.') (geom_split ';' (g "gUV")))
          (geom_n (g "gnt")) (geom_n (g "gntp"))
          (List.map (geom_tri '.') (geom_split ';' (g "gTR")))
          (geom_nl ',' (g "gSL"))
          (List.map (geom_inner '.') (geom_split ';' (g "gSP")))
          (geom_nl ',' (g "gLF")))

let geom_print_gdata g : string =
  let k = (match int_of_n (geom_gkind_code (geom_gd_kind g)) with 0 -> "tri" | 1 -> "strips" | 2 -> "lines" | _ -> "base") in
  " gk=" ^ k ^ " gnv=" ^ geom_sn (geom_gd_nv g) ^ " gV=" ^ str_nlist (geom_gd_verts g) ^ " gN=" ^ str_nlist (geom_gd_norms g)
  ^ " gT=" ^ str_nlist (geom_gd_tans g) ^ " gB=" ^ str_nlist (geom_gd_bitans g) ^ " gC=" ^ str_nlist (geom_gd_colors g)
  ^ " gUV=" ^ String.concat ";" (List.map (geom_pr_inner ".") (geom_gd_uvsets g))
  ^ " gnt=" ^ geom_sn (geom_gd_nt g) ^ " gntp=" ^ geom_sn (geom_gd_ntp g)
  ^ " gTR=" ^ String.concat ";" (List.map (geom_pr_tri ".") (geom_gd_tris g))
  ^ " gSL=" ^ str_nlist (geom_gd_slens g)
  ^ " gSP=" ^ String.concat ";" (List.map (geom_pr_inner ".") (geom_gd_points g))
  ^ " gLF=" ^ str_nlist (geom_gd_lflags g)

let geom_pair sep s = match geom_split sep s with
  | [a; b] -> (geom_n a, geom_n b)
  | _ -> failwith ("pair " ^ s)

let geom_parse_bs kv =
  if not (geom_has kv "bk") then None else
  let g = geom_get kv in
  let lod = geom_nl ',' (g "blod") in
  let segs = List.map (fun s ->
    match geom_split ':' s with
    | [st; nu; ns; subs] ->
      geom_mkSeg (geom_n st) (geom_n nu) (geom_n ns)
        (if subs = "-" then [] else
          List.map (fun x -> let (a, b) = geom_pair '.' x in geom_mkSubseg a b) (geom_split '+' subs))
    | _ -> failwith ("seg " ^ s)) (geom_split ';' (g "sSG")) in
  let recs = List.map (fun x -> let (a, b) = geom_pair '.' x in geom_mkSegrec a b) (geom_split ';' (g "sRC")) in
  let sn = geom_mkSegmentation (geom_n (g "snp")) (geom_n (g "sns")) (geom_n (g "snt")) segs
             (geom_n (g "ssn")) (geom_n (g "sst")) (geom_nl ',' (g "sAI")) recs (geom_n (g "sssf")) in
  let kc = (match g "bk" with "dyn" -> 1 | "lod" -> 2 | "sits" -> 3 | _ -> 0) in
  Some (geom_mkBs (geom_bskind_of (n_of_int kc)) (geom_n (g "bnv")) (geom_nl ',' (g "bVD")) (geom_n (g "bnt"))
          (List.map (geom_tri '.') (geom_split ';' (g "bTR"))) (geom_nl ',' (g "bDT"))
          (geom_nl ',' (g "bDD")) (geom_n (g "bdds"))
          (List.nth lod 0) (List.nth lod 1) (List.nth lod 2)
          sn (geom_n (g "ssen"))
          (List.map (fun x -> let (a, b) = geom_pair '.' x in geom_mkSsegd a b) (geom_split ';' (g "sSSE"))))

let geom_print_bs b : string =
  let kcode = int_of_n (geom_bskind_code (geom_bs_kind b)) in
  let k = (match kcode with 1 -> "dyn" | 2 -> "lod" | 3 -> "sits" | _ -> "plain") in
  let sn = (geom_bs_segn b) in
  " bk=" ^ k ^ " bnv=" ^ geom_sn (geom_bs_nv b) ^ " bVD=" ^ str_nlist (geom_bs_vdata b) ^ " bnt=" ^ geom_sn (geom_bs_nt b)
  ^ " bTR=" ^ String.concat ";" (List.map (geom_pr_tri ".") (geom_bs_tris b)) ^ " bDT=" ^ str_nlist (geom_bs_deleted b)
  ^ " bDD=" ^ str_nlist (geom_bs_dyn b) ^ " bdds=" ^ geom_sn (geom_bs_dynsize b)
  ^ " blod=" ^ geom_sn (geom_bs_lod0 b) ^ "," ^ geom_sn (geom_bs_lod1 b) ^ "," ^ geom_sn (geom_bs_lod2 b)
  ^ (match kcode with
     | 3 ->
       " snp=" ^ geom_sn (geom_sn_nprim sn) ^ " sns=" ^ geom_sn (geom_sn_nseg sn) ^ " snt=" ^ geom_sn (geom_sn_ntotal sn)
       ^ " sSG=" ^ String.concat ";" (List.map (fun s ->
           geom_sn (geom_sg_start s) ^ ":" ^ geom_sn (geom_sg_num s) ^ ":" ^ geom_sn (geom_sg_nsub s) ^ ":"
           ^ (if (geom_sg_subs s) = [] then "-" else
                String.concat "+" (List.map (fun ss -> geom_sn (geom_ss_start ss) ^ "." ^ geom_sn (geom_ss_num ss)) (geom_sg_subs s)))) (geom_sn_segs sn))
       ^ " ssn=" ^ geom_sn (geom_sn_sub_nseg sn) ^ " sst=" ^ geom_sn (geom_sn_sub_ntotal sn) ^ " sAI=" ^ str_nlist (geom_sn_arrayidx sn)
       ^ " sRC=" ^ String.concat ";" (List.map (fun r -> geom_sn (geom_sr_slot r) ^ "." ^ geom_sn (geom_sr_data r)) (geom_sn_recs sn))
       ^ " sssf=" ^ geom_sn (geom_sn_ssf sn) ^ " ssen=" ^ geom_sn (geom_bs_ssen b)
       ^ " sSSE=" ^ String.concat ";" (List.map (fun s -> geom_sn (geom_sd_index s) ^ "." ^ geom_sn (geom_sd_num s)) (geom_bs_sse b))
     | _ -> " snp=0 sns=0 snt=0 sSG= ssn=0 sst=0 sAI= sRC= sssf=0 ssen=0 sSSE=")

let geom_tris_pm s = if s = "-" then [] else List.map (geom_tri '/') (geom_split '+' s)
let geom_pr_tris_pm l = if l = [] then "-" else String.concat "+" (List.map (geom_pr_tri "/") l)

let geom_parse_part (s : string) =
  match geom_split ':' s with
  | [nv; nt; ns; hvw; hbi; hf; vm; vw; bi; sl; st; tr; tt] ->
    geom_mkPart (geom_n nv) (geom_n nt) (geom_n ns) (geom_inner '.' vm)
      (geom_bool hvw) (geom_inner '.' vw) (geom_bool hbi) (geom_inner '.' bi)
      (geom_inner '.' sl) (geom_bool hf)
      (if st = "-" then [] else List.map (fun x -> if x = "_" then [] else geom_nl '.' x) (geom_split '+' st))
      (geom_tris_pm tr) (geom_tris_pm tt)
  | _ -> failwith ("part " ^ s)

let geom_print_part p : string =
  String.concat ":" [ geom_sn (geom_p_nv p); geom_sn (geom_p_nt p); geom_sn (geom_p_nstrips p); geom_pb (geom_p_hasvw p); geom_pb (geom_p_hasbi p);
    geom_pb (geom_p_hasfaces p); geom_pr_inner "." (geom_p_vmap p); geom_pr_inner "." (geom_p_vw p); geom_pr_inner "." (geom_p_bi p);
    geom_pr_inner "." (geom_p_slens p);
    (if (geom_p_strips p) = [] then "-" else String.concat "+" (List.map (fun s -> if s = [] then "_" else String.concat "." (List.map geom_sn s)) (geom_p_strips p)));
    geom_pr_tris_pm (geom_p_tris p); geom_pr_tris_pm (geom_p_ttris p) ]

let geom_parse_skin kv =
  if not (geom_has kv "K") then None else
  let g = geom_get kv in
  let sd = if geom_has kv "kSD" then
      Some (List.map (fun b ->
        match geom_split ':' b with
        | [nv; ws] -> geom_mkBone (geom_n nv) (if ws = "-" then [] else List.map (geom_pair '.') (geom_split '+' ws))
        | _ -> failwith ("bone " ^ b)) (geom_split ';' (g "kSD")))
    else None in
  let sp = if geom_has kv "pnp" then
      Some (geom_mkSkinpart (geom_n (g "pnp")) (geom_n (g "pnv")) (geom_nl ',' (g "pVD"))
              (List.map geom_parse_part (geom_split '|' (g "pP")))
              (geom_bool (g "pmap"))
              (List.map z_of_string (geom_split ',' (g "pTP"))))
    else None in
  let dm = if geom_has kv "kDM" then Some (geom_nl ',' (g "kDM")) else None in
  Some (geom_mkSkin sd sp dm)

let geom_print_skin k : string =
  " K=1"
  ^ (match (geom_sk_data k) with
     | None -> ""
     | Some bones -> " kSD=" ^ String.concat ";" (List.map (fun b ->
         geom_sn (geom_bn_nv b) ^ ":" ^ (if (geom_bn_weights b) = [] then "-" else
           String.concat "+" (List.map (fun (i, w) -> geom_sn i ^ "." ^ geom_sn w) (geom_bn_weights b)))) bones))
  ^ (match (geom_sk_part k) with
     | None -> ""
     | Some sp -> " pnp=" ^ geom_sn (geom_sp_np sp) ^ " pnv=" ^ geom_sn (geom_sp_nv sp) ^ " pVD=" ^ str_nlist (geom_sp_vdata sp)
                  ^ " pmap=" ^ geom_pb (geom_sp_mapped sp) ^ " pTP=" ^ str_zlist (geom_sp_triparts sp)
                  ^ " pP=" ^ String.concat "|" (List.map geom_print_part (geom_sp_parts sp)))
  ^ (match (geom_sk_dismember k) with None -> "" | Some dm -> " kDM=" ^ str_nlist dm)

let geom_parse_shape (s : string) =
  let kv = geom_kv s in
  geom_mkShape (geom_parse_gdata kv) (geom_parse_bs kv) (geom_parse_skin kv)
    (List.map (geom_inner '.') (geom_split ';' (geom_get kv "LN")))

let geom_print_getseg b : string =
  let sn = (geom_bs_segn b) in
  let need = List.fold_left (fun a s -> a + 1 + List.length (geom_sg_subs s)) 0 (geom_sn_segs sn) in
  let has_subs = need > List.length (geom_sn_segs sn) in
  if has_subs && List.length (geom_sn_recs sn) < need then " gsI=SHORTRECORDS gsL="
  else match geom_get_segmentation b with
    | Ok (inf, lbl) ->
      " gsI=" ^ String.concat ";" (List.map (fun s ->
          str_of_z (geom_gi_id s) ^ ":" ^ (if (geom_gi_subs s) = [] then "-" else
            String.concat "+" (List.map (fun ss -> str_of_z (geom_si_id ss) ^ "." ^ geom_sn (geom_si_slot ss) ^ "." ^ geom_sn (geom_si_data ss)) (geom_gi_subs s))))
          (geom_inf_segs inf))
      ^ " gsL=" ^ str_zlist lbl
    | Fault -> " gsI=FAULT gsL="
    | OutOfFuel -> " gsI=OUTOFFUEL gsL="

let geom_print_shape s : string =
  "S"
  ^ (match (geom_sh_gdata s) with None -> "" | Some g -> geom_print_gdata g)
  ^ (match (geom_sh_bs s) with None -> "" | Some b -> geom_print_bs b)
  ^ (match (geom_sh_skin s) with None -> "" | Some k -> geom_print_skin k)
  ^ " LN=" ^ String.concat ";" (List.map (geom_pr_inner ".") (geom_sh_locked s))
  ^ (match (geom_sh_bs s) with Some b when int_of_n (geom_bskind_code (geom_bs_kind b)) = 3 -> geom_print_getseg b | _ -> "")
  ^ (* the public accessors: GetNumVertices / GetNumTriangles / GetTriangles *)
  (match (geom_sh_gdata s), (geom_sh_bs s) with
   | Some g, _ ->
     let tris = (match int_of_n (geom_gkind_code (geom_gd_kind g)) with
       | 0 -> (geom_gd_tris g)
       | 1 -> (match geom_strips_tris (geom_gd_points g) with Ok t -> t | _ -> [])
       | _ -> []) in
     " anv=" ^ geom_sn (geom_gd_nv g) ^ " ant=" ^ (match geom_gd_num_triangles g with Ok x -> geom_sn x | _ -> "FAULT")
     ^ " aTR=" ^ String.concat ";" (List.map (geom_pr_tri ".") tris)
   | None, Some b ->
     " anv=" ^ geom_sn (geom_bs_nv b) ^ " ant=" ^ geom_sn (geom_bs_nt b) ^ " aTR=" ^ String.concat ";" (List.map (geom_pr_tri ".") (geom_bs_tris b))
   | None, None -> " anv=0 ant=0 aTR=")

let geom_unescape s = String.map (fun c -> if c = '~' then ' ' else c) s

(* inf syntax of the case lines: seg ';' seg, seg = id ':' sub '+' sub, sub = id '.' userSlot.
   The data token of a sub-segment is what the C++ oracle derives from (material, extraData),
   handed over by the checker as dtok=<id>.<token>,... *)
let geom_parse_inf (s : string) (dtok : (string * string) list) (ssf : n) =
  geom_mkSeginf (List.map (fun sg ->
      match geom_split ':' sg with
      | id :: rest ->
        let subs = (match rest with [] -> [] | x :: _ -> if x = "-" then [] else geom_split '+' x) in
        geom_mkSeginfo (z_of_string id)
          (List.map (fun sb ->
            match geom_split '.' sb with
            | sid :: r -> geom_mkSubinfo (z_of_string sid)
                            (match r with u :: _ -> geom_n u | [] -> N0)
                            (try geom_n (List.assoc sid dtok) with Not_found -> N0)
            | [] -> failwith "sub") subs)
      | [] -> failwith "seg") (geom_split ';' s)) ssf

let geom_run_case (c : case) : string =
  match c.op with
  | "del" ->
    (* st=<dump with ~ for spaces> steps=i,j;k *)
    let s0 = geom_parse_shape (geom_unescape (get c "st")) in
    let steps = List.map (fun st -> List.filter_map (fun x -> if x = "" || x = "-" then None else Some (geom_n x))
                                      (geom_split ',' st)) (geom_split ';' (get c "steps")) in
    let buf = Buffer.create 4096 in
    Buffer.add_string buf ("M=" ^ geom_print_shape s0);
    let rec go s = function
      | [] -> ()
      | idx :: rest ->
        (match geom_delete_verts s idx with
         | Ok (s', ret) ->
           Buffer.add_string buf (" | ret=" ^ (if ret then "1" else "0") ^ " " ^ geom_print_shape s');
           go s' rest
         | Fault -> Buffer.add_string buf " | FAULT"
         | OutOfFuel -> Buffer.add_string buf " | OUTOFFUEL") in
    go s0 steps;
    Buffer.contents buf
  | "setseg" ->
    (* st=<dump> inf=... labels=... dtok=... ssf=<token> : SetSegmentation then the dump *)
    let s0 = geom_parse_shape (geom_unescape (get c "st")) in
    let dtok = List.filter_map (fun x -> match geom_split '.' x with [a; b] -> Some (a, b) | _ -> None)
        (geom_split ',' (get c "dtok")) in
    let inf = geom_parse_inf (get c "inf") dtok (geom_n (get c "ssf")) in
    let labels = List.map z_of_string (geom_split ',' (get c "labels")) in
    (match (geom_sh_bs s0) with
     | None -> "M=NOBS"
     | Some b ->
       (match geom_set_segmentation b inf labels with
        | Ok b' -> "M=" ^ geom_print_shape (geom_mkShape (geom_sh_gdata s0) (Some b') (geom_sh_skin s0) (geom_sh_locked s0))
        | Fault -> "M=FAULT"
        | OutOfFuel -> "M=OUTOFFUEL"))
  | _ -> "M=?"

let main () = List.iter (fun l -> if l <> "" then print_endline (geom_run_case (parse_case l))) (read_lines ())
