(* Trusted glue: conversions between OCaml ints/strings and the extracted number types,
   and the tiny case-line parser. I/O only. *)
open Model

let rec pos_of_int (n : int) : positive =
  if n <= 1 then XH
  else if n land 1 = 0 then XO (pos_of_int (n lsr 1))
  else XI (pos_of_int (n lsr 1))

let n_of_int (i : int) : n = if i <= 0 then N0 else Npos (pos_of_int i)
let z_of_int (i : int) : z =
  if i = 0 then Z0 else if i > 0 then Zpos (pos_of_int i) else Zneg (pos_of_int (- i))
let rec nat_of_int (i : int) : nat = if i <= 0 then O else S (nat_of_int (i - 1))
let rec int_of_nat (x : nat) : int = match x with O -> 0 | S y -> 1 + int_of_nat y

(* 64-bit unsigned, printed with %Lu so that values up to 2^64-1 survive *)
let rec i64_of_pos (p : positive) : int64 = match p with
  | XH -> 1L
  | XO q -> Int64.shift_left (i64_of_pos q) 1
  | XI q -> Int64.logor (Int64.shift_left (i64_of_pos q) 1) 1L
let str_of_n (x : n) : string = match x with N0 -> "0" | Npos p -> Printf.sprintf "%Lu" (i64_of_pos p)
let str_of_z (x : z) : string = match x with
  | Z0 -> "0" | Zpos p -> Printf.sprintf "%Lu" (i64_of_pos p) | Zneg p -> "-" ^ Printf.sprintf "%Lu" (i64_of_pos p)
let int_of_n (x : n) : int = match x with N0 -> 0 | Npos p -> Int64.to_int (i64_of_pos p)
let int_of_z (x : z) : int = match x with
  | Z0 -> 0 | Zpos p -> Int64.to_int (i64_of_pos p) | Zneg p -> - (Int64.to_int (i64_of_pos p))

(* decimal string (possibly above 2^62) -> positive, by repeated doubling *)
let n_of_string (s : string) : n =
  let acc = ref N0 in
  let ten = n_of_int 10 in
  String.iter (fun c ->
    if c >= '0' && c <= '9' then
      acc := N.add (N.mul !acc ten) (n_of_int (Char.code c - 48))) s;
  !acc
let z_of_string (s : string) : z =
  if String.length s > 0 && s.[0] = '-' then
    (match n_of_string (String.sub s 1 (String.length s - 1)) with N0 -> Z0 | Npos p -> Zneg p)
  else (match n_of_string s with N0 -> Z0 | Npos p -> Zpos p)

let split_on c s = if s = "" then [] else String.split_on_char c s

(* "op k1=v1 k2=v2" *)
type case = { op : string; kv : (string * string) list; raw : string }
let parse_case (line : string) : case =
  match List.filter (fun t -> t <> "") (String.split_on_char ' ' line) with
  | [] -> { op = ""; kv = []; raw = line }
  | op :: rest ->
    let kv = List.map (fun t ->
      match String.index_opt t '=' with
      | Some i -> (String.sub t 0 i, String.sub t (i + 1) (String.length t - i - 1))
      | None -> (t, "")) rest in
    { op; kv; raw = line }
let get c k = try List.assoc k c.kv with Not_found -> ""
let get_int c k = int_of_string (get c k)
let get_nlist c k = List.map n_of_string (split_on ',' (get c k))
let get_zlist c k = List.map z_of_string (split_on ',' (get c k))
let get_ilist c k = List.map int_of_string (split_on ',' (get c k))

let join sep f l = String.concat sep (List.map f l)
let str_nlist l = join "," str_of_n l
let str_zlist l = join "," str_of_z l

let str_res (f : 'a -> string) (r : 'a res) : string =
  match r with Ok x -> f x | Fault -> "FAULT" | OutOfFuel -> "OUTOFFUEL"

let read_lines () : string list =
  let acc = ref [] in
  (try while true do acc := input_line stdin :: !acc done with End_of_file -> ());
  List.rev !acc
