(* model_oracle syncir: runs the GENERATED Sync models (coq/Gen/IRCur.v) of block types on bytes. *)
open Model
open Conv

let hex_digit c = match c with
  | '0'..'9' -> Char.code c - 48 | 'a'..'f' -> Char.code c - 87 | 'A'..'F' -> Char.code c - 55 | _ -> 0
let bytes_of_hex (s : string) : n list =
  let l = String.length s / 2 in
  List.init l (fun i -> n_of_int (hex_digit s.[2 * i] * 16 + hex_digit s.[2 * i + 1]))
let hex_of_bytes (l : n list) : string =
  let b = Buffer.create (2 * List.length l) in
  List.iter (fun x -> Buffer.add_string b (Printf.sprintf "%02x" (int_of_n x))) l;
  Buffer.contents b

let table = lazy (let h = Hashtbl.create 512 in List.iter (fun (i, b) -> Hashtbl.replace h (int_of_n i) b) block_table; h)

let parse_ver (s : string) =
  match String.split_on_char ',' s with
  | [f; u; st] -> syncir_ver (z_of_int (int_of_string ("0x" ^ f))) (z_of_int (int_of_string u)) (z_of_int (int_of_string st))
  | _ -> failwith "ver"

let str_tr (l : n list) = String.concat "," (List.map str_of_n l)

(* the block-level experiments are run with a header that has no strings: every header string is empty *)
let hs_empty (_ : z) = true

let run_case (c : case) : string =
  match c.op with
  | "blk" ->
    let tid = get_int c "tid" in
    let (init, prog) = Hashtbl.find (Lazy.force table) tid in
    let v = parse_ver (get c "ver") in
    let input = bytes_of_hex (get c "bytes") in
    let st0 = (match syncir_run syncir_wr v hs_empty init (syncir_fresh input) with Ok s -> syncir_clear_out s | _ -> syncir_fresh input) in
    (match syncir_run syncir_rd v hs_empty prog st0 with
     | Ok st ->
       let consumed = syncir_consumed st in
       let rtrace = str_tr (syncir_transfers st) in
       (match syncir_run syncir_wr v hs_empty prog (syncir_rewind st []) with
        | Ok st2 ->
          let o1 = syncir_output st2 in
          (* write the written object once more: in-place effects of the first write must not show *)
          let idem = (match syncir_run syncir_wr v hs_empty prog (syncir_rewind st2 []) with
            | Ok st3 -> if syncir_output st3 = o1 then "1" else "0"
            | _ -> "F") in
          (* fields of the object just read that the write altered (reference-array compaction excluded) *)
          let (ai, (az, ab)) = syncir_altered prog st st2 in
          "M=consumed=" ^ (if consumed then "1" else "0") ^ " nlog=" ^ str_of_n (syncir_nlog st) ^ " rtrace=" ^ rtrace ^ " wtrace=" ^ str_tr (syncir_transfers st2)
          ^ " idem=" ^ idem ^ " alt_i=" ^ str_tr ai ^ " alt_s=" ^ str_tr az ^ " alt_b=" ^ str_tr ab ^ " out=" ^ hex_of_bytes o1
        | Fault -> "M=WFAULT rtrace=" ^ rtrace
        | OutOfFuel -> "M=WOUTOFFUEL")
     | Fault -> "M=RFAULT"
     | OutOfFuel -> "M=ROUTOFFUEL")
  | "trunc" ->
    (* parse a prefix: only faults matter *)
    let tid = get_int c "tid" in
    let (init, prog) = Hashtbl.find (Lazy.force table) tid in
    let v = parse_ver (get c "ver") in
    let input = bytes_of_hex (get c "bytes") in
    let st0 = (match syncir_run syncir_wr v hs_empty init (syncir_fresh input) with Ok s -> syncir_clear_out s | _ -> syncir_fresh input) in
    (match syncir_run syncir_rd v hs_empty prog st0 with
     | Ok st -> "M=OK eof=" ^ (if syncir_eof st then "1" else "0")
     | Fault -> "M=RFAULT" | OutOfFuel -> "M=ROUTOFFUEL")
  | _ -> "M=?"

let main () = List.iter (fun l -> if l <> "" then print_endline (run_case (parse_case l))) (read_lines ())
