let () =
  if Array.length Sys.argv < 2 then (prerr_endline "usage: model_oracle <family> < cases"; exit 2);
  match Sys.argv.(1) with
  | "util" -> D_util.main ()
  | f -> prerr_endline ("unknown family " ^ f); exit 2
