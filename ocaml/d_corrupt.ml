(* model_oracle corrupt: runs the extracted traversals of coq/Robust/RobustModel.v on the graph the C++
   oracle dumped after loading a (corrupted) file and prints the digests the battery prints.
   Parsing and hashing are glue. The driver also reports whether the graph belongs to the input class of
   the two repaired defects (a cycle of before-parent calls of SortCollision / a cycle of node parents):
   the cycle is searched here and CHECKED by the extracted rg_closed_ok / rb_pclosed_ok. *)
open Model
open Conv

let c15_npos = n_of_string "4294967295"
let c15_p = 1000000007
let c15_hash_add h v = ((h mod c15_p) * 31 + (v mod c15_p) + 1) mod c15_p
let c15_hash (l : int list) = List.fold_left c15_hash_add 7 l

let c15_ref s = if s = "x" || s = "n" || s = "" then c15_npos else n_of_string s
let c15_reflist s = List.map c15_ref (split_on '.' s)

let c15_parse_block (s : string) : string * rb_sblock =
  let fs = split_on ';' s in
  let tbl = List.map (fun f ->
    if String.length f < 3 then (f, "") else (String.sub f 0 2, String.sub f 3 (String.length f - 3))) fs in
  let g k = try List.assoc k tbl with Not_found -> "" in
  let r k = c15_ref (g k) in
  let l k = c15_reflist (g k) in
  let num k = match g k with "" -> N0 | v -> n_of_string v in
  let pairs = List.map (fun p -> match split_on '/' p with
    | [a; b] -> (c15_ref a, c15_ref b) | _ -> failwith "cb") (split_on '.' (g "cb")) in
  let chained = l "ce" in
  (g "ty",
   { rs_flags = num "kf"; rs_children = l "ci"; rs_crefs = l "cr"; rs_ptrs = l "pt";
     rs_extra = l "ex"; rs_ctrlref = r "ct"; rs_props = l "pr"; rs_collref = r "co";
     rs_childrefs = l "ch"; rs_nsize = num "ns"; rs_npre = num "np";
     rs_data = r "da"; rs_skin = r "sk"; rs_shaderref = r "sh"; rs_alpha = r "al";
     rs_skindata = r "sd"; rs_skinpart = r "sp"; rs_texset = r "ts";
     rs_entities = l "en"; rs_chained = chained; rs_ea = r "ea"; rs_eb = r "eb";
     rs_cblocks = pairs; rs_textkey = r "tk"; rs_animnotes = r "an"; rs_animnoteslist = l "as";
     rs_noterefs = l "nr"; rs_firstname = r "fn" })

let c15_count f l = List.length (List.filter f l)
let c15_str_res_list (r : n list res) =
  match r with
  | Ok l -> Printf.sprintf "%d/%d" (List.length l) (c15_hash (List.map int_of_n l))
  | Fault -> "FAULT" | OutOfFuel -> "OUTOFFUEL"

(* ---- untrusted searches for certificates ---- *)
let c15_pre_targets (arr : rb_sblock array) (n : int) (p : int) : int list =
  let b = arr.(p) in
  let okid x = let i = int_of_n x in if x <> c15_npos && i < n then Some i else None in
  let cons = rs_cons b and chain = rs_chain b in
  let ents = (if cons then b.rs_entities else []) @ (if chain then b.rs_chained @ [b.rs_ea; b.rs_eb] else []) in
  let before i = let c = arr.(i) in rs_bhk c && not (rs_cons c) && not (rs_chain c) in
  List.filter_map okid ents
  @ List.filter_map (fun x -> match okid x with Some i when before i -> Some i | _ -> None) b.rs_children

(* longest-path rank over the given successor function, or a cycle *)
exception C15_cycle of int list
let c15_ranks (n : int) (succ : int -> int list) : (int array, int list) result =
  let state = Array.make n 0 and rank = Array.make n 0 in
  let rec go path v =
    if state.(v) = 2 then rank.(v)
    else if state.(v) = 1 then begin
      (* the part of the path from v on is a cycle *)
      let rec cut = function [] -> [] | x :: r -> if x = v then [x] else x :: cut r in
      raise (C15_cycle (cut path))
    end else begin
      state.(v) <- 1;
      let r = List.fold_left (fun acc w -> Stdlib.max acc (1 + go (v :: path) w)) 0 (succ v) in
      state.(v) <- 2; rank.(v) <- r; r
    end in
  try (for v = 0 to n - 1 do ignore (go [] v) done; Result.Ok rank)
  with C15_cycle c -> Result.Error c

let c15_run (c : case) : string =
  let parsed = List.map c15_parse_block (split_on '+' (get c "g")) in
  let g = List.map snd parsed in
  let tys = List.map fst parsed in
  let arr = Array.of_list g in
  let n = Array.length arr in
  let ob = get c "ob" = "1" and unk = get c "unk" = "1" in
  let ids = List.init n (fun i -> i) in
  let buf = Buffer.create 256 in
  let put k v = Buffer.add_string buf (" " ^ k ^ "=" ^ v) in
  Buffer.add_string buf ("n=" ^ string_of_int n);
  (* shapes / nodes / root / tree *)
  let nshapes = c15_count rs_shape g and nnodes = c15_count rs_node g in
  put "shapes" (Printf.sprintf "%d/%d" nshapes nshapes);
  put "nodes" (string_of_int nnodes);
  let root = rg_root g in
  put "root" (if root = c15_npos then "x" else str_of_n root);
  put "tree" (c15_str_res_list (rg_get_tree (nat_of_int (n + 1)) g));
  (* guarded lookups of every reference *)
  let allrefs = List.concat_map (fun b -> b.rs_crefs @ b.rs_ptrs) g in
  let cnt f = c15_count (fun r -> rb_has g f r) allrefs in
  (* the lookups must agree with get_block_guard itself *)
  let guard_ok = List.for_all (fun r ->
    match get_block_guard g (n_of_int n) rs_node r with
    | Ok (Some _) -> rb_has g rs_node r | Ok None -> not (rb_has g rs_node r) | _ -> false) allrefs in
  put "lk" (Printf.sprintf "%d,%d,%d,%d,%d,%d%s" (List.length allrefs) (cnt rb_anyb) (cnt rs_node) (cnt rs_shape)
              (cnt rs_coll) (cnt rs_bhk) (if guard_ok then "" else "!GUARD"));
  (* header: type table built like AddBlock does, references from GetChildRefs / GetPtrs *)
  let tytbl = Hashtbl.create 16 in
  let tn = List.map (fun t -> match Hashtbl.find_opt tytbl t with
    | Some k -> k | None -> let k = n_of_int (Hashtbl.length tytbl + 1) in Hashtbl.add tytbl t k; k) tys in
  let h = rb_header g tn in
  let nids = List.map n_of_int ids in
  let referenced = c15_count (fun i -> rb_is_referenced h i true) nids in
  let referenced_np = c15_count (fun i -> rb_is_referenced h i false) nids in
  let refsum = List.fold_left (fun a i -> a + int_of_n (rb_ref_count h i true)) 0 nids in
  put "rf" (Printf.sprintf "%d,%d,%d" referenced referenced_np refsum);
  let nc = rg_node_children g in
  let parents = List.map (fun i -> rb_get_parent_node nc i) nids in
  put "par" (Printf.sprintf "%d/%d" (c15_count (fun p -> p <> None) parents)
               (c15_hash (List.map (function Some p -> int_of_n p | None -> 4294967295) parents)));
  put "ts" (string_of_int (c15_count (fun i -> match rb_block_type_string h i with Ok (Some _) -> true | _ -> false) nids));
  (* parent walks of GetNodeTransformToGlobal: one per distinct name = per distinct first-node id *)
  let firsts = List.sort_uniq compare (List.filter_map (fun b ->
    if rs_node b && b.rs_firstname <> c15_npos then Some (int_of_n b.rs_firstname) else None) g) in
  let walk f =
    (* untrusted: follow parents, stop on a repetition *)
    let seen = Hashtbl.create 16 in
    let rec go v acc =
      if Hashtbl.mem seen v then Some (List.rev acc)
      else begin
        Hashtbl.add seen v ();
        match rb_get_parent_node nc (n_of_int v) with
        | None -> None
        | Some p -> go (int_of_n p) (v :: acc)
      end in
    go f [] in
  let diverging = List.filter (fun f ->
    match walk f, rg_to_global (nat_of_int (n + 1)) g (n_of_int f) with
    | Some cset, Ok _ ->
      if rb_pclosed_ok nc (List.map n_of_int cset) then true else failwith "MODELBUG pclosed"
    | None, Ok _ -> false
    | _ -> failwith "MODELBUG to_global is total") firsts in
  let kids =
    List.fold_left (fun a b ->
      if rs_node b then
        a + c15_count (rb_has g rs_node) b.rs_childrefs + c15_count (rb_has g rs_node) b.rs_extra
          + c15_count (rb_has g rs_shape) b.rs_childrefs
      else a) 0 g
    + (if root = c15_npos then 0 else c15_count (rb_has g rs_node) arr.(int_of_n root).rs_childrefs) in
  put "nd" (Printf.sprintf "%d,%d,%d" nnodes (List.length firsts) kids);
  (* first-node ids whose parent chain runs into a cycle (the class of the repaired hang) *)
  put "pcyc" (String.concat "," (List.map string_of_int diverging));
  (* DeleteUnreferencedBlocks<NiObject>(root) *)
  (if unk then put "du" (Printf.sprintf "0/%d" n)
   else match rb_prune (nat_of_int (n + 1)) h root with
     | Ok (cnt, left) -> put "du" (Printf.sprintf "%s/%s" (str_of_n cnt) (str_of_n left))
     | Fault -> put "du" "FAULT" | OutOfFuel -> put "du" "OUTOFFUEL");
  (* the sorter *)
  let fuel = rb_sort_fuel g in
  let sorted = rg_pretty_sort fuel g ob unk in
  let cyc =
    match c15_ranks n (c15_pre_targets arr n) with
    | Result.Ok _ -> "-"
    | Result.Error cyc ->
      if rg_closed_ok g (List.map n_of_int cyc) then String.concat "." (List.map string_of_int cyc)
      else failwith "MODELBUG closed" in
  (match sorted with
   | Ok order ->
     let refs_hash =
       List.fold_left (fun hacc b ->
         let ci = if rs_node b then List.filteri (fun k _ -> k < int_of_n b.rs_npre) b.rs_children else b.rs_children in
         let hacc = List.fold_left (fun hh v -> c15_hash_add hh (int_of_n v)) hacc (rg_remap order ci) in
         c15_hash_add hacc (List.fold_left (fun a v -> a + int_of_n v) 0 (rg_remap order b.rs_ptrs))) 7 g in
     put "so" (Printf.sprintf "%d/%d/%d" n (c15_hash (List.map int_of_n order)) refs_hash)
   | OutOfFuel -> failwith "MODELBUG pretty_sort is total"
   | Fault -> failwith "MODELBUG pretty_sort never faults");
  (* a cycle of before-parent calls of SortCollision (the class of the repaired stack overflow) *)
  put "cyc" cyc;
  Buffer.contents buf

let main () =
  List.iter (fun line ->
    if line <> "" then begin
      let c = parse_case line in
      let out = try "M=" ^ c15_run c ^ " S=-" with
        | Failure m -> "M=ERROR:" ^ String.concat "_" (String.split_on_char ' ' m) ^ " S=-"
        | Stack_overflow -> "M=ERROR:stack S=-" in
      print_endline out
    end) (read_lines ())
