(* model_oracle clone: runs the extracted two-file heap model (coq/Clone/*.v) on the
   implementation's dumps and prints dumps in the format of harness/o_clone.cpp.
   The model is reached only through the clone_api_* functions of coq/Clone/CloneApi.v. *)
open Model
open Conv

(* type names, strings and payload tokens are interned: the model compares them for equality only *)
let cl_names : (string, int) Hashtbl.t = Hashtbl.create 64
let cl_rnames : (int, string) Hashtbl.t = Hashtbl.create 64
let cl_intern s =
  try Hashtbl.find cl_names s with Not_found ->
    let i = Hashtbl.length cl_names in Hashtbl.add cl_names s i; Hashtbl.add cl_rnames i s; i
let cl_name (x : n) = try Hashtbl.find cl_rnames (int_of_n x) with Not_found -> "?" ^ str_of_n x
let cl_n s = n_of_int (cl_intern s)

let cl_npos = "4294967295"
let cl_ref s = if s = "x" then n_of_string cl_npos else n_of_string s
let cl_str_ref (r : n) = let s = str_of_n r in if s = cl_npos then "x" else s
let cl_refs s = List.map cl_ref (split_on '.' s)

(* sentinel for a pointer the implementation reports as dangling *)
let cl_dangling = Some (n_of_int 99, n_of_string "4000000000")

let cl_opt s = if s = "-" then None else Some (n_of_string s)
let cl_aux ds cached ss tok np nd sk bn =
  clone_api_mk_aux (List.map cl_n (split_on '.' ss)) (cl_n tok) (cl_opt ds) cached (cl_opt np)
    (if nd = "-" then None else
       (match String.split_on_char ':' nd with
        | [s0; l; cs; cl] ->
          Some (((n_of_string s0, n_of_string l),
                 List.map (fun x -> if x = "x" then None else Some (n_of_string x)) (split_on '.' cl)), n_of_string cs)
        | _ -> failwith ("bad node info " ^ nd)))
    (cl_opt sk)
    (if bn = "-" then None else
       (match String.split_on_char ':' bn with
        | [s0; l] -> Some (n_of_string s0, n_of_string l)
        | _ -> failwith ("bad bone info " ^ bn)))

let cl_kv (d : string) =
  List.filter_map (fun t -> match String.index_opt t '=' with
    | Some i -> Some (String.sub t 0 i, String.sub t (i + 1) (String.length t - i - 1)) | None -> None)
    (String.split_on_char '~' d)

(* dump -> model file with identity [fid] *)
let cl_parse (fid : int) (d : string) =
  let kv = cl_kv d in
  let g k = try List.assoc k kv with Not_found -> "" in
  let tbl = Hashtbl.create 64 in
  let blocks = List.map (fun b ->
    match String.split_on_char ',' b with
    | u :: t :: c :: p :: ds :: ca :: ss :: tok :: rest ->
      let cached =
        if ca = "-" || ca = "0" then None
        else if ca = "D" then cl_dangling
        else (match String.split_on_char ':' (String.sub ca 1 (String.length ca - 1)) with
            | [k; w] -> Some (n_of_string k, n_of_string w)
            | _ -> failwith ("bad cached " ^ ca)) in
      let np, nd, sk, bn = (match rest with
        | np :: nd :: sk :: bn :: _ -> np, nd, sk, bn
        | _ -> "-", "-", "-", "-") in
      Hashtbl.replace tbl (int_of_string u) (cl_aux ds cached ss tok np nd sk bn);
      clone_api_mk_block (n_of_string u) (cl_n t) (cl_refs c) (cl_refs p)
    | _ -> failwith ("bad block " ^ b)) (split_on '+' (g "blocks")) in
  let h = clone_api_mk_hdr blocks (n_of_string (g "n")) (List.map cl_n (split_on ',' (g "types")))
      (n_of_string (g "nt")) (List.map n_of_string (split_on ',' (g "tidx")))
      (List.map n_of_string (split_on ',' (g "sizes"))) (g "hs" = "1") in
  clone_api_mk_file (n_of_int fid) h (n_of_int fid) (List.map cl_n (split_on ',' (g "strs")))
    (fun u -> try Hashtbl.find tbl (int_of_n u) with Not_found -> clone_api_aux0)

(* model file -> dump; [world] = the live models, to render raw pointers *)
let cl_dump world f : string =
  let h = clone_api_file_hdr f in
  let owner (o, w) =
    match List.find_opt (fun g -> int_of_n (clone_api_file_id g) = int_of_n o) world with
    | Some g when List.exists (fun b -> int_of_n (clone_api_block_uid b) = int_of_n w) (clone_api_hdr_blocks (clone_api_file_hdr g)) ->
      "F" ^ str_of_n o ^ ":" ^ str_of_n w
    | _ -> "D" in
  let so o = (match o with None -> "-" | Some k -> str_of_n k) in
  let bl = join "+" (fun b ->
    let a = clone_api_file_aux f (clone_api_block_uid b) in
    let ds, ca = (match clone_api_aux_dslot a with
      | None -> "-", (match clone_api_aux_cached a with None -> "-" | Some p -> owner p)
      | Some k -> str_of_n k, (match clone_api_aux_cached a with None -> "0" | Some p -> owner p)) in
    let nd = (match clone_api_aux_node a with
      | None -> "-"
      | Some (((s0, l), cl), cs) ->
        str_of_n s0 ^ ":" ^ str_of_n l ^ ":" ^ str_of_n cs ^ ":" ^ join "." (fun o -> match o with None -> "x" | Some k -> str_of_n k) cl) in
    let bn = (match clone_api_aux_bones a with None -> "-" | Some (s0, l) -> str_of_n s0 ^ ":" ^ str_of_n l) in
    String.concat "," [str_of_n (clone_api_block_uid b); cl_name (clone_api_block_type b);
                       join "." cl_str_ref (clone_api_block_crefs b); join "." cl_str_ref (clone_api_block_ptrs b);
                       ds; ca; join "." cl_name (clone_api_aux_strs a); cl_name (clone_api_aux_tok a);
                       so (clone_api_aux_namepos a); nd; so (clone_api_aux_skin a); bn]) (clone_api_hdr_blocks h) in
  "n=" ^ str_of_n (clone_api_hdr_nblocks h) ^ "~nt=" ^ str_of_n (clone_api_hdr_ntypes h)
  ^ "~types=" ^ join "," cl_name (clone_api_hdr_tnames h)
  ^ "~tidx=" ^ str_nlist (clone_api_hdr_tidx h) ^ "~sizes=" ^ str_nlist (clone_api_hdr_sizes h)
  ^ "~hs=" ^ (if clone_api_hdr_has_sizes h then "1" else "0")
  ^ "~strs=" ^ join "," cl_name (clone_api_file_strs f) ^ "~blocks=" ^ bl

let cl_compat_of (s : string) : n -> n -> bool =
  let pairs = List.filter_map (fun p -> match String.split_on_char ':' p with
    | [a; b] -> Some (cl_intern a, cl_intern b) | _ -> None) (split_on ',' s) in
  fun a b -> List.mem (int_of_n a, int_of_n b) pairs

let cl_gen_perm (nb : int) (seed : int) : n list =
  let p = Array.init nb (fun i -> i) in
  let x = ref seed in
  for i = nb - 1 downto 1 do
    x := (!x * 1103515245 + 12345) mod 2147483648;
    let j = !x mod (i + 1) in
    let t = p.(i) in p.(i) <- p.(j); p.(j) <- t
  done;
  List.map n_of_int (Array.to_list p)

(* one edit on the model file; opaque edits carry the implementation's resulting dump after '@' *)
let cl_apply (tpl : string) (next_uid : int ref) f (op : string) =
  let k = op.[0] and a = String.sub op 1 (String.length op - 1) in
  match k with
  | 'D' -> clone_api_delete f (cl_ref a)
  | 'A' ->
    (match String.split_on_char ',' tpl with
     | c :: p :: ds :: _ca :: ss :: tok :: np :: nd :: sk :: bn :: _ ->
       let u = !next_uid in Stdlib.incr next_uid;
       let b = clone_api_mk_block (n_of_int u) (cl_n "NiNode") (cl_refs c) (cl_refs p) in
       Ok (clone_api_add f b (cl_aux ds None ss tok np nd sk bn))
     | _ -> failwith "template")
  | 'O' -> clone_api_order f (cl_gen_perm (int_of_n (clone_api_hdr_nblocks (clone_api_file_hdr f)))
                                (int_of_string (String.sub a 1 (String.length a - 1))))
  | 'P' -> clone_api_prune f (cl_ref a)
  | 'T' ->
    let p = String.index a ',' in
    clone_api_delete_by_type f (cl_n (String.sub a 0 p)) (String.sub a (p + 1) (String.length a - p - 1) = "1")
  | _ ->
    (* opaque edit of this model: continue from the implementation's state *)
    (match String.index_opt op '@' with
     | Some i -> Ok (cl_parse (int_of_n (clone_api_file_id f)) (String.sub op (i + 1) (String.length op - i - 1)))
     | None -> failwith ("opaque op without state: " ^ op))

let cl_run_copy (c : case) : string =
  Hashtbl.reset cl_names; Hashtbl.reset cl_rnames;
  let compat = cl_compat_of (get c "compat") in
  let base = get_int c "base" in
  let src = cl_parse 0 (get c "src") in
  let buf = Buffer.create 4096 in
  let b01 x = if x then "1" else "0" in
  (match clone_api_copy_from compat (n_of_int 1) (n_of_int base) src with
   | Ok cpy ->
     Buffer.add_string buf ("CPY " ^ cl_dump [src; cpy] cpy);
     Buffer.add_string buf (" | SRC1 " ^ cl_dump [src; cpy] src);
     Buffer.add_string buf (" | LINK " ^ b01 (clone_api_link_inv_b compat src) ^ b01 (clone_api_link_inv_b compat cpy))
   | Fault -> Buffer.add_string buf "CPY FAULT"
   | OutOfFuel -> Buffer.add_string buf "CPY OUTOFFUEL");
  (* the edit history starts from the state after the first save *)
  if get c "post0" <> "" then begin
    let f0 = ref (cl_parse 0 (get c "post0")) and f1 = ref (cl_parse 1 (get c "post1")) in
    let side = if get c "side" = "c" then 1 else 0 in
    let next_uid = ref (get_int c "next") in
    let stop = ref false in
    List.iter (fun op ->
      if not !stop then begin
        let cur = if side = 0 then !f0 else !f1 in
        match cl_apply (get c "tpl") next_uid cur op with
        | Ok f' ->
          if side = 0 then f0 := f' else f1 := f';
          let w = [!f0; !f1] in
          Buffer.add_string buf (" | OP " ^ cl_dump w !f0 ^ " " ^ cl_dump w !f1 ^ " link="
                                 ^ b01 (clone_api_link_inv_b compat !f0) ^ b01 (clone_api_link_inv_b compat !f1))
        | Fault -> Buffer.add_string buf " | OP FAULT"; stop := true
        | OutOfFuel -> Buffer.add_string buf " | OP OUTOFFUEL"; stop := true
      end) (split_on ';' (get c "ops"))
  end;
  "M=" ^ Buffer.contents buf

(* ---- shape cloning ---- *)
let cl_ord_of (spec : string) : n -> nat -> n list =
  let tbl = Hashtbl.create 16 in
  List.iter (fun e -> match String.split_on_char ':' e with
    | [u; perm] -> Hashtbl.replace tbl (int_of_string u) (List.map n_of_string (split_on '.' perm))
    | _ -> ()) (split_on ';' spec);
  fun u k -> (try Hashtbl.find tbl (int_of_n u) with Not_found -> clone_api_enum_canon u k)

let cl_run_clone (c : case) : string =
  Hashtbl.reset cl_names; Hashtbl.reset cl_rnames;
  let compat = cl_compat_of (get c "compat") in
  let empty = cl_n (get c "empty") in
  let same0 = (get c "dst" = "same") in
  let srcf = cl_parse 0 (get c "src") in
  let dst = ref (if same0 then srcf else cl_parse 1 (get c "dst")) in
  let buf = Buffer.create 4096 in
  let nr = get_int c "nr" in
  let stop = ref false in
  for r = 1 to nr do
    if not !stop then begin
      let k s = get c (s ^ string_of_int r) in
      let same = (k "same" = "1") in
      let src = if same then None else Some srcf in
      let enum = cl_ord_of (k "ord") in
      let nsrc = List.length (clone_api_hdr_blocks (clone_api_file_hdr (match src with Some s -> s | None -> !dst))) in
      let fuel = nat_of_int (nsrc + 2) in
      let sep = if r > 1 then " | " else "" in
      (match clone_api_shape compat src empty enum fuel !dst (n_of_string (k "next")) (n_of_string (k "si")) (cl_n (k "name")) with
       | Ok (d', did) ->
         dst := d';
         let world = if same0 then [!dst] else [srcf; !dst] in
         Buffer.add_string buf (sep ^ "ROUND clone=" ^ cl_str_ref did ^ " DSTA=" ^ cl_dump world !dst)
       | Fault -> Buffer.add_string buf (sep ^ "ROUND FAULT"); stop := true
       | OutOfFuel -> Buffer.add_string buf (sep ^ "ROUND OUTOFFUEL"); stop := true)
    end
  done;
  "M=" ^ Buffer.contents buf

let main () =
  List.iter (fun l ->
    if l <> "" then begin
      let c = parse_case l in
      let out = (try (match c.op with
        | "copy" -> cl_run_copy c
        | "clone" -> cl_run_clone c
        | _ -> "M=?") with e -> "M=EXC " ^ Printexc.to_string e) in
      print_endline out
    end) (read_lines ())
