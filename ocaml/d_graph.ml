(* model_oracle graph: runs the extracted header/graph model on edit histories and prints the
   same dump format as harness/o_graph.cpp. *)
open Model
open Conv

(* type names are interned: the model only compares them for equality *)
let names : (string, int) Hashtbl.t = Hashtbl.create 16
let rnames : (int, string) Hashtbl.t = Hashtbl.create 16
let intern s =
  try Hashtbl.find names s with Not_found ->
    let i = Hashtbl.length names in Hashtbl.add names s i; Hashtbl.add rnames i s; i
let name_of (x : n) = try Hashtbl.find rnames (int_of_n x) with Not_found -> "?" ^ str_of_n x

let npos_s = "4294967295"
let cur_nblocks = ref 0   (* current block count, for "%k" references inside block specs *)
let parse_ref s =
  if s = "x" then n_of_string npos_s
  else if s.[0] = '%' then
    (if !cur_nblocks = 0 then n_of_string npos_s
     else n_of_int (int_of_string (String.sub s 1 (String.length s - 1)) mod !cur_nblocks))
  else n_of_string s
let str_ref (r : n) = let s = str_of_n r in if s = npos_s then "x" else s
let refs_of s = List.map parse_ref (split_on '.' s)

let next_uid = ref 0
let fresh () = let u = !next_uid in Stdlib.incr next_uid; u

(* T<type>:<crefs>:<ptrs> ; type digits -> name "V<digits>" *)
let parse_vblock ?(real = false) (tpl : string * string) (uid : int) (s : string) : block =
  let parts = String.split_on_char ':' s in
  let t = List.nth parts 0 in
  let t = String.sub t 1 (String.length t - 1) in
  let cr = if List.length parts > 1 then refs_of (List.nth parts 1) else [] in
  let pt = if List.length parts > 2 then refs_of (List.nth parts 2) else [] in
  if real then
    { uid = n_of_int uid; tname = n_of_int (intern "NiNode");
      crefs = refs_of (fst tpl); ptrs = refs_of (snd tpl) }
  else { uid = n_of_int uid; tname = n_of_int (intern ("V" ^ t)); crefs = cr; ptrs = pt }

let dump (h : hdr) : string =
  let bl = join "+" (fun b ->
    str_of_n b.uid ^ "," ^ name_of b.tname ^ "," ^ join "." str_ref b.crefs ^ "," ^ join "." str_ref b.ptrs) h.blocks in
  "n=" ^ str_of_n h.nblocks ^ " nt=" ^ str_of_n h.ntypes ^ " types=" ^ join "," name_of h.tnames
  ^ " tidx=" ^ str_nlist h.tidx ^ " sizes=" ^ str_nlist h.sizes ^ " blocks=" ^ bl

(* header state from a dump string (fields separated by '~' instead of spaces) *)
let hdr_of_dump (d : string) (hs : bool) : hdr =
  let kv = List.filter_map (fun t -> match String.index_opt t '=' with
    | Some i -> Some (String.sub t 0 i, String.sub t (i + 1) (String.length t - i - 1)) | None -> None)
    (String.split_on_char '~' d) in
  let g k = try List.assoc k kv with Not_found -> "" in
  let blocks = List.map (fun b ->
    match String.split_on_char ',' b with
    | [u; t; c; p] -> next_uid := Stdlib.max !next_uid (int_of_string u + 1);
      { uid = n_of_string u; tname = n_of_int (intern t); crefs = refs_of c; ptrs = refs_of p }
    | _ -> failwith ("bad block " ^ b)) (split_on '+' (g "blocks")) in
  { blocks; nblocks = n_of_string (g "n"); tnames = List.map (fun s -> n_of_int (intern s)) (split_on ',' (g "types"));
    ntypes = n_of_string (g "nt"); tidx = List.map n_of_string (split_on ',' (g "tidx"));
    sizes = List.map n_of_string (split_on ',' (g "sizes")); has_sizes = hs }

(* "%k" = k mod numBlocks (NPOS when empty); "g<seed>" = LCG-driven Fisher-Yates permutation;
   same conventions as harness/o_graph.cpp *)
let parse_id (h : hdr) (s : string) : n =
  if s <> "" && s.[0] = '%' then begin
    let nb = int_of_n h.nblocks in
    if nb = 0 then n_of_string npos_s
    else n_of_int (int_of_string (String.sub s 1 (String.length s - 1)) mod nb)
  end else parse_ref s

let gen_perm (nb : int) (seed : int) : n list =
  let p = Array.init nb (fun i -> i) in
  let x = ref seed in
  for i = nb - 1 downto 1 do
    x := (!x * 1103515245 + 12345) mod 2147483648;
    let j = !x mod (i + 1) in
    let t = p.(i) in p.(i) <- p.(j); p.(j) <- t
  done;
  List.map n_of_int (Array.to_list p)

let parse_op ~real tpl (h : hdr) (s : string) : op =
  cur_nblocks := int_of_n h.nblocks;
  let k = s.[0] and a = String.sub s 1 (String.length s - 1) in
  match k with
  | 'A' -> OpAdd (parse_vblock ~real tpl (fresh ()) a)
  | 'D' -> OpDelete (parse_id h a)
  | 'R' ->
    let p = String.index a '=' in
    let id = parse_id h (String.sub a 0 p) in
    (* the replacement inherits the identity of the block it replaces *)
    let uid = (match List.nth_opt h.blocks (int_of_n id) with Some b -> int_of_n b.uid | None -> fresh ()) in
    OpReplace (id, parse_vblock ~real tpl uid (String.sub a (p + 1) (String.length a - p - 1)))
  | 'O' ->
    if a <> "" && a.[0] = 'g' then OpOrder (gen_perm (int_of_n h.nblocks) (int_of_string (String.sub a 1 (String.length a - 1))))
    else OpOrder (List.map parse_ref (split_on '.' a))
  | 'T' ->
    let p = String.index a ',' in
    let t = String.sub a 0 p in
    let t = if t <> "" && t.[0] >= '0' && t.[0] <= '9' then "V" ^ t else t in
    OpDeleteByType (n_of_int (intern t), String.sub a (p + 1) (String.length a - p - 1) = "1")
  | 'P' -> OpPrune (parse_id h a)
  | _ -> failwith "op"

let run_case (c : case) : string =
  Hashtbl.reset names; Hashtbl.reset rnames; next_uid := 0; cur_nblocks := 0;
  let hs = get c "hs" <> "0" in
  let real = get c "real" = "1" in
  let tpl = (get c "tplc", get c "tplp") in
  let h0 =
    if get c "dump" <> "" then hdr_of_dump (get c "dump") hs
    else begin
      let h = List.fold_left (fun h bs -> fst (add_block h (parse_vblock tpl (fresh ()) bs)))
          (empty_hdr hs) (split_on '+' (get c "init")) in
      (* recognisable sizes, as the C++ harness sets them *)
      { h with sizes = List.mapi (fun i _ -> n_of_int (100 + i)) h.sizes }
    end in
  let buf = Buffer.create 256 in
  Buffer.add_string buf (dump h0);
  let rec go h ops = match ops with
    | [] -> ()
    | o :: r ->
      (match step h (parse_op ~real tpl h o) with
       | Ok h' -> Buffer.add_string buf (" | " ^ dump h'); go h' r
       | Fault -> Buffer.add_string buf " | FAULT"
       | OutOfFuel -> Buffer.add_string buf " | OUTOFFUEL") in
  go h0 (split_on ';' (get c "ops"));
  "M=" ^ Buffer.contents buf

let main () = List.iter (fun l -> if l <> "" then print_endline (run_case (parse_case l))) (read_lines ())
