(* model_oracle skin: runs the extracted skin-partition model (coq/Skin/SkinModel.v) on the same
   case lines as harness/o_skin.cpp and prints the same dump format. Parsing and printing only. *)
open Model
open Conv

let sk_tri_of_string t = match split_on ':' t with
  | [a; b; c] -> ((n_of_string a, n_of_string b), n_of_string c)
  | _ -> failwith ("tri " ^ t)
let sk_parse_tris s = List.map sk_tri_of_string (split_on ';' s)
let sk_str_tri ((a, b), c) = str_of_n a ^ ":" ^ str_of_n b ^ ":" ^ str_of_n c
let sk_str_tris l = join ";" sk_str_tri l

let sk_q_of_k (k : int) : q = { qnum = z_of_int k; qden = pos_of_int 256 }
let sk_str_q (x : q) : string =
  let r = ks_qred x in
  let d = str_of_n (Npos r.qden) in
  if d = "1" then str_of_z r.qnum else str_of_z r.qnum ^ "%" ^ d

let sk_quad (f : string -> 'a) (d : 'a) (s : string) : 'a list =
  let l = List.map f (split_on ':' s) in
  let rec pad l n = if n <= 0 then [] else match l with [] -> d :: pad [] (n - 1) | x :: r -> x :: pad r (n - 1) in
  pad l 4

let sk_bool s = (s = "1")
let sk_b b = if b then "1" else "0"

let sk_field (f : string list) (i : int) : string = try List.nth f i with _ -> ""

(* part := nv.nt.nb.ns.nw/bones/hvm/vm/hvw/W/hf/tris/hbi/BI/tt/strips *)
let sk_parse_part (s : string) : ks_pb =
  let f = String.split_on_char '/' s in
  let c = List.map n_of_string (split_on '.' (sk_field f 0)) in
  let cn i = try List.nth c i with _ -> N0 in
  let strips = List.map (fun st -> List.map n_of_string (split_on ',' st)) (split_on ';' (sk_field f 11)) in
  { kb_nv = cn 0; kb_nt = cn 1; kb_nb = cn 2; kb_ns = cn 3; kb_nw = cn 4;
    kb_bones = List.map n_of_string (split_on ',' (sk_field f 1));
    kb_hvm = sk_bool (sk_field f 2);
    kb_vm = List.map n_of_string (split_on ',' (sk_field f 3));
    kb_hvw = sk_bool (sk_field f 4);
    kb_vw = List.map (sk_quad (fun k -> sk_q_of_k (int_of_string k)) (sk_q_of_k 0)) (split_on ';' (sk_field f 5));
    kb_slens = List.map (fun st -> n_of_int (List.length st)) strips;
    kb_hf = sk_bool (sk_field f 6);
    kb_strips = strips;
    kb_tris = sk_parse_tris (sk_field f 7);
    kb_hbi = sk_bool (sk_field f 8);
    kb_bi = List.map (sk_quad n_of_string N0) (split_on ';' (sk_field f 9));
    kb_tt = sk_parse_tris (sk_field f 10) }

let sk_dump_part (p : ks_pb) : string =
  String.concat "/" [
    String.concat "." (List.map str_of_n [p.kb_nv; p.kb_nt; p.kb_nb; p.kb_ns; p.kb_nw]);
    str_nlist p.kb_bones; sk_b p.kb_hvm; str_nlist p.kb_vm; sk_b p.kb_hvw;
    join ";" (fun w -> join ":" sk_str_q w) p.kb_vw;
    sk_b p.kb_hf; sk_str_tris p.kb_tris; sk_b p.kb_hbi;
    join ";" (fun b -> join ":" str_of_n b) p.kb_bi;
    sk_str_tris p.kb_tt;
    join ";" str_nlist p.kb_strips ]

let sk_dump_sp (s : ks_sp) : string =
  "np=" ^ str_of_n s.kp_np ^ " m=" ^ sk_b s.kp_mapped ^ " tp=" ^ str_zlist s.kp_tp
  ^ " P=" ^ join "+" sk_dump_part s.kp_parts

let sk_str_info (l : ks_pinfo list) : string = join "," (fun (f, i) -> str_of_n f ^ ":" ^ str_of_n i) l
let sk_parse_info (s : string) : ks_pinfo list =
  List.map (fun e -> match split_on ':' e with
    | [f; i] -> (n_of_string f, n_of_string i)
    | [f] -> (n_of_string f, N0)
    | _ -> (N0, N0)) (split_on ',' s)

let sk_dump_skin (k : ks_skin) : string =
  sk_dump_sp k.kk_sp ^ " dis=" ^ (match k.kk_dis with Some d -> sk_str_info d | None -> "none")

(* ---- raw ---- *)
let sk_run_raw (c : case) : string =
  let parts = List.map sk_parse_part (split_on '+' (get c "parts")) in
  let np = if List.mem_assoc "np" c.kv then n_of_string (get c "np") else n_of_int (List.length parts) in
  let s = { kp_np = np; kp_parts = parts; kp_mapped = sk_bool (get c "m"); kp_tp = get_zlist c "tp" } in
  let shape = sk_parse_tris (get c "shape") in
  let k = try int_of_string (get c "k") with _ -> 0 in
  let with_part (f : ks_pb -> ks_pb res) : ks_sp res =
    if k >= List.length parts then Fault
    else match f (List.nth parts k) with
      | Ok p' -> Ok { s with kp_parts = List.mapi (fun i p -> if i = k then p' else p) parts }
      | Fault -> Fault | OutOfFuel -> OutOfFuel in
  let pr = str_res sk_dump_sp in
  match get c "fn" with
  | "conv1" ->
    if k >= List.length parts then "FAULT" else
    (match ks_pb_convert (List.nth parts k) with
     | Ok (p', r) -> "r=" ^ sk_b r ^ " " ^ sk_dump_sp { s with kp_parts = List.mapi (fun i p -> if i = k then p' else p) parts }
     | Fault -> "FAULT" | OutOfFuel -> "OUTOFFUEL")
  | "ttm" -> pr (with_part ks_pb_gen_true)
  | "mtt" -> pr (with_part ks_pb_gen_mapped)
  | "vmt" -> pr (with_part ks_pb_gen_vmap)
  | "conv" -> str_res (fun (s', r) -> "r=" ^ sk_b r ^ " " ^ sk_dump_sp s') (ks_sp_convert s)
  | "ptt" -> pr (ks_sp_prepare_true s)
  | "pvm" -> pr (ks_sp_prepare_vmaps s)
  | "gtp" -> pr (ks_sp_gen_triparts shape s)
  | "gtt" -> sk_dump_sp (ks_sp_gen_true shape s)
  | "ptp" -> pr (ks_sp_prepare_triparts shape s)
  | "del" -> pr (ks_sp_delete (get_nlist c "arg") s)
  | "rem" -> str_res (fun ((s', del), cnt) -> "r=" ^ str_of_n cnt ^ ";" ^ str_nlist del ^ " " ^ sk_dump_sp s') (ks_sp_remove_empty s)
  | _ -> "?"

(* ---- hist ---- *)
let sk_ver s = match s with "OB" -> KOB | "FO3" -> KFO3 | "SK" -> KSK | _ -> KSSE

let sk_parse_op (o : string) : ks_op =
  let a = String.sub o 1 (String.length o - 1) in
  match o.[0] with
  | 'U' -> KUpdate
  | 'G' -> KGet
  | 'D' -> KDefault
  | 'X' -> KDelete (List.map n_of_string (split_on ',' a))
  | 'E' -> KRemoveEmpty
  | 'Z' -> KResizeDis (n_of_string a)
  | 'S' ->
    let f = String.split_on_char '@' a in
    KSet (sk_parse_info (sk_field f 0), List.map z_of_string (split_on ',' (sk_field f 1)), sk_field f 2 <> "0")
  | _ -> failwith ("op " ^ o)

let sk_run_hist (c : case) : string =
  let v = sk_ver (get c "ver") in
  let tris = sk_parse_tris (get c "tris") in
  let bs = (v = KSSE) in
  let sh = { kh_tris = tris; kh_hastris = bs || tris <> []; kh_nv = n_of_string (get c "nv"); kh_bs = bs } in
  let nb = get_int c "nb" in
  let api = get c "api" = "1" in
  let bones_s = Array.of_list (split_on ';' (get c "w")) in
  let bones = List.init nb (fun b ->
    let s = if b < Array.length bones_s then bones_s.(b) else "" in
    let l = List.filter_map (fun e -> match split_on ':' e with
      | [vi; k] -> Some (int_of_string vi, int_of_string k) | _ -> None) (split_on ',' s) in
    let l = if api then begin
        (* SetShapeBoneWeights: an unordered_map keyed by vertex (last value wins), weights below 0.0001 dropped *)
        let last = Hashtbl.create 8 in
        List.iter (fun (vi, k) -> Hashtbl.replace last vi k) l;
        let seen = Hashtbl.create 8 in
        List.filter_map (fun (vi, _) ->
          if Hashtbl.mem seen vi then None else begin
            Hashtbl.add seen vi ();
            let k = Hashtbl.find last vi in if k >= 1 then Some (vi, k) else None end) l
      end else l in
    List.map (fun (vi, k) -> (n_of_int vi, sk_q_of_k k)) l) in
  (* CreateSkinning: empty partition block + (20.2.0.7) dismember instance, SetDefaultPartition,
     for SSE UpdateSkinPartitions (no bone data yet); the bone lists are attached afterwards *)
  let sp0 = { kp_np = N0; kp_parts = []; kp_mapped = not bs; kp_tp = [] } in
  let k0 = { kk_sp = sp0; kk_dis = (if v = KOB then None else Some []); kk_bones = [] } in
  let k1 = ks_nf_set_default v sh k0 in
  let k2 = if bs then ks_nf_update v sh k1 else Ok k1 in
  match k2 with
  | Fault -> "FAULT" | OutOfFuel -> "OUTOFFUEL"
  | Ok k2 ->
    let k3 = { k2 with kk_bones = bones } in
    let k3 = if get c "dismember" = "0" then { k3 with kk_dis = None } else k3 in
    let buf = Buffer.create 256 in
    Buffer.add_string buf (sk_dump_skin k3);
    let rec go k ops = match ops with
      | [] -> ()
      | o :: r ->
        (match ks_step v sh (sk_parse_op o) k with
         | Ok (g, k') ->
           Buffer.add_string buf " | ";
           (match g with
            | Some (info, tp) -> Buffer.add_string buf ("get=1;" ^ sk_str_info info ^ ";" ^ str_zlist tp ^ " ")
            | None -> ());
           Buffer.add_string buf (sk_dump_skin k');
           go k' r
         | Fault -> Buffer.add_string buf " | FAULT"
         | OutOfFuel -> Buffer.add_string buf " | OUTOFFUEL") in
    go k3 (List.filter (fun o -> o <> "") (split_on '!' (get c "ops")));
    Buffer.contents buf

(* ---- histories on a shape loaded from a sample file: the model starts from the implementation's
        dump of the loaded state (C++ side: op "file"), the NiSkinData weights come as exact binary
        fractions m*2^e ---- *)
let sk_pow2 (e : int) : n = N.pow (n_of_int 2) (n_of_int e)
let sk_q_of_me (m : string) (e : int) : q =
  let mz = z_of_string m in
  if e >= 0 then { qnum = Z.mul mz (Z.of_N (sk_pow2 e)); qden = XH }
  else (match sk_pow2 (- e) with Npos p -> { qnum = mz; qden = p } | N0 -> { qnum = mz; qden = XH })

(* "%.9g" decimal -> rational (weights of the loaded partitions are only ever copied or erased) *)
let sk_q_of_decimal (s : string) : q =
  let mant, ex = match String.index_opt s 'e' with
    | Some i -> (String.sub s 0 i, int_of_string (String.sub s (i + 1) (String.length s - i - 1)))
    | None -> (s, 0) in
  let neg = String.length mant > 0 && mant.[0] = '-' in
  let mant = if neg then String.sub mant 1 (String.length mant - 1) else mant in
  let ip, fp = match String.index_opt mant '.' with
    | Some i -> (String.sub mant 0 i, String.sub mant (i + 1) (String.length mant - i - 1))
    | None -> (mant, "") in
  let digits = ip ^ fp in
  let scale = String.length fp - ex in            (* value = digits * 10^(-scale) *)
  let num = z_of_string ((if neg then "-" else "") ^ digits) in
  let p10 k = N.pow (n_of_int 10) (n_of_int k) in
  if scale <= 0 then { qnum = Z.mul num (Z.of_N (p10 (- scale))); qden = XH }
  else (match p10 scale with Npos p -> { qnum = num; qden = p } | N0 -> { qnum = num; qden = XH })

let sk_parse_part_dec (s : string) : ks_pb =
  let p = sk_parse_part (String.concat "/" (List.mapi (fun i f -> if i = 5 then "" else f) (String.split_on_char '/' s))) in
  let f = String.split_on_char '/' s in
  { p with kb_vw = List.map (sk_quad sk_q_of_decimal (sk_q_of_k 0)) (split_on ';' (sk_field f 5)) }

let sk_skin_of_dump (d : string) : ks_sp * ks_pinfo list option =
  let kv = List.filter_map (fun t -> match String.index_opt t '=' with
    | Some i -> Some (String.sub t 0 i, String.sub t (i + 1) (String.length t - i - 1)) | None -> None)
    (String.split_on_char '~' d) in
  let g k = try List.assoc k kv with Not_found -> "" in
  ({ kp_np = n_of_string (g "np"); kp_parts = List.map sk_parse_part_dec (split_on '+' (g "P"));
     kp_mapped = sk_bool (g "m"); kp_tp = List.map z_of_string (split_on ',' (g "tp")) },
   (if g "dis" = "none" then None else Some (sk_parse_info (g "dis"))))

let sk_run_filem (c : case) : string =
  let v = sk_ver (get c "ver") in
  let tris = sk_parse_tris (get c "tris") in
  let sh = { kh_tris = tris; kh_hastris = sk_bool (get c "hastris"); kh_nv = n_of_string (get c "nv"); kh_bs = sk_bool (get c "bs") } in
  let bones = List.map (fun b -> List.filter_map (fun e -> match split_on ':' e with
      | [vi; m; ex] -> Some (n_of_string vi, sk_q_of_me m (int_of_string ex)) | _ -> None) (split_on ',' b))
    (String.split_on_char ';' (get c "wx")) in
  let bones = if get c "wx" = "" && get c "nb" = "0" then [] else bones in
  let sp, dis = sk_skin_of_dump (get c "init") in
  let k0 = { kk_sp = sp; kk_dis = dis; kk_bones = bones } in
  let buf = Buffer.create 256 in
  Buffer.add_string buf (sk_dump_skin k0);
  let rec go k ops = match ops with
    | [] -> ()
    | o :: r ->
      (match ks_step v sh (sk_parse_op o) k with
       | Ok (g, k') ->
         Buffer.add_string buf " | ";
         (match g with
          | Some (info, tp) -> Buffer.add_string buf ("get=1;" ^ sk_str_info info ^ ";" ^ str_zlist tp ^ " ")
          | None -> ());
         Buffer.add_string buf (sk_dump_skin k');
         go k' r
       | Fault -> Buffer.add_string buf " | FAULT"
       | OutOfFuel -> Buffer.add_string buf " | OUTOFFUEL") in
  go k0 (List.filter (fun o -> o <> "") (split_on '!' (get c "ops")));
  Buffer.contents buf

let sk_run_case (c : case) : string =
  let m = (try (match c.op with
    | "raw" -> sk_run_raw c
    | "hist" -> sk_run_hist c
    | "filem" -> sk_run_filem c
    | _ -> "?") with Failure e -> "DRIVER-ERROR:" ^ e | Not_found -> "DRIVER-ERROR:notfound") in
  "M=" ^ m ^ " S=-"

let main () = List.iter (fun l -> if l <> "" then print_endline (sk_run_case (parse_case l))) (read_lines ())
