(* model_oracle container: runs the extracted container model (coq/Container/ContainerModel.v) on
   files and on synthetic cases and prints the same text forms as harness/o_container.cpp. *)
open Model
open Conv

let ct_byte : n array = Array.init 256 n_of_int

let ct_read_file (path : string) : n list =
  let ic = open_in_bin path in
  let len = in_channel_length ic in
  let s = really_input_string ic len in
  close_in ic;
  let acc = ref [] in
  for i = len - 1 downto 0 do acc := ct_byte.(Char.code s.[i]) :: !acc done;
  !acc

let ct_hexd = "0123456789abcdef"
let ct_hex (l : n list) : string =
  let b = Buffer.create 64 in
  List.iter (fun x -> let v = int_of_n x land 255 in
              Buffer.add_char b ct_hexd.[v lsr 4]; Buffer.add_char b ct_hexd.[v land 15]) l;
  Buffer.contents b
let ct_hexm (l : n list) : string = let h = ct_hex l in if l = [] then h ^ "-" else h
let ct_unhex (s : string) : n list =
  let s = if String.length s > 0 && s.[String.length s - 1] = '-' then String.sub s 0 (String.length s - 1) else s in
  let v c = if c <= '9' then Char.code c - 48 else (Char.code c lor 32) - 87 in
  let acc = ref [] in
  let k = String.length s / 2 in
  for i = k - 1 downto 0 do acc := ct_byte.(v s.[2 * i] * 16 + v s.[2 * i + 1]) :: !acc done;
  !acc
let ct_hexlist (l : n list list) : string = String.concat "," (List.map ct_hexm l)
let ct_unhexlist (s : string) : n list list = List.map ct_unhex (split_on ',' s)
let rec ct_len (l : 'a list) (acc : int) : int = match l with [] -> acc | _ :: r -> ct_len r (acc + 1)

(* header tables travel flat (see coq/Container/ContainerExtract.v):
   ((numbers, strs), (types, strings), lists) *)
let ct_dump (((nums, strs), (types, strings)), lists) : string =
  let nn i = str_of_n (List.nth nums i) and ss i = ct_hex (List.nth strs i) and ll i = str_nlist (List.nth lists i) in
  Printf.sprintf "file=%s user=%s stream=%s endian=%s nblocks=%s creator=%s unk=%s e1=%s e2=%s e3=%s esz=%s emb=%s nt=%s types=%s tidx=%s sizes=%s ns=%s maxlen=%s strings=%s ng=%s groups=%s"
    (nn 0) (nn 1) (nn 2) (nn 3) (nn 4) (ss 0) (nn 5) (ss 1) (ss 2) (ss 3) (nn 6) (ss 4) (nn 7) (ct_hexlist types) (ll 0)
    (ll 1) (nn 8) (nn 9) (ct_hexlist strings) (nn 10) (ll 2)

let ct_tables_of_case (c : case) =
  let g k = n_of_string (get c k) in
  ((([g "file"; g "user"; g "stream"; g "endian"; g "nblocks"; g "unk"; g "esz"; g "nt"; g "ns"; g "maxlen"; g "ng"],
     [ct_unhex (get c "creator"); ct_unhex (get c "e1"); ct_unhex (get c "e2"); ct_unhex (get c "e3"); ct_unhex (get c "emb")]),
    (ct_unhexlist (get c "types"), ct_unhexlist (get c "strings"))),
   [get_nlist c "tidx"; get_nlist c "sizes"; get_nlist c "groups"])

let rec ct_prefix (a : n list) (b : n list) : bool =
  match a, b with
  | [], _ -> true
  | x :: a', y :: b' -> int_of_n x = int_of_n y && ct_prefix a' b'
  | _, [] -> false

let ct_npos = n_of_string "4294967295"
let ct_idx (s : string) : n = if s = "x" then ct_npos else n_of_string s
let ct_sidx (x : n) : string = let s = str_of_n x in if s = "4294967295" then "x" else s

(* blocks=<idx:hex.idx:hex;...> ("-" = a block without references) *)
let ct_blocks_of (s : string) : (n * n list) list list =
  List.map (fun b -> if b = "-" then [] else
    List.map (fun r -> match String.index_opt r ':' with
      | Some p -> (ct_idx (String.sub r 0 p), ct_unhex (String.sub r (p + 1) (String.length r - p - 1)))
      | None -> failwith "ref") (String.split_on_char '.' b)) (split_on ';' s)
let ct_str_blocks (bs : (n * n list) list list) : string =
  String.concat ";" (List.map (fun b -> if b = [] then "-" else
    String.concat "." (List.map (fun (i, s) -> ct_sidx i ^ ":" ^ ct_hex s) b)) bs)
(* string table = ((strings, numStrings), maxStringLen) *)
let ct_str_tab ((strs, cnt), ml) : string =
  "n=" ^ str_of_n cnt ^ " maxlen=" ^ str_of_n ml ^ " tab=" ^ ct_hexlist strs
let ct_tab_of_case (c : case) =
  let strs = ct_unhexlist (get c "tab") in
  ((strs, (if get c "n" = "" then n_of_int (List.length strs) else n_of_string (get c "n"))),
   n_of_string (if get c "maxlen" = "" then "0" else get c "maxlen"))

let ct_w (c : case) : n = n_of_int (get_int c "w")

let rec ct_eq (a : n list) (b : n list) (i : int) : int =
  match a, b with
  | [], [] -> -1
  | x :: a', y :: b' -> if int_of_n x = int_of_n y then ct_eq a' b' (i + 1) else i
  | _, _ -> i

let ct_run (c : case) : string =
  match c.op with
  | "file" ->
    let bytes = ct_read_file (get c "path") in
    let total = ct_len bytes 0 in
    (match ct_get_hdr bytes with
     | Ok (t, rest) ->
       let hlen = total - ct_len rest 0 in
       let reput = (match ct_put_hdr t with
           | Ok ((hb, _), _) -> ct_len hb 0 = hlen && ct_prefix hb bytes
           | _ -> false) in
       let w = (match ct_walk bytes with
           | Some szs -> "1 wsizes=" ^ str_nlist szs
           | None -> "0") in
       Printf.sprintf "M=hlen=%d reput=%d walk=%s hdr=%s" hlen (if reput then 1 else 0) w (ct_dump t)
     | _ -> "M=hlen=0 reput=0 walk=" ^ (if ct_walk_ok bytes then "1" else "0") ^ " hdr=FAULT")
  | "hput" ->
    let t = ct_tables_of_case c in
    (match ct_put_hdr t with
     | Ok ((bytes, pos), mem) ->
       let tail = ct_unhex (get c "tail") in
       let g = (match ct_get_hdr (List.append bytes tail) with
           | Ok (t', rest) -> "rest=" ^ ct_hexm rest ^ " get=" ^ ct_dump t'
           | _ -> "FAULT") in
       "M=bytes=" ^ ct_hex bytes ^ " pos=" ^ str_of_n pos ^ " mem=" ^ ct_dump mem ^ " | " ^ g
     | _ -> "M=FAULT")
  | "nistr" ->
    let (bytes, mem) = ct_wr_nistring (ct_w c) (get c "null" <> "0") (ct_unhex (get c "s")) in
    let r = (match ct_rd_nistring (ct_w c) (List.append bytes (ct_unhex (get c "tail"))) with
        | Ok (s, rest) -> "read=" ^ ct_hexm s ^ " rest=" ^ ct_hexm rest
        | _ -> "read=FAULT") in
    "M=bytes=" ^ ct_hex bytes ^ " mem=" ^ ct_hexm mem ^ " " ^ r
  | "sref" ->
    let file = n_of_string (get c "file") in
    let (bytes, (mi, ms)) = ct_wr_stringref file (ct_idx (get c "idx"), ct_unhex (get c "s")) in
    let r = (match ct_rd_stringref file (List.append bytes (ct_unhex (get c "tail"))) with
        | Ok ((i, s), rest) -> "read=" ^ ct_sidx i ^ ":" ^ ct_hex s ^ " rest=" ^ ct_hexm rest
        | _ -> "read=FAULT") in
    "M=bytes=" ^ ct_hex bytes ^ " mem=" ^ ct_sidx mi ^ ":" ^ ct_hex ms ^ " " ^ r
  | "uhs" ->
    (match ct_update_header_strings (n_of_string (get c "file")) (get c "hu" <> "0") (ct_tab_of_case c) (ct_blocks_of (get c "blocks")) with
     | Ok (tb, bs) -> "M=" ^ ct_str_tab tb ^ " blocks=" ^ ct_str_blocks bs
     | _ -> "M=FAULT")
  | "fill" ->
    (match ct_fill_string_refs (n_of_string (get c "file")) (ct_tab_of_case c) (ct_blocks_of (get c "blocks")) with
     | Ok bs -> "M=" ^ ct_str_tab (ct_tab_of_case c) ^ " blocks=" ^ ct_str_blocks bs
     | _ -> "M=FAULT")
  | "savecore" ->
    (* the file nifly wrote = save_core of the header nifly holds (stale sizes) + the payload slices *)
    let bytes = ct_read_file (get c "path") in
    let t = ct_tables_of_case c in
    (match ct_get_hdr bytes with
     | Ok (_, rest) ->
       let rec slices (r : n list) (szs : int list) : n list list =
         (match szs with
          | [] -> []
          | k :: more ->
            let rec take (r : n list) (k : int) (acc : n list) =
              if k = 0 then (List.rev acc, r) else (match r with [] -> (List.rev acc, []) | x :: r' -> take r' (k - 1) (x :: acc)) in
            let (p, r') = take r k [] in p :: slices r' more) in
       let ps = slices rest (get_ilist c "psz") in
       (match ct_save_core t ps (get c "hu" = "1") with
        | Ok out ->
          let d = ct_eq out bytes 0 in
          if d < 0 then "M=savecore=1" else Printf.sprintf "M=savecore=0 firstdiff=%d" d
        | _ -> "M=savecore=FAULT")
     | _ -> "M=savecore=HDRFAULT")
  | "allunknown" ->
    (* a file all of whose block types are unknown: the whole model (load, then save) against nifly's output *)
    let inb = ct_read_file (get c "in") in
    let outb = ct_read_file (get c "out") in
    let (opt, srt) = (match get c "opts" with
        | "raw" -> (false, false) | "opt" -> (true, false) | "sort" -> (false, true) | _ -> (true, true)) in
    let (status, (out, hu)) = ct_load_save_unknown inb opt srt in
    if int_of_n status = 0 then
      "M=allunknown=" ^ (if ct_eq out outb 0 < 0 then "1" else "0") ^ " hu=" ^ (if hu then "1" else "0")
    else "M=allunknown=STATUS" ^ str_of_n status
  | _ -> "M=?"

let main () =
  List.iter (fun l -> if l <> "" then
                print_endline (try ct_run (parse_case l) with e -> "M=EXC " ^ Printexc.to_string e)) (read_lines ())
