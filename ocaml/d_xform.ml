(* model_oracle xform: runs the extracted exact-rational (Qc) transform model of Xform/XformModel.v.
   Numbers come in as exact decimals ("-0.0029296875", "12", "1.5e-3") or fractions ("3/5");
   results go out as exact fractions "<hex num>/<hex den>" (sign in front), so that the check can
   rebuild them as Python Fractions whatever their size.  Parsing/printing only. *)
open Model
open Conv

(* ---------- exact input ---------- *)
let pos_of_n (x : n) : positive = match x with N0 -> XH | Npos p -> p

let is_digit ch = ch >= '0' && ch <= '9'

(* "[-]ddd[.ddd][e[+-]dd]"  ->  Qc, exactly *)
let qc_of_decimal (s : string) : qc =
  let len = String.length s in
  let neg = len > 0 && s.[0] = '-' in
  let i0 = if len > 0 && (s.[0] = '-' || s.[0] = '+') then 1 else 0 in
  let epos = (match String.index_opt s 'e' with Some i -> i | None ->
               (match String.index_opt s 'E' with Some i -> i | None -> len)) in
  let mant = String.sub s i0 (epos - i0) in
  let exp10 = if epos < len then int_of_string (String.sub s (epos + 1) (len - epos - 1)) else 0 in
  let (ip, fp) = (match String.index_opt mant '.' with
    | Some d -> (String.sub mant 0 d, String.sub mant (d + 1) (String.length mant - d - 1))
    | None -> (mant, "")) in
  String.iter (fun ch -> if not (is_digit ch) then failwith ("bad number " ^ s)) (ip ^ fp);
  let digits = ip ^ fp in
  let scale = exp10 - String.length fp in          (* value = digits * 10^scale *)
  let zeros k = String.make k '0' in
  let (num_s, den_s) = if scale >= 0 then (digits ^ zeros scale, "1") else (digits, "1" ^ zeros (- scale)) in
  let num = z_of_string ((if neg then "-" else "") ^ (if num_s = "" then "0" else num_s)) in
  qc_make num (pos_of_n (n_of_string den_s))

let qc_of_string (s : string) : qc =
  match String.index_opt s '/' with
  | Some i ->
    let a = String.sub s 0 i and b = String.sub s (i + 1) (String.length s - i - 1) in
    qc_make (z_of_string a) (pos_of_n (n_of_string b))
  | None -> qc_of_decimal s

(* ---------- exact output ---------- *)
let hex_of_pos (p : positive) : string =
  (* bits, least significant first *)
  let rec bits p acc = match p with
    | XH -> List.rev (1 :: acc)
    | XO q -> bits q (0 :: acc)
    | XI q -> bits q (1 :: acc) in
  let bl = bits p [] in
  let rec nibbles l acc = match l with
    | [] -> acc
    | [a] -> (a) :: acc
    | [a; b] -> (a + 2 * b) :: acc
    | [a; b; c] -> (a + 2 * b + 4 * c) :: acc
    | a :: b :: c :: d :: r -> nibbles r ((a + 2 * b + 4 * c + 8 * d) :: acc) in
  (* nibbles accumulates most significant last -> the accumulator ends most significant first *)
  let ns = nibbles bl [] in
  String.concat "" (List.map (fun v -> String.make 1 "0123456789abcdef".[v]) ns)

let str_of_qc (x : qc) : string =
  let d = hex_of_pos (qc_den x) in
  match qc_num x with
  | Z0 -> "0/1"
  | Zpos p -> hex_of_pos p ^ "/" ^ d
  | Zneg p -> "-" ^ hex_of_pos p ^ "/" ^ d

(* ---------- structured values ---------- *)
let qlist (s : string) : qc list = List.map qc_of_string (split_on ',' s)

let vec_of = function
  | [x; y; z] -> { vx = x; vy = y; vz = z }
  | _ -> failwith "vec3 needs 3 numbers"
let mat3_of = function
  | [a; b; c; d; e; f; g; h; i] ->
    { r00 = a; r01 = b; r02 = c; r10 = d; r11 = e; r12 = f; r20 = g; r21 = h; r22 = i }
  | _ -> failwith "mat3 needs 9 numbers"
let mat4_of = function
  | [b0; b1; b2; b3; b4; b5; b6; b7; b8; b9; b10; b11; b12; b13; b14; b15] ->
    { a0 = b0; a1 = b1; a2 = b2; a3 = b3; a4 = b4; a5 = b5; a6 = b6; a7 = b7; a8 = b8; a9 = b9;
      a10 = b10; a11 = b11; a12 = b12; a13 = b13; a14 = b14; a15 = b15 }
  | _ -> failwith "mat4 needs 16 numbers"
let xform_of13 = function
  | [a; b; c; d; e; f; g; h; i; x; y; z; s] ->
    { rot = mat3_of [a; b; c; d; e; f; g; h; i]; trans = vec_of [x; y; z]; scl = s }
  | _ -> failwith "transform needs 13 numbers"

let l_vec v = [v.vx; v.vy; v.vz]
let l_mat3 m = [m.r00; m.r01; m.r02; m.r10; m.r11; m.r12; m.r20; m.r21; m.r22]
let l_mat4 m = [m.a0; m.a1; m.a2; m.a3; m.a4; m.a5; m.a6; m.a7; m.a8; m.a9; m.a10; m.a11; m.a12;
                m.a13; m.a14; m.a15]
let l_xform t = l_mat3 t.rot @ l_vec t.trans @ [t.scl]
let out (l : qc list) : string = join "," str_of_qc l
let groups (gs : string list) : string = String.concat "|" gs

let get_xform c sfx =
  xform_of13 (qlist (get c ("r" ^ sfx)) @ qlist (get c ("t" ^ sfx)) @ qlist (get c ("s" ^ sfx)))

let run_case (c : case) : string =
  match c.op with
  | "apply" ->
    let t = get_xform c "" and v = vec_of (qlist (get c "v")) in
    "M=" ^ out (l_vec (qc_apply t v))
  | "compose" ->
    let t1 = get_xform c "1" and t2 = get_xform c "2" and v = vec_of (qlist (get c "v")) in
    let comp = qc_compose t1 t2 in
    "M=" ^ groups [out (l_xform comp); out (l_vec (qc_apply comp v));
                   out (l_vec (qc_apply t1 (qc_apply t2 v)))]
  | "inverse" ->
    let t = get_xform c "" and v = vec_of (qlist (get c "v")) in
    let inv = qc_inverse t in
    "M=" ^ groups [out (l_xform inv); out (l_xform (qc_compose t inv)); out (l_xform (qc_compose inv t));
                   out (l_vec (qc_apply inv (qc_apply t v))); out (l_vec (qc_apply t (qc_apply inv v)))]
  | "invert3" ->
    let m = mat3_of (qlist (get c "m")) in
    (match qc_invert3 m with
     | None -> "M=none"
     | Some mi -> "M=" ^ groups [out (l_mat3 mi); out (l_mat3 (qc_mul3 m mi)); out (l_mat3 (qc_mul3 mi m))])
  | "det3" ->
    "M=" ^ out [qc_det3 (mat3_of (qlist (get c "m")))]
  | "tomatrix" ->
    let t = get_xform c "" and v = vec_of (qlist (get c "v")) in
    let m = qc_to_matrix t in
    "M=" ^ groups [out (l_mat4 m); out (l_vec (qc_mulv4 m v)); out (l_vec (qc_apply t v))]
  | "inverse4" ->
    let m = mat4_of (qlist (get c "m")) in
    let d = out [qc_det4 m] in
    (match qc_inverse4 m with
     | None -> "M=" ^ groups [d; "none"]
     | Some mi -> "M=" ^ groups [d; out (l_mat4 mi); out (l_mat4 (qc_mul4 m mi)); out (l_mat4 (qc_mul4 mi m))])
  | "rodrigues" ->
    (* n, c, s exact rationals (unit axis, point of the unit circle); the C++ gets v = angle * n *)
    let n = vec_of (qlist (get c "n")) and co = qc_of_string (get c "c") and si = qc_of_string (get c "s") in
    let m = qc_rotvec n co si in
    "M=" ^ groups [out (l_mat3 m); out [qc_rot_cosang m]; out (l_vec (qc_rot_axis_raw m));
                   out (l_mat3 (qc_mul3 m (m3_transpose m)))]
  | "avg" ->
    let ts = List.map (fun s -> xform_of13 (qlist s)) (split_on ';' (get c "ts")) in
    "M=" ^ groups [out (l_vec (qc_avg_trans ts)); out [qc_avg_scale ts]]
  | "rotvec" | "median" | "medf" | "bsphere" | "bounds" | "bounds2" -> "M=-"   (* implementation-only checks *)
  | _ -> "M=?"

let main () =
  List.iter (fun l -> if l <> "" then
    print_endline (try run_case (parse_case l) with Failure m -> "M=ERR:" ^ m)) (read_lines ())
