(* model_oracle util: runs the extracted loop models and the naive specs of NifUtil.hpp. *)
open Model
open Conv

let str_tri ((a, b), c) = str_of_n a ^ ":" ^ str_of_n b ^ ":" ^ str_of_n c
let parse_tris s = List.map (fun t -> match split_on ':' t with
  | [a; b; c] -> ((n_of_string a, n_of_string b), n_of_string c)
  | _ -> failwith "tri") (split_on ';' s)

let rec strictly_sorted = function
  | a :: (b :: _ as r) -> (int_of_n a < int_of_n b) && strictly_sorted r
  | _ -> true

(* vectors of length n hold the values 100, 101, ... so that positions are recognisable *)
let mkvec n = List.init n (fun i -> n_of_int (100 + i))

(* prints "M=<model result> S=<spec result or - when the theorem's hypotheses do not hold>" *)
let run_case (c : case) : string =
  let two_pow w = N.pow (n_of_int 2) (n_of_int w) in
  let lt_pow x w = (match N.compare x (two_pow w) with Lt -> true | _ -> false) in
  match c.op with
  | "erase" ->
    let w = get_int c "w" and n = get_int c "n" and idx = get_nlist c "idx" in
    let v = mkvec n in
    let m = erase_model (n_of_int w) N0 v idx in
    let hyp = strictly_sorted idx && lt_pow (n_of_int n) w in
    "M=" ^ str_res str_nlist m ^ " S=" ^ (if hyp then str_nlist (erase_spec v idx) else "-")
  | "insert" ->
    let w = get_int c "w" and n = get_int c "n" and idx = get_nlist c "idx" in
    let v = mkvec n in
    let m = insert_model (n_of_int w) N0 v idx in
    (* spec: the result has |v|+|idx| elements and erasing the listed positions gives v back;
       positions in idx hold moved-from or fresh values, which the property does not constrain:
       they are masked as "_" on both sides by the checker *)
    let hyp = strictly_sorted idx && lt_pow (n_of_int (n + List.length idx)) w in
    let total = n + List.length idx in
    let in_range = (match List.rev idx with [] -> false | l :: _ -> int_of_n l < total) in
    let s =
      if not hyp then "-"
      else if not in_range then str_nlist v
      else begin
        (* unique list r with r[idx] masked and erase_spec r idx = v *)
        let rec build pos vs acc =
          if pos = total then List.rev acc
          else if List.exists (fun i -> int_of_n i = pos) idx then build (pos + 1) vs ("_" :: acc)
          else (match vs with x :: r -> build (pos + 1) r (str_of_n x :: acc) | [] -> List.rev acc) in
        String.concat "," (build 0 v [])
      end in
    (* mask the listed positions of the model result as well, when the vector grew *)
    let mask r =
      if List.length r = n then str_nlist r
      else String.concat "," (List.mapi (fun p x ->
        if List.exists (fun i -> int_of_n i = p) idx then "_" else str_of_n x) r) in
    "M=" ^ str_res mask m ^ " S=" ^ s
  | "collapse" | "expand" ->
    let w = get_int c "w" and sg = (get_int c "sg" = 1) and n = get_int c "n"
    and idx = get_nlist c "idx" in
    let hyp = strictly_sorted idx && lt_pow (n_of_int n) w && n < 0x7fffffff in
    if c.op = "collapse" then
      "M=" ^ str_res str_zlist (collapse_model (n_of_int w) sg idx (n_of_int n))
      ^ " S=" ^ (if hyp then str_zlist (collapse_spec idx (n_of_int n)) else "-")
    else
      let hyp = hyp && lt_pow (n_of_int (n + List.length idx)) w in
      "M=" ^ str_res str_zlist (expand_model (n_of_int w) sg idx (n_of_int n))
      ^ " S=" ^ (if hyp then str_zlist (expand_spec idx (n_of_int n)) else "-")
  | "amt" ->
    let w = get_int c "w" and sg = (get_int c "sg" = 1) in
    let tris = parse_tris (get c "tris") and map = get_zlist c "map" in
    let pr (ts, del) = join ";" str_tri ts ^ "|" ^ str_nlist del in
    "M=" ^ str_res pr (apply_map_tris_model (n_of_int w) sg tris map)
    ^ " S=" ^ pr (apply_map_spec tris map)
  | "strips" ->
    let strips = List.map (fun s -> List.map n_of_string (split_on ',' s)) (split_on ';' (get c "strips")) in
    "M=" ^ str_res (join ";" str_tri) (strips_model strips)
    ^ " S=" ^ join ";" str_tri (strips_spec strips)
  | "mapkeys" ->
    (* keyMap entries in the order the container iterates: ascending keys (std::map), or the order
       the implementation reported for its unordered_map (ord=, filled in by the checker) *)
    let w = get_int c "w" in
    let keys = get_zlist c "keys" and vals = get_zlist c "vals" and im = get_zlist c "map" in
    let off = z_of_string (get c "off") in
    let rec zip_kv a b = (match a, b with x :: r, y :: s -> (x, y) :: zip_kv r s | _ -> []) in
    let km0 = zip_kv keys vals in
    let km =
      if get c "ord" <> "" then
        List.filter_map (fun k -> List.find_opt (fun (k', _) -> int_of_z k' = int_of_z k) km0) (get_zlist c "ord")
      else List.sort (fun (a, _) (b, _) -> Stdlib.compare (int_of_z a) (int_of_z b)) km0 in
    let pr r = join ";" (fun (k, v) -> str_of_z k ^ ":" ^ str_of_z v) r in
    let sg = (w = 31) in
    let fits = mk_fitsb (n_of_int w) sg im off km in
    "M=" ^ str_res pr (mapkeys_model (mk_kty_of_N (n_of_int w)) km im off)
    ^ " S=" ^ (if fits then pr (mapkeys_spec km im off) else "-")
  | _ -> "M=? S=?"

let main () = List.iter (fun l -> if l <> "" then print_endline (run_case (parse_case l))) (read_lines ())
