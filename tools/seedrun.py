#!/usr/bin/env python3
"""Development aid (not a registered command): run checks against a seeded breaking change.

  seedrun.py <ID>/<A|B> [--checks C01,C02] [--tier quick] [--inplace]

Default mode works on a private copy (/tmp/vt/verif + /tmp/vt/repo, refreshed from /verif and /repo HEAD by
--sync) so that other checks running in /verif are not disturbed. --inplace uses the mandated procedure
(git -C /repo apply; run; git -C /repo checkout -- .). The outcome is appended to seeded/<ID>/<A|B>/result.json
in /verif."""
import json
import os
import subprocess
import sys
import time

V = "/verif"


def main():
    args = sys.argv[1:]
    if "--sync" in args:
        r = subprocess.run("mkdir -p /tmp/vt && rsync -a --delete --exclude=_work/baseline-off --exclude=_work/scratch --exclude=_work/ocamlbuild --exclude=.git /verif/ /tmp/vt/verif/", shell=True)
        if r.returncode not in (0, 24):     # 24: files vanished while copying (caches being pruned)
            raise SystemExit("rsync failed: %s" % r.returncode)
        subprocess.run("rm -rf /tmp/vt/repo && mkdir -p /tmp/vt/repo && git -C /repo archive HEAD | tar -x -C /tmp/vt/repo && cd /tmp/vt/repo && git init -q && git add -A >/dev/null && git commit -qm base", shell=True, check=True)
        args.remove("--sync")
        if not args:
            return 0
    target = args[0]
    pid = target.split("/")[0]
    checks = [pid]
    tier = "quick"
    inplace = "--inplace" in args
    for i, a in enumerate(args):
        if a == "--checks":
            checks = args[i + 1].split(",")
        if a == "--tier":
            tier = args[i + 1]
    patch = os.path.join(V, "seeded", target, "patch.diff")
    repo = "/repo" if inplace else "/tmp/vt/repo"
    root = V if inplace else "/tmp/vt/verif"
    subprocess.run(["git", "-C", repo, "apply", patch], check=True)
    out = {}
    try:
        for c in checks:
            t = time.time()
            env = dict(os.environ)
            if not inplace:
                env["NIFLY_REPO"] = repo
            r = subprocess.run([sys.executable, "tools/check.py", c, "--tier", tier], cwd=root, env=env, capture_output=True, text=True)
            lines = [l for l in r.stdout.splitlines() if l.startswith("VIOLATION") or l.startswith("KNOWN-FINDING")]
            out[c] = {"exit": r.returncode, "seconds": round(time.time() - t), "tier": tier,
                      "violations": [l[:300] for l in lines if l.startswith("VIOLATION")]}
            print(c, "exit", r.returncode, "%ds" % (time.time() - t))
            for l in lines:
                if l.startswith("VIOLATION"):
                    print("   ", l[:240])
            if r.returncode not in (0, 1):
                print(r.stderr[-1500:])
            # keep the replay text of the first violation for the record
            for l in lines:
                if l.startswith("VIOLATION") and "replay=" in l:
                    rp = l.split("replay=")[1].split()[0]
                    if not os.path.isabs(rp):
                        rp = os.path.join(root, rp)
                    try:
                        out[c]["replay_excerpt"] = open(rp).read()[:1500]
                    except OSError:
                        pass
                    break
    finally:
        subprocess.run(["git", "-C", repo, "checkout", "--", "."], check=True)
    rf = os.path.join(V, "seeded", target, "result.json")
    prev = json.load(open(rf)) if os.path.exists(rf) else {}
    prev.update(out)
    json.dump(prev, open(rf, "w"), indent=1)
    return 0


if __name__ == "__main__":
    sys.exit(main())
