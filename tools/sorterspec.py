"""Parsing of sorter dumps (harness/o_sorter.cpp, ocaml/d_sorter.ml) and the property-level spec of
C04 evaluated on the implementation's dumps: what a reordering / pruning step may and may not do to
the block graph. Nothing here knows how the sorter works."""

FIELDS = ["uid", "t", "name", "kind", "extra", "ctrl", "props", "coll", "children", "gdata", "skin", "shader", "alpha",
          "skdata", "skpart", "bsdata", "texset", "cblocks", "textkey", "animnotes", "animnotes_l", "notes", "entities",
          "chained", "entA", "entB", "kpre", "kpost", "crefs", "ptrs"]
LISTS = {"extra", "props", "children", "cblocks", "animnotes_l", "notes", "entities", "chained", "kpre", "kpost", "crefs", "ptrs"}
K_COLL, K_NODE, K_ORDERED, K_SHAPE = 1, 2, 4, 8


def parse_dump(d):
    kv = {}
    for t in d.strip().split(" "):
        if "=" in t:
            k, v = t.split("=", 1)
            kv[k] = v
    blocks = []
    if kv.get("blocks"):
        for b in kv["blocks"].split("+"):
            f = b.split(",")
            if len(f) != len(FIELDS):
                raise ValueError("block with %d fields: %s" % (len(f), b[:80]))
            r = {}
            for k, v in zip(FIELDS, f):
                r[k] = (v.split(".") if v else []) if k in LISTS else v
            r["uid"] = int(r["uid"])
            r["kind"] = int(r["kind"])
            blocks.append(r)
    return {"ob": kv.get("ob") == "1", "unk": kv.get("unk") == "1", "n": int(kv.get("n", "0")), "blocks": blocks}


def split_line(line):
    """'I=names=.. | D0 | D1 ...' -> dict(names, dumps [strings], extra {rc.., raw0, raw1})"""
    parts = line[2:].split(" | ")
    out = {"names": parts[0][6:] if parts[0].startswith("names=") else "", "dumps": [], "saved": None, "raw": None}
    for p in parts[1:]:
        if p.startswith("ob="):
            out["dumps"].append(p)
        elif p.startswith("rc="):
            out["saved"] = dict(t.split("=", 1) for t in p.split(" "))
        elif p.startswith("raw0="):
            a, b = p.split(" raw1=")
            out["raw"] = (dict(x.split(":") for x in a[5:].split(",") if x), dict(x.split(":") for x in b.split(",") if x))
    return out


def resolve(g, r):
    if r == "x":
        return None
    i = int(r)
    if i >= len(g["blocks"]):
        return "dangling:%d" % i
    return g["blocks"][i]["uid"]


def reachable_uids(g, root):
    seen, todo = set(), [root]
    while todo:
        i = todo.pop()
        if i in seen or i >= len(g["blocks"]):
            continue
        seen.add(i)
        b = g["blocks"][i]
        for r in b["children"] + b["crefs"]:
            if r != "x":
                todo.append(int(r))
    return {g["blocks"][i]["uid"] for i in seen}


def first_node(g):
    for i, b in enumerate(g["blocks"]):
        if b["kind"] & K_NODE:
            return i
    return None


def parentless_nodes(g):
    kids = set()
    for b in g["blocks"]:
        if b["kind"] & K_NODE:
            kids.update(int(r) for r in b["children"] if r != "x")
    return [i for i, b in enumerate(g["blocks"]) if b["kind"] & K_NODE and i not in kids]


def graph_errors(before, after, may_prune, strip_empty=False, shape_order=False):
    """C04 on one step: [before] -> [after] (both parsed dumps of the implementation).
    may_prune: blocks may disappear (Optimize / Save); otherwise the step is a pure reordering.
    strip_empty: the step wrote the blocks, which removes empty entries of reference arrays."""
    e = []
    ub = [b["uid"] for b in before["blocks"]]
    ua = [b["uid"] for b in after["blocks"]]
    if len(set(ua)) != len(ua):
        e.append("a block occupies two slots after the operation")
        return e
    if after["n"] != len(after["blocks"]):
        e.append("numBlocks %d but %d blocks" % (after["n"], len(after["blocks"])))
    gone = set(ub) - set(ua)
    new = set(ua) - set(ub)
    if new:
        e.append("blocks appeared: uids %s" % sorted(new)[:5])
    bmap = {b["uid"]: b for b in before["blocks"]}
    if gone and not may_prune:
        e.append("a pure reordering lost blocks: uids %s (%s)" % (sorted(gone)[:5], bmap[sorted(gone)[0]]["t"]))
    if may_prune:
        # everything reachable from the root through references is kept
        root = first_node(before)
        if root is not None:
            lost = reachable_uids(before, root) & gone
            if lost:
                e.append("blocks reachable from the root were deleted: uids %s" % sorted(lost)[:5])
        # only blocks that no surviving block references may disappear
        for b in after["blocks"]:
            b0 = bmap.get(b["uid"])
            if not b0:
                continue
            for k in ("children", "crefs", "ptrs"):
                for r in b0[k]:
                    t = resolve(before, r)
                    if t in gone:
                        e.append("deleted block uid %s was referenced by surviving block uid %d (%s)" % (t, b["uid"], k))
    alive = set(ua)

    def tgt(g, r, alive_only):
        t = resolve(g, r)
        if alive_only and t is not None and t not in alive:
            return None
        return t

    for b in after["blocks"]:
        b0 = bmap.get(b["uid"])
        if not b0:
            continue
        if b["t"] != b0["t"] or b["kind"] != b0["kind"] or b["name"] != b0["name"]:
            e.append("block uid %d changed class or name" % b["uid"])
        for k in FIELDS[4:]:
            if k == "children":
                continue
            if k in LISTS:
                v0 = [tgt(before, r, True) for r in b0[k]]
                v1 = [tgt(after, r, False) for r in b[k]]
                if strip_empty or may_prune:
                    v0 = [x for x in v0 if x is not None]
                    v1 = [x for x in v1 if x is not None]
            else:
                v0, v1 = tgt(before, b0[k], True), tgt(after, b[k], False)
            if v0 != v1:
                e.append("block uid %d (%s) field %s designated %s, now %s" % (b["uid"], b["t"], k, v0, v1))
        # children: the same set, none listed more often than before
        c0 = [tgt(before, r, True) for r in b0["children"]]
        c1 = [tgt(after, r, False) for r in b["children"]]
        if strip_empty or may_prune:
            c0 = [x for x in c0 if x is not None]
            c1 = [x for x in c1 if x is not None]
        if set(c0) != set(c1):
            e.append("node uid %d (%s) children were %s, now %s" % (b["uid"], b["t"], c0, c1))
        else:
            for x in set(c1):
                if c1.count(x) > c0.count(x):
                    e.append("node uid %d lists child %s %d times, before %d" % (b["uid"], x, c1.count(x), c0.count(x)))
    return e


def root_first_errors(before, after):
    """a parentless root ends up first: the first parentless node (block order) of the model before
    the sort is block 0 afterwards"""
    roots = parentless_nodes(before)
    if not roots or not after["blocks"]:
        return []
    u = before["blocks"][roots[0]]["uid"]
    if after["blocks"][0]["uid"] != u:
        return ["parentless root (uid %d, block %d) is not first after the sort: block 0 is uid %d" % (u, roots[0], after["blocks"][0]["uid"])]
    return []


def raw_errors(raw):
    """field values: written bytes of every surviving block, reference and string-index positions
    blanked, equal before and after (blocks whose number of written references changed - a node
    that dropped a duplicate child - are skipped)"""
    if not raw:
        return [], 0
    r0, r1 = raw
    e, n = [], 0
    for u, d in r1.items():
        if u not in r0:
            continue
        h0, c0 = r0[u].split(".")
        h1, c1 = d.split(".")
        if c0 != c1:
            continue
        n += 1
        if h0 != h1:
            e.append("written bytes of block uid %s changed beyond its references" % u)
    return e, n
