"""Shape dumps of the geom oracle family (harness/o_geom.cpp, ocaml/d_geom.ml) and the properties
C09 / C17 evaluated on them, written independently of the Coq model (plain list comprehensions).

Dump grammar: a state is "S key=value key=value ..." (keys of absent components are absent):
  NiGeometryData   gk=tri|strips|lines|base gnv gV gN gT gB gC (comma lists of tokens)
                   gUV (sets ';', tokens '.', '-' = empty set) gnt gntp gTR (a.b.c;...) gSL gSP gLF
  BSTriShape       bk=plain|dyn|lod|sits bnv bVD bnt bTR bDT bDD bdds blod=a,b,c
                   snp sns snt sSG (start:num:nsub:sub+sub, sub = start.num, '-' none) ssn sst sAI
                   sRC (slot.token;...) sssf ssen sSSE (index.num;...)
  skin             K=1 kSD (numVertices:index.weight+...;...)  pnp pnv pVD pmap pTP
                   pP (partitions '|', fields ':' nv:nt:nstrips:hasVW:hasBI:hasFaces:VM:VW:BI:SL:ST:TR:TT)
                   kDM (BSDismemberSkinInstance partition ids)
  LN               LOCKEDNORM lists (';', values '.')
  gsI gsL          GetShapeSegments output (BSSubIndexTriShape only)
  anv ant aTR      GetNumVertices / GetNumTriangles / GetTriangles
"""


def kv(s):
    return dict(t.split("=", 1) for t in s.split(" ") if "=" in t)


def ints(s, sep=","):
    return [int(x) for x in s.split(sep)] if s not in ("", "-") else []


def tri_list(s, outer=";", inner="."):
    if s in ("", "-"):
        return []
    return [tuple(int(x) for x in t.split(inner)) for t in s.split(outer)]


def list_of_lists(s, outer=";", inner="."):
    if s == "":
        return []
    return [ints(x, inner) for x in s.split(outer)]


def parse_part(s):
    f = s.split(":")
    return {"nv": int(f[0]), "nt": int(f[1]), "ns": int(f[2]), "hvw": f[3] == "1", "hbi": f[4] == "1", "hf": f[5] == "1",
            "vm": ints(f[6], "."), "vw": ints(f[7], "."), "bi": ints(f[8], "."), "sl": ints(f[9], "."),
            "st": [] if f[10] == "-" else [([] if x == "_" else ints(x, ".")) for x in f[10].split("+")],
            "tr": tri_list(f[11], "+", "/"), "tt": tri_list(f[12], "+", "/")}


def parse_state(s):
    d = kv(s)
    st = {"raw": d}
    if "gk" in d:
        st["g"] = {"kind": d["gk"], "nv": int(d["gnv"]), "V": ints(d["gV"]), "N": ints(d["gN"]), "T": ints(d["gT"]),
                   "B": ints(d["gB"]), "C": ints(d["gC"]), "UV": list_of_lists(d["gUV"]), "nt": int(d["gnt"]),
                   "ntp": int(d["gntp"]), "TR": tri_list(d["gTR"]), "SL": ints(d["gSL"]),
                   "SP": list_of_lists(d["gSP"]), "LF": ints(d["gLF"])}
    if "bk" in d:
        segs = []
        for sg in ([] if d["sSG"] == "" else d["sSG"].split(";")):
            f = sg.split(":")
            subs = [] if f[3] == "-" else [tuple(int(x) for x in q.split(".")) for q in f[3].split("+")]
            segs.append({"start": int(f[0]), "num": int(f[1]), "nsub": int(f[2]), "subs": subs})
        st["b"] = {"kind": d["bk"], "nv": int(d["bnv"]), "VD": ints(d["bVD"]), "nt": int(d["bnt"]), "TR": tri_list(d["bTR"]),
                   "DT": ints(d["bDT"]), "DD": ints(d["bDD"]), "dds": int(d["bdds"]), "lod": ints(d["blod"]),
                   "snp": int(d["snp"]), "sns": int(d["sns"]), "snt": int(d["snt"]), "segs": segs,
                   "ssn": int(d["ssn"]), "sst": int(d["sst"]), "AI": ints(d["sAI"]),
                   "RC": [tuple(int(x) for x in q.split(".")) for q in d["sRC"].split(";")] if d["sRC"] else [],
                   "ssf": int(d["sssf"]), "ssen": int(d["ssen"]),
                   "SSE": [tuple(int(x) for x in q.split(".")) for q in d["sSSE"].split(";")] if d["sSSE"] else []}
    if "K" in d:
        k = {}
        if "kSD" in d:
            bones = []
            for b in ([] if d["kSD"] == "" else d["kSD"].split(";")):
                nvb, ws = b.split(":")
                bones.append({"nv": int(nvb), "w": [] if ws == "-" else [tuple(int(x) for x in q.split(".")) for q in ws.split("+")]})
            k["sd"] = bones
        if "pnp" in d:
            k["sp"] = {"np": int(d["pnp"]), "nv": int(d["pnv"]), "VD": ints(d["pVD"]), "mapped": d["pmap"] == "1",
                       "TP": ints(d["pTP"]), "parts": [parse_part(p) for p in d["pP"].split("|")] if d["pP"] else []}
        if "kDM" in d:
            k["dm"] = ints(d["kDM"])
        st["k"] = k
    st["LN"] = list_of_lists(d.get("LN", ""))
    if "gsI" in d:
        st["gsI"] = d["gsI"]
        st["gsL"] = ints(d["gsL"])
    st["anv"], st["ant"], st["aTR"] = int(d["anv"]), int(d["ant"]), tri_list(d["aTR"])
    return st


# ------------------------------------------------------------------------------------------------
# the mathematical side


def survivors(v, dead):
    return [x for i, x in enumerate(v) if i not in dead]


def rank(dead, i):
    """new index of survivor i = number of unlisted positions below it"""
    return i - sum(1 for k in dead if k < i)


def tris_after(tris, dead):
    return [tuple(rank(dead, p) for p in t) for t in tris if not any(p in dead for p in t)]


def strips_tris(strips):
    out = []
    for s in strips:
        for i in range(2, len(s)):
            a, b, c = s[i - 2], s[i - 1], s[i]
            if a != b and b != c and c != a:
                out.append((a, b, c) if i % 2 == 0 else (a, c, b))
    return out


def rot(t):
    a, b, c = t
    if b < a and b < c:
        return (b, c, a)
    if c < a:
        return (c, a, b)
    return t


def nverts(st):
    return st["g"]["nv"] if "g" in st else (st["b"]["nv"] if "b" in st else 0)


def part_true_view(p, mapped):
    """the triangles of a partition in shape vertex numbering, or None when an index leaves its table"""
    if p["tt"]:
        return [rot(t) for t in p["tt"]]
    tr = p["tr"] if p["ns"] == 0 else strips_tris(p["st"])
    if not mapped:
        return [rot(t) for t in tr]
    out = []
    for t in tr:
        if any(c >= len(p["vm"]) for c in t):
            return None
        out.append(rot(tuple(p["vm"][c] for c in t)))
    return out


def wf_errors(st, strict_segs=False):
    """counters agree with lengths, every per-vertex array has one element per vertex (or none),
    every index anywhere refers to an existing vertex / triangle"""
    e = []
    if "g" in st:
        g = st["g"]
        nv = len(g["V"])
        if g["nv"] != nv:
            e.append("numVertices %d != |vertices| %d" % (g["nv"], nv))
        for name in "NTBC":
            if len(g[name]) not in (0, nv):
                e.append("per-vertex array %s has %d elements for %d vertices" % (name, len(g[name]), nv))
        for u in g["UV"]:
            if len(u) not in (0, nv):
                e.append("uv set has %d elements for %d vertices" % (len(u), nv))
        if g["kind"] == "tri":
            if g["nt"] != len(g["TR"]):
                e.append("numTriangles %d != |triangles| %d" % (g["nt"], len(g["TR"])))
            if g["ntp"] != 3 * g["nt"]:
                e.append("numTrianglePoints %d != 3 * %d" % (g["ntp"], g["nt"]))
            if any(p >= nv for t in g["TR"] for p in t):
                e.append("triangle corner >= vertex count")
        if g["kind"] == "strips":
            if len(g["SL"]) != len(g["SP"]) or any(l != len(s) for l, s in zip(g["SL"], g["SP"])):
                e.append("strip lengths disagree with strips")
            if any(p >= nv for s in g["SP"] for p in s):
                e.append("strip point >= vertex count")
        if g["kind"] == "lines" and len(g["LF"]) != nv:
            e.append("lineFlags has %d elements for %d vertices" % (len(g["LF"]), nv))
    if "b" in st:
        b = st["b"]
        nv = len(b["VD"])
        if b["nv"] != nv:
            e.append("numVertices %d != |vertData| %d" % (b["nv"], nv))
        if b["nt"] != len(b["TR"]):
            e.append("numTriangles %d != |triangles| %d" % (b["nt"], len(b["TR"])))
        if any(p >= nv for t in b["TR"] for p in t):
            e.append("triangle corner >= vertex count")
        if b["kind"] == "dyn":
            if len(b["DD"]) != nv:
                e.append("dynamicData has %d elements for %d vertices" % (len(b["DD"]), nv))
            if b["dds"] != 16 * nv:
                e.append("dynamicDataSize %d != 16 * %d vertices" % (b["dds"], nv))
        if b["kind"] == "sits":
            e += seg_range_errors(b, strict_segs)
    nv = nverts(st)
    if "k" in st:
        k = st["k"]
        for bi, bone in enumerate(k.get("sd", [])):
            if bone["nv"] != len(bone["w"]):
                e.append("bone %d numVertices %d != |weights| %d" % (bi, bone["nv"], len(bone["w"])))
            if any(i >= nv for i, _ in bone["w"]):
                e.append("bone %d weight index >= vertex count" % bi)
        if "sp" in k:
            sp = k["sp"]
            if sp["np"] != len(sp["parts"]):
                e.append("numPartitions %d != |partitions| %d" % (sp["np"], len(sp["parts"])))
            if sp["VD"] and (sp["nv"] != len(sp["VD"]) or len(sp["VD"]) != nv):
                e.append("partition vertex data: numVertices %d, |vertData| %d, shape has %d" % (sp["nv"], len(sp["VD"]), nv))
            for pi, p in enumerate(sp["parts"]):
                if p["vm"] and p["nv"] != len(p["vm"]):
                    e.append("partition %d numVertices %d != |vertexMap| %d" % (pi, p["nv"], len(p["vm"])))
                if any(v >= nv for v in p["vm"]):
                    e.append("partition %d vertexMap entry >= vertex count" % pi)
                if p["hvw"] and p["vw"] and len(p["vw"]) != len(p["vm"]):
                    e.append("partition %d vertexWeights length != vertexMap length" % pi)
                if p["hbi"] and p["bi"] and len(p["bi"]) != len(p["vm"]):
                    e.append("partition %d boneIndices length != vertexMap length" % pi)
                lim = len(p["vm"]) if sp["mapped"] else nv
                if p["ns"] == 0 and p["tr"] and any(c >= lim for t in p["tr"] for c in t):
                    e.append("partition %d triangle index out of range" % pi)
                if any(c >= lim for s in p["st"] for c in s):
                    e.append("partition %d strip point out of range" % pi)
                if any(c >= nv for t in p["tt"] for c in t):
                    e.append("partition %d trueTriangles index >= vertex count" % pi)
                cnt = len(p["tr"]) if p["tr"] else len(p["tt"])
                if p["ns"] == 0 and p["hf"] and p["nt"] != cnt:
                    e.append("partition %d numTriangles %d != %d stored" % (pi, p["nt"], cnt))
                if p["tr"] and p["tt"] and len(p["tr"]) != len(p["tt"]):
                    e.append("partition %d |triangles| != |trueTriangles|" % pi)
            if "dm" in k and len(k["dm"]) != len(sp["parts"]):
                e.append("dismember list has %d entries for %d partitions" % (len(k["dm"]), len(sp["parts"])))
    for l in st["LN"]:
        if any(x >= nv for x in l):
            e.append("LOCKEDNORM index >= vertex count")
    return e


def seg_range_errors(b, strict=True):
    """segment tables of a BSSubIndexTriShape: counters = lengths, ranges contiguous, ordered,
    inside the triangle list, summing to the triangle count; sub-segment ranges contiguous, inside
    their segment and ending where it ends"""
    e = []
    nt = b["nt"]
    if b["sns"] != len(b["segs"]):
        e.append("numSegments %d != |segments| %d" % (b["sns"], len(b["segs"])))
    if b["segs"] and b["snp"] != nt:
        e.append("segmentation numPrimitives %d != triangle count %d" % (b["snp"], nt))
    pos = 0
    for i, s in enumerate(b["segs"]):
        if s["nsub"] != len(s["subs"]):
            e.append("segment %d numSubSegments %d != |subSegments| %d" % (i, s["nsub"], len(s["subs"])))
        if strict and s["start"] != 3 * pos and (s["num"] > 0 or s["subs"]):
            e.append("segment %d starts at index %d, expected %d (not contiguous)" % (i, s["start"], 3 * pos))
        if s["start"] // 3 + s["num"] > nt:
            e.append("segment %d range leaves the triangle list" % i)
        for (ss, sn) in s["subs"]:
            if ss // 3 + sn > nt:
                e.append("segment %d sub-segment range leaves the triangle list" % i)
        live = [(ss, sn) for (ss, sn) in s["subs"] if sn > 0]
        if strict and live:
            sp = None
            for j, (ss, sn) in enumerate(live):
                if sp is not None and ss != sp:
                    e.append("segment %d: non-empty sub-segments are not contiguous" % i)
                if ss < s["start"] or ss // 3 + sn > s["start"] // 3 + s["num"]:
                    e.append("segment %d: a sub-segment leaves its segment" % i)
                sp = ss + 3 * sn
            if sp != s["start"] + 3 * s["num"]:
                e.append("segment %d: sub-segments do not end where the segment ends" % i)
        pos += s["num"]
    if strict and b["segs"] and pos != nt:
        e.append("segment sizes sum to %d, triangle count is %d" % (pos, nt))
    if b["ssen"] != len(b["SSE"]):
        e.append("SSE numSegments %d != |segments| %d" % (b["ssen"], len(b["SSE"])))
    for i, (ix, n) in enumerate(b["SSE"]):
        if ix // 3 + n > nt:
            e.append("SSE segment %d range leaves the triangle list" % i)
    return e


def delete_errors(before, idx, after):
    """C09 on one step: [after] must be [before] minus the vertices listed in idx"""
    e = []
    nv0 = nverts(before)
    dead = set(i for i in idx if i < nv0)
    if "g" in before:
        g0, g1 = before["g"], after["g"]
        if g1["V"] != survivors(g0["V"], dead):
            e.append("vertices are not exactly the survivors in order")
        for name in "NTBC":
            if g1[name] != survivors(g0[name], dead):
                e.append("per-vertex array %s is not the survivors in order" % name)
        if len(g1["UV"]) != len(g0["UV"]) or any(a != survivors(b, dead) for a, b in zip(g1["UV"], g0["UV"])):
            e.append("uv sets are not the survivors in order")
        if g0["kind"] == "tri" and g1["TR"] != tris_after(g0["TR"], dead):
            e.append("triangles are not the untouched ones, re-indexed, in order")
        if g0["kind"] == "lines" and g1["LF"] != survivors(g0["LF"], dead):
            e.append("lineFlags are not the survivors in order")
    if "b" in before:
        b0, b1 = before["b"], after["b"]
        if b1["VD"] != survivors(b0["VD"], dead):
            e.append("vertex data are not exactly the survivors in order")
        if b1["TR"] != tris_after(b0["TR"], dead):
            e.append("triangles are not the untouched ones, re-indexed, in order")
        if b0["kind"] == "dyn" and b1["DD"] != survivors(b0["DD"], dead):
            e.append("dynamicData is not the survivors in order")
        if b0["kind"] == "lod" and sum(b1["lod"]) != len(b1["TR"]):
            e.append("LOD sizes %s do not sum to the triangle count %d" % (b1["lod"], len(b1["TR"])))
    if "k" in before:
        k0, k1 = before["k"], after.get("k", {})
        if "sd" in k0:
            for bi, (x, y) in enumerate(zip(k0["sd"], k1.get("sd", []))):
                want = [(rank(dead, i), w) for i, w in x["w"] if i not in dead]
                if y["w"] != want:
                    e.append("bone %d weights are not those of the survivors, re-indexed, in order" % bi)
            if len(k0["sd"]) != len(k1.get("sd", [])):
                e.append("bone count changed")
        if "sp" in k0 and "sp" in k1:
            m = k0["sp"]["mapped"]
            want = []
            ok = True
            for p in k0["sp"]["parts"]:
                v = part_true_view(p, m)
                if v is None:
                    ok = False
                    break
                v = [rot(t) for t in tris_after(v, dead)]
                if v:
                    want.append(v)
            got = [part_true_view(p, k1["sp"]["mapped"]) for p in k1["sp"]["parts"]]
            if ok and got != want:
                e.append("partition triangles (in shape numbering) are not the untouched ones, re-indexed, in order, with empty partitions removed")
            if k0["sp"]["VD"] and k1["sp"]["VD"] != survivors(k0["sp"]["VD"], dead):
                e.append("partition vertex data are not the survivors in order")
    want = [[rank(dead, x) for x in sorted(l) if x not in dead] for l in before["LN"]]
    if after["LN"] != want:
        e.append("LOCKEDNORM lists are not the sorted survivors, re-indexed")
    e += ["after deletion: " + x for x in wf_errors(after)]
    # the public accessors tell the same story
    if after["anv"] != nverts(after):
        e.append("GetNumVertices %d != vertex count %d" % (after["anv"], nverts(after)))
    if "g" in after and after["g"]["kind"] == "strips":
        if after["aTR"] != strips_tris(after["g"]["SP"]) or after["ant"] != len(after["aTR"]):
            e.append("GetTriangles / GetNumTriangles disagree with the strips")
    elif after["ant"] != len(after["aTR"]):
        e.append("GetNumTriangles %d != |GetTriangles| %d" % (after["ant"], len(after["aTR"])))
    return e


def geometry_view(st, sort_tris):
    """what 'the same geometry' means for save + reload"""
    v = {}
    if "g" in st:
        g = st["g"]
        v["g"] = (g["kind"], g["V"], g["N"], g["C"], g["UV"], g["TR"], g["SP"])
    if "b" in st:
        b = st["b"]
        # partition triangles are stored rotated to start at their smallest corner (Triangle::rot)
        v["b"] = (b["kind"], b["VD"], sorted(rot(t) for t in b["TR"]) if sort_tris else b["TR"], b["DD"],
                  [(s["start"], s["num"], s["subs"]) for s in b["segs"]])
        if "gsL" in st:
            v["labels"] = sorted(zip([rot(t) for t in b["TR"]], st["gsL"])) if sort_tris else st["gsL"]
    if "k" in st:
        v["sd"] = [sorted(b["w"]) for b in st["k"].get("sd", [])]
    v["LN"] = st["LN"]
    return v


def labels_after_delete(before, after):
    """C17 on a deletion step: every surviving triangle keeps its segment / sub-segment label"""
    if "gsL" not in before or "gsL" not in after:
        return None
    deleted = set(after["b"]["DT"])
    want = [l for i, l in enumerate(before["gsL"]) if i not in deleted]
    return want, after["gsL"]


# ------------------------------------------------------------------------------------------------
# C17: segmentation set / get


def parse_inf(s):
    """case-line syntax: seg ';' seg, seg = id ':' sub '+' sub ('-' = none), sub = id '.' userSlot"""
    segs = []
    for sg in s.split(";"):
        f = sg.split(":")
        subs = []
        if len(f) > 1 and f[1] not in ("", "-"):
            for sb in f[1].split("+"):
                q = sb.split(".")
                subs.append((int(q[0]), int(q[1]) if len(q) > 1 else 0))
        segs.append((int(f[0]), subs))
    return segs


def inf_ids(inf):
    out = []
    for sid, subs in inf:
        out.append(sid)
        out += [x for x, _ in subs]
    return out


def renumbering(inf):
    """documented renumbering: ids become 0,1,2,... in declaration order (segment, then its subs);
    -1 (unassigned) goes to the first segment"""
    m = {}
    for k, i in enumerate(inf_ids(inf)):
        m[i] = k
    m[-1] = 0
    return m


def parse_gsI(s):
    segs = []
    for sg in ([] if s == "" else s.split(";")):
        sid, subs = sg.split(":")
        segs.append((int(sid), [] if subs == "-" else [tuple(int(x) for x in q.split(".")) for q in subs.split("+")]))
    return segs


def set_errors(pre, inf, labels, dtok, post):
    """SetShapeSegments(inf, labels) took the shape from [pre] to [post]"""
    e = []
    t0, t1 = pre["b"]["TR"], post["b"]["TR"]
    if sorted(t0) != sorted(t1):
        e.append("stored triangles are not a permutation of the previous ones")
    e += seg_range_errors(post["b"], True)
    ren = renumbering(inf)
    want_keys = [ren[l] for l in labels]
    order = sorted(range(len(t0)), key=lambda i: want_keys[i])            # stable
    if t1 != [t0[i] for i in order]:
        e.append("triangles are not in stable label order")
    if post.get("gsL") != [want_keys[i] for i in order]:
        e.append("labels read back %s, expected %s" % (post.get("gsL"), [want_keys[i] for i in order]))
    want_inf = []
    k = 0
    for sid, subs in inf:
        me = k
        k += 1
        ws = []
        for (x, slot) in subs:
            ws.append((k, 0 if slot < 30 else slot, dtok.get(x, 0)))
            k += 1
        want_inf.append((me, ws))
    if parse_gsI(post.get("gsI", "")) != want_inf:
        e.append("segmentation info read back %s, expected %s" % (post.get("gsI"), want_inf))
    return e


def refit_bug_applies(before, after):
    """input class of the known sub-segment re-fit defect: some segment keeps at least one triangle
    carrying the segment's own label and at least one triangle carrying a sub-segment label"""
    inf = parse_gsI(before.get("gsI", ""))
    deleted = set(after["b"]["DT"])
    lab = [l for i, l in enumerate(before["gsL"]) if i not in deleted]
    for sid, subs in inf:
        if not subs:
            continue
        own = sum(1 for l in lab if l == sid)
        sub = sum(1 for l in lab if l in [x[0] for x in subs])
        if own > 0 and sub > 0:
            return True
    return False
