#!/bin/sh
# development aid: commit /verif/fixes/<id>.patch in /repo with its .msg, put the hash into known_findings.json
# (all entries whose id is given after the patch id share the commit), refresh the C08 reference snapshot
set -e
id="$1"; shift
cd /repo
git apply "/verif/fixes/$id.patch"
git add -u src include
git commit -q -F "/verif/fixes/$id.msg"
h=$(git log -1 --format=%h)
python3 - "$h" "$id" "$@" <<'PY'
import json,sys
h=sys.argv[1]; ids=sys.argv[2:]
k=json.load(open('/verif/known_findings.json'))
for f in k['findings']:
    if f['id'] in ids:
        assert 'COMMIT' in f['what'] and f['status']=='fixed', (f['id'], f['status'], f['what'][:60])
        f['what']=f['what'].replace('COMMIT',h,1)
        print('  ',f['id'],'->',h)
json.dump(k,open('/verif/known_findings.json','w'),indent=1)
PY
cd /verif
rm -rf reference/include reference/src reference/external
git -C /repo archive HEAD include src external | tar -x -C reference
sed -i "s/^commit [0-9a-f]* = the pinned/commit $h = the pinned/; s/^Reference snapshot for C08\(.*\)at\$/&/" reference/README.md
python3 - "$h" "$id" <<'PY'
import sys,re
h,i=sys.argv[1:3]
p='/verif/reference/README.md'
s=open(p).read()
s=re.sub(r"of /repo at\ncommit \w+ =", "of /repo at\ncommit %s ="%h, s)
subj=open('/verif/fixes/%s.msg'%i).readline().strip()
s=s.replace("The snapshot is refreshed only","      %s  %s\nThe snapshot is refreshed only"%(h,subj))
open(p,'w').write(s)
PY
echo "$id $h"
