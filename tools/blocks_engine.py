"""Shared engine of the block-level experiments (C01, C02, C05, C08, C16):
instances of all registered block types are synthesised by the generative read of harness/o_blocks.cpp,
and the GENERATED SyncIR model (coq/Gen/IRCur.v, extracted) is run on the same bytes."""
import concurrent.futures as cf
import json
import os

import vlib

VERS = {
    "OB10_1": "0a01006a,10,5", "OB10_2": "0a020000,10,9", "OB20_4": "14000004,11,11", "OB": "14000005,11,11",
    "SPECIAL": "0a000100,0,0", "FO3": "14020007,11,34", "SK": "14020007,12,83", "SSE": "14020007,12,100",
    "FO4": "14020007,12,130", "FO4_132": "14020007,12,132", "FO4_139": "14020007,12,139", "FO76": "14020007,12,155",
    "SF172": "14020007,12,172", "SF173": "14020007,12,173",
}
QUICK_VERS = ["OB", "FO3", "SK", "SSE", "FO4", "FO76", "SF173"]
MODEL_MAX_LEN = 200000          # bytes: larger generated blocks are only run on the implementation


def kv_of(line):
    return dict(t.split("=", 1) for t in line[2:].split(" ") if "=" in t)


def chunks(l, k):
    return [l[i:i + k] for i in range(0, len(l), k)]


def par_run(binp, family, cases, timeout=60, batch=150, threads=None, env=None, mem_gb=4, single_timeout=10, warnings=None):
    """run case lines in parallel batches; returns list of (case, line, crash) in order"""
    threads = threads or vlib.NPROC
    parts = chunks(cases, max(1, min(batch, (len(cases) + threads - 1) // threads)))

    def go(ch):
        asan = "-asan-" in os.path.basename(binp)
        return vlib.run_cases_robust(binp, [family], ch, timeout_per_batch=timeout, batch=len(ch) or 1, env=env,
                                     mem_gb=None if asan else mem_gb, single_timeout=single_timeout, warnings=warnings)
    out = []
    with cf.ThreadPoolExecutor(threads) as ex:
        for r in ex.map(go, parts):
            out += r
    return out


def block_cases(types, vers, seeds, maxc=None):
    cases = []
    for n in types:
        for vn in vers:
            for s in seeds:
                cases.append(("blk type=%s ver=%s seed=%d%s" % (n, VERS[vn], s, (" maxc=%d" % maxc) if maxc else ""), n, vn, s))
    return cases


def float_boundary_cases(nseeds=12):
    """instances whose single floats come from the boundary palette (FLT_MAX, neighbours, infinities, NaN, -0, denormal):
    for the block types whose Sync compares a float member (the only one at the pinned commit: BSLightingShaderProperty,
    FO4 streams, Shaders.cpp:481)"""
    cases = []
    for n in ("BSLightingShaderProperty",):
        for vn in ("FO4", "FO4_132", "FO4_139"):
            for s in range(1, nseeds + 1):
                cases.append(("blk type=%s ver=%s seed=%d fspecial=1" % (n, VERS[vn], s), n, vn, s))
    return cases


def refines(fine, coarse):
    """the model may sync a struct member-wise where the C++ copies the struct in one transfer:
    every C++ transfer must be a concatenation of consecutive model transfers"""
    a = [int(x) for x in fine.split(",")] if fine else []
    b = [int(x) for x in coarse.split(",")] if coarse else []
    i = 0
    for t in b:
        if t == 0:
            if i < len(a) and a[i] == 0:
                i += 1
                continue
            return False
        acc = 0
        while acc < t and i < len(a):
            acc += a[i]
            i += 1
        if acc != t:
            return False
    return i == len(a)


def model_cases(info, items):
    """items: list of (type name, version name, bytes hex) -> case lines for d_syncir"""
    tid = {b: i for b, i in zip(info["blocks"], info["ids"])}
    return ["blk tid=%d ver=%s bytes=%s" % (tid[n], VERS[vn], b) for (n, vn, b) in items]


def compare_model(kv, mline):
    """kv: implementation's blk result; mline: model line. Returns list of disagreement names."""
    if mline is None:
        return ["model-crash"]
    if mline.startswith("M=RFAULT") or mline.startswith("M=WFAULT"):
        return [mline[2:8].lower()]
    mk = kv_of(mline)
    why = []
    # the model reads the bytes the implementation wrote (b1) and writes them again; the implementation did
    # the same (consumed flag, b2). When the implementation's own round trip fails (rt=0: a C01 matter,
    # reported there) its first write's trace is not that of the second write: compared only when rt=1.
    rt = kv.get("rt", "1") == "1"
    if mk.get("consumed") != kv.get("consumed", "1"):
        why.append("consumed(model=%s,impl=%s)" % (mk.get("consumed"), kv.get("consumed")))
    if mk.get("out") != kv.get("b2", kv["b1"]):
        why.append("bytes")
    if not refines(mk.get("rtrace", ""), kv["rtrace"]):
        why.append("read-trace")
    if rt and not refines(mk.get("wtrace", ""), kv["wtrace"]):
        why.append("write-trace")
    if mk.get("idem") != kv.get("idem"):
        why.append("idempotence(model=%s,impl=%s)" % (mk.get("idem"), kv.get("idem")))
    return why


def load_info(tag="Cur"):
    return json.load(open(os.path.join(vlib.ROOT, "_work", "gen", "ir_%s.json" % tag)))


def eval_in_coq(name, body, timeout=600):
    """compile a scratch .v under coq/Gen and return coqc's stdout (for Eval vm_compute queries)"""
    path = os.path.join(vlib.COQ, "Gen", name + ".v")
    vlib.write_if_changed(path, body)
    rc, out, err = vlib.sh(["coqc", "-Q", ".", "NiflyVerif", "Gen/%s.v" % name], cwd=vlib.COQ, timeout=timeout)
    return rc, out, err


def parse_coq_list(out):
    """'= [1; 2; 3]\\n : list N' -> [1,2,3]"""
    import re
    m = re.search(r"=\s*\[(.*?)\]\s*:", out, re.S)
    if not m:
        return None
    body = m.group(1).replace("\n", " ")
    return [int(x.strip().rstrip("%N").rstrip("%Z")) for x in body.split(";") if x.strip()]
