"""Parsing of graph dumps (harness/o_graph.cpp, ocaml/d_graph.ml) and the property-level spec of
block-graph edits evaluated on the implementation's dumps (failing-input search for C06/C04)."""

NPOS = "x"


def parse_dump(d):
    """'n=.. nt=.. types=.. tidx=.. sizes=.. blocks=..' -> dict"""
    kv = {}
    for t in d.strip().split(" "):
        if "=" in t:
            k, v = t.split("=", 1)
            kv[k] = v
    blocks = []
    if kv.get("blocks"):
        for b in kv["blocks"].split("+"):
            if b == "NULL":
                blocks.append(None)
                continue
            u, t, c, p = b.split(",")
            blocks.append({"uid": int(u), "t": t, "c": c.split(".") if c else [], "p": p.split(".") if p else []})
    return {"n": int(kv.get("n", "0")), "nt": int(kv.get("nt", "0")),
            "types": kv["types"].split(",") if kv.get("types") else [],
            "tidx": [int(x) for x in kv["tidx"].split(",")] if kv.get("tidx") else [],
            "sizes": [int(x) for x in kv["sizes"].split(",")] if kv.get("sizes") else [],
            "blocks": blocks}


def resolve(g, r):
    if r == NPOS:
        return None
    i = int(r)
    if i >= len(g["blocks"]) or g["blocks"][i] is None:
        return "dangling"
    return g["blocks"][i]["uid"]


def inv_errors(g, has_sizes):
    e = []
    bl = g["blocks"]
    if any(b is None for b in bl):
        e.append("an empty (null) block slot")
        return e
    if g["n"] != len(bl):
        e.append("numBlocks %d != %d blocks" % (g["n"], len(bl)))
    if g["nt"] != len(g["types"]):
        e.append("numBlockTypes %d != %d type names" % (g["nt"], len(g["types"])))
    if len(g["tidx"]) != len(bl):
        e.append("type index table has %d entries for %d blocks" % (len(g["tidx"]), len(bl)))
    else:
        for i, b in enumerate(bl):
            t = g["tidx"][i]
            if t >= len(g["types"]) or g["types"][t] != b["t"]:
                e.append("block %d is a %s but its header type entry says %s" % (i, b["t"], g["types"][t] if t < len(g["types"]) else "<out of range>"))
    if len(set(g["types"])) != len(g["types"]):
        e.append("duplicate type name in header")
    used = set(g["tidx"])
    for t in range(len(g["types"])):
        if t not in used:
            e.append("unused type name %s left in header" % g["types"][t])
    if has_sizes and len(g["sizes"]) != len(bl):
        e.append("size table has %d entries for %d blocks" % (len(g["sizes"]), len(bl)))
    uids = [b["uid"] for b in bl]
    if len(set(uids)) != len(uids):
        e.append("the same block object in two slots")
    for i, b in enumerate(bl):
        for r in b["c"] + b["p"]:
            if r != NPOS and int(r) >= len(bl):
                e.append("block %d holds out-of-range reference %s" % (i, r))
    return e


def referent_errors(before, after, skip_uids=()):
    """every slot of every surviving block designates the same object as before, or is empty exactly
    when that object no longer exists"""
    e = []
    alive = {b["uid"] for b in after["blocks"] if b}
    bmap = {b["uid"]: b for b in before["blocks"] if b}
    for b2 in after["blocks"]:
        if not b2 or b2["uid"] not in bmap or b2["uid"] in skip_uids:
            continue
        b1 = bmap[b2["uid"]]
        for kind in ("c", "p"):
            if len(b1[kind]) != len(b2[kind]):
                e.append("block uid %d changed its number of %s slots" % (b2["uid"], kind))
                continue
            for j, (r1, r2) in enumerate(zip(b1[kind], b2[kind])):
                t1, t2 = resolve(before, r1), resolve(after, r2)
                if t1 == "dangling":
                    continue
                want = t1 if (t1 in alive) else None
                if t2 != want:
                    e.append("block uid %d %s-slot %d designated %s, now %s (expected %s)" % (b2["uid"], kind, j, t1, t2, want))
    return e


def reachable(g, root):
    seen, todo = set(), [root]
    while todo:
        i = todo.pop()
        if i in seen or i >= len(g["blocks"]) or g["blocks"][i] is None:
            continue
        seen.add(i)
        for r in g["blocks"][i]["c"]:
            if r != NPOS:
                todo.append(int(r))
    return seen


def step_errors(before, op, after, has_sizes, resolve_id):
    """op in the case syntax; resolve_id maps '%k'/'x'/digits to an index or None for NPOS"""
    e = inv_errors(after, has_sizes)
    if e:
        return e
    k, a = op[0], op[1:]
    ub = [b["uid"] for b in before["blocks"]]
    ua = [b["uid"] for b in after["blocks"]]
    deleted = set(ub) - set(ua)
    added = set(ua) - set(ub)
    skip = ()
    if k == "D":
        i = resolve_id(a, before)
        want = set() if i is None else {ub[i]}
        if deleted != want or added:
            e.append("delete of index %s removed objects %s" % (i, sorted(deleted)))
        if [u for u in ub if u not in deleted] != ua:
            e.append("delete changed the relative order of surviving blocks")
    elif k == "A":
        if deleted or len(added) != 1 or ua[:-1] != ub:
            e.append("add did not append exactly one new block")
        skip = tuple(added)
    elif k == "R":
        i = resolve_id(a.split("=")[0], before)
        if deleted or added or ua != ub:
            e.append("replace changed the block list beyond the replaced slot")
        if i is not None:
            skip = (ub[i],)
    elif k == "O":
        if deleted or added:
            e.append("reorder lost or created blocks")
        if sorted(b["t"] for b in before["blocks"]) != sorted(b["t"] for b in after["blocks"]):
            e.append("reorder changed block types")
    elif k == "T":
        name, oo = a.split(",")
        if name and name[0].isdigit():
            name = "V" + name
        oftype = {b["uid"] for b in before["blocks"] if b["t"] == name}
        if not deleted <= oftype or added:
            e.append("delete-by-type removed a block of another type")
        if oo == "0" and deleted != oftype:
            e.append("delete-by-type left a block of the type")
        if [u for u in ub if u not in deleted] != ua:
            e.append("delete-by-type changed the relative order of surviving blocks")
    elif k == "P":
        root = resolve_id(a, before)
        if root is None:
            if deleted or added:
                e.append("prune with empty root changed the model")
        else:
            keep = {ub[i] for i in reachable(before, root)}
            if deleted & keep:
                e.append("prune deleted blocks reachable from the root: %s" % sorted(deleted & keep))
            if added:
                e.append("prune created blocks")
            # afterwards every block other than the root is referenced (refs or ptrs) by a block
            rootuid = ub[root]
            refd = set()
            for b in after["blocks"]:
                for r in b["c"] + b["p"]:
                    if r != NPOS:
                        refd.add(int(r))
            for i, b in enumerate(after["blocks"]):
                if b["uid"] != rootuid and i not in refd:
                    e.append("prune left unreferenced block uid %d" % b["uid"])
            if [u for u in ub if u not in deleted] != ua:
                e.append("prune changed the relative order of surviving blocks")
    e += referent_errors(before, after, skip)
    # the size-table entry travels with its block
    if has_sizes and len(before["sizes"]) == len(before["blocks"]):
        sz = {b["uid"]: before["sizes"][i] for i, b in enumerate(before["blocks"])}
        for i, b in enumerate(after["blocks"]):
            if b["uid"] in sz and b["uid"] not in skip and after["sizes"][i] != sz[b["uid"]]:
                e.append("size entry of block uid %d changed from %d to %d" % (b["uid"], sz[b["uid"]], after["sizes"][i]))
    if k == "O":
        order = a.split(".") if not a.startswith("g") else None
        if order is not None and len(order) == len(ub) and sorted(order) == [str(i) for i in range(len(ub))]:
            for i, o in enumerate(order):
                if ua[int(o)] != ub[i]:
                    e.append("reorder put block uid %d at %d instead of %s" % (ub[i], ua.index(ub[i]), o))
        elif order is not None and ua != ub:
            e.append("reorder with an order list of the wrong size changed the block order")
    return e
