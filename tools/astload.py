"""clang JSON AST loading for the translator (tools/nif2ir.py).

One `clang++ -fsyntax-only -Xclang -ast-dump=json -Xclang -ast-dump-filter=nifly` per translation
unit; the dump is a concatenation of JSON objects (namespace blocks, out-of-line member definitions).
We index: records (fields, bases, in-class method bodies) and out-of-line method definitions."""
import concurrent.futures as cf
import glob
import json
import os
import re
import subprocess
import sys

CLANG = ["clang++", "-std=c++17", "-fsyntax-only", "-w", "-DNIFLY_VERIF_HOOKS"]


def dump_tu(args):
    repo, src, outdir = args
    out = os.path.join(outdir, os.path.basename(src) + ".json")
    cmd = CLANG + ["-I" + os.path.join(repo, "include"), "-I" + os.path.join(repo, "external"),
                   "-Xclang", "-ast-dump=json", "-Xclang", "-ast-dump-filter=nifly", src]
    with open(out, "wb") as f:
        p = subprocess.run(cmd, stdout=f, stderr=subprocess.PIPE, timeout=600)
    return out, p.returncode, p.stderr.decode("utf-8", "replace")[-2000:]


def load_objs(path):
    s = open(path).read()
    dec = json.JSONDecoder()
    i, n, objs = 0, len(s), []
    while i < n:
        while i < n and s[i].isspace():
            i += 1
        if i >= n:
            break
        o, j = dec.raw_decode(s, i)
        objs.append(o)
        i = j
    return objs


def demangle(names):
    if not names:
        return {}
    p = subprocess.run(["c++filt"], input="\n".join(names).encode(), capture_output=True)
    outs = p.stdout.decode().split("\n")
    return dict(zip(names, outs))


class Index:
    def __init__(self):
        self.records = {}      # qualified-ish name -> record info
        self.methods = {}      # (class name, method name) -> CXXMethodDecl node with body
        self.byid = {}         # decl id -> (kind, name, owner class)
        self.enums = {}        # enum constant name -> value
        self.enum_under = {}   # enum type name -> underlying type
        self.typedefs = {}

    def add_tu(self, objs):
        mangled = []
        ool = []
        for o in objs:
            self._walk(o, [], None)
            if o.get("kind") in ("CXXMethodDecl", "CXXConstructorDecl") and o.get("mangledName"):
                ool.append(o)
                mangled.append(o["mangledName"])
        dm = demangle(sorted(set(mangled)))
        for o in ool:
            if not any(c.get("kind") == "CompoundStmt" for c in o.get("inner", [])):
                continue
            q = dm.get(o["mangledName"], "")
            # nifly::Class::Method(args) [const]
            m = re.match(r"^(?:nifly::)?(.*)::(~?\w+)\(", q)
            if not m:
                continue
            cls, meth = m.group(1), m.group(2)
            cls = cls.replace("nifly::", "")
            if o.get("kind") == "CXXConstructorDecl":
                if any(x.get("kind") == "ParmVarDecl" for x in o.get("inner", [])):
                    continue
                meth = "<ctor>"
            self.methods.setdefault((cls, meth), o)

    def _walk(self, o, scope, cur):
        k = o.get("kind")
        name = o.get("name")
        if "id" in o and name:
            self.byid[o["id"]] = (k, name, cur)
        if k == "EnumConstantDecl":
            # value: inner ConstantExpr value or implicit
            v = None
            for c in o.get("inner", []):
                v = _const_value(c)
            if v is not None:
                self.enums[name] = v
        if k == "EnumDecl":
            if name:
                ut = o.get("fixedUnderlyingType", {}).get("desugaredQualType") or o.get("fixedUnderlyingType", {}).get("qualType") or "unsigned int"
                self.enum_under[name] = ut
                if cur:
                    self.enum_under[cur + "::" + name] = ut
            nxt = 0
            for c in o.get("inner", []):
                if c.get("kind") == "EnumConstantDecl":
                    v = None
                    for cc in c.get("inner", []):
                        v = _const_value(cc)
                    if v is None:
                        v = nxt
                    self.enums[c["name"]] = v
                    self.byid[c["id"]] = ("EnumConstantDecl", c["name"], cur)
                    nxt = v + 1
            return
        if k in ("CXXRecordDecl", "ClassTemplateSpecializationDecl") and o.get("completeDefinition"):
            rname = name
            if k == "ClassTemplateSpecializationDecl":
                rname = name + "<" + ",".join(_targ(a) for a in o.get("inner", []) if a.get("kind") == "TemplateArgument") + ">"
            if cur and k == "CXXRecordDecl" and not o.get("isImplicit"):
                rname = cur + "::" + name if False else name
            rec = self.records.get(rname)
            if rec is None:
                rec = {"name": rname, "fields": [], "bases": [], "methods": {}, "kind": k}
                self.records[rname] = rec
                for b in o.get("bases", []):
                    rec["bases"].append(b["type"]["qualType"])
                for c in o.get("inner", []):
                    if c.get("kind") == "FieldDecl" and c.get("name"):
                        rec["fields"].append((c["name"], c["type"].get("desugaredQualType", c["type"]["qualType"]), c["type"]["qualType"], c.get("id")))
                        for ini in c.get("inner", []):
                            v = _const_value2(ini, self.enums)
                            if v is not None:
                                rec.setdefault("defaults", {})[c["name"]] = v
            for c in o.get("inner", []):
                if c.get("kind") == "VarDecl" and c.get("name") == "BlockName":
                    lit = _find_kind(c, "StringLiteral")
                    if lit is not None:
                        rec["blockname"] = json.loads(lit["value"])
                if c.get("kind") == "CXXConstructorDecl" and not any(x.get("kind") == "ParmVarDecl" for x in c.get("inner", [])) \
                        and any(x.get("kind") == "CompoundStmt" for x in c.get("inner", [])):
                    self.methods.setdefault((rname, "<ctor>"), c)
                if c.get("kind") == "CXXMethodDecl" and any(x.get("kind") == "CompoundStmt" for x in c.get("inner", [])):
                    rec["methods"].setdefault(c["name"] + "/" + str(len([x for x in c.get("inner", []) if x.get("kind") == "ParmVarDecl"])), c)
                    self.methods.setdefault((rname, c["name"]), c)
                if c.get("kind") == "FieldDecl" and c.get("name"):
                    self.byid[c["id"]] = ("FieldDecl", c["name"], rname)
            for c in o.get("inner", []):
                self._walk(c, scope + [name], rname)
            return
        for c in o.get("inner", []):
            self._walk(c, scope, cur)


def _find_kind(o, kind):
    if o.get("kind") == kind:
        return o
    for c in o.get("inner", []):
        r = _find_kind(c, kind)
        if r is not None:
            return r
    return None


def _targ(a):
    if "type" in a:
        return a["type"]["qualType"].replace("nifly::", "")
    if "value" in a:
        return str(a["value"])
    for c in a.get("inner", []):
        v = _const_value(c)
        if v is not None:
            return str(v)
    return "?"


def _const_value2(c, enums):
    k = c.get("kind")
    if k == "CXXBoolLiteralExpr":
        return 1 if c.get("value") else 0
    if k == "DeclRefExpr" and c.get("referencedDecl", {}).get("kind") == "EnumConstantDecl":
        return enums.get(c["referencedDecl"].get("name"))
    if k in ("ImplicitCastExpr", "ParenExpr", "CStyleCastExpr", "CXXStaticCastExpr", "ConstantExpr", "CXXFunctionalCastExpr", "ExprWithCleanups"):
        for cc in c.get("inner", []):
            v = _const_value2(cc, enums)
            if v is not None:
                return v
        return None
    return _const_value(c)


def _const_value(c):
    k = c.get("kind")
    if k == "IntegerLiteral":
        return int(c["value"])
    if k in ("ConstantExpr", "ImplicitCastExpr", "ParenExpr", "CStyleCastExpr", "CXXStaticCastExpr"):
        if "value" in c and k == "ConstantExpr":
            try:
                return int(c["value"])
            except ValueError:
                pass
        for cc in c.get("inner", []):
            v = _const_value(cc)
            if v is not None:
                return v
    if k == "UnaryOperator" and c.get("opcode") == "-":
        for cc in c.get("inner", []):
            v = _const_value(cc)
            if v is not None:
                return -v
    return None


def _strip(o):
    """drop source locations: they are the bulk of the dump and the translator does not use them"""
    if isinstance(o, dict):
        o.pop("loc", None)
        o.pop("range", None)
        for v in o.values():
            _strip(v)
    elif isinstance(o, list):
        for v in o:
            _strip(v)


def _index_tu(args):
    out, rc, err = dump_tu(args)
    if rc != 0:
        return None, err
    objs = load_objs(out)
    os.remove(out)
    idx = Index()
    idx.add_tu(objs)
    # HasType<T>() calls refer to their specialisation by a TU-local id: resolve it here
    spec = {}

    def find_specs(o):
        if o.get("kind") == "FunctionTemplateDecl" and o.get("name") == "HasType":
            for c in o.get("inner", []):
                if c.get("kind") == "CXXMethodDecl":
                    for a in c.get("inner", []):
                        if a.get("kind") == "TemplateArgument" and "type" in a:
                            spec[c["id"]] = a["type"]["qualType"]
        for c in o.get("inner", []):
            find_specs(c)

    def annotate(o):
        if o.get("kind") == "MemberExpr" and o.get("name") == "HasType":
            o["hastype_arg"] = spec.get(o.get("referencedMemberDecl"), "?")
        for c in o.get("inner", []):
            annotate(c)
    for o in objs:
        find_specs(o)
    for m in idx.methods.values():
        annotate(m)
        _strip(m)
    for r in idx.records.values():
        r["methods"] = {}
    idx.byid = {}
    return idx, ""


def build_index(repo, outdir, jobs=14):
    os.makedirs(outdir, exist_ok=True)
    srcs = sorted(glob.glob(os.path.join(repo, "src", "*.cpp")))
    idx = Index()
    with cf.ProcessPoolExecutor(max_workers=jobs) as ex:
        res = list(ex.map(_index_tu, [(repo, s, outdir) for s in srcs]))
    for part, err in res:
        if part is None:
            raise RuntimeError("clang failed: %s" % err)
    for part, err in res:
        for k, v in part.records.items():
            idx.records.setdefault(k, v)
        for k, v in part.methods.items():
            idx.methods.setdefault(k, v)
        idx.enums.update(part.enums)
        idx.enum_under.update(part.enum_under)
    return idx


if __name__ == "__main__":
    import time
    t = time.time()
    idx = build_index(sys.argv[1] if len(sys.argv) > 1 else "/repo", "/verif/_work/ast")
    print("records", len(idx.records), "methods", len(idx.methods), "enums", len(idx.enums), "%.1fs" % (time.time() - t))
    syncs = [k for k in idx.methods if k[1] == "Sync"]
    print("Sync bodies", len(syncs))
    print(sorted(syncs)[:30])
