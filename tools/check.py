#!/usr/bin/env python3
"""Entry point of every registered check:  python3 tools/check.py <Cxx> --tier quick|thorough [--replay FILE]
cwd = /verif. Honours VERIF_SEED. Exit 0 = property held on everything explored; exit 1 + a
'VIOLATION property=<id> replay=<path>' line otherwise."""
import argparse
import importlib
import os
import sys
import traceback

sys.path.insert(0, os.path.dirname(os.path.abspath(__file__)))
import vlib  # noqa: E402


def main():
    ap = argparse.ArgumentParser()
    ap.add_argument("pid")
    ap.add_argument("--tier", default=os.environ.get("VERIF_TIER", "quick"), choices=["quick", "thorough"])
    ap.add_argument("--replay", default=None)
    a = ap.parse_args()
    seed = int(os.environ.get("VERIF_SEED", "1") or "1")
    mod = importlib.import_module("props." + a.pid.lower())
    try:
        rc = mod.run(a.tier, seed, a.replay)
    except vlib.BuildError as e:
        # the tree (or the harness against the tree) does not build: nothing can be shown to hold
        rep = vlib.Reporter(a.pid, a.tier, seed)
        rep.violation("build failed: the property is no longer shown to hold", {"build_error": str(e)[-6000:], "broken": "build of implementation oracle / model"}, found_input=False)
        rc = rep.finish({"evaluations": 0, "distinct_nontrivial": 0, "obligations": 1, "discharged": 0,
                         "checker_cmd": "build", "trusted_base": vlib.BASE_TRUSTED, "rule": "build failed", "samples": [str(e)[-500:]]}, [])
    except Exception:
        traceback.print_exc()
        rc = 2
    sys.exit(rc)


if __name__ == "__main__":
    main()
