#!/usr/bin/env python3
"""Translator: nifly's bidirectional Sync() bodies (clang JSON AST) -> SyncIR.

Anything the translator does not understand becomes ('opaque', reason): no checker accepts it, so the
affected block type drops out of the proved set (fail closed)."""
import json
import os
import re
import sys

sys.path.insert(0, os.path.dirname(os.path.abspath(__file__)))
import astload

PRIMS = {
    "bool": ("b", 1), "char": ("i", 1), "signed char": ("i", 1), "unsigned char": ("u", 1),
    "short": ("i", 2), "unsigned short": ("u", 2), "int": ("i", 4), "unsigned int": ("u", 4),
    "long": ("i", 8), "unsigned long": ("u", 8), "long long": ("i", 8), "unsigned long long": ("u", 8),
    "float": ("f", 4), "double": ("f", 8),
    "uint8_t": ("u", 1), "uint16_t": ("u", 2), "uint32_t": ("u", 4), "uint64_t": ("u", 8),
    "int8_t": ("i", 1), "int16_t": ("i", 2), "int32_t": ("i", 4), "int64_t": ("i", 8), "size_t": ("u", 8),
}


def strip_type(t):
    t = t.replace("const ", "").replace("nifly::", "").replace("struct ", "").replace("class ", "").replace("enum ", "").strip()
    while t.endswith("&") or t.endswith("*"):
        t = t[:-1].strip()
    return t


class Ctx:
    def __init__(self, tr, this_path, this_idx, this_class, vars=None, depth=0):
        self.tr = tr
        self.this_path, self.this_idx, self.this_class = this_path, list(this_idx), this_class
        self.vars = dict(vars or {})
        self.depth = depth

    def child(self, **kw):
        c = Ctx(self.tr, self.this_path, self.this_idx, self.this_class, self.vars, self.depth)
        for k, v in kw.items():
            setattr(c, k, v)
        return c


class Opaque(Exception):
    pass


class Translator:
    def __init__(self, idx, sizes=None):
        self.idx = idx
        self.sizes = sizes or {}
        self.need_sizes = set()
        self.counter = 0
        self.expand_names = set()     # struct-typed fields that must be synced member-wise (see find_conflicts)
        self.enum_types = {}
        for en, ut in idx.enum_under.items():
            u = strip_type(ut)
            if u in PRIMS:
                self.enum_types[en] = PRIMS[u]

    # -------------------------------------------------------------------------------------------
    def fresh(self, base="i"):
        self.counter += 1
        return "%s%d" % (base, self.counter)

    def prim_of(self, qt, desugared=None):
        for t in (desugared, qt):
            if not t:
                continue
            t2 = strip_type(t)
            if t2 in PRIMS:
                return PRIMS[t2]
        t2 = strip_type(desugared or qt)
        if t2 in self.enum_types:
            return self.enum_types[t2]
        return None

    def type_of(self, node):
        t = node.get("type", {})
        return t.get("qualType", ""), t.get("desugaredQualType")

    def sizeof(self, qt):
        t = strip_type(qt)
        p = self.prim_of(t)
        if p:
            return p[1]
        m = re.match(r"^(.*)\[(\d+)\]$", t)
        if m:
            s = self.sizeof(m.group(1))
            return None if s is None else s * int(m.group(2))
        m = re.match(r"^std::array<(.*), (\d+)>$", t)
        if m:
            s = self.sizeof(m.group(1))
            return None if s is None else s * int(m.group(2))
        if t in self.sizes:
            return self.sizes[t]
        self.need_sizes.add(t)
        return None

    # -------------------------------------------------------------------------------------------
    # l-values -> (name, idx list, type)
    def lvalue(self, n, cx):
        k = n.get("kind")
        if k in ("ImplicitCastExpr", "ParenExpr", "ExprWithCleanups", "MaterializeTemporaryExpr", "CXXStaticCastExpr",
                 "CStyleCastExpr", "CXXFunctionalCastExpr", "CXXReinterpretCastExpr", "CXXConstCastExpr"):
            return self.lvalue(n["inner"][0], cx)
        if k == "UnaryOperator" and n.get("opcode") in ("&", "*"):
            return self.lvalue(n["inner"][0], cx)
        if k == "CXXThisExpr":
            return (cx.this_path, list(cx.this_idx), cx.this_class)
        if k == "MemberExpr":
            base = n["inner"][0]
            bname, bidx, bcls = self.lvalue(base, cx)
            qt, dq = self.type_of(n)
            if bname == "" and cx.this_path == "":
                # a member of the block itself: qualify by the class that declares it (a derived class
                # may hide a base member of the same name, e.g. NiSwitchNode::flags / NiAVObject::flags)
                name = self.field_owner(cx.this_class, n["name"]) + "::" + n["name"]
            else:
                name = (bname + "." if bname else "") + n["name"]
            return (name, bidx, dq or qt)
        if k == "DeclRefExpr":
            rd = n.get("referencedDecl", {})
            b = cx.vars.get(rd.get("id"))
            if b is None:
                raise Opaque("unbound variable %s" % rd.get("name"))
            if b[0] == "path":
                return (b[1], list(b[2]), b[3])
            if b[0] == "local":
                qt, dq = self.type_of(n)
                return ("$" + b[1], [], dq or qt)
            raise Opaque("l-value of %s" % b[0])
        if k == "ArraySubscriptExpr":
            bname, bidx, bt = self.lvalue(n["inner"][0], cx)
            i = self.expr(n["inner"][1], cx)
            qt, dq = self.type_of(n)
            return (bname + "[]", bidx + [i], dq or qt)
        if k == "CXXOperatorCallExpr":
            # operator[] on vectors / arrays
            callee = n["inner"][0]
            if _op_name(callee) == "operator[]":
                bname, bidx, bt = self.lvalue(n["inner"][1], cx)
                i = self.expr(n["inner"][2], cx)
                qt, dq = self.type_of(n)
                return (bname + "[]", bidx + [i], dq or qt)
            if _op_name(callee) == "operator*":
                return self.lvalue(n["inner"][1], cx)
            raise Opaque("operator call %s as l-value" % _op_name(callee))
        if k == "CXXMemberCallExpr":
            me = n["inner"][0]
            if me.get("kind") == "MemberExpr" and me.get("name") in ("data", "get", "c_str", "begin"):
                return self.lvalue(me["inner"][0], cx)
            raise Opaque("member call %s as l-value" % me.get("name"))
        raise Opaque("l-value kind %s" % k)

    # -------------------------------------------------------------------------------------------
    # ---- comparison of a float MEMBER with a non-negative float CONSTANT, on the member's bit pattern ----
    # A float member lives in the model as its 32-bit pattern u (unsigned). For a constant c >= 0 with pattern bc:
    #   x >= c  <=>  bc <= u <= 0x7F800000   (c > 0; NaNs and negatives excluded)
    #   x >  c  <=>  bc <  u <= 0x7F800000
    #   x <  c  <=>  u < bc  or  0x80000000 <= u <= 0xFF800000   (negatives incl. -0 and -inf; NaNs excluded)
    #   x <= c  <=>  u <= bc or  0x80000000 <= u <= 0xFF800000
    # (IEEE-754 binary32: for non-negative values the order of the patterns is the order of the values.)
    FLOAT_CONSTS = {"NiFloatMax": 0x7F7FFFFF, "NiFloatInf": 0x7F800000}

    def float_const(self, n):
        while n.get("kind") in ("ParenExpr", "ImplicitCastExpr", "ConstantExpr", "ExprWithCleanups") and n.get("inner"):
            n = n["inner"][-1]
        if n.get("kind") == "DeclRefExpr":
            v = self.FLOAT_CONSTS.get(n.get("referencedDecl", {}).get("name"))
            if v is not None:
                return v
        if n.get("kind") == "FloatingLiteral":
            import struct
            f = float(n["value"])
            if f > 0.0:
                return struct.unpack("<I", struct.pack("<f", f))[0]
        return None

    def float_member(self, n, cx):
        while n.get("kind") in ("ParenExpr", "ImplicitCastExpr") and n.get("inner"):
            if n.get("kind") == "ImplicitCastExpr" and n.get("castKind") not in ("LValueToRValue", "NoOp"):
                return None
            n = n["inner"][-1]
        if n.get("kind") not in ("MemberExpr", "ArraySubscriptExpr"):
            return None
        name, idx, t = self.lvalue(n, cx)
        if name.startswith("$") or strip_type(t) != "float":
            return None
        return ("load", name, idx)

    def float_cmp(self, op, a, b, cx):
        flip = {"<": ">", ">": "<", "<=": ">=", ">=": "<="}
        m, c = self.float_member(a, cx), self.float_const(b)
        if m is None or c is None:
            m, c, op = self.float_member(b, cx), self.float_const(a), flip[op]
        if m is None or c is None or c == 0:
            raise Opaque("floating-point comparison other than <member> <op> <positive constant>")
        inf, neg0, ninf = 0x7F800000, 0x80000000, 0xFF800000
        if op in (">=", ">"):
            return ("bin", "and", ("bin", "ge" if op == ">=" else "gt", m, ("const", c)), ("bin", "le", m, ("const", inf)))
        return ("bin", "or", ("bin", "lt" if op == "<" else "le", m, ("const", c)),
                ("bin", "and", ("bin", "ge", m, ("const", neg0)), ("bin", "le", m, ("const", ninf))))

    def expr(self, n, cx):
        k = n.get("kind")
        if k in ("ParenExpr", "ExprWithCleanups", "MaterializeTemporaryExpr", "ConstantExpr", "CXXBindTemporaryExpr"):
            return self.expr(n["inner"][0], cx)
        if k == "IntegerLiteral":
            return ("const", int(n["value"]))
        if k == "CXXBoolLiteralExpr":
            return ("const", 1 if n.get("value") else 0)
        if k == "CharacterLiteral":
            return ("const", int(n["value"]))
        if k == "FloatingLiteral":
            raise Opaque("floating literal in expression")
        if k in ("ImplicitCastExpr", "CXXStaticCastExpr", "CStyleCastExpr", "CXXFunctionalCastExpr"):
            ck = n.get("castKind")
            inner = n["inner"][-1]
            if ck in ("LValueToRValue", "NoOp", "IntegralToBoolean", "UncheckedDerivedToBase", "DerivedToBase", "ConstructorConversion", "UserDefinedConversion", "ArrayToPointerDecay", "FunctionToPointerDecay"):
                e = self.expr(inner, cx)
                if ck == "IntegralToBoolean":
                    return ("bin", "ne", e, ("const", 0))
                return e
            if ck == "IntegralCast":
                e = self.expr(inner, cx)
                qt, dq = self.type_of(n)
                p = self.prim_of(qt, dq)
                ip = self.prim_of(*self.type_of(inner))
                if p is None:
                    raise Opaque("integral cast to %s" % qt)
                # a widening cast of an unsigned value, or same width and signedness, is the identity
                if ip and ((ip[0] in ("u", "b") and p[1] > ip[1]) or (ip == p) or (ip[0] == "u" and p[0] == "u" and p[1] >= ip[1])
                           or (ip[0] == "i" and p[0] == "i" and p[1] >= ip[1])):
                    return e
                if e[0] == "const" and 0 <= e[1] < (1 << (8 * p[1] - (1 if p[0] == "i" else 0))):
                    return e
                return ("cast", p[1], 1 if p[0] == "i" else 0, e)
            if ck in ("FloatingToIntegral", "IntegralToFloating", "FloatingCast", "FloatingToBoolean"):
                raise Opaque("floating-point conversion in expression")
            raise Opaque("cast kind %s" % ck)
        if k == "DeclRefExpr":
            rd = n.get("referencedDecl", {})
            if rd.get("kind") == "EnumConstantDecl":
                v = self.idx.enums.get(rd.get("name"))
                if v is None:
                    raise Opaque("enum constant %s" % rd.get("name"))
                return ("const", v)
            b = cx.vars.get(rd.get("id"))
            if b is None:
                if rd.get("kind") == "VarDecl":
                    raise Opaque("global/static variable %s" % rd.get("name"))
                raise Opaque("unbound %s" % rd.get("name"))
            if b[0] == "local":
                return ("local", b[1])
            if b[0] == "expr":
                return b[1]
            if b[0] == "path":
                p = self.prim_of(b[3])
                if p is None:
                    raise Opaque("load of non-scalar %s" % b[3])
                if p[0] == "f":
                    raise Opaque("floating-point value in expression")
                return ("load", b[1], list(b[2]))
            raise Opaque("ref to %s" % b[0])
        if k in ("MemberExpr", "ArraySubscriptExpr"):
            name, idx, t = self.lvalue(n, cx)
            if name.startswith("$ver."):
                return ("ver", name[5:])
            p = self.prim_of(t)
            if p is None:
                raise Opaque("load of non-scalar %s : %s" % (name, t))
            if p[0] == "f":
                raise Opaque("floating-point value in expression")
            if name.startswith("$ver."):
                return ("ver", name[5:])
            if name.startswith("$"):
                return ("local", name[1:])
            return ("load", name, idx)
        if k == "BinaryOperator":
            op = n["opcode"]
            ops = {"+": "add", "-": "sub", "*": "mul", "/": "div", "%": "mod", "<": "lt", ">": "gt", "<=": "le", ">=": "ge",
                   "==": "eq", "!=": "ne", "&&": "and", "||": "or", "&": "band", "|": "bor", "^": "bxor", "<<": "shl", ">>": "shr"}
            if op not in ops:
                raise Opaque("binary operator %s" % op)
            if op in ("<", ">", "<=", ">=") and strip_type(self.type_of(n["inner"][0])[0]) == "float" \
                    and strip_type(self.type_of(n["inner"][1])[0]) == "float":
                return self.float_cmp(op, n["inner"][0], n["inner"][1], cx)
            a = self.expr(n["inner"][0], cx)
            b = self.expr(n["inner"][1], cx)
            e = ("bin", ops[op], a, b)
            # C arithmetic is done at the (promoted) result type: make the wrap explicit for + - * <<
            if op in ("+", "-", "*", "<<"):
                p = self.prim_of(*self.type_of(n))
                if p and p[0] in ("u", "i"):
                    e = ("cast", p[1], 1 if p[0] == "i" else 0, e)
            return e
        if k == "UnaryOperator":
            op = n["opcode"]
            if op == "!":
                return ("un", "not", self.expr(n["inner"][0], cx))
            if op == "-":
                return ("un", "neg", self.expr(n["inner"][0], cx))
            if op == "~":
                p = self.prim_of(*self.type_of(n))
                return ("cast", p[1] if p else 4, 0, ("un", "bnot", self.expr(n["inner"][0], cx)))
            if op == "+":
                return self.expr(n["inner"][0], cx)
            raise Opaque("unary operator %s" % op)
        if k == "ConditionalOperator":
            return ("cond", self.expr(n["inner"][0], cx), self.expr(n["inner"][1], cx), self.expr(n["inner"][2], cx))
        if k == "CXXMemberCallExpr":
            return self.call_expr(n, cx)
        if k == "CXXOperatorCallExpr":
            opn = _op_name(n["inner"][0])
            if opn == "operator[]":
                name, idx, t = self.lvalue(n, cx)
                p = self.prim_of(t)
                if p is None or p[0] == "f":
                    raise Opaque("load of %s" % t)
                return ("load", name, idx)
            if opn in ("operator==", "operator!="):
                a = self.expr(n["inner"][1], cx)
                b = self.expr(n["inner"][2], cx)
                return ("bin", "eq" if opn == "operator==" else "ne", a, b)
            raise Opaque("operator call %s" % opn)
        if k == "CallExpr":
            fn = _callee_name(n)
            if fn == "ToFile" and len(n["inner"]) == 5:
                a = [self.expr(x, cx) for x in n["inner"][1:]]
                if all(x[0] == "const" for x in a):
                    return ("const", (a[0][1] << 24) | (a[1][1] << 16) | (a[2][1] << 8) | a[3][1])
            if fn in ("min", "max") and len(n["inner"]) == 3:
                return ("bin", fn, self.expr(n["inner"][1], cx), self.expr(n["inner"][2], cx))
            raise Opaque("call of %s" % fn)
        if k == "UnaryExprOrTypeTraitExpr" and n.get("name") == "sizeof":
            at = n.get("argType", {}).get("qualType")
            if at is None and n.get("inner"):
                at = self.type_of(n["inner"][0])[0]
            s = self.sizeof(at) if at else None
            if s is None:
                raise Opaque("sizeof(%s)" % at)
            return ("const", s)
        if k == "CXXThisExpr":
            raise Opaque("this as value")
        if k == "CXXConstructExpr" and len(n.get("inner", [])) == 1:
            return self.expr(n["inner"][0], cx)
        raise Opaque("expression kind %s" % k)

    def call_expr(self, n, cx):
        me = n["inner"][0]
        if me.get("kind") != "MemberExpr":
            raise Opaque("call through %s" % me.get("kind"))
        m = me.get("name")
        obj = me["inner"][0]
        args = n["inner"][1:]
        # stream.GetVersion().File() etc.
        if m in ("File", "User", "Stream") and _is_version(obj):
            return ("ver", m.lower())
        if m in ("IsBethesda", "IsSpecial", "IsOB", "IsFO3", "IsSK", "IsSSE", "IsFO4", "IsFO76", "IsSF") and _is_version(obj):
            return self.inline_method("NiVersion", m, None, [], cx, version=True)
        if m == "GetMode":
            return ("mode",)
        ot = strip_type(self.type_of(obj)[1] or self.type_of(obj)[0])
        if m in ("size", "length") and not args:
            name, idx, t = self.lvalue(obj, cx)
            if t.startswith("std::basic_string") or strip_type(t) in ("std::string", "NiString", "NiStringRef"):
                return ("strlen", name, idx)
            return ("size", name, idx)
        if m == "GetSize" and not args:
            name, idx, t = self.lvalue(obj, cx)
            return ("load", name + ".arraySize", idx)
        if m == "empty" and not args:
            o = _unwrap(obj)
            if o.get("kind") == "DeclRefExpr":
                b = cx.vars.get(o.get("referencedDecl", {}).get("id"))
                if b and b[0] == "hdrstr":
                    return ("hdrstr_empty", b[1], list(b[2]))
            name, idx, t = self.lvalue(obj, cx)
            return ("bin", "eq", ("size", name, idx), ("const", 0))
        if m == "HasType":
            # dynamic type test on `this`: resolved per concrete block class by the driver
            return ("hastype", [me.get("hastype_arg", "?")])
        if m == "Sync" or m == "SyncSize":
            raise Opaque("value of a Sync call used in an expression")
        # small const helper methods: inline their single return expression
        cls = ot
        return self.inline_method(cls, m, obj, args, cx)

    def header_string(self, init, cx):
        """std::string s = stream.GetHeader().GetStringById(ref.GetIndex()) -> (path, idx) of ref"""
        n = _unwrap(init)
        while n.get("kind") in ("CXXConstructExpr", "CXXBindTemporaryExpr", "MaterializeTemporaryExpr", "ImplicitCastExpr", "ExprWithCleanups") and n.get("inner"):
            n = n["inner"][-1]
        if n.get("kind") != "CXXMemberCallExpr" or _member_name(n) != "GetStringById":
            return None
        a = _unwrap(n["inner"][1])
        if a.get("kind") != "CXXMemberCallExpr" or _member_name(a) != "GetIndex":
            return None
        name, idx, t = self.lvalue(a["inner"][0]["inner"][0], cx)
        return (name, idx)

    def inline_method(self, cls, m, obj, args, cx, version=False):
        meth = self.find_method(cls, m)
        if meth is None:
            raise Opaque("method %s::%s has no visible body" % (cls, m))
        if cx.depth > 6:
            raise Opaque("inlining depth")
        body = [c for c in meth.get("inner", []) if c.get("kind") == "CompoundStmt"][0]
        stmts = body.get("inner", [])
        if len(stmts) != 1 or stmts[0].get("kind") != "ReturnStmt":
            raise Opaque("helper %s::%s is not a single return" % (cls, m))
        if version:
            ncx = Ctx(self, "$ver", [], "NiVersion", {}, cx.depth + 1)
        else:
            name, idx, t = self.lvalue(obj, cx)
            ncx = Ctx(self, name, idx, cls, {}, cx.depth + 1)
        params = [c for c in meth.get("inner", []) if c.get("kind") == "ParmVarDecl"]
        for p, a in zip(params, args):
            ncx.vars[p["id"]] = ("expr", self.expr(a, cx))
        return self.expr(stmts[0]["inner"][0], ncx)

    def struct_leaves(self, t, depth=0):
        """scalar members of a plain struct in declaration order: [(sub-path, constant indices, prim)];
        None when the struct has anything else"""
        t = strip_type(t)
        rec = self.idx.records.get(t)
        if rec is None or rec["bases"] or depth > 3:
            return None
        out = []
        for (fname, dq, qt, _) in rec["fields"]:
            ft = dq or qt
            p = self.prim_of(qt, dq)
            if p:
                out.append(("." + fname, [], p))
                continue
            m = re.match(r"^(.*)\[(\d+)\]$", strip_type(ft))
            if m:
                ep = self.prim_of(m.group(1))
                if ep is None:
                    return None
                for i in range(int(m.group(2))):
                    out.append(("." + fname + "[]", [i], ep))
                continue
            sub = self.struct_leaves(ft, depth + 1)
            if sub is None:
                return None
            out += [("." + fname + s2, ci, p2) for (s2, ci, p2) in sub]
        return out if len(out) <= 16 else None

    def field_owner(self, cls, field):
        for c in reversed(self.full_chain(strip_type(cls))):
            rec = self.idx.records.get(c)
            if rec and any(f[0] == field for f in rec["fields"]):
                return c
        return strip_type(cls)

    def bases_of(self, c):
        rec = self.idx.records.get(c)
        out = []
        if rec:
            for b in rec["bases"]:
                bn = strip_type(b)
                if bn.startswith(("NiCloneableStreamable<", "NiStreamable<", "NiCloneable<")):
                    out.append(_split_targs(bn)[1])
                else:
                    out.append(bn)
        return out

    def find_method(self, cls, m):
        o = self.method_owner(cls, m)
        return self.idx.methods.get((o, m))

    # -------------------------------------------------------------------------------------------
    def stmts(self, nodes, cx, k=None):
        """statement list -> IR; [k] (a thunk) is what runs after the list unless a `return` is hit.
        An `if` that contains a return gets the continuation copied into both branches."""
        out = []
        for i, n in enumerate(nodes):
            kind = n.get("kind")
            if kind == "ReturnStmt":
                return _seq(out)                       # the value, if any, is handled by the caller
            if kind == "IfStmt" and _contains_return(n):
                rest = nodes[i + 1:]
                cont = (lambda rest=rest: self.stmts(rest, cx, k))
                inner = n["inner"]
                c = self.cond(inner[0], cx)
                t = self.block_k(inner[1], cx, cont)
                e = self.block_k(inner[2], cx, cont) if len(inner) > 2 else cont()
                out.append(("if", c, t, e))
                return _seq(out)
            if kind == "CompoundStmt" and _contains_return(n):
                rest = nodes[i + 1:]
                out.append(self.stmts(n.get("inner", []), cx.child(), (lambda rest=rest: self.stmts(rest, cx, k))))
                return _seq(out)
            if _contains_return(n):
                out.append(("opaque", "return inside a loop or switch"))
                continue
            out.append(self.stmt(n, cx))
        if k is not None:
            out.append(k())
        return _seq(out)

    def block_k(self, n, cx, cont):
        if n.get("kind") == "CompoundStmt":
            return self.stmts(n.get("inner", []), cx.child(), cont)
        return self.stmts([n], cx.child(), cont)

    def cond(self, n, cx):
        try:
            return self.expr(n, cx)
        except Opaque as e:
            return ("opaque", str(e))

    def stmt(self, n, cx):
        try:
            return self.stmt_(n, cx)
        except Opaque as e:
            return ("opaque", str(e))

    def stmt_(self, n, cx):
        k = n.get("kind")
        if k == "CompoundStmt":
            return self.stmts(n.get("inner", []), cx.child())
        if k == "NullStmt":
            return ("skip",)
        if k == "IfStmt":
            inner = n["inner"]
            c = self.cond(inner[0], cx)
            # mode tests become SMode
            t = self.stmt(inner[1], cx.child())
            e = self.stmt(inner[2], cx.child()) if len(inner) > 2 else ("skip",)
            return ("if", c, t, e)
        if k in ("ExprWithCleanups", "ParenExpr"):
            return self.stmt_(n["inner"][0], cx)
        if k == "DeclStmt":
            out = []
            for d in n.get("inner", []):
                if d.get("kind") != "VarDecl":
                    raise Opaque("declaration of %s" % d.get("kind"))
                qt, dq = self.type_of(d)
                init = d["inner"][-1] if d.get("inner") else None
                if qt.rstrip().endswith("&"):
                    # reference variable: alias of a path
                    name, idx, t = self.lvalue(init, cx)
                    cx.vars[d["id"]] = ("path", name, idx, t)
                    continue
                p = self.prim_of(qt, dq)
                if p is None and "string" in qt and init is not None:
                    hs = self.header_string(init, cx)
                    if hs is not None:
                        cx.vars[d["id"]] = ("hdrstr", hs[0], hs[1])
                        continue
                if p is None:
                    raise Opaque("local of type %s" % qt)
                lname = self.fresh(d["name"] + "_")
                if init is None:
                    e = ("const", 0)
                elif _unwrap(init).get("kind") == "CXXMemberCallExpr" and _member_name(_unwrap(init)) in ("Sync", "SyncSize"):
                    init = _unwrap(init)
                    # SizeType n = vec.Sync(stream): statement + size
                    st = self.member_call(init, cx, want_value=True)
                    out.append(st[0])
                    e = st[1]
                else:
                    e = self.expr(init, cx)
                cx.vars[d["id"]] = ("local", lname)
                out.append(("local", lname, p, e))
            return _seq(out)
        if k == "CXXMemberCallExpr":
            return self.member_call(n, cx)[0]
        if k == "CXXOperatorCallExpr" and _op_name(n["inner"][0]) == "operator=":
            raise Opaque("object assignment")
        if k == "BinaryOperator" and n.get("opcode") == "=":
            name, idx, t = self.lvalue(n["inner"][0], cx)
            rhs = _unwrap(n["inner"][1])
            pre = None
            if rhs.get("kind") == "CXXMemberCallExpr" and _member_name(rhs) in ("Sync", "SyncSize"):
                st = self.member_call(rhs, cx, want_value=True)
                if st[1] is None:
                    raise Opaque("Sync call without a value assigned")
                pre, e = st
            else:
                e = self.expr(n["inner"][1], cx)
            if pre is not None:
                p = self.prim_of(t)
                if p is None:
                    raise Opaque("assignment to %s" % t)
                if name.startswith("$"):
                    return _seq([pre, ("setlocal", name[1:], p, e)])
                return _seq([pre, ("assign", name, idx, p, e)])
            p = self.prim_of(t)
            if p is None:
                raise Opaque("assignment to %s" % t)
            if name.startswith("$"):
                return ("setlocal", name[1:], p, e)
            return ("assign", name, idx, p, e)
        if k == "CompoundAssignOperator":
            name, idx, t = self.lvalue(n["inner"][0], cx)
            e = self.expr(n["inner"][1], cx)
            p = self.prim_of(t)
            ops = {"+=": "add", "-=": "sub", "*=": "mul", "|=": "bor", "&=": "band", "<<=": "shl", ">>=": "shr"}
            if p is None or n.get("opcode") not in ops or p[0] == "f":
                raise Opaque("compound assignment %s on %s" % (n.get("opcode"), t))
            cur = ("local", name[1:]) if name.startswith("$") else ("load", name, idx)
            val = ("cast", p[1], 1 if p[0] == "i" else 0, ("bin", ops[n["opcode"]], cur, e))
            if name.startswith("$"):
                return ("setlocal", name[1:], p, val)
            return ("assign", name, idx, p, val)
        if k == "UnaryOperator" and n.get("opcode") in ("++", "--"):
            name, idx, t = self.lvalue(n["inner"][0], cx)
            p = self.prim_of(t)
            if p is None:
                raise Opaque("increment of %s" % t)
            cur = ("local", name[1:]) if name.startswith("$") else ("load", name, idx)
            val = ("cast", p[1], 1 if p[0] == "i" else 0, ("bin", "add" if n["opcode"] == "++" else "sub", cur, ("const", 1)))
            if name.startswith("$"):
                return ("setlocal", name[1:], p, val)
            return ("assign", name, idx, p, val)
        if k == "CXXForRangeStmt":
            return self.range_for(n, cx)
        if k == "ForStmt":
            return self.c_for(n, cx)
        if k == "SwitchStmt":
            return self.switch(n, cx)
        if k == "ReturnStmt":
            raise Opaque("return inside a nested statement")
        if k == "BreakStmt":
            raise Opaque("break")
        raise Opaque("statement kind %s" % k)

    # for (auto& e : container) body
    def range_for(self, n, cx):
        inner = n["inner"]
        # children: [init?] rangeDecl, beginDecl, endDecl, cond, inc, loopVarDecl, body
        rng = None
        loopvar = None
        body = inner[-1]
        for c in inner:
            if c and c.get("kind") == "DeclStmt":
                for d in c.get("inner", []):
                    if d.get("kind") == "VarDecl" and d.get("name", "").startswith("__range"):
                        rng = d
                    elif d.get("kind") == "VarDecl" and not d.get("name", "").startswith("__"):
                        loopvar = d
        if rng is None or loopvar is None:
            raise Opaque("range-for shape")
        name, idx, t = self.lvalue(rng["inner"][-1], cx)
        iv = self.fresh("i")
        et = loopvar["type"].get("desugaredQualType", loopvar["type"]["qualType"])
        ncx = cx.child()
        if not loopvar["type"]["qualType"].rstrip().endswith("&"):
            # by-value loop variable: reads are fine, writes would not reach the container
            pass
        ncx.vars[loopvar["id"]] = ("path", name + "[]", idx + [("local", iv)], et)
        b = self.stmt(body, ncx)
        # fixed-size arrays have no run-time size field
        rt = rng["type"].get("desugaredQualType", rng["type"]["qualType"])
        m = re.search(r"\[(\d+)\]\s*$", rt.replace("(&)", "").strip()) or re.search(r"\(&\)\s*\[(\d+)\]", rt) or re.search(r"array<.*,\s*(\d+)>", rt)
        if m:
            return ("for", iv, ("const", int(m.group(1))), b)
        return ("for", iv, ("size", name, idx), b)

    # for (T i = 0; i < n; i++) body
    def c_for(self, n, cx):
        init, _, cond, inc, body = (n["inner"] + [None] * 5)[:5]
        if init is None or init.get("kind") != "DeclStmt" or len(init.get("inner", [])) != 1:
            raise Opaque("for-init shape")
        d = init["inner"][0]
        start = self.expr(d["inner"][-1], cx) if d.get("inner") else ("const", 0)
        if start != ("const", 0):
            raise Opaque("for loop not starting at 0")
        if cond is None or cond.get("kind") != "BinaryOperator" or cond.get("opcode") not in ("<", "!="):
            raise Opaque("for-condition shape")
        lhs = cond["inner"][0]
        while lhs.get("kind") in ("ImplicitCastExpr", "ParenExpr"):
            lhs = lhs["inner"][0]
        if lhs.get("kind") != "DeclRefExpr" or lhs.get("referencedDecl", {}).get("id") != d["id"]:
            raise Opaque("for-condition does not test the loop variable")
        bound = self.expr(cond["inner"][1], cx)
        if inc is None or inc.get("kind") != "UnaryOperator" or inc.get("opcode") != "++":
            raise Opaque("for-increment shape")
        iv = self.fresh(d["name"] + "_")
        ncx = cx.child()
        ncx.vars[d["id"]] = ("local", iv)
        b = self.stmt(body, ncx)
        if _assigns_local(b, iv):
            raise Opaque("loop variable modified in the body")
        return ("for", iv, bound, b)

    def switch(self, n, cx):
        scrut = self.expr(n["inner"][0], cx)
        body = n["inner"][-1]
        cases = []
        cur_labels, cur_body = None, []
        default = ("skip",)
        items = body.get("inner", [])

        def flush():
            nonlocal cur_labels, cur_body
            if cur_labels is not None:
                st = self.stmts(cur_body, cx.child())
                for lb in cur_labels:
                    if lb == "default":
                        nonlocal default
                        default = st
                    else:
                        cases.append((lb, st))
            cur_labels, cur_body = None, []

        def unwrap(c):
            # CaseStmt nests: case A: case B: stmt
            labels = []
            while c.get("kind") in ("CaseStmt", "DefaultStmt"):
                if c["kind"] == "CaseStmt":
                    v = self.expr(c["inner"][0], cx)
                    if v[0] != "const":
                        raise Opaque("non-constant case label")
                    labels.append(v[1])
                    c = c["inner"][-1]
                else:
                    labels.append("default")
                    c = c["inner"][-1]
            return labels, c

        for it in items:
            if it.get("kind") in ("CaseStmt", "DefaultStmt"):
                flush()
                labels, first = unwrap(it)
                cur_labels, cur_body = labels, [first]
            elif it.get("kind") == "BreakStmt":
                flush()
            else:
                if cur_labels is None:
                    raise Opaque("statement before first case")
                cur_body.append(it)
        # fallthrough without break is only accepted at the very end
        if cur_labels is not None:
            if cur_body and cur_body[-1].get("kind") == "BreakStmt":
                cur_body = cur_body[:-1]
            flush()
        # bodies ending in break: strip
        clean = []
        for lb, st in cases:
            clean.append((lb, st))
        return ("switch", scrut, clean, default)

    # -------------------------------------------------------------------------------------------
    def member_call(self, n, cx, want_value=False):
        me = n["inner"][0]
        args = n["inner"][1:]
        args = [a for a in args if a.get("kind") != "CXXDefaultArgExpr"]
        if me.get("kind") != "MemberExpr":
            raise Opaque("call through %s" % me.get("kind"))
        m = me["name"]
        obj = me["inner"][0]
        oqt, odq = self.type_of(obj)
        ot = strip_type(odq or oqt)
        if ot == "NiStreamReversible":
            return (self.stream_call(m, args, n, cx), None)
        name, idx, t = self.lvalue(obj, cx)
        t = strip_type(t)
        return self.object_call(name, idx, t, m, args, cx, want_value)

    def stream_call(self, m, args, n, cx):
        if m == "Sync" and len(args) == 1:
            name, idx, t = self.lvalue(args[0], cx)
            p = self.prim_of(t)
            if p:
                if name.startswith("$"):
                    return ("synclocal", name[1:], p)
                return ("sync", name, idx, p)
            s = self.sizeof(t)
            if s is None:
                return ("opaque", "sizeof %s unknown" % t)
            if name.startswith("$"):
                return ("opaque", "sync of a local struct")
            if name in self.expand_names:
                leaves = self.struct_leaves(t)
                if leaves is not None and sum(p[1] for (_, _, p) in leaves) == s:
                    return _seq([("sync", name + sub, idx + [("const", c) for c in cidx], p) for (sub, cidx, p) in leaves])
                return ("opaque", "struct %s is synced as raw memory but its members are used individually" % t)
            return ("bytes", name, idx, ("const", s))
        if m == "Sync" and len(args) == 2:
            name, idx, t = self.lvalue(args[0], cx)
            ne = self.expr(args[1], cx)
            if name.startswith("$"):
                # a local scalar synced through (char*, n)
                p = self.prim_of(t)
                if p and ne == ("const", p[1]):
                    return ("synclocal", name[1:], p)
                return ("opaque", "raw sync of local %s" % name)
            p = self.prim_of(t)
            if p and ne[0] == "const" and ne[1] <= p[1]:
                # reinterpret_cast<char*>(&scalar), k bytes
                return ("sync", name, idx, (p[0], ne[1])) if ne[1] == p[1] else ("syncpart", name, idx, p, ne[1])
            return ("bytes", name, idx, ne)
        if m == "SyncHalf":
            name, idx, t = self.lvalue(args[0], cx)
            return ("half", name, idx)
        if m == "SyncLine":
            name, idx, t = self.lvalue(args[0], cx)
            return ("line", name, idx, self.expr(args[1], cx))
        if m == "SyncString":
            name, idx, t = self.lvalue(args[0], cx)
            return ("cstr", name, idx)
        if m == "SyncUDEC3":
            name, idx, t = self.lvalue(args[0], cx)
            return ("udec3", name, idx)
        return ("opaque", "stream.%s" % m)

    def object_call(self, name, idx, t, m, args, cx, want_value=False):
        base = t.split("<")[0]
        targs = _split_targs(t)
        if base in ("NiBlockRef", "NiBlockPtr") and m == "Sync":
            return (("ref", name, idx), None)
        if base in ("NiBlockRefArray", "NiBlockPtrArray", "NiBlockRefShortArray", "NiBlockPtrShortArray"):
            w = 2 if "Short" in base else 4
            if m == "Sync":
                return (("refarr", name, idx, w), ("size", name + ".refs", idx))
            if m == "SetKeepEmptyRefs":
                # SetKeepEmptyRefs(const bool keep = true): the argument may be an expression (BSSkinInstance passes IsSF())
                real = [a for a in args if a.get("kind") != "CXXDefaultArgExpr"]
                ke = self.expr(real[0], cx) if real else ("const", 1)
                return (("assign", name + ".keepEmptyRefs", idx, ("b", 1), ke), None)
            if m == "SetSize":
                # arraySize = n; refs.resize(n): the references added by the resize are default-constructed (NPOS)
                ne = self.expr(args[0], cx)
                old, j = self.fresh("n"), self.fresh("i")
                fill = ("for", j, ("size", name + ".refs", idx),
                        ("if", ("bin", "ge", ("local", j), ("local", old)),
                         ("assign", name + ".refs[].index", idx + [("local", j)], ("u", 4), ("const", 4294967295)), ("skip",)))
                return (_seq([("local", old, ("u", 4), ("size", name + ".refs", idx)),
                              ("assign", name + ".arraySize", idx, ("u", 4), ne), ("resize", name + ".refs", idx, ne), fill]), None)
            if m == "Clear":
                return (_seq([("assign", name + ".arraySize", idx, ("u", 4), ("const", 0)), ("resize", name + ".refs", idx, ("const", 0)),
                              ("assign", name + ".keepEmptyRefs", idx, ("b", 1), ("const", 0))]), None)
        if base == "NiStringRef" and m == "Sync":
            return (("strref", name, idx), None)
        if base == "NiString" and m == "Sync":
            w = self.expr(args[1], cx)
            if w[0] != "const":
                raise Opaque("NiString width not constant")
            return (("nistring", name, idx, w[1]), None)
        if base in ("NiVector", "NiSyncVector", "NiStringVector", "NiStringRefVector"):
            et = targs[0] if base not in ("NiStringVector", "NiStringRefVector") else "NiString"
            if base in ("NiStringVector", "NiStringRefVector"):
                st = targs[0] if targs else "uint32_t"
            else:
                st = targs[1] if len(targs) > 1 else "uint32_t"
            sw = self.prim_of(st)
            sw = sw[1] if sw else 4
            strw = int(targs[1]) if base == "NiStringVector" and len(targs) > 1 else 4
            iv = self.fresh("i")
            ename, eidx = name + "[]", idx + [("local", iv)]

            def elem():
                if base == "NiStringVector":
                    return ("nistring", ename, eidx, strw)
                if base == "NiStringRefVector":
                    return ("strref", ename, eidx)
                if base == "NiSyncVector":
                    return self.object_call(ename, eidx, et, "Sync", [None], cx)[0]
                p = self.prim_of(et)
                if p:
                    return ("sync", ename, eidx, p)
                s = self.sizeof(et)
                if s is None:
                    return ("opaque", "sizeof %s unknown" % et)
                return ("bytes", ename, eidx, ("const", s))
            lv = self.fresh("n")
            if m == "Sync":
                return (_seq([("vecsize", name, idx, sw, lv), ("resize", name, idx, ("local", lv)),
                              ("for", iv, ("size", name, idx), elem())]), ("local", lv))
            if m == "SyncSize":
                return (("vecsize", name, idx, sw, lv), ("local", lv))
            if m == "SyncData":
                ne = self.expr(args[1], cx)
                return (_seq([("resize", name, idx, ("cast", sw, 0, ne)), ("for", iv, ("size", name, idx), elem())]), None)
            if m == "SyncByteArray":
                return (_seq([("vecsize", name, idx, sw, lv), ("resize", name, idx, ("local", lv)), ("bytesvec", name, idx)]), None)
            if m == "resize":
                return (("resize", name, idx, ("cast", sw, 0, self.expr(args[0], cx))), None)
            if m == "clear":
                return (("resize", name, idx, ("const", 0)), None)
        if base in ("NiBlockRefArray", "NiBlockPtrArray", "NiBlockRefShortArray", "NiBlockPtrShortArray") and m == "CleanInvalidRefs":
            return (("cleanrefs", name, idx), None)
        if t.startswith("std::vector") or t.startswith("vector<") or t.startswith("std::deque"):
            if m == "resize":
                return (("resize", name, idx, self.expr(args[0], cx)), None)
            if m == "clear":
                return (("resize", name, idx, ("const", 0)), None)
            raise Opaque("std::vector::%s" % m)
        if (t.startswith("std::basic_string") or t in ("std::string",)) and m in ("resize", "clear"):
            raise Opaque("std::string::%s" % m)
        # a plain struct / class with its own Sync (possibly with extra arguments): inline it
        if m in ("Sync", "SyncData"):
            if self.find_method(t, m) is None:
                raise Opaque("no body for %s::%s" % (t, m))
            return (self.inline_sync(t, name, idx, cx, args[1:], method=m), None)
        raise Opaque("call %s::%s" % (t, m))

    def inline_sync(self, cls, name, idx, cx, extra_args, method="Sync"):
        cls = strip_type(cls)
        meth = self.find_method(cls, method)
        if meth is None:
            return ("opaque", "no body for %s::%s" % (cls, method))
        if cx.depth > 8:
            return ("opaque", "inlining depth")
        owner = self.method_owner(cls, method)
        ncx = Ctx(self, name, idx, owner, {}, cx.depth + 1)
        params = [c for c in meth.get("inner", []) if c.get("kind") == "ParmVarDecl"]
        # first parameter is the stream
        for p, a in zip(params[1:], extra_args):
            try:
                ncx.vars[p["id"]] = ("expr", self.expr(a, cx))
            except Opaque as e:
                return ("opaque", "argument of %s::%s: %s" % (cls, method, e))
        if params:
            ncx.vars[params[0]["id"]] = ("stream",)
        body = [c for c in meth.get("inner", []) if c.get("kind") == "CompoundStmt"][0]
        return self.stmts(body.get("inner", []), ncx)

    def method_owner(self, cls, m):
        cls = strip_type(cls)
        seen, todo = set(), [cls]
        while todo:
            c = todo.pop(0)
            if c in seen:
                continue
            seen.add(c)
            if (c, m) in self.idx.methods:
                return c
            todo += self.bases_of(c)
        return cls

    # -------------------------------------------------------------------------------------------
    # reference enumerators (GetChildRefs / GetPtrs / GetStringRefs / GetChildIndices) as name sets
    def enum_names(self, cls, method):
        """names of the index fields reported by cls::method (inherited bodies included).
        Returns (set of names, list of things not understood)."""
        out, bad = set(), []
        owner = self.method_owner(cls, method)
        meth = self.idx.methods.get((owner, method))
        if meth is None:
            return out, bad            # NiObject's empty default
        cx = Ctx(self, "", [], owner, {}, 0)
        self.enum_body(meth, cx, method, out, bad)
        return out, bad

    def enum_body(self, meth, cx, method, out, bad):
        params = [c for c in meth.get("inner", []) if c.get("kind") == "ParmVarDecl"]
        acc = params[0]["id"] if params else None
        body = [c for c in meth.get("inner", []) if c.get("kind") == "CompoundStmt"]
        if not body:
            return
        self.enum_stmts(body[0].get("inner", []), cx, method, acc, out, bad)

    def enum_stmts(self, nodes, cx, method, acc, out, bad):
        for n in nodes:
            self.enum_stmt(n, cx, method, acc, out, bad)

    def enum_stmt(self, n, cx, method, acc, out, bad):
        k = n.get("kind")
        try:
            if k in ("CompoundStmt",):
                self.enum_stmts(n.get("inner", []), cx.child(), method, acc, out, bad)
            elif k == "IfStmt":
                # an enumerator that reports a reference only under a condition: the "enumerated" set of the theorem
                # (C05) is unconditional, so such a body is NOT understood (none exists at the pinned commit); its
                # references are still collected for the failing-input search
                bad.append("%s: conditional enumeration (if)" % method)
                for c in n["inner"][1:]:
                    self.enum_stmt(c, cx.child(), method, acc, out, bad)
            elif k in ("ExprWithCleanups", "ParenExpr", "ImplicitCastExpr"):
                self.enum_stmt(n["inner"][0], cx, method, acc, out, bad)
            elif k == "CXXForRangeStmt":
                rng = loopvar = None
                for c in n["inner"]:
                    if c and c.get("kind") == "DeclStmt":
                        for d in c.get("inner", []):
                            if d.get("kind") == "VarDecl" and d.get("name", "").startswith("__range"):
                                rng = d
                            elif d.get("kind") == "VarDecl" and not d.get("name", "").startswith("__"):
                                loopvar = d
                name, idx, t = self.lvalue(rng["inner"][-1], cx)
                ncx = cx.child()
                et = loopvar["type"].get("desugaredQualType", loopvar["type"]["qualType"])
                ncx.vars[loopvar["id"]] = ("path", name + "[]", idx + [("local", "_")], et)
                self.enum_stmt(n["inner"][-1], ncx, method, acc, out, bad)
            elif k == "ForStmt":
                init = n["inner"][0]
                ncx = cx.child()
                if init and init.get("kind") == "DeclStmt":
                    for d in init.get("inner", []):
                        ncx.vars[d["id"]] = ("local", "_")
                self.enum_stmt(n["inner"][-1], ncx, method, acc, out, bad)
            elif k == "CXXMemberCallExpr":
                me = n["inner"][0]
                m = me.get("name")
                obj = me["inner"][0]
                args = n["inner"][1:]
                o = _unwrap(obj)
                is_acc = o.get("kind") == "DeclRefExpr" and o.get("referencedDecl", {}).get("id") == acc
                if is_acc and m in ("insert", "emplace_back", "push_back"):
                    a = _unwrap(args[0])
                    if method == "GetChildIndices":
                        name, idx, t = self.lvalue(a, cx)
                        out.add(name)
                    else:
                        name, idx, t = self.lvalue(a, cx)
                        out.add(name + ".index")
                elif m in ("GetIndexPtrs", "GetIndices"):
                    name, idx, t = self.lvalue(obj, cx)
                    out.add(name + ".refs[].index")
                elif m == method:
                    if _unwrap(obj).get("kind") == "CXXThisExpr":
                        # Base::Method(refs): continue with the base class named by the call
                        qual = me.get("type", {})
                        base = self.base_with_method(cx.this_class, method)
                        if base is None:
                            return
                        bm = self.idx.methods.get((base, method))
                        ncx = Ctx(self, cx.this_path, cx.this_idx, base, {}, cx.depth + 1)
                        self.enum_body(bm, ncx, method, out, bad)
                    else:
                        name, idx, t = self.lvalue(obj, cx)
                        t = strip_type(t)
                        base = t.split("<")[0]
                        if base == "NiSyncVector":
                            et = _split_targs(t)[0]
                            em = self.find_method(et, method)
                            if em is not None:
                                ncx = Ctx(self, name + "[]", idx + [("local", "_")], self.method_owner(et, method), {}, cx.depth + 1)
                                self.enum_body(em, ncx, method, out, bad)
                        else:
                            em = self.find_method(t, method)
                            if em is None:
                                bad.append("no body for %s::%s" % (t, method))
                            else:
                                ncx = Ctx(self, name, idx, self.method_owner(t, method), {}, cx.depth + 1)
                                self.enum_body(em, ncx, method, out, bad)
                else:
                    bad.append("call %s in %s" % (m, method))
            elif k in ("DeclStmt", "NullStmt", "ReturnStmt"):
                pass
            else:
                bad.append("statement %s in %s" % (k, method))
        except Opaque as e:
            bad.append(str(e))

    def base_with_method(self, cls, method):
        """first proper base class (in C++ lookup order) that defines the method"""
        chain = self.full_chain(strip_type(cls))
        for c in reversed(chain[:-1]):
            if (c, method) in self.idx.methods:
                return c
        return None

    # -------------------------------------------------------------------------------------------
    def class_chain(self, cls):
        """[(class, has_own_sync)] from the root down to cls, as Get/Put call them"""
        chain = []
        c = cls
        while c and c != "NiObject":
            rec = self.idx.records.get(c)
            if rec is None:
                return None
            nxt = None
            own = False
            for b in rec["bases"]:
                bn = strip_type(b)
                if bn.startswith("NiCloneableStreamable<") or bn.startswith("NiStreamable<"):
                    a = _split_targs(bn)
                    own = True
                    nxt = a[1]
                elif bn.startswith("NiCloneable<"):
                    a = _split_targs(bn)
                    nxt = a[1]
                else:
                    nxt = _base_name(b)
            chain.append((c, own))
            c = nxt
        chain.reverse()
        return chain

    def full_chain(self, cls):
        """every class of the inheritance chain (CRTP wrappers skipped), root first"""
        out, c = [], cls
        seen = set()
        while c and c not in seen:
            seen.add(c)
            rec = self.idx.records.get(c)
            if rec is None:
                break
            out.append(c)
            nxt = None
            for b in rec["bases"]:
                bn = strip_type(b)
                if bn.startswith(("NiCloneableStreamable<", "NiStreamable<", "NiCloneable<")):
                    nxt = _split_targs(bn)[1]
                else:
                    nxt = bn
            c = nxt
        out.reverse()
        return out

    def defaults(self, cls, loaded=()):
        """integer/bool/enum members with a constant initial value: in-class initialisers, then
        assignments of constants in the default constructors, base classes first"""
        vals = {}
        types = {}
        owner = {}
        for c in self.full_chain(cls):
            rec = self.idx.records[c]
            for (fname, dq, qt, _) in rec["fields"]:
                p = self.prim_of(qt, dq)
                if p and p[0] != "f":
                    types[c + "::" + fname] = p
                    owner[fname] = c
            for k, v in rec.get("defaults", {}).items():
                if c + "::" + k in types:
                    vals[c + "::" + k] = v
            ctor = self.idx.methods.get((c, "<ctor>"))
            if ctor is not None:
                body = [x for x in ctor.get("inner", []) if x.get("kind") == "CompoundStmt"]
                for st in (body[0].get("inner", []) if body else []):
                    st = _unwrap(st)
                    if st.get("kind") == "BinaryOperator" and st.get("opcode") == "=":
                        lhs = _unwrap(st["inner"][0])
                        if lhs.get("kind") == "MemberExpr" and _unwrap(lhs["inner"][0]).get("kind") == "CXXThisExpr":
                            v = astload._const_value2(st["inner"][1], self.idx.enums)
                            if v is not None and lhs["name"] in owner:
                                vals[owner[lhs["name"]] + "::" + lhs["name"]] = v
        # non-zero constants always; zero ones only for members that some condition/count of the block reads
        return [("assign", k, [], types[k], ("const", v)) for k, v in sorted(vals.items()) if v != 0 or k in loaded]

    def block_ir(self, cls):
        """IR of a whole block: NiObject's groupID gate, then every Sync of the class chain"""
        chain = self.class_chain(cls)
        if chain is None:
            return ("opaque", "class chain of %s" % cls)
        out = [("if", ("bin", "and", ("bin", "ge", ("ver", "file"), ("const", 0x0A000000)), ("bin", "lt", ("ver", "file"), ("const", 0x0A010072))),
                ("sync", "NiObject::groupID", [], ("u", 4)), ("skip",))]
        for c, own in chain:
            if not own:
                continue
            meth = self.idx.methods.get((c, "Sync"))
            if meth is None:
                out.append(("opaque", "no Sync body for %s" % c))
                continue
            cx = Ctx(self, "", [], c, {}, 0)
            params = [p for p in meth.get("inner", []) if p.get("kind") == "ParmVarDecl"]
            if params:
                cx.vars[params[0]["id"]] = ("stream",)
            body = [x for x in meth.get("inner", []) if x.get("kind") == "CompoundStmt"][0]
            out.append(self.stmts(body.get("inner", []), cx))
        return resolve_hastype(_seq(out), self, cls)


def resolve_hastype(ir, tr, cls):
    """HasType<T>() on this: a constant for a concrete block class"""
    anc = set()
    todo = [cls]
    while todo:
        c = todo.pop()
        if c in anc:
            continue
        anc.add(c)
        rec = tr.idx.records.get(c)
        if rec:
            for b in rec["bases"]:
                bn = strip_type(b)
                if bn.startswith(("NiCloneableStreamable<", "NiStreamable<", "NiCloneable<")):
                    todo.append(_split_targs(bn)[1])
                else:
                    todo.append(_base_name(b))

    def go(x):
        if isinstance(x, tuple):
            if x and x[0] == "hastype":
                if any(t == "?" for t in x[1]):
                    return ("opaque", "HasType<?>")
                return ("const", 1 if any(strip_type(t) in anc for t in x[1]) else 0)
            return tuple(go(y) for y in x)
        if isinstance(x, list):
            return [go(y) for y in x]
        return x
    return go(ir)


def loaded_names(ir):
    out = set()

    def go(x):
        if isinstance(x, tuple) and x:
            if x[0] == "load" and isinstance(x[1], str):
                out.add(x[1])
            for y in x:
                go(y)
        elif isinstance(x, list):
            for y in x:
                go(y)
    go(ir)
    return out


def find_conflicts(ir):
    """fields synced as one raw blob whose members are also used individually"""
    blobs, others = set(), set()

    def go(x):
        if isinstance(x, tuple) and x:
            if x[0] == "bytes" and isinstance(x[1], str):
                blobs.add(x[1])
            elif x[0] in ("sync", "half", "load", "assign", "syncpart", "size", "resize") and isinstance(x[1], str):
                others.add(x[1])
            for y in x:
                go(y)
        elif isinstance(x, list):
            for y in x:
                go(y)
    go(ir)
    return {b for b in blobs if any(o.startswith(b + ".") for o in others)}


def _contains_return(n):
    if n.get("kind") == "ReturnStmt":
        return True
    if n.get("kind") == "LambdaExpr":
        return False
    return any(_contains_return(c) for c in n.get("inner", []) if isinstance(c, dict))


def _seq(l):
    flat = []
    for s in l:
        if s[0] == "seq":
            flat += s[1]
        elif s[0] != "skip":
            flat.append(s)
    if not flat:
        return ("skip",)
    if len(flat) == 1:
        return flat[0]
    return ("seq", flat)


def _assigns_local(st, name):
    if isinstance(st, tuple):
        if st and st[0] in ("setlocal", "synclocal") and st[1] == name:
            return True
        return any(_assigns_local(x, name) for x in st)
    if isinstance(st, list):
        return any(_assigns_local(x, name) for x in st)
    return False


def _op_name(callee):
    c = callee
    while c.get("kind") in ("ImplicitCastExpr",):
        c = c["inner"][0]
    return c.get("referencedDecl", {}).get("name", "")


def _callee_name(n):
    c = n["inner"][0]
    while c.get("kind") in ("ImplicitCastExpr",):
        c = c["inner"][0]
    return c.get("referencedDecl", {}).get("name", c.get("name", ""))


def _unwrap(n):
    while n.get("kind") in ("ImplicitCastExpr", "ExprWithCleanups", "ParenExpr", "MaterializeTemporaryExpr", "CXXStaticCastExpr") and n.get("inner"):
        n = n["inner"][-1]
    return n


def _member_name(n):
    me = n["inner"][0]
    return me.get("name") if me.get("kind") == "MemberExpr" else None


def _is_version(obj):
    o = obj
    while o.get("kind") in ("ImplicitCastExpr", "MaterializeTemporaryExpr", "ParenExpr", "CXXBindTemporaryExpr"):
        o = o["inner"][0]
    t = (o.get("type", {}).get("desugaredQualType") or o.get("type", {}).get("qualType", ""))
    return "NiVersion" in t


def _template_args_of_member(me):
    # HasType<T>: the template argument shows in the bound member's type only through referencedMemberDecl;
    # clang prints it in the call's callee name for explicit specialisations
    out = []
    s = json.dumps(me.get("inner", []))[:0]
    t = me.get("type", {}).get("qualType", "")
    # fallback: look for `HasType<nifly::X>` in the JSON of the member expression
    txt = json.dumps(me)
    for m in re.finditer(r"HasType<([^>]+)>", txt):
        out.append(m.group(1))
    return out


def _base_name(b):
    b = strip_type(b)
    return b


def _split_targs(t):
    i = t.find("<")
    if i < 0:
        return []
    s = t[i + 1:t.rfind(">")]
    out, depth, cur = [], 0, ""
    for ch in s:
        if ch == "<":
            depth += 1
        elif ch == ">":
            depth -= 1
        if ch == "," and depth == 0:
            out.append(cur.strip())
            cur = ""
        else:
            cur += ch
    if cur.strip():
        out.append(cur.strip())
    return [strip_type(x) for x in out]


def count_opaque(ir, acc):
    if isinstance(ir, tuple):
        if ir and ir[0] == "opaque":
            acc.append(ir[1])
            return
        for x in ir:
            count_opaque(x, acc)
    elif isinstance(ir, list):
        for x in ir:
            count_opaque(x, acc)


def compute_sizes(repo, names, workdir):
    """sizeof of the plain structs that are synced as raw memory, from the compiler itself"""
    import hashlib
    import subprocess
    os.makedirs(workdir, exist_ok=True)
    names = sorted(n for n in names if re.match(r"^[\w:]+$", n))
    hdrs = sorted(os.listdir(os.path.join(repo, "include")))
    src = "".join('#include "%s"\n' % h for h in hdrs if h.endswith(".hpp")) + "#include <cstdio>\nusing namespace nifly;\n"
    # each type is probed in its own SFINAE-free line; unknown names are dropped by a first pass
    body = "int main(){\n" + "".join('  std::printf("%s %%zu\\n", sizeof(%s));\n' % (n, n) for n in names) + "  return 0; }\n"
    key = hashlib.sha256((src + body + astload_repo_key(repo)).encode()).hexdigest()[:16]
    cache = os.path.join(workdir, "sizes-%s.json" % key)
    if os.path.exists(cache):
        return json.load(open(cache))
    good = list(names)
    for attempt in range(6):
        body = "int main(){\n" + "".join('  std::printf("%s %%zu\\n", sizeof(%s));\n' % (n, n) for n in good) + "  return 0; }\n"
        cpp = os.path.join(workdir, "sizes%d.cpp" % os.getpid())
        open(cpp, "w").write(src + body)
        p = subprocess.run(["g++", "-std=c++17", "-w", "-DNIFLY_VERIF_HOOKS", "-I" + os.path.join(repo, "include"), "-I" + os.path.join(repo, "external"),
                            cpp, "-o", os.path.join(workdir, "sizes%d.bin" % os.getpid())], capture_output=True, timeout=300)
        if p.returncode == 0:
            break
        err = p.stderr.decode("utf-8", "replace")
        badlines = set(int(m.group(1)) for m in re.finditer(r"sizes\d*\.cpp:(\d+):", err))
        lines = (src + body).split("\n")
        drop = set()
        for ln in badlines:
            m = re.search(r"sizeof\(([\w:]+)\)", lines[ln - 1]) if ln - 1 < len(lines) else None
            if m:
                drop.add(m.group(1))
        if not drop:
            raise RuntimeError("sizes program does not compile: " + err[-2000:])
        good = [n for n in good if n not in drop]
    out = subprocess.run([os.path.join(workdir, "sizes%d.bin" % os.getpid())], capture_output=True, timeout=60).stdout.decode()
    sizes = {}
    for l in out.split("\n"):
        if " " in l:
            n, v = l.split(" ")
            sizes[n] = int(v)
    tmp = cache + ".tmp%d" % os.getpid()
    json.dump(sizes, open(tmp, "w"))
    os.replace(tmp, cache)
    return sizes


def astload_repo_key(repo):
    import hashlib
    h = hashlib.sha256()
    for d in ("include", "external"):
        for f in sorted(os.listdir(os.path.join(repo, d))):
            h.update(open(os.path.join(repo, d, f), "rb").read())
    return h.hexdigest()


def registered_types(repo):
    txt = open(os.path.join(repo, "src", "Factory.cpp")).read()
    return re.findall(r"RegisterFactory<(\w+)>\(\)", txt)


if __name__ == "__main__":
    repo = sys.argv[1] if len(sys.argv) > 1 else "/repo"
    idx = astload.build_index(repo, "/verif/_work/ast")
    tr = Translator(idx)
    types = registered_types(repo)
    for t in types:
        tr.block_ir(t)
    sizes = compute_sizes(repo, tr.need_sizes, "/verif/_work/ast")
    tr = Translator(idx, sizes)
    from collections import Counter
    reasons = Counter()
    ok = 0
    bad = {}
    for t in types:
        ir = tr.block_ir(t)
        acc = []
        count_opaque(ir, acc)
        if acc:
            bad[t] = acc
            for a in set(acc):
                reasons[a] += 1
        else:
            ok += 1
    print("types", len(types), "fully translated", ok)
    for r, c in reasons.most_common(60):
        print(c, r)
    print("need sizes:", sorted(tr.need_sizes)[:80])


def debug_reasons(repo="/repo"):
    idx = astload.build_index(repo, "/verif/_work/ast")
    tr = Translator(idx)
    types = registered_types(repo)
    for t in types:
        tr.block_ir(t)
    sizes = compute_sizes(repo, tr.need_sizes, "/verif/_work/ast")
    tr = Translator(idx, sizes)
    by = {}
    for t in types:
        acc = []
        count_opaque(tr.block_ir(t), acc)
        for a in set(acc):
            by.setdefault(a, []).append(t)
    for a, ts in sorted(by.items(), key=lambda x: -len(x[1])):
        print(len(ts), a, ts[:6])
