"""C10: dump parsing and the property itself, evaluated on the implementation's dumps.

Nothing here is shared with the model: these are the naive statements (multisets, sorted sets),
used as the failing-input search on the real code. Dump format: see harness/o_skin.cpp."""
from collections import Counter
from fractions import Fraction

LIMIT = {"OB": 18, "FO3": 18, "SSE": 80, "SK": 65535}


def parse_tris(s):
    return [tuple(int(x) for x in t.split(":")) for t in s.split(";")] if s else []


def parse_num(x):
    if "%" in x:
        a, b = x.split("%")
        return Fraction(int(a), int(b))
    try:
        return Fraction(int(x))
    except ValueError:
        return float(x)


def parse_part(s):
    f = s.split("/")
    f += [""] * (12 - len(f))
    c = [int(x) for x in f[0].split(".")] if f[0] else [0] * 5
    return {
        "nv": c[0], "nt": c[1], "nb": c[2], "ns": c[3], "nw": c[4],
        "bones": [int(x) for x in f[1].split(",")] if f[1] else [],
        "hvm": f[2] == "1",
        "vm": [int(x) for x in f[3].split(",")] if f[3] else [],
        "hvw": f[4] == "1",
        "vw": [[parse_num(x) for x in w.split(":")] for w in f[5].split(";")] if f[5] else [],
        "hf": f[6] == "1",
        "tris": parse_tris(f[7]),
        "hbi": f[8] == "1",
        "bi": [[int(x) for x in w.split(":")] for w in f[9].split(";")] if f[9] else [],
        "tt": parse_tris(f[10]),
        "strips": [[int(x) for x in st.split(",")] if st else [] for st in f[11].split(";")] if f[11] else [],
    }


def parse_info(s):
    return [tuple(int(x) for x in e.split(":")) for e in s.split(",")] if s else []


def parse_step(s):
    """one step dump -> dict (None for FAULT / crash remnants)"""
    s = s.strip()
    if not s or s in ("FAULT", "OUTOFFUEL") or s.startswith("DRIVER-ERROR"):
        return None
    d = {"get": None, "ret": None, "shape": None}
    for tok in s.split(" "):
        if "=" not in tok:
            continue
        k, v = tok.split("=", 1)
        if k == "get":
            g = v.split(";")
            d["get"] = (g[0] == "1", parse_info(g[1]), [int(x) for x in g[2].split(",")] if len(g) > 2 and g[2] else [])
        elif k == "r":
            d["ret"] = v
        elif k == "shape":
            d["shape"] = parse_tris(v)
        elif k == "np":
            d["np"] = int(v)
        elif k == "m":
            d["m"] = v == "1"
        elif k == "tp":
            d["tp"] = [int(x) for x in v.split(",")] if v else []
        elif k == "P":
            d["parts"] = [parse_part(p) for p in v.split("+")] if v else []
        elif k == "dis":
            d["dis"] = None if v == "none" else parse_info(v)
    if "parts" not in d or "np" not in d:
        return None
    d.setdefault("dis", None)
    d.setdefault("tp", [])
    return d


def same_step(a, b, tol=1e-5):
    """structural equality of an implementation dump and a model dump; weights within tol"""
    if a is None or b is None:
        return a is None and b is None
    for k in ("np", "m", "tp", "dis", "ret", "shape"):
        if a.get(k) != b.get(k):
            return False
    if a["get"] != b["get"]:
        return False
    if len(a["parts"]) != len(b["parts"]):
        return False
    for p, q in zip(a["parts"], b["parts"]):
        for k in p:
            if k == "vw":
                if len(p[k]) != len(q[k]):
                    return False
                for w1, w2 in zip(p[k], q[k]):
                    if len(w1) != len(w2) or any(abs(float(x) - float(y)) > tol for x, y in zip(w1, w2)):
                        return False
            elif p[k] != q[k]:
                return False
    return True


def rot(t):
    p1, p2, p3 = t
    if p2 < p1 and p2 < p3:
        return (p2, p3, p1)
    if p3 < p1:
        return (p3, p1, p2)
    return t


def rot_equiv(a, b):
    return b in (a, (a[1], a[2], a[0]), (a[2], a[0], a[1]))


def corners(ts):
    return sorted({c for t in ts for c in t})


# --------------------------------------------------------------------------------------------
# per-partition statements


def part_geometry_errors(p, mapped, k):
    """vertex_map_exact, mapped_true and the redundant counters of one partition"""
    e = []
    if p["vm"] != corners(p["tt"]):
        e.append("partition %d: vertexMap %s is not exactly the sorted set of vertices its triangles use %s" % (k, p["vm"][:12], corners(p["tt"])[:12]))
    if p["nv"] != len(p["vm"]) % 65536:
        e.append("partition %d: numVertices %d != |vertexMap| %d" % (k, p["nv"], len(p["vm"])))
    if p["nt"] != len(p["tt"]) % 65536:
        e.append("partition %d: numTriangles %d != |trueTriangles| %d" % (k, p["nt"], len(p["tt"])))
    if mapped:
        if len(p["tris"]) != len(p["tt"]):
            e.append("partition %d: %d mapped triangles for %d true triangles" % (k, len(p["tris"]), len(p["tt"])))
        else:
            for i, (m, t) in enumerate(zip(p["tris"], p["tt"])):
                if any(c >= len(p["vm"]) for c in m) or not rot_equiv(tuple(p["vm"][c] for c in m), t):
                    e.append("partition %d: mapped triangle %d %s does not translate back to true triangle %s" % (k, i, m, t))
                    break
    elif p["tris"] != p["tt"]:
        e.append("partition %d: triangles differ from trueTriangles although indices are not mapped" % k)
    return e


def expected_vertex_weights(bones):
    """vertex -> list of (bone, weight) in bone order (input of the per-vertex selection)"""
    vb = {}
    for b, lst in enumerate(bones):
        for v, w in lst:
            vb.setdefault(v, []).append((b % 65536, w))
    return vb


def part_skin_errors(p, k, vb, lim, nonneg):
    """bone_limit, bone_slots_valid, weights_normalised of one partition after a rebuild"""
    e = []
    if p["nb"] != len(p["bones"]) % 65536:
        e.append("partition %d: numBones %d != |bones| %d" % (k, p["nb"], len(p["bones"])))
    if len(p["bones"]) > lim:
        e.append("partition %d: %d bones exceed the limit %d" % (k, len(p["bones"]), lim))
    if p["bones"] != sorted(set(p["bones"])):
        e.append("partition %d: bone list not strictly ascending" % k)
    if len(p["bi"]) != len(p["vm"]) or len(p["vw"]) != len(p["vm"]):
        e.append("partition %d: %d bone-index / %d weight entries for %d vertices" % (k, len(p["bi"]), len(p["vw"]), len(p["vm"])))
        return e
    for j, v in enumerate(p["vm"]):
        given = vb.get(v, [])
        cnt = min(4, len(given))
        bi, vw = p["bi"][j], [float(x) for x in p["vw"][j]]
        # bone slots: every used slot indexes an existing partition bone, and it is the bone the weight belongs to
        tot = None
        ws = sorted((float(w) for _, w in given), reverse=True)
        chosen = ws[:cnt]
        tot = sum(chosen)
        for s in range(cnt):
            if bi[s] >= len(p["bones"]):
                e.append("partition %d vertex %d: bone slot %d = %d outside the %d partition bones" % (k, v, s, bi[s], len(p["bones"])))
                break
            b = p["bones"][bi[s]]
            raw = vw[s] * tot if tot != 0 else vw[s]
            if not any(gb == b and abs(float(gw) - raw) <= 1e-4 for gb, gw in given):
                e.append("partition %d vertex %d: slot %d names bone %d with weight %.6g, which is not a weight of that vertex" % (k, v, s, b, raw))
                break
        else:
            if any(abs(x - y) > 1e-4 for x, y in zip(sorted((vw[s] * (tot if tot != 0 else 1) for s in range(cnt)), reverse=True), chosen)):
                e.append("partition %d vertex %d: the slots do not hold the %d largest weights" % (k, v, cnt))
            if any(vw[s] != 0 for s in range(cnt, 4)) or any(bi[s] != 0 for s in range(cnt, 4)):
                e.append("partition %d vertex %d: unused slots are not zero" % (k, v))
        if nonneg:
            if any(x < 0 for x in vw):
                e.append("partition %d vertex %d: negative weight %s" % (k, v, vw))
            s_ = sum(vw)
            if not (abs(s_ - 1.0) <= 1e-5 or all(x == 0 for x in vw)):
                e.append("partition %d vertex %d: weights %s sum to %.7g (neither 1 nor all zero)" % (k, v, vw, s_))
        if len(e) > 4:
            break
    return e


def held_triangles(st):
    """multiset of the rotation-normalised triangles held by the partitions of a dump, None when
    not readable (strips, or mapped triangles outside the vertex map)"""
    out = Counter()
    for p in st["parts"]:
        if p["tt"]:
            out.update(rot(t) for t in p["tt"])
        elif p["ns"] != 0:
            return None
        elif st["m"]:
            for t in p["tris"]:
                if any(c >= len(p["vm"]) for c in t):
                    return None
                out[rot(tuple(p["vm"][c] for c in t))] += 1
        else:
            out.update(rot(t) for t in p["tris"])
    return out


def aligned_errors(st):
    e = []
    if st["np"] != len(st["parts"]):
        e.append("numPartitions %d != |partitions| %d" % (st["np"], len(st["parts"])))
    if st["dis"] is not None and len(st["dis"]) != len(st["parts"]):
        e.append("dismember list has %d entries for %d partitions" % (len(st["dis"]), len(st["parts"])))
    return e


def cover_errors(st, tris, assigned):
    """every assigned triangle (given as a multiset) lies in exactly one partition"""
    have = Counter(t for p in st["parts"] for t in p["tt"])
    want = Counter(assigned)
    if have != want:
        miss = list((want - have).elements())[:3]
        extra = list((have - want).elements())[:3]
        return ["partitions do not hold every assigned triangle exactly once: missing %s, surplus %s" % (miss, extra)]
    return []


# --------------------------------------------------------------------------------------------
# per-operation statements: pre-state, operation, post-state (all from the implementation)


def step_errors(ver, tris, nv, bones, nonneg, pre, op, post):
    e = []
    k = op[0]
    n = len(tris)
    if k == "U":
        if ver != "SSE" and not tris:
            return [] if same_step(dict(pre, get=None), dict(post, get=None)) else ["UpdateSkinPartitions changed a shape without triangles"]
        rt = [rot(t) for t in tris]
        if len(pre["tp"]) == n:
            assigned = [rt[i] for i in range(n) if pre["tp"][i] >= 0]
        else:
            # triParts is regenerated: a triangle is assigned exactly when some partition held it
            # (decidable here when the shape has no duplicate triangle and the old partitions'
            # true triangles can be read off the dump); otherwise the rebuilt triParts says which
            held = held_triangles(pre)
            if held is not None and len(post["tp"]) == n:
                # of k copies of a triangle in the shape and h copies held by the partitions, min(k, h) are assigned
                assigned = list((Counter(rt) & held).elements())
                if len(set(rt)) == n:
                    for i in range(n):
                        if (post["tp"][i] >= 0) != (held[rt[i]] > 0):
                            e.append("triangle %d: %s by the old partitions but rebuilt as %s" % (
                                i, "held" if held[rt[i]] > 0 else "not held", "assigned" if post["tp"][i] >= 0 else "unassigned"))
                            break
            else:
                assigned = [rt[i] for i in range(min(n, len(post["tp"]))) if post["tp"][i] >= 0]
        e += cover_errors(post, rt, assigned)
        if aligned_errors(pre) == []:
            e += aligned_errors(post)
        if len(post["tp"]) != n:
            e.append("triParts has %d entries for %d triangles" % (len(post["tp"]), n))
        else:
            for i in range(n):
                pi = post["tp"][i]
                if pi >= len(post["parts"]) or (pi >= 0 and rt[i] not in post["parts"][pi]["tt"]):
                    e.append("triParts[%d] = %d but that partition does not hold the triangle" % (i, pi))
                    break
        vb = expected_vertex_weights(bones)
        for j, p in enumerate(post["parts"]):
            e += part_geometry_errors(p, post["m"], j)
            e += part_skin_errors(p, j, vb, LIMIT[ver], nonneg)
            if len(e) > 6:
                break
    elif k == "S":
        f = (op[1:].split("@") + ["", "", ""])[:3]
        info = parse_info(f[0])
        tp = [int(x) for x in f[1].split(",")] if f[1] else []
        if len(tp) != n:
            # GenerateTrueTrianglesFromTriParts refuses a list of the wrong size: nothing to claim
            # beyond alignment of the dismember list
            if post["dis"] is not None and len(post["dis"]) != post["np"]:
                e.append("dismember list has %d entries for numPartitions %d" % (len(post["dis"]), post["np"]))
            return e
        un = any(x < 0 for x in tp)
        npx = max([len(info)] + [x + 1 for x in tp]) + (1 if un else 0)
        exp_tp = [npx - 1 if x < 0 else x for x in tp]
        if post["np"] != npx or len(post["parts"]) != npx:
            e.append("SetShapePartitions: %d partitions, expected %d" % (len(post["parts"]), npx))
        if post["tp"] != exp_tp:
            e.append("SetShapePartitions: stored assignment differs from the given one (unassigned -> last)")
        e += cover_errors(post, tris, tris)
        for j, p in enumerate(post["parts"]):
            if p["tt"] != [tris[i] for i in range(n) if exp_tp[i] == j]:
                e.append("SetShapePartitions: partition %d does not hold exactly the triangles assigned to it" % j)
                break
        e += aligned_errors(post)
        if post["dis"] is not None and post["dis"][:len(info)] != info:
            e.append("SetShapePartitions: dismember list does not start with the given partition info")
    elif k == "G":
        g = post["get"]
        if g is None or not g[0]:
            return ["GetShapePartitions failed"]
        if g[2] != post["tp"]:
            e.append("GetShapePartitions returned an assignment different from the stored one")
        if len(g[1]) < len(post["parts"]):
            e.append("GetShapePartitions: %d infos for %d partitions" % (len(g[1]), len(post["parts"])))
        if len(pre["tp"]) == n and pre["tp"] != g[2]:
            e.append("GetShapePartitions changed the stored assignment")
        if len(g[2]) != n:
            e.append("GetShapePartitions: %d entries for %d triangles" % (len(g[2]), n))
        elif len({rot(t) for t in tris}) == n:
            # (without duplicate triangles) the assignment names a partition that holds the triangle,
            # and -1 for a triangle that no partition holds (documented in NifFile.hpp)
            for i in range(n):
                pi = g[2][i]
                held = [j for j, p in enumerate(post["parts"]) if rot(tris[i]) in [rot(t) for t in p["tt"]]]
                if held and pi not in held:
                    e.append("GetShapePartitions: triangle %d reported in partition %d but held by %s" % (i, pi, held))
                    break
                if not held and pi >= 0 and len(pre["tp"]) != n:
                    e.append("GetShapePartitions: unassigned triangle %d reported in partition %d instead of -1" % (i, pi))
                    break
        if len(g[2]) == n and len(pre["tp"]) != n:
            # regenerated assignment, duplicates included: per partition and triangle, as many shape copies are
            # reported as the partition holds (when the partitions hold no more copies than the shape has)
            shape_cnt = Counter(rot(t) for t in tris)
            held_cnt = Counter(rot(t) for p in post["parts"] for t in p["tt"])
            for j, p in enumerate(post["parts"]):
                want = Counter(rot(t) for t in p["tt"])
                got = Counter(rot(tris[i]) for i in range(n) if g[2][i] == j)
                bad = [t for t in want if held_cnt[t] <= shape_cnt[t] and got[t] != want[t]]
                if bad:
                    e.append("GetShapePartitions: partition %d holds %d copies of triangle %s but %d shape triangles are reported in it" % (j, want[bad[0]], bad[0], got[bad[0]]))
                    break
    elif k == "D":
        if len(post["parts"]) != 1 or post["np"] != 1:
            return ["SetDefaultPartition: %d partitions" % len(post["parts"])]
        p = post["parts"][0]
        if p["tt"] != tris:
            e.append("SetDefaultPartition: the partition does not hold the shape's triangles")
        if p["vm"] != list(range(nv)):
            e.append("SetDefaultPartition: vertexMap is not the identity")
        if post["tp"]:
            e.append("SetDefaultPartition: stale triParts")
        if not p["hf"]:
            e.append("SetDefaultPartition: hasFaces = false (a save would not write the partition's triangles)")
        e += aligned_errors(post)
    elif k == "X":
        ids = [int(x) for x in op[1:].split(",")] if op[1:] else []
        ok = ids == sorted(set(ids))
        if ok and aligned_errors(pre) == []:
            keep = [i for i in range(len(pre["parts"])) if i not in ids]
            if post["parts"] != [pre["parts"][i] for i in keep]:
                e.append("DeletePartitions: the remaining partitions are not the unlisted ones, unchanged")
            newid = {o: j for j, o in enumerate(keep)}
            exp = [(newid.get(x, -1) if 0 <= x < len(pre["parts"]) else x) for x in pre["tp"]]
            if post["tp"] != exp:
                e.append("DeletePartitions: triParts not renumbered to the remaining partitions")
            if pre["dis"] is not None and [d[1] for d in post["dis"]] != [pre["dis"][i][1] for i in keep]:
                e.append("DeletePartitions: dismember ids not the unlisted ones")
            e += aligned_errors(post)
    elif k == "E":
        if aligned_errors(pre) == []:
            keep = [i for i, p in enumerate(pre["parts"]) if p["nt"] != 0]
            if post["parts"] != [pre["parts"][i] for i in keep]:
                e.append("RemoveEmptyPartitions: the remaining partitions are not the non-empty ones, unchanged")
            if pre["dis"] is not None and [d[1] for d in post["dis"]] != [pre["dis"][i][1] for i in keep]:
                e.append("RemoveEmptyPartitions: dismember ids not those of the non-empty partitions")
            e += aligned_errors(post)
    return e


def reload_errors(ver, tris, nv, saved, re):
    """the reloaded file: same partitions (true triangles up to rotation), every triangle of the
    reloaded shape in exactly one partition, vertex maps exact, mapped triangles translate back"""
    e = []
    if re is None:
        return ["reloaded dump unreadable"]
    if len(re["parts"]) != len(saved["parts"]):
        return ["reload: %d partitions, saved %d" % (len(re["parts"]), len(saved["parts"]))]
    for j, (p, q) in enumerate(zip(saved["parts"], re["parts"])):
        if not p["hf"] and p["tt"] and not (q["tt"] if saved["m"] else q["tris"]):
            e.append("reload: partition %d lost its triangles (saved with hasFaces = false)" % j)
            continue
        if [rot(t) for t in p["tt"]] != [rot(t) for t in q["tt"]]:
            e.append("reload: partition %d holds different triangles" % j)
            break
        # the vertex map survives as saved (exact after a rebuild; SetDefaultPartition's lists every
        # vertex of the shape by design) and lists every vertex the triangles use
        if p["tt"] and (q["vm"] != p["vm"] or not set(corners(q["tt"])) <= set(q["vm"])):
            e.append("reload: partition %d vertexMap differs from the saved one or misses a used vertex" % j)
        e += [x for x in part_geometry_errors(q, re["m"], j) if "numVertices" not in x and "vertexMap" not in x] if q["tt"] else []
    e += aligned_errors(re)
    if re["shape"] is not None and re["get"]:
        # GetShapePartitions on the reloaded file (triParts regenerated for LE, rebuilt by PrepareData for SSE)
        e += step_errors(ver, re["shape"], nv, [], True, {"tp": [] if ver != "SSE" else re["tp"]}, "G", re)
        rs = re["shape"]
        have = Counter(rot(t) for p in re["parts"] for t in p["tt"])
        # triangles that were in no partition before saving stay outside (LE) or vanish (SSE)
        inparts = Counter(rot(t) for t in rs if have[rot(t)] > 0)
        if ver == "SSE" and Counter(rot(t) for t in rs) != have:
            e.append("reload: SSE shape triangles are not the partition triangles")
        if sum(have.values()) != sum(1 for t in rs if have[rot(t)] > 0) and len({rot(t) for t in rs}) == len(rs):
            e.append("reload: a triangle lies in more than one partition")
    return e
