#!/usr/bin/env python3
"""Regenerates MANIFEST.json from the table below (kept here so that every entry is uniform)."""
import json
import os

ROOT = os.path.dirname(os.path.dirname(os.path.abspath(__file__)))

CLAIMED = {
    "C18": {
        "category": "proof",
        "text": "Coq theorems (Properties_C18.v) prove, for all vectors, index lists, triangle lists, maps and strips (no size bound), that loop-faithful models of EraseVectorIndices, ApplyMapToTriangles, GenerateIndexCollapseMap and GenerateTrianglesFromStrips equal their naive definitions and never access outside their containers; the models are tied to include/NifUtil.hpp by running the extracted models and the C++ templates (ASan/UBSan) on the same exhaustive-small + random cases on every run. InsertVectorIndices / GenerateIndexExpandMap are modelled and differential-tested against the naive spec; their theorems are listed as unproved in evidence.",
        "design_ref": "DESIGN.md 5.1, 6 (C18)",
        "note": "trusted: Coq kernel, extraction (ExtrOcamlBasic only), OCaml/C++/Python glue of the correspondence check; std::vector modelled as list with faulting get/set; hypotheses: vector length < 2^w, strictly ascending index list for functional statements",
        "technique": "Coq proof (induction over loop fuel, invariant lemmas) + model/implementation differential correspondence",
    },
}

NOT_YET = "check under construction in this round (see DESIGN.md section 6); not yet claimed"


def main():
    props = [json.loads(l) for l in open(os.path.join(ROOT, "properties.jsonl"))]
    m = {
        "version": 1,
        "setup_cmd": "python3 tools/setup.py",
        "hooks": {
            "guard": "NIFLY_VERIF_HOOKS",
            "enable": "tools/vlib.py compiles /repo/src/*.cpp with -DNIFLY_VERIF_HOOKS into /verif/_work (content-keyed object cache) and links harness/*.cpp against it",
            "baseline_off_cmd": "python3 tools/baseline_off.py",
            "source_commits": [],
            "add_only": True,
        },
        "engines": [
            {"name": "coq", "path": "coq/", "serves_properties": sorted(CLAIMED), "kind_free_text": "Coq 8.16.1 development: models, specs, proofs; Properties/Properties_<id>.v hold the property theorems"},
            {"name": "model_oracle", "path": "ocaml/", "serves_properties": sorted(CLAIMED), "kind_free_text": "extracted executable models + OCaml driver"},
            {"name": "nifly_oracle", "path": "harness/", "serves_properties": sorted(CLAIMED), "kind_free_text": "C++ harness linked against /repo's current sources (hooks on), ASan/UBSan and plain flavours"},
        ],
        "checks": [],
        "not_applicable": [],
    }
    for p in props:
        pid = p["id"]
        if pid in CLAIMED:
            c = CLAIMED[pid]
            m["checks"].append({
                "property_id": pid,
                "quick_cmd": "python3 tools/check.py %s --tier quick" % pid,
                "thorough_cmd": "python3 tools/check.py %s --tier thorough" % pid,
                "evidence_file": "evidence/%s.json" % pid,
                "replay_cmd_template": "python3 tools/check.py %s --replay {path}" % pid,
                "engine": "coq",
                "level_claimed": {"category": c["category"], "text": c["text"], "design_ref": c["design_ref"]},
                "level_note": c["note"],
                "technique": c["technique"],
            })
        else:
            m["not_applicable"].append({"property_id": pid, "reason": NOT_YET})
    json.dump(m, open(os.path.join(ROOT, "MANIFEST.json"), "w"), indent=1)


if __name__ == "__main__":
    main()
