#!/usr/bin/env python3
"""Regenerates MANIFEST.json from the table below (kept here so that every entry is uniform)."""
import json
import os

ROOT = os.path.dirname(os.path.dirname(os.path.abspath(__file__)))

def load_claimed():
    """one fragment per claimed property: tools/props/<id>.manifest.json with keys
    category, text, design_ref, note, technique"""
    out = {}
    for f in sorted(os.listdir(os.path.join(ROOT, "tools", "props"))):
        if f.endswith(".manifest.json"):
            out[f.split(".")[0]] = json.load(open(os.path.join(ROOT, "tools", "props", f)))
    return out


CLAIMED = load_claimed()
NOT_APPLICABLE = {}   # property id -> reason, for properties deliberately not claimed

NOT_YET = "check under construction in this round (see DESIGN.md section 6); not yet claimed"


def main():
    props = [json.loads(l) for l in open(os.path.join(ROOT, "properties.jsonl"))]
    m = {
        "version": 1,
        "setup_cmd": "python3 tools/setup.py",
        "hooks": {
            "guard": "NIFLY_VERIF_HOOKS",
            "enable": "tools/vlib.py compiles /repo/src/*.cpp with -DNIFLY_VERIF_HOOKS into /verif/_work (content-keyed object cache) and links harness/*.cpp against it",
            "baseline_off_cmd": "python3 tools/baseline_off.py",
            "source_commits": ["9e0b390c76887d652febaaa8b281a4c8c75765b6", "d6a27be54835aa08dc5f5405ebc5b65b0910e555"],
            "add_only": True,
        },
        "engines": [
            {"name": "coq", "path": "coq/", "serves_properties": sorted(CLAIMED), "kind_free_text": "Coq 8.16.1 development: models, specs, proofs; Properties/Properties_<id>.v hold the property theorems"},
            {"name": "model_oracle", "path": "ocaml/", "serves_properties": sorted(CLAIMED), "kind_free_text": "extracted executable models + OCaml driver"},
            {"name": "nifly_oracle", "path": "harness/", "serves_properties": sorted(CLAIMED), "kind_free_text": "C++ harness linked against /repo's current sources (hooks on), ASan/UBSan and plain flavours"},
        ],
        "checks": [],
        "not_applicable": [],
    }
    for p in props:
        pid = p["id"]
        if pid in CLAIMED:
            c = CLAIMED[pid]
            m["checks"].append({
                "property_id": pid,
                "quick_cmd": "python3 tools/check.py %s --tier quick" % pid,
                "thorough_cmd": "python3 tools/check.py %s --tier thorough" % pid,
                "evidence_file": "evidence/%s.json" % pid,
                "replay_cmd_template": "python3 tools/check.py %s --replay {path}" % pid,
                "engine": "coq",
                "level_claimed": {"category": c["category"], "text": c["text"], "design_ref": c["design_ref"]},
                "level_note": c["note"],
                "technique": c["technique"],
            })
        else:
            m["not_applicable"].append({"property_id": pid, "reason": NOT_APPLICABLE.get(pid, NOT_YET)})
    json.dump(m, open(os.path.join(ROOT, "MANIFEST.json"), "w"), indent=1)


if __name__ == "__main__":
    main()
