#!/bin/sh
# development aid: run every check's quick (or thorough) command with a given seed, report exits and alarms
# usage: tools/runall.sh <seed> [quick|thorough]
seed=${1:-1}; tier=${2:-quick}
cd /verif
for i in 01 02 03 04 05 06 07 08 09 10 11 12 13 14 15 16 17 18 19 20; do
  s=$(date +%s)
  out=$(VERIF_SEED=$seed python3 tools/check.py C$i --tier $tier 2>/dev/null)
  rc=$?
  e=$(( $(date +%s) - s ))
  echo "C$i seed=$seed tier=$tier exit=$rc ${e}s $(echo "$out" | grep -c '^KNOWN-FINDING') known"
  echo "$out" | grep '^VIOLATION' | cut -c1-300
done
