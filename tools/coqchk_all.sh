#!/bin/sh
# optional (not a registered command): re-check every property file and everything it depends on with the
# independent checker coqchk and print the axioms it finds; writes /verif/coqchk_report.txt
cd /verif/coq || exit 1
out=/verif/coqchk_report.txt
echo "coqchk -o -silent on every Properties_<ID> (Coq $(coqc --version | head -1))" > $out
for f in Properties/Properties_C*.v; do
  m=$(basename $f .v)
  echo "== $m" >> $out
  timeout 3600 coqchk -o -silent -Q . NiflyVerif NiflyVerif.Properties.$m 2>&1 | grep -A1 "Axioms\|type-in-type\|unsafe\|positivity\|Error" | grep -v "^--" | sed 's/^/   /' >> $out
done
echo done >> $out
