"""Independent NIF container reader (shares no code with nifly).

It trusts only the header tables: parse the header, skip sizes[i] bytes per block, expect exactly
the 8-byte footer (u32 1, u32 0) and the end of the file. Used by the C03/C07 checks as the
"independent reader"; on every run its result is compared with the Coq function `walk`
(coq/Container/ContainerModel.v) extracted to OCaml, which ties it to the model the theorems are
about. Also: a header writer (to re-label block types) and the canonical text dump shared with
harness/o_container.cpp and ocaml/d_container.ml.
"""
import struct

V3_1 = 0x03010000
NPOS = 0xFFFFFFFF


class WalkError(Exception):
    pass


class Rd:
    def __init__(self, b, p=0):
        self.b, self.p = b, p

    def take(self, n):
        if n < 0 or self.p + n > len(self.b):
            raise WalkError("input exhausted at %d (+%d)" % (self.p, n))
        r = self.b[self.p:self.p + n]
        self.p += n
        return r

    def u8(self):
        return self.take(1)[0]

    def u16(self):
        return struct.unpack("<H", self.take(2))[0]

    def u32(self):
        return struct.unpack("<I", self.take(4))[0]

    def sized(self, w):
        n = {1: self.u8, 2: self.u16, 4: self.u32}[w]()
        if w == 4 and n == NPOS:
            raise WalkError("string size 0xFFFFFFFF")
        s = self.take(n)
        z = s.find(b"\0")
        return s if z < 0 else s[:z]          # zero-terminated text


def is_ob(f, u):
    return ((f in (0x0A01006A, 0x0A020000) and 3 <= u < 11) or (f == 0x14000004 and u in (10, 11))
            or (f == 0x14000005 and u == 11))


def is_bethesda(f, u):
    return (f == 0x14020007 and u >= 11) or is_ob(f, u)


def parse_header(b):
    """-> (tables dict, offset of the first block). Raises WalkError."""
    nl = b.find(b"\n", 0, 128)
    if nl < 0:
        raise WalkError("no version line")
    line = b[:nl].split(b"\0")[0]
    if b"NDSNIF....@....@...." in line:
        raise WalkError("NDS file")
    if b"Gamebryo File Format" not in line and b"NetImmerse File Format" not in line:
        raise WalkError("not a NIF")
    # version number of the text line only decides the pre-3.1 layout
    tv = NPOS
    k = line.find(b", Version ")
    if k >= 0:
        import re
        nums = [int(m) for m in re.findall(rb"25[0-5]|2[0-4][0-9]|1[0-9][0-9]|[1-9]?[0-9]", line[k + 10:])][:4]
        nums += [0] * (4 - len(nums))
        tv = (nums[0] << 24) | (nums[1] << 16) | (nums[2] << 8) | nums[3]
    if tv <= V3_1:
        raise WalkError("pre-3.1 layout")
    r = Rd(b, nl + 1)
    t = {}
    f = t["file"] = r.u32()
    t["endian"] = r.u8() if f >= 0x14000003 else 1
    u = t["user"] = r.u32() if f >= 0x0A000108 else 0
    n = t["nblocks"] = r.u32()
    t.update(stream=0, creator=b"", unk=0, e1=b"", e2=b"", e3=b"", esz=0, emb=b"")
    if is_bethesda(f, u):
        s = t["stream"] = r.u32()
        t["creator"] = r.sized(1)
        if s > 130:
            t["unk"] = r.u32()
        t["e1"] = r.sized(1)
        t["e2"] = r.sized(1)
        if s == 130:
            t["e3"] = r.sized(1)
    elif f >= 0x1E000002:
        t["esz"] = r.u32()
        t["emb"] = r.take(t["esz"])
    t.update(nt=0, types=[], tidx=[], sizes=[], ns=0, maxlen=0, strings=[], ng=0, groups=[])
    if f >= 0x05000001:
        t["nt"] = r.u16()
        t["types"] = [r.sized(4) for _ in range(t["nt"])]
        t["tidx"] = list(struct.unpack("<%dH" % n, r.take(2 * n)))
    if f >= 0x14020005:
        t["sizes_pos"] = r.p
        t["sizes"] = list(struct.unpack("<%dI" % n, r.take(4 * n)))
    if f >= 0x14010001:
        t["ns"] = r.u32()
        t["maxlen"] = r.u32()
        t["strings"] = [r.sized(4) for _ in range(t["ns"])]
    if f >= 0x05000006:
        t["ng"] = r.u32()
        t["groups"] = list(struct.unpack("<%dI" % t["ng"], r.take(4 * t["ng"])))
    return t, r.p


def walk(b):
    """-> dict(tables=..., hlen=..., offsets=[...]) or None when the tables do not describe the file."""
    try:
        t, p = parse_header(b)
    except (WalkError, struct.error):
        return None
    if t["file"] < 0x14020005:
        return None
    offs = []
    for sz in t["sizes"]:
        if p + sz > len(b):
            return None
        offs.append(p)
        p += sz
    if b[p:] != b"\x01\x00\x00\x00\x00\x00\x00\x00":
        return None
    return {"tables": t, "hlen": offs[0] if offs else p, "offsets": offs}


def payloads(b, w):
    return [b[o:o + s] for o, s in zip(w["offsets"], w["tables"]["sizes"])]


def dec(v):
    return "%d.%d.%d.%d" % (v >> 24, (v >> 16) & 255, (v >> 8) & 255, v & 255)


def build_header(t):
    """header bytes for the tables (strings given without terminator)"""
    f, u = t["file"], t["user"]
    o = (b"NetImmerse File Format" if f < 0x0A000000 else b"Gamebryo File Format") + b", Version " + dec(f).encode() + b"\n"
    o += struct.pack("<I", f)
    if f >= 0x14000003:
        o += bytes([t["endian"]])
    if f >= 0x0A000108:
        o += struct.pack("<I", u)
    o += struct.pack("<I", t["nblocks"])

    def z(s):
        s = s[:254]                            # the size byte counts the terminator
        return bytes([len(s) + 1]) + s + b"\0"
    if is_bethesda(f, u):
        o += struct.pack("<I", t["stream"]) + z(t["creator"])
        if t["stream"] > 130:
            o += struct.pack("<I", t["unk"])
        o += z(t["e1"]) + z(t["e2"])
        if t["stream"] == 130:
            o += z(t["e3"])
    elif f >= 0x1E000002:
        o += struct.pack("<I", t["esz"]) + t["emb"]
    if f >= 0x05000001:
        o += struct.pack("<H", t["nt"])
        for s in t["types"]:
            o += struct.pack("<I", len(s)) + s
        o += struct.pack("<%dH" % len(t["tidx"]), *t["tidx"])
    if f >= 0x14020005:
        o += struct.pack("<%dI" % len(t["sizes"]), *t["sizes"])
    if f >= 0x14010001:
        o += struct.pack("<II", t["ns"], t["maxlen"])
        for s in t["strings"]:
            o += struct.pack("<I", len(s)) + s
    if f >= 0x05000006:
        o += struct.pack("<I", t["ng"]) + struct.pack("<%dI" % len(t["groups"]), *t["groups"])
    return o


def hexlist(l):
    return ",".join((s.hex() or "") + ("-" if not s else "") for s in l)


def dump(t):
    """canonical text form of the tables (same as dump_hdr in o_container.cpp)"""
    return ("file=%d user=%d stream=%d endian=%d nblocks=%d creator=%s unk=%d e1=%s e2=%s e3=%s esz=%d emb=%s "
            "nt=%d types=%s tidx=%s sizes=%s ns=%d maxlen=%d strings=%s ng=%d groups=%s") % (
        t["file"], t["user"], t["stream"], t["endian"], t["nblocks"], t["creator"].hex(), t["unk"], t["e1"].hex(),
        t["e2"].hex(), t["e3"].hex(), t["esz"], t["emb"].hex(), t["nt"], hexlist(t["types"]),
        ",".join(map(str, t["tidx"])), ",".join(map(str, t["sizes"])), t["ns"], t["maxlen"], hexlist(t["strings"]),
        t["ng"], ",".join(map(str, t["groups"])))


def parse_dump(d):
    """inverse of dump (for dumps printed by the oracles)"""
    kv = dict(x.split("=", 1) for x in d.split(" ") if "=" in x)

    def hl(s):
        return [bytes.fromhex(x.rstrip("-")) for x in s.split(",")] if s else []

    def il(s):
        return [int(x) for x in s.split(",")] if s else []
    t = {k: int(kv[k]) for k in ("file", "user", "stream", "endian", "nblocks", "unk", "esz", "nt", "ns", "maxlen", "ng")}
    for k in ("creator", "e1", "e2", "e3", "emb"):
        t[k] = bytes.fromhex(kv[k])
    t["types"], t["strings"] = hl(kv["types"]), hl(kv["strings"])
    t["tidx"], t["sizes"], t["groups"] = il(kv["tidx"]), il(kv["sizes"]), il(kv["groups"])
    return t


def relabel(b, type_ids, prefix=b"zzUnknown"):
    """the same file with the chosen entries of the type table renamed (all other bytes untouched)"""
    t, hlen = parse_header(b)
    t2 = dict(t)
    t2["types"] = [(prefix + str(i).encode()) if i in type_ids else s for i, s in enumerate(t["types"])]
    return build_header(t2) + b[hlen:]


if __name__ == "__main__":
    import sys
    for p in sys.argv[1:]:
        w = walk(open(p, "rb").read())
        print(p, "NOT WALKABLE" if w is None else "ok: %d blocks, header %d bytes" % (len(w["offsets"]), w["hlen"]))
