#!/usr/bin/env python3
"""Regenerates the SyncIR model of a source tree:  gen_ir.py <repo> <tag>
writes coq/Gen/IR<tag>.v and _work/gen/ir_<tag>.json (block table, name table, coverage)."""
import hashlib
import json
import os
import sys
import time

sys.path.insert(0, os.path.dirname(os.path.abspath(__file__)))
import astload
import irgen
import nif2ir

ROOT = os.path.dirname(os.path.dirname(os.path.abspath(__file__)))


def tree_key(repo):
    h = hashlib.sha256()
    for d in ("include", "external", "src"):
        for f in sorted(os.listdir(os.path.join(repo, d))):
            h.update(f.encode())
            h.update(open(os.path.join(repo, d, f), "rb").read())
    for f in ("astload.py", "nif2ir.py", "irgen.py", "gen_ir.py"):
        h.update(open(os.path.join(ROOT, "tools", f), "rb").read())
    return h.hexdigest()[:20]


def _atomic(path, txt):
    tmp = "%s.tmp%d" % (path, os.getpid())
    with open(tmp, "w") as f:
        f.write(txt)
    os.replace(tmp, path)


def generate(repo, tag, force=False):
    outv = os.path.join(ROOT, "coq", "Gen", "IR%s.v" % tag)
    outj = os.path.join(ROOT, "_work", "gen", "ir_%s.json" % tag)
    key = tree_key(repo)
    if tag != "Ref" and os.path.isdir(os.path.join(ROOT, "reference", "src")):
        key = hashlib.sha256((key + tree_key(os.path.join(ROOT, "reference"))).encode()).hexdigest()[:20]
    cdir = os.path.join(ROOT, "_work", "gen", "cache")
    os.makedirs(cdir, exist_ok=True)
    cv, cj = os.path.join(cdir, "%s-%s.v" % (tag, key)), os.path.join(cdir, "%s-%s.json" % (tag, key))
    if not force and os.path.exists(cv) and os.path.exists(cj):
        txt = open(cv).read()
        if not os.path.exists(outv) or open(outv).read() != txt:
            os.makedirs(os.path.dirname(outv), exist_ok=True)
            _atomic(outv, txt)
        info = json.load(open(cj))
        _atomic(outj, json.dumps(info))
        return info
    t0 = time.time()
    work = os.path.join(ROOT, "_work", "ast-%s-%d" % (tag, os.getpid()))    # private: several checks may generate at once
    idx = astload.build_index(repo, work)
    tr = nif2ir.Translator(idx)
    types = nif2ir.registered_types(repo)
    for t in types:
        tr.block_ir(t)
    sizes = nif2ir.compute_sizes(repo, tr.need_sizes, work)
    tr = nif2ir.Translator(idx, sizes)
    blocks, cover, enums = [], {}, {}
    for t in types:
        tr.counter = 0
        tr.expand_names = set()
        ir = tr.block_ir(t)
        conf = nif2ir.find_conflicts(ir)
        if conf:
            tr.counter = 0
            tr.expand_names = conf
            ir = tr.block_ir(t)
        acc = []
        nif2ir.count_opaque(ir, acc)
        bname = idx.records.get(t, {}).get("blockname", t)
        cr, bad1 = tr.enum_names(t, "GetChildRefs")
        pt, bad2 = tr.enum_names(t, "GetPtrs")
        sr, bad3 = tr.enum_names(t, "GetStringRefs")
        enums[bname] = (sorted(cr | pt), sorted(sr), sorted(set(bad1 + bad2 + bad3)))
        blocks.append((bname, t, ir, nif2ir._seq(tr.defaults(t, nif2ir.loaded_names(ir)))))
        cover[bname] = sorted(set(acc))
    # ids of field names, locals and block types are shared with the reference tree's table, so that the
    # two generated files can be compared structurally (C08)
    seed = None
    if tag != "Ref" and os.path.isdir(os.path.join(ROOT, "reference", "src")):
        ref = generate(os.path.join(ROOT, "reference"), "Ref")
        seed = irgen.Emitter()
        seed.names = dict(ref["names"])
        seed.locals = dict(ref["locals"])
        order = {b: i for i, b in enumerate(ref["blocks"])}
        nxt = len(order)
        ids = []
        for b in blocks:
            if b[0] in order:
                ids.append(order[b[0]])
            else:
                ids.append(nxt)
                nxt += 1
        blocks = [b + (i,) for b, i in zip(blocks, ids)]
        blocks.sort(key=lambda b: b[4])
    else:
        blocks = [b + (i,) for i, b in enumerate(blocks)]
    em = irgen.emit_file(outv, "source tree: %s" % repo, blocks, seed, enums)
    info = {"key": key, "repo": repo, "blocks": [b[0] for b in blocks], "classes": [b[1] for b in blocks], "ids": [b[4] for b in blocks],
            "names": em.names, "locals": em.locals, "opaque": {k: v for k, v in cover.items() if v},
            "enum_unparsed": {k: v[2] for k, v in enums.items() if v[2]},
            "translated": sum(1 for v in cover.values() if not v), "seconds": round(time.time() - t0, 1)}
    os.makedirs(os.path.dirname(outj), exist_ok=True)
    _atomic(outj, json.dumps(info))
    _atomic(cj, json.dumps(info))
    _atomic(cv, open(outv).read())
    import shutil
    shutil.rmtree(work, ignore_errors=True)
    # keep the cache small
    ents = sorted((os.path.getmtime(os.path.join(cdir, f)), f) for f in os.listdir(cdir))
    for _, f in ents[:-12]:
        os.remove(os.path.join(cdir, f))
    return info


if __name__ == "__main__":
    info = generate(sys.argv[1] if len(sys.argv) > 1 else "/repo", sys.argv[2] if len(sys.argv) > 2 else "Cur", force="--force" in sys.argv)
    print("blocks", len(info["blocks"]), "fully translated", info["translated"], "names", len(info["names"]), "in", info["seconds"], "s")
    for k, v in info["opaque"].items():
        print("  opaque:", k, v)
