#!/usr/bin/env python3
"""MANIFEST.setup_cmd: build the framework from files on disk only (offline)."""
import os
import sys

sys.path.insert(0, os.path.dirname(os.path.abspath(__file__)))
import vlib


def main():
    vlib.gen_ir(("Cur",))
    vlib.coq_makefile()
    rc, lg = vlib.coq_make(["all"], timeout=3000)
    if rc != 0:
        print(lg[-5000:])
        print("setup: Coq project failed to build")
        return 1
    vlib.build_model_oracle()
    for fl in ("asan", "plain"):
        vlib.build_oracle(fl)
    print("setup ok")
    return 0


if __name__ == "__main__":
    sys.exit(main())
