#!/usr/bin/env python3
"""hooks.baseline_off_cmd: build /repo WITHOUT -DNIFLY_VERIF_HOOKS and run its own test suite."""
import os
import subprocess
import sys

ROOT = os.path.dirname(os.path.dirname(os.path.abspath(__file__)))
B = os.path.join(ROOT, "_work", "baseline-off")


def main():
    os.makedirs(B, exist_ok=True)
    gen = ["-G", "Ninja"] if subprocess.run("which ninja", shell=True, capture_output=True).returncode == 0 else []
    cmds = [
        ["cmake", "-S", "/repo", "-B", B] + gen + ["-DCMAKE_BUILD_TYPE=RelWithDebInfo", "-DCMAKE_CXX_FLAGS=-Wno-error", "-DBUILD_TESTING=ON"],
        ["cmake", "--build", B, "-j", str(os.cpu_count() or 4)],
        ["ctest", "--test-dir", B, "-j8", "--timeout", "900", "--output-junit", os.path.join(B, "junit.xml")],
    ]
    for c in cmds:
        r = subprocess.run(c)
        if r.returncode != 0:
            return r.returncode
    return 0


if __name__ == "__main__":
    sys.exit(main())
