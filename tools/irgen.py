"""Emission of the translated IR as Coq (coq/Gen/IRCur.v) plus a JSON side table."""
import json
import os

BINOPS = {"add": "Oadd", "sub": "Osub", "mul": "Omul", "div": "Odiv", "mod": "Omod", "lt": "Olt", "gt": "Ogt", "le": "Ole",
          "ge": "Oge", "eq": "Oeq", "ne": "One", "and": "Oand", "or": "Oor", "band": "Oband", "bor": "Obor", "bxor": "Obxor",
          "shl": "Oshl", "shr": "Oshr", "min": "Omin", "max": "Omax"}
UNOPS = {"not": "Onot", "neg": "Oneg", "bnot": "Obnot"}


class BadIndex(Exception):
    """an index that is neither a loop variable nor a constant: the statement is emitted as opaque"""


class Emitter:
    def __init__(self):
        self.names = {}     # field name -> id (from 1)
        self.locals = {}    # local name -> id (from 1; 0 is reserved by the interpreter)

    def nid(self, n):
        if n not in self.names:
            self.names[n] = len(self.names) + 1
        return self.names[n]

    def lid(self, x):
        if x not in self.locals:
            self.locals[x] = len(self.locals) + 1
        return self.locals[x]

    def z(self, v):
        return "(%d)%%Z" % v if v < 0 else "%d%%Z" % v

    def prim(self, p):
        k, w = p
        if k == "u":
            return "(PInt false %d)" % w
        if k == "i":
            return "(PInt true %d)" % w
        if k == "f":
            return "(PFloat %d)" % w
        return "PBool"

    def idx(self, l):
        out = []
        for e in l:
            if e[0] == "local":
                out.append("(ILocal %d)" % self.lid(e[1]))
            elif e[0] == "const" and e[1] >= 0:
                out.append("(IConst %d)" % e[1])
            else:
                raise BadIndex()
        return "[" + "; ".join(out) + "]"

    def expr(self, e):
        try:
            return self.expr_(e)
        except BadIndex:
            return "EOpaque"

    def expr_(self, e):
        k = e[0]
        if k == "const":
            return "(EConst %s)" % self.z(e[1])
        if k == "load":
            return "(ELoad %d %s)" % (self.nid(e[1]), self.idx(e[2]))
        if k == "size":
            return "(ESize %d %s)" % (self.nid(e[1]), self.idx(e[2]))
        if k == "strlen":
            return "(EStrLen %d %s)" % (self.nid(e[1]), self.idx(e[2]))
        if k == "local":
            return "(ELocal %d)" % self.lid(e[1])
        if k == "ver":
            return "(EVer %s)" % {"file": "VFile", "user": "VUser", "stream": "VStream"}[e[1]]
        if k == "bin":
            return "(EBin %s %s %s)" % (BINOPS[e[1]], self.expr(e[2]), self.expr(e[3]))
        if k == "un":
            return "(EUn %s %s)" % (UNOPS[e[1]], self.expr(e[2]))
        if k == "cast":
            return "(ECast %d %s %s)" % (e[1], "true" if e[2] else "false", self.expr(e[3]))
        if k == "cond":
            return "(ECond %s %s %s)" % (self.expr(e[1]), self.expr(e[2]), self.expr(e[3]))
        if k == "mode":
            return "EMode"
        if k == "hdrstr_empty":
            return "(EHdrStrEmpty %d %s)" % (self.nid(e[1] + ".index"), self.idx(e[2]))
        return "EOpaque"

    def stmt(self, s):
        try:
            return self.stmt_(s)
        except BadIndex:
            return "SOpaque"

    def stmt_(self, s):
        k = s[0]
        if k == "skip":
            return "SSkip"
        if k == "seq":
            # NiVector::Sync = SyncSize (clamp, write the size) immediately followed by resize(that size): the pair is
            # emitted as one nested unit (same execution order; only the association of the sequence differs), so
            # that the checkers can treat "size written, then resized to the size just written" as one step
            src, grouped, i = s[1], [], 0
            while i < len(src):
                a = src[i]
                b = src[i + 1] if i + 1 < len(src) else None
                if (a[0] == "vecsize" and b is not None and b[0] == "resize" and b[1] == a[1] and b[2] == a[2]
                        and b[3] == ("local", a[4])):
                    grouped.append("(SSeq %s %s)" % (self.stmt(a), self.stmt(b)))
                    i += 2
                else:
                    grouped.append(self.stmt(a))
                    i += 1
            items = grouped
            out = items[-1]
            for it in reversed(items[:-1]):
                out = "(SSeq %s %s)" % (it, out)
            return out
        if k == "if":
            return "(SIf %s %s %s)" % (self.expr(s[1]), self.stmt(s[2]), self.stmt(s[3]))
        if k == "sync":
            return "(SSync %d %s %s)" % (self.nid(s[1]), self.idx(s[2]), self.prim(s[3]))
        if k == "synclocal":
            return "(SSyncLocal %d %s)" % (self.lid(s[1]), self.prim(s[2]))
        if k == "syncpart":
            return "(SSyncPart %d %s %s %d)" % (self.nid(s[1]), self.idx(s[2]), self.prim(s[3]), s[4])
        if k == "bytes":
            return "(SBytes %d %s %s)" % (self.nid(s[1]), self.idx(s[2]), self.expr(s[3]))
        if k == "bytesvec":
            return "(SBytesVec %d %s)" % (self.nid(s[1]), self.idx(s[2]))
        if k == "half":
            return "(SHalf %d %s)" % (self.nid(s[1]), self.idx(s[2]))
        if k == "nistring":
            return "(SNiString %d %s %d)" % (self.nid(s[1]), self.idx(s[2]), s[3])
        if k == "strref":
            return "(SStrRef %d %d %s)" % (self.nid(s[1]), self.nid(s[1] + ".index"), self.idx(s[2]))
        if k == "cstr":
            return "(SCStr %d %s)" % (self.nid(s[1]), self.idx(s[2]))
        if k == "ref":
            return "(SRef %d %s)" % (self.nid(s[1] + ".index"), self.idx(s[2]))
        if k in ("refarr", "cleanrefs"):
            ids = (self.nid(s[1] + ".arraySize"), self.nid(s[1] + ".keepEmptyRefs"), self.nid(s[1] + ".refs"), self.nid(s[1] + ".refs[].index"))
            if k == "refarr":
                lv = self.lid("refarr_j%d" % len(s[2]))
                inner = "(SRef %d %s)" % (ids[3], self.idx(list(s[2]) + [("local", "refarr_j%d" % len(s[2]))]))
                return "(SSeq (SRefArrHead %d %d %d %d %s %d) (SFor %d (ESize %d %s) %s))" % (ids + (self.idx(s[2]), s[3], lv, ids[2], self.idx(s[2]), inner))
            return "(SCleanRefs %d %d %d %d %s)" % (ids + (self.idx(s[2]),))
        if k == "vecsize":
            return "(SVecSize %d %s %d %d)" % (self.nid(s[1]), self.idx(s[2]), s[3], self.lid(s[4]))
        if k == "resize":
            return "(SResize %d %s %s)" % (self.nid(s[1]), self.idx(s[2]), self.expr(s[3]))
        if k == "for":
            return "(SFor %d %s %s)" % (self.lid(s[1]), self.expr(s[2]), self.stmt(s[3]))
        if k in ("local", "setlocal"):
            return "(SLocal %d %s %s)" % (self.lid(s[1]), self.prim(s[2]), self.expr(s[3]))
        if k == "assign":
            return "(SAssign %d %s %s %s)" % (self.nid(s[1]), self.idx(s[2]), self.prim(s[3]), self.expr(s[4]))
        if k == "switch":
            out = self.stmt(s[3])
            for lb, st in reversed(s[2]):
                out = "(SIf (EBin Oeq %s (EConst %s)) %s %s)" % (self.expr(s[1]), self.z(lb), self.stmt(st), out)
            return out
        return "SOpaque"


def ident(cls):
    return "ir_" + "".join(ch if ch.isalnum() else "_" for ch in cls)


def emit_file(path, module_comment, blocks, emitter=None, enums=None):
    """blocks: list of (block type name as registered, class name, python IR)"""
    em = emitter or Emitter()
    lines = ["(* GENERATED by tools/nif2ir.py -- do not edit. %s *)" % module_comment,
             "From NiflyVerif Require Import IR.", "Local Open Scope N_scope.", ""]
    table = []
    for (bname, cls, ir, init, i) in blocks:
        d = ident(cls)
        lines.append("(* %s: constructor constants, then the Sync chain *)" % bname)
        lines.append("Definition %s_init : stmt :=\n  %s." % (d, em.stmt(init)))
        lines.append("Definition %s : stmt :=\n  %s." % (d, em.stmt(ir)))
        lines.append("")
        table.append("(%d, (%s_init, %s))" % (i, d, d))
    lines.append("Definition block_table : list (N * (stmt * stmt)) :=\n  [" + ";\n   ".join(table) + "].")
    if enums is not None:
        # names reported by GetChildRefs+GetPtrs, and by GetStringRefs, per block type
        rows = []
        for (bname, cls, ir, init, i) in blocks:
            b, s, _ = enums.get(bname, ([], [], []))
            rows.append("(%d, ([%s], [%s]))" % (i, "; ".join(str(em.nid(n)) for n in b), "; ".join(str(em.nid(n)) for n in s)))
        lines.append("")
        lines.append("Definition enum_table : list (N * (list N * list N)) :=\n  [" + ";\n   ".join(rows) + "].")
    lines.append("")
    os.makedirs(os.path.dirname(path), exist_ok=True)
    txt = "\n".join(lines)
    old = None
    try:
        old = open(path).read()
    except OSError:
        pass
    if old != txt:
        tmp = "%s.tmp%d" % (path, os.getpid())
        open(tmp, "w").write(txt)
        os.replace(tmp, path)
    return em
