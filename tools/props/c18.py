"""C18 — index-remapping and strip utilities agree with their mathematical definition.

Proof: coq/Properties/Properties_C18.v (loop-faithful models of NifUtil.hpp = naive definitions,
for all inputs). Tie: the same cases through the C++ templates (ASan/UBSan build) and the extracted
models; the naive specs are evaluated on the implementation's outputs as failing-input search."""
import itertools
import json
import random

import vlib

PID = "C18"
WIDTHS = [8, 16, 32, 64]


def subsets(n):
    for k in range(n + 1):
        for c in itertools.combinations(range(n), k):
            yield list(c)


def fmt(l):
    return ",".join(str(x) for x in l)


def gen_cases(tier, rng):
    cases = []
    maxn = 5 if tier == "quick" else 7
    # erase: every vector length <= maxn, every sorted index subset over 0..n (one out of range), widths
    for n in range(maxn + 1):
        for idx in subsets(n + 1):
            for w in ([16, 32] if tier == "quick" else WIDTHS):
                cases.append("erase w=%d n=%d idx=%s" % (w, n, fmt(idx)))
        # out-of-range single indices and unsorted / duplicated lists (safety: any input)
        for idx in ([n], [n + 5], [250], [0, 0], [1, 0], [2, 2, 1], [n, 0]):
            cases.append("erase w=16 n=%d idx=%s" % (n, fmt(idx)))
    # insert: every (n, k) with n + k <= maxn, every strictly sorted position set, plus out of range
    for total in range(maxn + 1):
        for idx in subsets(total):
            n = total - len(idx)
            for w in ([16] if tier == "quick" else WIDTHS):
                cases.append("insert w=%d n=%d idx=%s" % (w, n, fmt(idx)))
        for n in range(total + 1):
            cases.append("insert w=16 n=%d idx=%s" % (n, fmt([total + 3])))
            cases.append("insert w=16 n=%d idx=%s" % (n, fmt([0, n + 2 + total])))
    # collapse / expand
    for n in range(maxn + 1):
        for idx in subsets(n + 2):
            for (w, sg) in ([(16, 0), (31, 1), (64, 0)] if tier == "quick" else [(8, 0), (16, 0), (32, 0), (64, 0), (31, 1)]):
                cases.append("collapse w=%d sg=%d n=%d idx=%s" % (w, sg, n, fmt(idx)))
                cases.append("expand w=%d sg=%d n=%d idx=%s" % (w, sg, n, fmt(idx)))
    # strips over 4 symbols up to length maxn (+1 in thorough), two strips for short ones
    L = 6 if tier == "quick" else 8
    for ln in range(L + 1):
        for s in itertools.product(range(4), repeat=ln):
            if ln == 0:
                continue
            cases.append("strips w=16 strips=%s" % fmt(s))
    for _ in range(300 if tier == "quick" else 3000):
        k = rng.randint(1, 4)
        strips = [[rng.choice([0, 1, 2, 3, 65535, 65536, 65537, 70000]) for _ in range(rng.randint(1, 9))] for _ in range(k)]
        cases.append("strips w=%d strips=%s" % (rng.choice([16, 32]), ";".join(fmt(s) for s in strips)))
    # apply map: random triangles over a small vertex range and maps with -1 entries, short maps
    for _ in range(1500 if tier == "quick" else 20000):
        nv = rng.randint(0, 8)
        mp = []
        d = 0
        for i in range(nv):
            if rng.random() < 0.3:
                mp.append(-1)
            else:
                mp.append(d if rng.random() < 0.9 else rng.choice([65536 + d, 70000, 2147483647]))
                d += 1
        nt = rng.randint(0, 6)
        tris = [tuple(rng.randint(0, nv + 1) for _ in range(3)) for _ in range(nt)]
        if not tris:
            continue
        (w, sg) = rng.choice([(31, 1), (16, 0), (32, 0)])
        if not mp:
            continue
        cases.append("amt w=%d sg=%d tris=%s map=%s" % (w, sg, ";".join("%d:%d:%d" % t for t in tris), fmt(mp)))
    # random larger cases, including the 8-bit counter boundary (n = 255 is the largest legal size)
    for _ in range(150 if tier == "quick" else 1500):
        w = rng.choice(WIDTHS)
        n = rng.choice([254, 255]) if (w == 8 and rng.random() < 0.7) else rng.randint(0, 255 if w == 8 else (400 if tier == "quick" else 1500))
        k = rng.randint(0, min(n, 40))
        idx = sorted(rng.sample(range(n + 2), min(k, n + 2)))
        idx = [i for i in idx if w != 8 or i < 256]
        cases.append("erase w=%d n=%d idx=%s" % (w, n, fmt(idx)))
        if (w != 8 or n < 250) and idx:
            cases.append("collapse w=%d sg=0 n=%d idx=%s" % (w, n, fmt(idx)))
        # insert needs n + k below the width
        total = n if w != 8 else min(n, 255)
        pos = sorted(rng.sample(range(total), min(k, total))) if total else []
        cases.append("insert w=%d n=%d idx=%s" % (w, total - len(pos), fmt(pos)))
    # de-duplicate, keep order
    seen, out = set(), []
    for c in cases:
        if c not in seen:
            seen.add(c)
            out.append(c)
    return out


def nontrivial(case, out):
    """a case is non-trivial when something is actually removed / moved / produced"""
    op = case.split()[0]
    if op in ("erase", "insert", "collapse", "expand"):
        return "idx= " not in case + " " and not case.endswith("idx=") and out not in ("", "I=")
    return out not in ("I=", "I=|")


def evaluate(rep, cases, impl, model):
    """impl/model: lists of (case, line, crash). Returns stats."""
    mismatches, specfails = [], []
    for (c, il, crash), (_, ml, mcrash) in zip(impl, model):
        if mcrash is not None or ml is None:
            rep.violation("model oracle failed on a case", {"case": c, "model_crash": mcrash}, found_input=False)
            continue
        m = dict(p.split("=", 1) for p in ml.split(" ") if "=" in p)
        M, S = m.get("M", "?"), m.get("S", "?")
        if crash is not None:
            # a memory error / hang in the implementation: the case is the witness when it lies inside
            # the hypotheses of the safety statements (S != '-' or erase/amt/strips which have none)
            op = c.split()[0]
            inside = S != "-" or op in ("erase", "amt", "strips")
            if inside:
                rep.violation("implementation crashed (sanitizer/abort/timeout) on an input inside the theorem's hypotheses",
                              {"case": c, "family": "util", "crash": crash, "model": M, "spec": S})
            continue
        I = il[2:] if il.startswith("I=") else il
        if S != "-" and I != S:
            specfails.append((c, I, M, S))
        elif I != M and M not in ("FAULT", "OUTOFFUEL"):
            mismatches.append((c, I, M, S))
        elif M in ("FAULT", "OUTOFFUEL") and S != "-":
            mismatches.append((c, I, M, S))
    for (c, I, M, S) in specfails[:20]:
        rep.violation("utility result differs from its mathematical definition",
                      {"case": c, "family": "util", "impl": I, "model": M, "spec": S})
    if mismatches and not specfails:
        rep.violation("correspondence util (Coq loop model vs NifUtil.hpp) no longer holds; theorems of Properties_C18.v no longer speak about the code",
                      {"broken": "correspondence:util", "family": "util", "cases": [dict(case=c, impl=I, model=M, spec=S) for (c, I, M, S) in mismatches[:20]]},
                      found_input=False)
    return len(mismatches), len(specfails)


def run(tier, seed, replay=None):
    rep = vlib.Reporter(PID, tier, seed)
    hygiene = vlib.coq_hygiene()
    pr = vlib.coq_property(PID)
    cov = vlib.proof_coverage(pr, hygiene)
    if not pr["ok"] or hygiene:
        rep.violation("proof obligations of Properties_C18.v not discharged: " + ",".join(pr["failed"] or hygiene),
                      {"broken": "theorems " + ",".join(pr["failed"]), "log": pr["log"][-3000:], "hygiene": hygiene}, found_input=False)
    impl_bin = vlib.build_oracle("asan")
    model_bin = vlib.build_model_oracle()
    rng = random.Random(seed)
    if replay:
        r = json.load(open(replay))
        cases = [r["case"]] if "case" in r else [c["case"] for c in r.get("cases", [])]
    else:
        corpus = []
        try:
            corpus = [l.strip() for l in open(vlib.ROOT + "/corpus/C18/cases.txt") if l.strip() and not l.startswith("#")]
        except OSError:
            pass
        cases = corpus + gen_cases(tier, rng)
    impl = vlib.run_cases_robust(impl_bin, ["util"], cases, timeout_per_batch=300)
    model = vlib.run_cases_robust(model_bin, ["util"], cases, timeout_per_batch=600)
    nm, ns = evaluate(rep, cases, impl, model)
    ops = {}
    nontriv = set()
    for (c, il, crash) in impl:
        ops[c.split()[0]] = ops.get(c.split()[0], 0) + 1
        if il is not None and nontrivial(c, il):
            nontriv.add(c)
    cov.update({
        "evaluations": len(cases),
        "distinct_nontrivial": len(nontriv),
        "rule": "cases = exhaustive small scopes (all vector lengths <= %d with all sorted index subsets incl. one out-of-range position, all strips over 4 symbols up to length %d) + seeded random (counter-width boundaries 254/255 at w=8, unsorted/duplicate/out-of-range lists for erase); a case is non-trivial when its index list / triangle list is non-empty and the implementation's result is non-empty; distinct = distinct case lines" % (5 if tier == "quick" else 7, 6 if tier == "quick" else 8),
        "samples": cases[:3] + cases[len(cases) // 2:len(cases) // 2 + 3] + cases[-3:],
        "input_distribution": ops,
        "traces_validated_against_impl": len(cases),
        "correspondence_mismatches": nm,
        "spec_failures_on_impl": ns,
        "unproved": ["InsertVectorIndices: the content of the listed positions ('holes') is proved for a copying move (the model copies, so a hole keeps the old v[p] or the fill value); for element types with a destructive move the C++ leaves moved-from values there, which the property does not constrain and the check masks",
                     "ApplyIndexMapToMapKeys (NifUtil.hpp:132-151; no caller inside the library) is neither modelled nor tested"],
        "trusted_base": vlib.BASE_TRUSTED + ["modelled, not verified: std::vector (as list with faulting get/set), C integer conversions as explicit wrap"],
        "exhaustive": False,
    })
    return rep.finish(cov, ["vector lengths below 2^w (w = value bits of the index type); index lists strictly ascending for the functional statements (documented precondition); erase/apply-map/strips safety needs no precondition",
                            "insert: every index below |v| + |indices| and |v| + |indices| < 2^w (otherwise the guarded early return, proved for any list); expand: mapSize + |indices| < 2^w and < 2^31 (no counter wrap, entries fit an int)"])
