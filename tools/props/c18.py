"""C18 — index-remapping and strip utilities agree with their mathematical definition.

Proof: coq/Properties/Properties_C18.v (loop-faithful models of NifUtil.hpp = naive definitions,
for all inputs). Tie: the same cases through the C++ templates (ASan/UBSan build) and the extracted
models; the naive specs are evaluated on the implementation's outputs as failing-input search."""
import itertools
import json
import random

import vlib

PID = "C18"
WIDTHS = [8, 16, 32, 64]


def subsets(n):
    for k in range(n + 1):
        for c in itertools.combinations(range(n), k):
            yield list(c)


def fmt(l):
    return ",".join(str(x) for x in l)


def gen_cases(tier, rng):
    cases = []
    maxn = 5 if tier == "quick" else 7
    # erase: every vector length <= maxn, every sorted index subset over 0..n (one out of range), widths
    for n in range(maxn + 1):
        for idx in subsets(n + 1):
            for w in ([16, 32] if tier == "quick" else WIDTHS):
                cases.append("erase w=%d n=%d idx=%s" % (w, n, fmt(idx)))
        # out-of-range single indices and unsorted / duplicated lists (safety: any input)
        for idx in ([n], [n + 5], [250], [0, 0], [1, 0], [2, 2, 1], [n, 0]):
            cases.append("erase w=16 n=%d idx=%s" % (n, fmt(idx)))
    # insert: every (n, k) with n + k <= maxn, every strictly sorted position set, plus out of range
    for total in range(maxn + 1):
        for idx in subsets(total):
            n = total - len(idx)
            for w in ([16] if tier == "quick" else WIDTHS):
                cases.append("insert w=%d n=%d idx=%s" % (w, n, fmt(idx)))
        for n in range(total + 1):
            cases.append("insert w=16 n=%d idx=%s" % (n, fmt([total + 3])))
            cases.append("insert w=16 n=%d idx=%s" % (n, fmt([0, n + 2 + total])))
    # collapse / expand
    for n in range(maxn + 1):
        for idx in subsets(n + 2):
            for (w, sg) in ([(16, 0), (31, 1), (64, 0)] if tier == "quick" else [(8, 0), (16, 0), (32, 0), (64, 0), (31, 1)]):
                cases.append("collapse w=%d sg=%d n=%d idx=%s" % (w, sg, n, fmt(idx)))
                cases.append("expand w=%d sg=%d n=%d idx=%s" % (w, sg, n, fmt(idx)))
    # strips over 4 symbols up to length maxn (+1 in thorough), two strips for short ones
    L = 6 if tier == "quick" else 8
    for ln in range(L + 1):
        for s in itertools.product(range(4), repeat=ln):
            if ln == 0:
                continue
            cases.append("strips w=16 strips=%s" % fmt(s))
    for _ in range(300 if tier == "quick" else 3000):
        k = rng.randint(1, 4)
        strips = [[rng.choice([0, 1, 2, 3, 65535, 65536, 65537, 70000]) for _ in range(rng.randint(1, 9))] for _ in range(k)]
        cases.append("strips w=%d strips=%s" % (rng.choice([16, 32]), ";".join(fmt(s) for s in strips)))
    # apply map: random triangles over a small vertex range and maps with -1 entries, short maps
    for _ in range(1500 if tier == "quick" else 20000):
        nv = rng.randint(0, 8)
        mp = []
        d = 0
        for i in range(nv):
            if rng.random() < 0.3:
                mp.append(-1)
            else:
                mp.append(d if rng.random() < 0.9 else rng.choice([65536 + d, 70000, 2147483647]))
                d += 1
        nt = rng.randint(0, 6)
        tris = [tuple(rng.randint(0, nv + 1) for _ in range(3)) for _ in range(nt)]
        if not tris:
            continue
        (w, sg) = rng.choice([(31, 1), (16, 0), (32, 0)])
        if not mp:
            continue
        cases.append("amt w=%d sg=%d tris=%s map=%s" % (w, sg, ";".join("%d:%d:%d" % t for t in tris), fmt(mp)))
    # random larger cases, including the 8-bit counter boundary (n = 255 is the largest legal size)
    for _ in range(150 if tier == "quick" else 1500):
        w = rng.choice(WIDTHS)
        n = rng.choice([254, 255]) if (w == 8 and rng.random() < 0.7) else rng.randint(0, 255 if w == 8 else (400 if tier == "quick" else 1500))
        k = rng.randint(0, min(n, 40))
        idx = sorted(rng.sample(range(n + 2), min(k, n + 2)))
        idx = [i for i in idx if w != 8 or i < 256]
        cases.append("erase w=%d n=%d idx=%s" % (w, n, fmt(idx)))
        if (w != 8 or n < 250) and idx:
            cases.append("collapse w=%d sg=0 n=%d idx=%s" % (w, n, fmt(idx)))
        # insert needs n + k below the width
        total = n if w != 8 else min(n, 255)
        pos = sorted(rng.sample(range(total), min(k, total))) if total else []
        cases.append("insert w=%d n=%d idx=%s" % (w, total - len(pos), fmt(pos)))
    cases += gen_mapkeys(tier, rng)
    # de-duplicate, keep order
    seen, out = set(), []
    for c in cases:
        if c not in seen:
            seen.add(c)
            out.append(c)
    return out


def collapse_map(idx, n):
    m, d = [], 0
    for i in range(n):
        if i in idx:
            m.append(-1)
        else:
            m.append(d)
            d += 1
    return m


def expand_map(idx, n):
    m, d = [], 0
    for _ in range(n):
        while d in idx:
            d += 1
        m.append(d)
        d += 1
    return m


def mk_case(w, cont, keys, im, off):
    return "mapkeys w=%d c=%s keys=%s vals=%s map=%s off=%d" % (w, cont, fmt(keys), fmt(range(100, 100 + len(keys))), fmt(im), off)


MK_TYPES = [(31, "m"), (31, "u"), (16, "m"), (16, "u"), (32, "m"), (32, "u")]


def gen_mapkeys(tier, rng):
    """ApplyIndexMapToMapKeys: w = value bits of the key type (31 = int, 16 = uint16_t, 32 = uint32_t),
    c = m (std::map) / u (std::unordered_map). Keys are listed in random order (the container decides
    the iteration order); values are 100, 101, ... so that every entry is recognisable."""
    cases = []
    quick = tier == "quick"
    # exhaustive small scope: every key subset of a small universe x every short index map over
    # {-1, 0, 1, 3} (deleted / collisions / gaps) x a few offsets, for two container/key types
    universe = [0, 1, 2, 3, 5]
    maxlen = 2 if quick else 3
    maps = [list(m) for ln in range(maxlen + 1) for m in itertools.product([-1, 0, 1, 3], repeat=ln)]
    for (w, cont) in ([(31, "m"), (16, "u")] if quick else MK_TYPES):
        for keys in subsets_of(universe):
            for im in maps:
                for off in (-1, 0, 2):
                    cases.append(mk_case(w, cont, keys, im, off))
    # the intended use: collapse map of a deletion with defaultOffset = -(number deleted), expand map
    # of an insertion with defaultOffset = +(number inserted); keys inside and beyond the map
    for _ in range(1200 if quick else 12000):
        (w, cont) = rng.choice(MK_TYPES)
        n = rng.randint(0, 24)
        idx = sorted(rng.sample(range(n), rng.randint(0, min(n, 6)))) if n else []
        if rng.random() < 0.7:
            im, off = collapse_map(set(idx), n), -len(idx)
        else:
            im, off = expand_map(set(idx), n), len(idx)
        pool = list(range(0, n + 8))
        if w == 31 and rng.random() < 0.15:
            pool += [-1, -2, -5]
        keys = rng.sample(pool, rng.randint(0, min(len(pool), 12)))
        cases.append(mk_case(w, cont, keys, im, off))
    # malformed stream: keys missing from the map, non-injective maps, negative/deleted targets,
    # empty map, targets that do not fit the key type (wrap), large offsets
    for _ in range(800 if quick else 8000):
        (w, cont) = rng.choice(MK_TYPES)
        n = rng.choice([0, 0, 1, 2, 3, 5, 8])
        vals = [-1, -2, -2147483648, 0, 1, 2, 3, 4, 7] + ([65535, 65536, 65537, 70000, 2147483647] if rng.random() < 0.3 else [])
        im = [rng.choice(vals) for _ in range(n)]
        hi = {31: 2147483647, 16: 65535, 32: 4294967295}[w]
        pool = list(range(0, n + 6)) + [hi, hi - 1, 40000]
        if w == 31:
            pool += [-1, -2, -7, -2147483648]
        keys = rng.sample(pool, rng.randint(0, min(len(pool), 8)))
        off = rng.choice([0, 0, -1, 1, -3, 5, -n, -70000, 65536, 65535, -65536])
        # keep int + int inside the int range here: overflow is undefined behaviour (separate cases below)
        if w != 32 and any((k < 0 or k >= n) and not (-2147483648 <= k + off <= 2147483647) for k in keys):
            continue
        cases.append(mk_case(w, cont, keys, im, off))
    # undefined behaviour: d.first + defaultOffset overflows a signed int (the model faults, the
    # sanitizer build must trap). Kept last: each of them ends the oracle process.
    # (a harmless case in front of each, so that the crashing case is never the first line of a process)
    cases.append(mk_case(31, "m", [1, 2147483646], [0], 1))
    cases.append(mk_case(31, "m", [1, 2147483647], [0], 1))
    cases.append(mk_case(31, "u", [-2147483647, 0], [0], -1))
    cases.append(mk_case(31, "u", [-2147483648, 0], [0], -1))
    # uint16_t keys: g++ narrows (uint16_t)(int + int) to 16-bit arithmetic, so the sanitizer does
    # not see this overflow; the C++ standard still calls it undefined (either outcome is accepted)
    cases.append(mk_case(16, "m", [65534], [], 1))
    cases.append(mk_case(16, "m", [65535], [], 2147483647))
    return cases


def subsets_of(univ):
    for k in range(len(univ) + 1):
        for c in itertools.combinations(univ, k):
            yield list(c)


def mapkeys_model_case(case, impl_line):
    """the loop model takes the container's iteration order as an input: for an unordered_map it is
    whatever the implementation reported (second half of its output line)"""
    if not case.startswith("mapkeys ") or " c=u " not in case + " " or impl_line is None or "@" not in impl_line:
        return case
    return case + " ord=" + impl_line.split("@", 1)[1]


def nontrivial(case, out):
    """a case is non-trivial when something is actually removed / moved / produced"""
    op = case.split()[0]
    if op == "mapkeys":
        return " keys= " not in case + " " and not out.startswith("I=@")
    if op in ("erase", "insert", "collapse", "expand"):
        return "idx= " not in case + " " and not case.endswith("idx=") and out not in ("", "I=")
    return out not in ("I=", "I=|")


def evaluate(rep, cases, impl, model):
    """impl/model: lists of (case, line, crash). Returns stats."""
    mismatches, specfails = [], []
    for (c, il, crash), (_, ml, mcrash) in zip(impl, model):
        if mcrash is not None or ml is None:
            rep.violation("model oracle failed on a case", {"case": c, "model_crash": mcrash}, found_input=False)
            continue
        m = dict(p.split("=", 1) for p in ml.split(" ") if "=" in p)
        M, S = m.get("M", "?"), m.get("S", "?")
        op = c.split()[0]
        if crash is not None:
            # a memory error / hang in the implementation: the case is the witness when it lies inside
            # the hypotheses of the safety statements (S != '-' or erase/amt/strips which have none;
            # mapkeys: C18_mapkeys_defined says for ALL inputs that the only fault is the signed
            # overflow of d.first + defaultOffset, which is exactly when the model says FAULT)
            inside = S != "-" or op in ("erase", "amt", "strips") or (op == "mapkeys" and M != "FAULT")
            if inside:
                rep.violation("implementation crashed (sanitizer/abort/timeout) on an input inside the theorem's hypotheses",
                              {"case": c, "family": "util", "crash": crash, "model": M, "spec": S})
            continue
        I = il[2:] if il.startswith("I=") else il
        if op == "mapkeys":
            I, order = I.split("@", 1) if "@" in I else (I, "")
            keys = [int(x) for x in dict(p.split("=", 1) for p in c.split()[1:]).get("keys", "").split(",") if x]
            if " c=m " in c + " " and order != fmt(sorted(keys)):
                mismatches.append((c, "iteration order of std::map " + order, "ascending keys", S))
                continue
            if sorted(int(x) for x in order.split(",") if x) != sorted(keys):
                mismatches.append((c, "input container holds " + order, "keys " + fmt(sorted(keys)), S))
                continue
            if M == "FAULT":
                # the model says undefined behaviour (signed overflow of int + int). With int keys the
                # sanitizer build must trap; with uint16_t keys g++ narrows the addition (no trap)
                if " w=31 " in c + " ":
                    mismatches.append((c, I, M, S))
                continue
        if S != "-" and I != S:
            specfails.append((c, I, M, S))
        elif I != M and M not in ("FAULT", "OUTOFFUEL"):
            mismatches.append((c, I, M, S))
        elif M in ("FAULT", "OUTOFFUEL") and S != "-":
            mismatches.append((c, I, M, S))
    for (c, I, M, S) in specfails[:20]:
        rep.violation("utility result differs from its mathematical definition",
                      {"case": c, "family": "util", "impl": I, "model": M, "spec": S})
    if mismatches and not specfails:
        rep.violation("correspondence util (Coq loop model vs NifUtil.hpp) no longer holds; theorems of Properties_C18.v no longer speak about the code",
                      {"broken": "correspondence:util", "family": "util", "cases": [dict(case=c, impl=I, model=M, spec=S) for (c, I, M, S) in mismatches[:20]]},
                      found_input=False)
    return len(mismatches), len(specfails)


def run(tier, seed, replay=None):
    rep = vlib.Reporter(PID, tier, seed)
    hygiene = vlib.coq_hygiene()
    pr = vlib.coq_property(PID)
    cov = vlib.proof_coverage(pr, hygiene)
    if not pr["ok"] or hygiene:
        rep.violation("proof obligations of Properties_C18.v not discharged: " + ",".join(pr["failed"] or hygiene),
                      {"broken": "theorems " + ",".join(pr["failed"]), "log": pr["log"][-3000:], "hygiene": hygiene}, found_input=False)
    impl_bin = vlib.build_oracle("asan")
    model_bin = vlib.build_model_oracle()
    rng = random.Random(seed)
    if replay:
        r = json.load(open(replay))
        cases = [r["case"]] if "case" in r else [c["case"] for c in r.get("cases", [])]
    else:
        corpus = []
        try:
            corpus = [l.strip() for l in open(vlib.ROOT + "/corpus/C18/cases.txt") if l.strip() and not l.startswith("#")]
        except OSError:
            pass
        cases = corpus + gen_cases(tier, rng)
    # block by block: a tree in which very many cases trap (one oracle restart per trap) is reported
    # after the first 40 traps instead of after all of them; the cases not run are dropped
    impl, ncrash = [], 0
    for k in range(0, len(cases), 500):
        part = vlib.run_cases_robust(impl_bin, ["util"], cases[k:k + 500], timeout_per_batch=300, batch=500)
        impl += part
        ncrash += sum(1 for (_, _, cr) in part if cr is not None)
        if ncrash > 40:
            vlib.log("C18: %d crashing cases so far, skipping the remaining %d cases" % (ncrash, len(cases) - len(impl)))
            break
    cases = cases[:len(impl)]
    mcases = [mapkeys_model_case(c, il) for (c, il, _) in impl]
    model = vlib.run_cases_robust(model_bin, ["util"], mcases, timeout_per_batch=600)
    nm, ns = evaluate(rep, cases, impl, model)
    ops = {}
    nontriv = set()
    for (c, il, crash) in impl:
        ops[c.split()[0]] = ops.get(c.split()[0], 0) + 1
        if il is not None and nontrivial(c, il):
            nontriv.add(c)
    cov.update({
        "evaluations": len(cases),
        "distinct_nontrivial": len(nontriv),
        "rule": "cases = exhaustive small scopes (all vector lengths <= %d with all sorted index subsets incl. one out-of-range position, all strips over 4 symbols up to length %d) + seeded random (counter-width boundaries 254/255 at w=8, unsorted/duplicate/out-of-range lists for erase); mapkeys: every key subset of {0,1,2,3,5} x every index map of length <= %d over {-1,0,1,3} x offsets {-1,0,2}, random collapse/expand-map uses, a malformed stream (keys missing from the map, non-injective maps, negative targets, empty map, targets that wrap in the key type) and three signed-overflow inputs that must trap; a case is non-trivial when its index list / triangle list / key list is non-empty and the implementation's result is non-empty; distinct = distinct case lines" % (5 if tier == "quick" else 7, 6 if tier == "quick" else 8, 2 if tier == "quick" else 3),
        "samples": cases[:3] + cases[len(cases) // 2:len(cases) // 2 + 3] + cases[-3:],
        "input_distribution": ops,
        "traces_validated_against_impl": len(cases),
        "correspondence_mismatches": nm,
        "spec_failures_on_impl": ns,
        "unproved": ["InsertVectorIndices: the content of the listed positions ('holes') is proved for a copying move (the model copies, so a hole keeps the old v[p] or the fill value); for element types with a destructive move the C++ leaves moved-from values there, which the property does not constrain and the check masks",
                     "ApplyIndexMapToMapKeys: modelled for key types int / uint16_t / uint32_t and tested with std::map and std::unordered_map of those; other key types (64-bit, narrow signed) are not modelled. The iteration order of an unordered_map is an input of the model (taken from the implementation's run), not something the model predicts; std::map's ascending order is checked on every case. The library itself never calls the function"],
        "trusted_base": vlib.BASE_TRUSTED + ["modelled, not verified: std::vector (as list with faulting get/set), C integer conversions as explicit wrap, std::map / std::unordered_map as a list of entries with ascending unique keys under insert-or-overwrite (iteration order of an unordered_map taken from the implementation)"],
        "exhaustive": False,
    })
    return rep.finish(cov, ["vector lengths below 2^w (w = value bits of the index type); index lists strictly ascending for the functional statements (documented precondition); erase/apply-map/strips safety needs no precondition",
                            "insert: every index below |v| + |indices| and |v| + |indices| < 2^w (otherwise the guarded early return, proved for any list); expand: mapSize + |indices| < 2^w and < 2^31 (no counter wrap, entries fit an int)",
                            "map keys: defined behaviour for ALL inputs except signed overflow of key + defaultOffset (C18_mapkeys_defined); equality with the naive definition needs every new key to be a value of the key type (mk_fits); 'no entry lost' needs the renaming to be injective on the surviving keys (mk_injective; proved for collapse map + offset -(number deleted)); otherwise the entry later in iteration order wins (C18_mapkeys_lookup_last, C18_mapkeys_length)"])
