"""C19 — Texture path clean-up is canonical and idempotent.

Proof: coq/Properties/Properties_C19.v about `clean`, the step-by-step model of the lambda fTrimPath
of NifFile::TrimTexturePaths (coq/Path/PathModel.v, the code as repaired by fixes/C19-*.patch), for
all byte lists: blank -> empty, no '/', no trailing whitespace, single backslashes, canonical form
and idempotence for the prefixing games (terrain or not), canonical + idempotent for OB/Special
exactly outside two defect classes; the unconditional statements for OB/Special are REFUTED with
witnesses.

Tie: every case goes through the real NifFile (ASan/UBSan build; texture set entry, effect shader
texture, NiSourceTexture via NiTexturingProperty; explicit TrimTexturePaths twice, and Save+Load)
and through the extracted model. The extracted `canonical` predicate is evaluated on the
IMPLEMENTATION's outputs and idempotence is tested on the implementation (clean vs clean-clean):
that is the failing-input search. Failures that fall into a class recorded as "known" in
known_findings.json (and on which the implementation agrees with the model, whose behaviour there is
proved) are reported as KNOWN-FINDING; failures in a class recorded as "fixed" mean the repaired
defect is back and are VIOLATIONs, as is everything else."""
import concurrent.futures as cf
import hashlib
import itertools
import json
import random

import vlib

PID = "C19"

# needs_prefix = !IsOB() && !IsSpecial()
NP_OF = {"OB": 0, "SPECIAL": 0, "FO3": 1, "SK": 1, "SSE": 1, "FO4": 1, "FO76": 1, "SF": 1}
# (version, kind) -> slots usable through Get/SetTextureSlot; load = survives Save + Load
SET_SLOTS = {"OB": 6, "SPECIAL": 6, "FO3": 6, "SK": 9, "SSE": 9, "FO4": 10, "FO76": 10, "SF": 9}
EFF_SLOTS = [0, 1, 3, 4, 5]
# target = (version, kind, slots for the explicit clean-up, slots that survive Save+Load, terrain_ok)
# (measured on the pinned tree: SF does not write the texture set, SK/SSE effect shaders only write
#  source and greyscale texture, FO3 writes six NiTexturingProperty slots through this API; the
#  terrain flag can only be set through Load, so a target that does not survive Load has no terrain)
TARGETS = []
for _v, _n in SET_SLOTS.items():
    TARGETS.append((_v, "set", list(range(_n)), list(range(_n)) if _v != "SF" else [], _v != "SF"))
for _v in ("OB", "SPECIAL"):
    TARGETS.append((_v, "src", list(range(10)), list(range(6)), True))
TARGETS.append(("FO3", "src", list(range(6)), list(range(6)), True))
for _v in ("SK", "SSE"):
    TARGETS.append((_v, "eff", EFF_SLOTS, [0, 3], True))
for _v in ("FO4", "FO76", "SF"):
    TARGETS.append((_v, "eff", EFF_SLOTS, EFF_SLOTS, True))

TOKENS = [b"/", b"\\", b" ", b".", b"a", b"T", b"\n", b"textures", b"data", b"Textures"]
WS = b"\t\n\x0b\x0c\r "

# witnesses of the *_refuted theorems of Properties_C19.v (np, terrain, path) + the repository's test
WITNESSES = [
    (0, 0, b"a\\textures\\b\\textures\\c.dds"),   # C19_clean_idem_refuted_ob / _canonical_refuted_ob
    (0, 1, b"a\\textures\\b\\textures\\c.dds"),   # C19_clean_idem_refuted_ob_terrain
    (0, 0, b"\\ a"),                               # C19_clean_canonical_refuted_ob_ws
    (0, 0, b"x\n\\textures\\a"),                   # C19_clean_canonical_refuted_ob_newline
    # inputs of the repaired defects (regression): mixed separators, terrain re-strip
    (1, 0, b"a/\\b"), (0, 0, b"a\\/b"), (1, 1, b"x/\\/\\y"),
    (1, 1, b"textures\\textures\\x"), (1, 1, b"Data\\textures\\textures\\x"), (1, 1, b"TEXTURES\\a"),
    (1, 1, b"Data\\TEXTURES\\a"), (0, 1, b"textures\\a"), (0, 1, b"Data\\textures\\a"), (1, 1, b"data/Textures/a"),
    (1, 0, b"Data\\textures\\a"),
    (1, 0, b" \\Data\\\\Textures//white.dds\r\n  "),
    (1, 1, b" \\Data\\\\Textures//white.dds\r\n  "),
    (0, 0, b" \\Data\\\\Textures//white.dds\r\n  "),
    (1, 0, b" "), (0, 1, b" \t\r\n"), (1, 1, b""),
]


def targets_for(np, kinds=("set", "src", "eff"), load=False, terrain=0):
    return [t for t in TARGETS if NP_OF[t[0]] == np and t[1] in kinds and (t[3] or not load) and (t[4] or not terrain)]


def case_line(op, v, kind, slot, terrain, p):
    return "%s v=%s kind=%s slot=%d np=%d terrain=%d p=%s" % (op, v, kind, slot, NP_OF[v], terrain, p.hex())


def pick(rng, np, terrain, op="clean", eff_share=0.2):
    """a (version, kind, slot) for the configuration; effect shaders only where np = 1 (there is no
    effect shader in OB files)"""
    if np == 1 and rng.random() < eff_share:
        ts = targets_for(np, ("eff",), op == "load", terrain)
    else:
        ts = targets_for(np, ("set", "src"), op == "load", terrain)
    v, kind, slots, lslots, _ = rng.choice(ts)
    return v, kind, rng.choice(lslots if op == "load" else slots)


def random_path(rng, maxlen):
    pieces = [b"/", b"\\", b"//", b"\\\\", b"/\\", b" ", b"\t", b"\r\n", b"\n", b".", b"..", b".dds", b"a", b"T",
              b"textures", b"Textures", b"TEXTURES", b"texture", b"\\textures\\", b"textures\\", b"data", b"Data\\",
              b"DATA/", b"C:\\", b"c:/", b"\\\\server\\share\\", b"//server/share/", b"\x00", b"\x80", b"\xa0", b"\xff",
              b"\xc3\xa9", b"\xe2\x80\xa8", b"\x85", b"\x0b", b"\x0c"]
    n = rng.choice([rng.randint(0, 12), rng.randint(0, 60), rng.randint(0, maxlen)])
    mode = rng.random()
    out = bytearray()
    while len(out) < n:
        r = rng.random()
        if mode < 0.25:
            out.append(rng.randrange(256))
        elif r < 0.55:
            out += rng.choice(pieces)
        elif r < 0.8:
            out += bytes(rng.choice(b"abcxyzTEXUR_-0123") for _ in range(rng.randint(1, 8)))
        else:
            out.append(rng.randrange(256))
    return bytes(out[:maxlen])


def gen_cases(tier, rng):
    quick = tier == "quick"
    cases = []
    # 1. witnesses of the refutation theorems, on every target of their configuration
    for (np, terrain, p) in WITNESSES:
        for (v, kind, slots, lslots, _t) in targets_for(np, ("set", "src", "eff"), terrain=terrain):
            cases.append(case_line("clean", v, kind, slots[0], terrain, p))
            if lslots:
                cases.append(case_line("load", v, kind, lslots[0], terrain, p))
    # 2. exhaustive over the token alphabet: all four configurations up to `full` tokens, one
    #    configuration per path (rotating) above that
    maxtok, full = (4, 4) if quick else (6, 5)
    k = 0
    for n in range(maxtok + 1):
        for toks in itertools.product(TOKENS, repeat=n):
            p = b"".join(toks)
            confs = [(0, 0), (0, 1), (1, 0), (1, 1)] if n <= full else [((k >> 1) & 1, k & 1)]
            k += 1
            for (np, terrain) in confs:
                v, kind, slot = pick(rng, np, terrain)
                cases.append(case_line("clean", v, kind, slot, terrain, p))
    # 3. every slot of every target once (slot coverage), incl. the effect shader fields
    for (v, kind, slots, lslots, terrain_ok) in TARGETS:
        for slot in slots:
            for terrain in ((0, 1) if terrain_ok else (0,)):
                p = b" //x\\Textures/\\" + bytes([97 + slot]) + b" .dds \n"
                cases.append(case_line("clean", v, kind, slot, terrain, p))
                if slot in lslots:
                    cases.append(case_line("load", v, kind, slot, terrain, p))
    # 4. random byte strings (non-UTF-8 bytes, NUL, drive and UNC prefixes, words in mixed case)
    nrand, maxlen = (4000, 200) if quick else (30000, 4096)
    for _ in range(nrand):
        p = random_path(rng, maxlen)
        np, terrain = rng.randint(0, 1), rng.randint(0, 1)
        v, kind, slot = pick(rng, np, terrain)
        cases.append(case_line("clean", v, kind, slot, terrain, p))
    # 5. the Load path (Save to memory, Load -> PrepareData -> TrimTexturePaths)
    nload = 1500 if quick else 12000
    small = [b"".join(t) for n in range(3) for t in itertools.product(TOKENS, repeat=n)]
    for i in range(nload):
        p = small[i] if i < len(small) else random_path(rng, 200 if quick else 1024)
        np, terrain = rng.randint(0, 1), rng.randint(0, 1)
        v, kind, slot = pick(rng, np, terrain, "load")
        cases.append(case_line("load", v, kind, slot, terrain, p))
    # 6. long inputs of the shapes that drive std::regex's recursion deepest (a few KiB: inside the
    #    property's "realistic length")
    for n in ([1024, 4096] if quick else [1024, 4096, 8192]):
        for p in (b"a" * n, b"a" * n + b"\\textures\\x", b"/" * n + b"x", b"/\\" * (n // 2) + b"x", b"\\a" * (n // 2),
                  b" " * n, b" " * n + b"x" + b" " * n, b"textures\\" * (n // 9), b"\\textures" * (n // 9), b"\n" * n + b"x\\textures\\y"):
            for (np, terrain) in [(0, 0), (1, 1)]:
                v, kind, slot = pick(rng, np, terrain, eff_share=0)
                cases.append(case_line("clean", v, kind, slot, terrain, p))
    seen, out = set(), []
    for c in cases:
        if c not in seen:
            seen.add(c)
            out.append(c)
    return out


# ------------------------------------------------------------------------------------------------
# classification of spec failures into the recorded classes (known_findings.json, property C19)


def lower(b):
    return bytes(c + 32 if 65 <= c <= 90 else c for c in b)


def has_mixed(p):
    return any(a in b"/\\" and b in b"/\\" and a != b for a, b in zip(p, p[1:]))


def cstr(p):
    return p.split(b"\x00")[0]


def matches(match, f):
    """f: facts of one case. Every key of the recorded matcher must hold."""
    for k, want in match.items():
        if k == "op":
            ok = f["op"] in want
        elif k == "kind":
            ok = f["kind"] in want
        elif k in ("np", "terrain"):
            ok = f[k] == want
        elif k == "first_clean_contains_ci":
            ok = lower(want.encode()) in lower(f["I"])
        elif k == "first_clean_contains":
            ok = want.encode() in f["I"]
        elif k == "first_clean_starts_with_space":
            ok = (len(f["I"]) > 0 and f["I"][0] in WS) == want
        elif k == "input_has_mixed_separators":
            ok = has_mixed(f["p"]) == want
        elif k == "first_clean_equals_input":
            ok = (f["I"] == f["p"]) == want
        elif k == "first_clean_data_textures_restrip":
            i = f["I"]
            shaped = lower(i[:14]) == b"data\\textures\\"
            ok = (shaped and (i[5:14] != b"textures\\" or lower(i[14:23]) == b"textures\\")) == want
        elif k == "impl_agrees_with_model":
            ok = f["agrees"] == want
        else:
            ok = False
        if not ok:
            return False
    return True


def parse_kv(line):
    return dict(t.split("=", 1) for t in line.split(" ")[1:] if "=" in t)


def run_parallel(binp, fam, cases, timeout_per_batch, batch):
    """run_cases_robust over NPROC interleaved slices in parallel (slice k takes cases k, k+n, ...,
    so that the expensive long / Save+Load cases spread evenly); original order restored"""
    if not cases:
        return []
    n = max(1, min(vlib.NPROC, (len(cases) + 199) // 200))
    chunks = [cases[k::n] for k in range(n)]
    with cf.ThreadPoolExecutor(max_workers=n) as ex:
        res = list(ex.map(lambda ch: vlib.run_cases_robust(binp, [fam], ch, timeout_per_batch=timeout_per_batch, batch=batch), chunks))
    out = [None] * len(cases)
    for k, r in enumerate(res):
        out[k::n] = r
    return out


def new_stats():
    return {"mismatch": 0, "specfail": 0, "known": {}, "crash": 0, "exceptions": 0, "idem_checked": 0, "canon_checked": 0,
            "validated": 0, "unexplained": 0, "fixed_back": {}, "mism_samples": [], "harness_err": [], "nontriv": set(), "dist": {}}


def evaluate(rep, stats, impl, model, model_bin):
    """one block of cases: impl/model = lists of (case, line, crash)"""
    known = {k["id"]: k for k in rep.known}
    fixed = {k["id"]: k for k in vlib.load_known() if k.get("property") == PID and k.get("status") == "fixed"}
    facts, harness_err = [], stats["harness_err"]
    for (c, il, crash), (_, ml, mcrash) in zip(impl, model):
        kv = parse_kv(c)
        f = {"case": c, "op": c.split(" ")[0], "kind": kv["kind"], "np": int(kv["np"]), "terrain": int(kv["terrain"]),
             "raw": bytes.fromhex(kv["p"]), "v": kv["v"]}
        f["p"] = cstr(f["raw"]) if f["op"] == "load" else f["raw"]
        if mcrash is not None or ml is None or not ml.startswith("M="):
            rep.violation("model oracle failed on a case", {"case": c, "model_crash": mcrash, "model_line": ml}, found_input=False)
            continue
        m = dict(t.split("=", 1) for t in ml.split(" ") if "=" in t)
        f["M"], f["M2"], f["S"] = bytes.fromhex(m["M"]), bytes.fromhex(m["M2"]), m["S"]
        if crash is not None:
            stats["crash"] += 1
            rep.violation("texture path clean-up crashed or hung (sanitizer report / abort / timeout): the clean-up must never throw or loop",
                          {"case": c, "family": "path", "crash": crash, "model": m["M"], "path_len": len(f["raw"])})
            continue
        i = dict(t.split("=", 1) for t in (il or "").split(" ") if "=" in t)
        if i.get("I", "").startswith("EXC:"):
            stats["exceptions"] += 1
            rep.violation("texture path clean-up threw an exception: the clean-up must never throw",
                          {"case": c, "family": "path", "impl": il, "path_len": len(f["raw"])})
            continue
        if "I" not in i or "J" not in i or i["I"].startswith("ERR:"):
            harness_err.append({"case": c, "impl": il})
            continue
        f["I"], f["J"] = bytes.fromhex(i["I"]), bytes.fromhex(i["J"])
        f["agrees"] = (f["I"], f["J"]) == (f["M"], f["M2"])
        facts.append(f)
    # the spec on the IMPLEMENTATION's outputs: canonical (extracted predicate) and idempotence
    keys = sorted({(f["np"], f["terrain"], f["I"]) for f in facts})
    canon_lines = ["canon np=%d terrain=%d p=%s" % (np, t, i.hex()) for (np, t, i) in keys]
    canon = {}
    for k, (_, l, cr) in zip(keys, run_parallel(model_bin, "path", canon_lines, 600, 5000)):
        if cr is not None or l not in ("S=1", "S=0"):
            rep.violation("model oracle failed to evaluate the canonical-form predicate", {"case": canon_lines[keys.index(k)], "line": l}, found_input=False)
            canon[k] = None
        else:
            canon[k] = l == "S=1"
    unexplained, mism = [], stats["mism_samples"]
    for f in facts:
        stats["validated"] += 1
        key = "%s np=%d terrain=%d %s" % (f["op"], f["np"], f["terrain"], f["kind"])
        stats["dist"][key] = stats["dist"].get(key, 0) + 1
        if f["I"] != f["p"] and f["I"] != b"":
            stats["nontriv"].add(hashlib.blake2b(b"%d%d" % (f["np"], f["terrain"]) + f["p"], digest_size=8).digest())
        can = canon.get((f["np"], f["terrain"], f["I"]))
        idem = f["I"] == f["J"]
        blank_ok = f["I"] == b"" if all(ch in WS for ch in f["p"]) else True
        stats["idem_checked"] += 1
        stats["canon_checked"] += 1
        fails = [n for n, ok in (("not-canonical", can is not False), ("not-idempotent", idem), ("blank-not-empty", blank_ok)) if not ok]
        f["fails"] = fails
        if fails or not f["agrees"]:
            if fails:
                stats["specfail"] += 1
            hit = [kid for kid, k in known.items() if matches(k.get("match", {}), f)]
            # a repaired defect coming back: the model describes the repaired code, so agreement with
            # the model is not asked for here
            back = [kid for kid, k in fixed.items()
                    if matches({a: b for a, b in k.get("match", {}).items() if a != "impl_agrees_with_model"}, f)]
            if hit:
                for kid in hit:
                    stats["known"][kid] = stats["known"].get(kid, 0) + 1
                    rep.known_finding(kid, f["case"])
            elif back:
                stats["fixed_back"][back[0]] = stats["fixed_back"].get(back[0], 0) + 1
                if stats["fixed_back"][back[0]] <= 5:
                    rep.violation("the repaired defect %s is back: texture path %r is cleaned to %r, then %r (%s, %s slot)" %
                                  (back[0], f["p"][:60], f["I"][:60], f["J"][:60], f["v"], f["kind"]) if stats["fixed_back"][back[0]] == 1 else
                                  "the repaired defect %s is back" % back[0], dict(show(f), family="path", finding=back[0]))
            elif fails:
                unexplained.append(f)
            else:
                stats["mismatch"] += 1
                if len(mism) < 20:
                    mism.append(show(f))

    for f in unexplained:
        stats["unexplained"] += 1
        if stats["unexplained"] > 20:
            continue
        rep.violation("texture path after clean-up is %s (%s, %s slot): %r -> %r -> %r" %
                      (" and ".join(f["fails"]), f["v"], f["kind"], f["p"][:60], f["I"][:60], f["J"][:60]) if len(unexplained) == 1 and stats["unexplained"] == 1 else
                      "texture path after clean-up is not canonical / not idempotent / blank not emptied, outside the recorded defect classes",
                      dict(show(f), family="path"))


def show(f):
    return {"case": f["case"], "input": repr(f["p"]), "impl_clean": repr(f["I"]), "impl_clean_clean": repr(f["J"]),
            "model_clean": repr(f["M"]), "model_clean_clean": repr(f["M2"]), "fails": f.get("fails", [])}


def finish_eval(rep, stats):
    if stats["harness_err"]:
        rep.violation("path oracle could not run %d case(s) against the current tree (texture slot API / serialisation of the slot changed?)" % len(stats["harness_err"]),
                      {"family": "path", "broken": "harness:o_path", "cases": stats["harness_err"][:20]}, found_input=False)
    if stats["mism_samples"] and not stats["unexplained"]:
        rep.violation("correspondence path (Coq model clean vs NifFile::TrimTexturePaths) no longer holds; theorems of Properties_C19.v no longer speak about the code",
                      {"broken": "correspondence:path", "family": "path", "cases": stats["mism_samples"]}, found_input=False)


def run(tier, seed, replay=None):
    rep = vlib.Reporter(PID, tier, seed)
    hygiene = vlib.coq_hygiene()
    pr = vlib.coq_property(PID)
    cov = vlib.proof_coverage(pr, hygiene)
    if not pr["ok"] or hygiene:
        rep.violation("proof obligations of Properties_C19.v not discharged: " + ",".join(pr["failed"] or hygiene),
                      {"broken": "theorems " + ",".join(pr["failed"]), "log": pr["log"][-3000:], "hygiene": hygiene}, found_input=False)
    impl_bin = vlib.build_oracle("asan")
    model_bin = vlib.build_model_oracle()
    rng = random.Random(seed)
    if replay:
        r = json.load(open(replay))
        cases = [r["case"]] if "case" in r else [c["case"] for c in r.get("cases", [])]
    else:
        corpus = []
        try:
            corpus = [l.strip() for l in open(vlib.ROOT + "/corpus/C19/cases.txt") if l.strip() and not l.startswith("#")]
        except OSError:
            pass
        cases = corpus + gen_cases(tier, rng)
    stats = new_stats()
    BLOCK = 120000     # bounded memory: cases are run and judged block by block
    for b in range(0, len(cases), BLOCK):
        blk = cases[b:b + BLOCK]
        impl = run_parallel(impl_bin, "path", blk, 900, 1500)
        model = run_parallel(model_bin, "path", blk, 900, 5000)
        evaluate(rep, stats, impl, model, model_bin)
        if len(cases) > BLOCK:
            vlib.log("C19: %d / %d cases judged" % (min(b + BLOCK, len(cases)), len(cases)))
    finish_eval(rep, stats)
    nontriv, dist = stats["nontriv"], stats["dist"]
    maxtok = 4 if tier == "quick" else 6
    cov.update({
        "evaluations": len(cases),
        "distinct_nontrivial": len(nontriv),
        "rule": "cases = witnesses of the refutation theorems on every target + exhaustive concatenations of up to %d tokens from {/ \\ space . a T LF textures data Textures} (all four needs_prefix x terrain configurations%s) + every slot of every (version, slot kind) target + seeded random byte strings up to %d bytes (arbitrary bytes incl. NUL and >= 0x80, drive and UNC prefixes, mixed-case words) + Save/Load cases + regex-deep shapes up to %d bytes; version/slot kind/slot drawn per case from the targets valid for the configuration (OB, SPECIAL -> needs_prefix=0; FO3, SK, SSE, FO4, FO76, SF -> 1). A case is non-trivial when the implementation's cleaned path is non-empty and differs from the input; distinct = distinct (needs_prefix, terrain, path) triples" %
                (maxtok, "" if tier == "quick" else " up to 5 tokens, one rotating configuration per path at 6", 200 if tier == "quick" else 4096, 4096 if tier == "quick" else 8192),
        "samples": cases[:2] + cases[len(cases) // 3:len(cases) // 3 + 2] + cases[2 * len(cases) // 3:2 * len(cases) // 3 + 2] + cases[-2:],
        "input_distribution": dist,
        "traces_validated_against_impl": stats["validated"],
        "spec_evaluated_on_impl_outputs": {"canonical": stats["canon_checked"], "idempotence": stats["idem_checked"]},
        "correspondence_mismatches": stats["mismatch"],
        "spec_failures_on_impl": stats["specfail"],
        "spec_failures_by_known_class": stats["known"],
        "spec_failures_outside_known_classes": stats["unexplained"],
        "repaired_defects_seen_again": stats["fixed_back"],
        "crashes": stats["crash"],
        "exceptions": stats["exceptions"],
        "refuted": {
            "clean_idem / clean_canonical for OB+Special (needs_prefix=false)": "C19_clean_idem_refuted_ob, C19_clean_canonical_refuted_ob, C19_clean_idem_refuted_ob_terrain (a\\textures\\b\\textures\\c.dds), C19_clean_canonical_refuted_ob_ws (\"\\ a\"), C19_clean_canonical_refuted_ob_newline (x<LF>\\textures\\a)",
        },
        "repaired": "fixes/C19-mixed-separators, fixes/C19-terrain-restrip, fixes/C19-effect-shader-not-cleaned: the model describes the repaired code; C19_clean_single_bs, C19_clean_canonical_prefixing and C19_clean_idem_prefixing now hold for every path and both terrain values",
        "unproved": [],
        "modelled_not_verified": [
            "std::regex (libstdc++ ECMAScript engine): matching semantics modelled and differential-tested; its recursion depth and exceptions are runtime behaviour (measured: 20 000-byte paths pass, 50 000-byte paths overflow the 8 MiB stack in _M_dfs in both builds: beyond the property's 'few kilobytes')",
            "isspace(char) on bytes >= 0x80 (undefined behaviour by the letter of the C standard; glibc's C-locale table answers 'not a space', UBSan silent): modelled as not-a-space",
            "std::filesystem::u8path(p).is_relative(): parameter isrel of the model; theorems assume 'no / => relative' (holds for libstdc++ on POSIX: Example C19_isrel_posix_ok; a Windows-like rule refutes idempotence in the model: Example C19_idem_needs_isrel_hypothesis)",
            "NiString::Read assigns through a C string: a path read from a file stops at its first NUL (modelled by cstr for the Load cases)",
        ],
        "trusted_base": vlib.BASE_TRUSTED + ["modelled, not verified: std::regex, isspace, std::filesystem::path::is_relative, std::string (see coverage.modelled_not_verified)"],
        "exhaustive": False,
    })
    return rep.finish(cov, [
        "theorems: is_relative answers true for every path without '/' (libstdc++ on POSIX); C locale (isspace set 9-13,32; ASCII-only case folding in std::regex icase)",
        "canonical form and idempotence are proved for every path for the prefixing games (terrain or not), and for OB/Special outside the two recorded defect classes; those two classes are refuted, confirmed on the code and recorded in known_findings.json",
        "claim is partial: the regex pipeline is modelled; std::regex stack depth/exceptions, isspace on negative char and std::filesystem are observed at run time (ASan/UBSan build) on paths up to a few KiB only",
    ])
