"""C11 — a copied model is equal to and fully independent of its source.

Proof: coq/Properties/Properties_C11.v over the two-file heap model coq/Clone/CopyModel.v
(CopyFrom, LinkGeomData, SetGeomData, member-wise Clone; cached raw pointers = (file, object)).
Tie: every sample is copied (constructor / assignment / assignment over a loaded model) by the real
code under ASan/UBSan; the extracted model predicts the copy's dump (content and the owner of every
cached pointer) from the source's dump and the dumps after every graph-level edit of one side.
Search: the property itself is evaluated on the implementation: raw-save bytes equal, the untouched
side's dumps / bytes / accessor results unchanged by any edit history of the other side, survivor
unchanged by the destruction of the other model, every cached pointer inside its own model
(python evaluation and the extracted, proved-correct checker link_inv_b). Memory errors are only
observed (ASan), never claimed as proved."""
import json
import os
import random
import re

import vlib

PID = "C11"
FAMILY = "clone"


def sections(line):
    """'I=SRC .. | CPY .. | ...' -> list of (tag, rest)"""
    body = line[2:] if line[:2] in ("I=", "M=") else line
    out = []
    for part in body.split(" | "):
        part = part.strip()
        if not part:
            continue
        tag, _, rest = part.partition(" ")
        out.append((tag, rest))
    return out


def parse_dump(d):
    kv = {}
    for t in d.split("~"):
        if "=" in t:
            k, v = t.split("=", 1)
            kv[k] = v
    blocks = []
    if kv.get("blocks"):
        for b in kv["blocks"].split("+"):
            fs = b.split(",")
            u, t, c, p, ds, ca, ss, tok = fs[:8]
            blocks.append({"uid": int(u), "t": t, "c": c.split(".") if c else [], "p": p.split(".") if p else [],
                           "ds": ds, "ca": ca, "ss": ss, "tok": tok, "np": fs[8], "nd": fs[9], "sk": fs[10], "bn": fs[11],
                           "ord": fs[12] if len(fs) > 12 else "-"})
    kv["blocks"] = blocks
    return kv


def strip_ord(d):
    """drop the visiting-order field (13th) of every block: a property of the heap layout, not of the model state"""
    if "~blocks=" not in d:
        return d
    head, bl = d.split("~blocks=", 1)
    return head + "~blocks=" + "+".join(",".join(b.split(",")[:12]) for b in bl.split("+")) if bl else d


def content(g):
    """what Save writes as far as the dump shows it (no identities, no cached pointers)"""
    return ([g.get(k) for k in ("n", "nt", "types", "tidx", "sizes", "hs", "strs")],
            [(b["t"], b["c"], b["p"], b["ds"], b["ss"], b["tok"], b["np"], b["nd"], b["sk"], b["bn"]) for b in g["blocks"]])


def link_errors(g, fid, compat):
    """python evaluation of LinkInv on a dump: every cached pointer is null or designates, inside
    the same model, the block the shape's data reference designates (of an accepted class)"""
    errs = []
    bl = g["blocks"]
    for i, b in enumerate(bl):
        ca = b["ca"]
        if ca in ("-", "0"):
            continue
        if ca == "D":
            errs.append("block %d (%s) caches a dangling geometry pointer" % (i, b["t"]))
            continue
        m = re.match(r"F(\d+):(\d+)$", ca)
        o, w = int(m.group(1)), int(m.group(2))
        if o != fid:
            errs.append("block %d (%s) of model %d caches a pointer into model %d" % (i, b["t"], fid, o))
            continue
        if b["ds"] == "-" or int(b["ds"]) >= len(b["c"]):
            errs.append("block %d caches a pointer but has no data reference slot" % i)
            continue
        r = b["c"][int(b["ds"])]
        if r == "x" or int(r) >= len(bl) or bl[int(r)]["uid"] != w:
            errs.append("block %d (%s) caches object %d but its data reference designates %s" % (i, b["t"], w, r))
        elif (b["t"], bl[int(r)]["t"]) not in compat:
            errs.append("block %d caches a %s, which its SetGeomData would refuse" % (i, bl[int(r)]["t"]))
    return errs


def gen_ops(rng, info, maxlen, allow_dangling):
    """a random edit history; ids are written modulo the current block count by the harness"""
    ns = max(1, len(info["shapes"]))
    types = sorted({b["t"] for b in info["dump"]["blocks"]})
    ops = []
    for _ in range(rng.randint(0, maxlen)):
        k = rng.choice("DDAOPTVVSSXXKN" + ("G" if allow_dangling else ""))
        if k == "D":
            ops.append("D%%%d" % rng.randint(0, 999))
        elif k == "A":
            ops.append("A")
        elif k == "O":
            ops.append("Og%d" % rng.randint(1, 10 ** 6))
        elif k == "P":
            ops.append("P0")
        elif k == "T":
            ops.append("T%s,%d" % (rng.choice(types + ["NiStringExtraData", "NoSuchType"]), rng.randint(0, 1)))
        elif k == "V":
            ops.append("V%d:%s" % (rng.randrange(ns), ".".join(str(rng.randint(0, 5000)) for _ in range(rng.randint(1, 6)))))
        elif k == "S":
            ops.append("S%d:%d" % (rng.randrange(ns), rng.randint(1, 10 ** 6)))
        elif k == "X":
            path = rng.choice(["textures\\a\\b.dds", "x.dds", "", "textures\\armor\\steel\\cuirass_n.dds"])
            ops.append("X%d:%d:%s" % (rng.randrange(ns), rng.randint(0, 9), path.encode().hex()))
        elif k == "K":
            ops.append("K%d" % rng.randrange(ns))
        elif k == "N":
            ops.append("N%d:%s" % (rng.randrange(ns), ("renamed%d" % rng.randint(0, 9)).encode().hex()))
        else:
            ops.append("G%d" % rng.randrange(ns))
    return ops


def deletes_cached_data(dump, op):
    """does this resolved op delete a block that a surviving shape caches a pointer to?"""
    if not op.startswith("D") or op == "Dx":
        return False
    i = int(op[1:])
    bl = dump["blocks"]
    if i >= len(bl):
        return False
    u = bl[i]["uid"]
    return any(j != i and re.match(r"F\d+:%d$" % u, b["ca"] or "") for j, b in enumerate(bl))


def deleteshape_shared(prev, cur):
    """after a DeleteShape: does a surviving shape cache the data block of a shape that is gone?
    (both shapes referenced the same data block, which DeleteShape deleted with the first one)"""
    alive = {b["uid"] for b in cur["blocks"]}
    pb = {b["uid"]: b for b in prev["blocks"]}
    for b in cur["blocks"]:
        if b["ca"] != "D" or b["uid"] not in pb:
            continue
        m = re.match(r"F\d+:(\d+)$", pb[b["uid"]]["ca"] or "")
        if not m:
            continue
        u = int(m.group(1))
        for o in prev["blocks"]:
            if o["uid"] in alive or o["ds"] == "-" or int(o["ds"]) >= len(o["c"]):
                continue
            r = o["c"][int(o["ds"])]
            if r != "x" and int(r) < len(prev["blocks"]) and prev["blocks"][int(r)]["uid"] == u:
                return True
    return False


def known_or_violation(rep, kid, detail, replay):
    """a recorded defect: reported as KNOWN-FINDING while its entry has status "known"; once the
    entry is "fixed" the same input class coming back is a violation"""
    if any(k["id"] == kid for k in rep.known):
        rep.known_finding(kid, detail)
    else:
        rep.violation("the repaired defect %s is back: %s" % (kid, detail[:200]), replay)


KNOWN_BOOL = "C11-invalid-bool-normalised-by-copy"
KNOWN_UAF = "C11-dangling-geom-cache"
KNOWN_SHARED = "C11-deleteshape-shared-data"


def run(tier, seed, replay=None):
    rep = vlib.Reporter(PID, tier, seed)
    hygiene = vlib.coq_hygiene()
    pr = vlib.coq_property(PID)
    cov = vlib.proof_coverage(pr, hygiene)
    if not pr["ok"] or hygiene:
        rep.violation("proof obligations of Properties_C11.v not discharged: " + ",".join(pr["failed"] or hygiene),
                      {"broken": "theorems " + ",".join(pr["failed"]), "log": pr["log"][-3000:], "hygiene": hygiene}, found_input=False)
    impl_bin = vlib.build_oracle("asan")
    model_bin = os.environ.get("VERIF_CLONE_MODEL_BIN") or vlib.build_model_oracle()
    margs = [] if os.environ.get("VERIF_CLONE_MODEL_BIN") else [FAMILY]
    rng = random.Random(seed)
    samples_dir = os.environ.get("VERIF_SAMPLES") or os.path.join(vlib.REPO, "tests", "input")
    env = {"VERIF_SAMPLES": samples_dir}
    files = sorted(f for f in os.listdir(samples_dir) if f.endswith(".nif"))

    # ---- nothing but copying, under the sanitizers: samples on which that already aborts with the
    # known undefined behaviour are studied further on the plain build ----
    plain_files, plain_bin = set(), None
    res = vlib.run_cases_robust(impl_bin, [FAMILY], ["copyonly name=%s" % f for f in files], timeout_per_batch=300, batch=1, env=env)
    for f, (c, il, crash) in zip(files, res):
        if crash is None and il and il.endswith("DONE"):
            continue
        err = (crash or {}).get("stderr", "")
        m = re.search(r"(\S+:\d+):\d+: runtime error: load of value (\d+), which is not a valid value for type 'bool'", err)
        if m and "Clone" in err and "CopyFrom" in err:
            # a bool member filled from a file byte other than 0/1 (C15-ub-invalid-bool-copy): a property
            # of the input bytes, not of copying. The sanitized build normally recovers from it; if it
            # does not, the sample is studied on the plain build.
            plain_files.add(f)
        else:
            rep.violation("copying a sample aborted under the sanitizers", {"case": c, "family": FAMILY, "crash": {"rc": (crash or {}).get("rc"), "stderr": err[-3000:]}})
    if plain_files:
        plain_bin = vlib.build_oracle("plain")

    def run_impl(cs, batch):
        """cases on the ASan build, except those on samples routed to the plain build"""
        def fl(c):
            m = re.search(r"name=(\S+)", c)
            return "plain" if m and m.group(1) in plain_files else "asan"
        out = {}
        for flav, binp in (("asan", impl_bin), ("plain", plain_bin)):
            sel = [i for i, c in enumerate(cs) if fl(c) == flav]
            if not sel:
                continue
            rr = vlib.run_cases_robust(binp, [FAMILY], [cs[i] for i in sel], timeout_per_batch=900, batch=batch, env=env)
            for i, (c, il, crash) in zip(sel, rr):
                if crash is None and (il is None or not il.endswith("DONE")):
                    # a line without the final marker is an aborted case: run it alone for the report
                    rc, lines, err = vlib.run_lines(binp, [FAMILY], [c], timeout=300, env=env)
                    il = lines[0] if lines else None
                    if il is None or not il.endswith("DONE"):
                        crash = {"rc": rc, "stderr": err[-6000:]}
                if crash is not None:
                    # the sanitizer report starts with the interesting part: run alone, keep the head
                    rc, lines, err = vlib.run_lines(binp, [FAMILY], [c], timeout=300, env=env)
                    if lines and lines[0].endswith("DONE"):
                        crash, il = None, lines[0]          # not reproducible alone: take the clean run
                    else:
                        il = lines[0] if lines else il
                        crash = {"rc": rc, "stderr": err[:5000] + "\n...\n" + err[-800:], "flavour": flav}
                out[i] = (c, il, crash)
        return [out[i] for i in range(len(cs))]

    # ---- what the samples look like ----
    infos = {}
    res = run_impl(["info name=%s" % f for f in files], 1)
    for f, (c, il, crash) in zip(files, res):
        if crash is not None or not il or "LOADFAIL" in il or not il.endswith("DONE"):
            rep.violation("a sample no longer loads / dumps", {"case": c, "crash": crash, "impl": (il or "")[:300]})
            continue
        sec = dict(sections(il))
        infos[f] = {"dump": parse_dump(sec["SRC"]), "shapes": [s for s in sec["SHAPES"].split(",") if s]}

    # ---- cases ----
    if replay:
        r = json.load(open(replay))
        cases = [r["case"]] if "case" in r else [c["case"] for c in r.get("cases", [])]
    else:
        cases = []
        try:
            cases += [l.strip() for l in open(vlib.ROOT + "/corpus/C11/cases.txt") if l.strip() and not l.startswith("#")]
        except OSError:
            pass
        per_file = 4 if tier == "quick" else 40
        for f in files:
            if f not in infos:
                continue
            info = infos[f]
            geo = [b for b in info["dump"]["blocks"] if b["ds"] != "-"]
            # plain copies in every mode and destruction order
            cases.append("copy name=%s mode=ctor side=s ops= destroy=sc" % f)
            cases.append("copy name=%s mode=assign side=c ops= destroy=cs twice=1" % f)
            cases.append("copy name=%s mode=assignover over=%s side=s ops= destroy=cs" % (f, rng.choice(files)))
            for _ in range(per_file):
                mode = rng.choice(["ctor", "assign", "assignover"])
                c = "copy name=%s mode=%s side=%s ops=%s destroy=%s" % (
                    f, mode, rng.choice("sc"), ";".join(gen_ops(rng, info, 6, False)), rng.choice(["sc", "cs"]))
                if mode == "assignover":
                    c += " over=%s" % rng.choice(files)
                if len(geo) >= 2 and rng.random() < 0.3:
                    c += " pre=share"
                cases.append(c)
            if geo:
                # the edits the model says break the ownership invariant
                cases.append("copy name=%s mode=ctor side=s ops=G0 destroy=sc" % f)
                cases.append("copy name=%s mode=assign side=c ops=%s destroy=cs" % (f, ";".join(gen_ops(rng, info, 2, False) + ["G0"])))
                if len(geo) >= 2:
                    cases.append("copy name=%s mode=ctor side=c ops=K0 destroy=sc pre=share" % f)
                    cases.append("copy name=%s mode=ctor side=s ops=K1 destroy=cs pre=share" % f)

    cb_replay = [c for c in cases if c.startswith("copyblk")]
    cases = [c for c in cases if not c.startswith("copyblk")]
    impl = run_impl(cases, 40)

    # ---- model cases from the implementation's dumps ----
    mcases, mmap = [], {}
    parsed = {}
    for idx, (c, il, crash) in enumerate(impl):
        if not il or "LOADFAIL" in il:
            continue
        sec = sections(il)
        d = {}
        ops = []
        for tag, rest in sec:
            if tag == "OP":
                ops.append(rest.split(" "))
            else:
                d.setdefault(tag, rest)
        # an aborted case may end inside an OP section: keep the complete ones
        k = next((j for j, o in enumerate(ops) if len(o) < 3), len(ops))
        ops = ops[:k]
        parsed[idx] = (d, ops)
        if "SRC" not in d or "NEXT" not in d or "CPY" not in d:
            continue
        kv = dict(t.split("=", 1) for t in c.split(" ")[1:] if "=" in t)
        mc = "copy src=%s base=%s compat=%s tpl=%s" % (d["SRC"], d["NEXT"], d.get("COMPAT", ""), d.get("TPL", ""))
        if "POST" in d and ops:
            p0, p1 = d["POST"].split(" ")
            side = 1 if kv.get("side") == "c" else 0
            mops = []
            for o in ops:
                if o[0][0] in "DAOPT":
                    mops.append(o[0])
                else:
                    mops.append(o[0] + "@" + o[1 + side])
            nxt = 1 + max([b["uid"] for b in parse_dump(p0)["blocks"]] + [b["uid"] for b in parse_dump(p1)["blocks"]] + [-1])
            mc += " post0=%s post1=%s side=%s next=%d ops=%s" % (p0, p1, kv.get("side", "s"), nxt, ";".join(mops))
        mmap[idx] = len(mcases)
        mcases.append(mc)
    model = vlib.run_cases_robust(model_bin, margs, mcases, timeout_per_batch=900, batch=40)

    # ---- evaluation ----
    mism, nontriv = [], set()
    stats = {"copies": 0, "with_cached_pointers": 0, "histories": 0, "ops": {}, "asan_aborts_known": 0, "modes": {}, "samples_on_plain_build": 0}
    stats["samples_on_plain_build"] = len(plain_files)
    for idx, (c, il, crash) in enumerate(impl):
        kv = dict(t.split("=", 1) for t in c.split(" ")[1:] if "=" in t)
        d, ops = parsed.get(idx, ({}, []))
        if il and "LOADFAIL" in il:
            rep.violation("sample failed to load in the copy oracle", {"case": c, "impl": il[:200]})
            continue
        compat = {tuple(p.split(":")) for p in d.get("COMPAT", "").split(",") if ":" in p}
        side = 1 if kv.get("side") == "c" else 0
        # -- model prediction for this case
        mline = None
        if idx in mmap:
            (_, mline, mcrash) = model[mmap[idx]]
            if mcrash is not None or mline is None or mline.startswith("M=EXC"):
                rep.violation("model oracle failed", {"case": c, "model": (mline or "")[:300], "model_crash": mcrash}, found_input=False)
                mline = None
        msec = sections(mline) if mline else []
        md = {}
        mops = []
        for tag, rest in msec:
            if tag == "OP":
                mops.append(rest.split(" "))
            else:
                md.setdefault(tag, rest)
        # -- crashes: explained by a broken ownership invariant (model) or a violation
        if crash is not None:
            err = crash.get("stderr", "")
            # state at the last completed step: the model's own prediction for the remaining graph edits
            broken = any(len(mo) >= 3 and "0" in mo[2].replace("link=", "") for mo in mops)
            dangling = any(",D," in x for mo in mops for x in mo[:2]) or any(",D," in x for o in ops for x in o[1:3])
            uaf = ("heap-use-after-free" in err and re.search(r"~Ni\w*Data\(\)", err) is not None) or crash.get("flavour") == "plain"
            # which operation left the dangling pointer: the first completed one after which a dump shows
            # one, else the operation the abort happened in
            req = [o for o in kv.get("ops", "").split(";") if o]
            culprit = next((o[0] for o in ops if any(",D," in x for x in o[1:3])), None)
            if culprit is None and len(ops) < len(req):
                culprit = req[len(ops)]
                broken = broken or culprit[0] in "GK"
            if uaf and (broken or dangling) and culprit:
                resolved = [o[0] for o in ops]
                shared = culprit.startswith("K")
                known_or_violation(rep, KNOWN_SHARED if shared else KNOWN_UAF, "%s (completed ops %s, culprit %s)" % (c, ",".join(resolved), culprit),
                                   {"case": c, "family": FAMILY, "crash": {"rc": crash.get("rc"), "stderr": err[-2000:]}})
                stats["asan_aborts_known"] += 1
                nontriv.add(c)
                continue
            rep.violation("copy/edit/destroy history aborted under the sanitizers (memory error or undefined behaviour)",
                          {"case": c, "family": FAMILY, "crash": {"rc": crash.get("rc"), "stderr": err[-3000:]}, "impl": (il or "")[-400:]})
            continue
        if not il or not il.endswith("DONE") or "CPY" not in d:
            rep.violation("copy oracle produced no complete output", {"case": c, "impl": (il or "")[-300:]})
            continue
        stats["copies"] += 1
        stats["modes"][kv.get("mode", "?")] = stats["modes"].get(kv.get("mode", "?"), 0) + 1
        src, cpy, src1 = parse_dump(d["SRC"]), parse_dump(d["CPY"]), parse_dump(d["SRC1"])
        errs = []
        # copy equal
        if content(src) != content(cpy):
            errs.append("the copy's content differs from the source's")
        m = re.search(r"eq=(\d)", d.get("SAVE", ""))
        boolcase = False
        if not m or m.group(1) != "1":
            db = re.search(r"diffblocks=(\S*)", d.get("SAVE", ""))
            kinds = {x.split(":", 1)[1] for x in (db.group(1).split(",") if db else []) if ":" in x}
            if kinds and kinds <= {"NiBlendBoolInterpolator"}:
                # the copy of a C++ bool holding a byte other than 0/1 is compiler dependent: this build
                # normalises it, the copy then writes another byte than the source
                boolcase = True
                stats["bool_normalised_known"] = stats.get("bool_normalised_known", 0) + 1
                rep.known_finding(KNOWN_BOOL, "%s: %s" % (c, db.group(0)[:120]))
            else:
                errs.append("raw-save bytes of source and copy differ: " + d.get("SAVE", "")[:200])
        acc = d.get("ACC", "").split(" ")
        if len(acc) != 3 or acc[0] != acc[1] or acc[2] != "ctl=" + acc[0]:
            errs.append("accessor results of source, copy and control differ: " + d.get("ACC", ""))
        if "ctl=0" in d.get("SAVE", "") or "ctl=0" in d.get("ACC1", ""):
            errs.append("after the copy the models no longer write/return what a lone model does: %s / %s" % (d.get("SAVE", ""), d.get("ACC1", "")))
        if d["SRC1"] != d["SRC"]:
            errs.append("copying changed the source")
        # ownership
        errs += ["copy: " + e for e in link_errors(cpy, 1, compat)]
        errs += ["source: " + e for e in link_errors(src1, 0, compat)]
        if set(b["uid"] for b in src["blocks"]) & set(b["uid"] for b in cpy["blocks"]):
            errs.append("source and copy share a block object")
        if any(b["ca"] not in ("-", "0") for b in cpy["blocks"]):
            stats["with_cached_pointers"] += 1
            nontriv.add(c)
        # history: the untouched side never changes; the edited side keeps its pointers inside itself
        post = d.get("POST", " ").split(" ")
        other = 1 - side
        for j, o in enumerate(ops):
            stats["ops"][o[0][0]] = stats["ops"].get(o[0][0], 0) + 1
            if len(o) < 3:
                continue
            if o[1 + other] != post[other]:
                errs.append("edit %s of one model changed the other model" % o[0])
                break
            le = link_errors(parse_dump(o[1 + side]), side, compat)
            if le:
                prev = parse_dump(ops[j - 1][1 + side] if j else post[side])
                if deletes_cached_data(prev, o[0]):
                    rep.known_finding(KNOWN_UAF, "%s: %s leaves %s" % (c, o[0], le[0]))
                elif o[0].startswith("K") and deleteshape_shared(prev, parse_dump(o[1 + side])):
                    known_or_violation(rep, KNOWN_SHARED, "%s: %s leaves %s" % (c, o[0], le[0]), {"case": c, "family": FAMILY, "errors": le[:3]})
                else:
                    errs += ["after %s: %s" % (o[0], e) for e in le[:2]]
                break
        if ops:
            stats["histories"] += 1
            nontriv.add(c)
        for tag in ("RESAVE-OTHER", "RESAVE-OTHER2", "SURVIVOR"):
            bad = tag in d and (re.search(r"(?<![a-z])same=0", d[tag]) or "accsame=0" in d[tag] or "ctl=0" in d[tag])
            if bad and boolcase and " self=1" in d[tag] and "accsame=0" not in d[tag] and "accself=0" not in d[tag]:
                bad = False         # the copy differs from the control by the recorded byte only: compared with itself
            if bad:
                errs.append("%s: the untouched model no longer writes/returns what it did (%s)" % (tag, re.sub(r"n=\S+", "", d[tag])[:120]))
        if "SURVIVOR" in d:
            k, _, rest = d["SURVIVOR"].partition(" ")
            sv = parse_dump(rest.split(" ")[0])
            errs += ["survivor: " + e for e in link_errors(sv, int(k), compat)]
        if errs:
            rep.violation("copied model is not equal to / independent of its source: " + errs[0], {"case": c, "family": FAMILY, "errors": errs[:6]})
        # -- correspondence with the model
        if mline:
            mm = None
            if md.get("CPY") != strip_ord(d["CPY"]):
                mm = {"what": "copy dump", "impl": d["CPY"][-300:], "model": md.get("CPY", "")[-300:]}
            elif md.get("SRC1") != strip_ord(d["SRC1"]):
                mm = {"what": "source after copy"}
            elif md.get("LINK") != ("1" if not link_errors(src, 0, compat) else "0") + ("1" if not link_errors(cpy, 1, compat) else "0"):
                mm = {"what": "extracted link_inv_b disagrees with the python evaluation", "model": md.get("LINK")}
            else:
                for j, (o, mo) in enumerate(zip(ops, mops)):
                    if len(o) >= 3 and (mo[0] != strip_ord(o[1]) or mo[1] != strip_ord(o[2])):
                        mm = {"what": "dump after op %d (%s)" % (j, o[0]), "impl": o[1 + side][-300:], "model": mo[side][-300:] if len(mo) > side else mo}
                        break
                    if len(o) >= 3 and len(mo) >= 3:
                        want = "link=" + "".join("1" if not link_errors(parse_dump(o[1 + s]), s, compat) else "0" for s in (0, 1))
                        if mo[2] != want:
                            mm = {"what": "link_inv_b after op %d" % j, "model": mo[2], "python": want}
                            break
                if mm is None and len(mops) != len(ops):
                    mm = {"what": "model stopped early", "model_steps": len(mops), "impl_steps": len(ops), "last": mops[-1][:1] if mops else None}
            if mm:
                mism.append(dict(mm, case=c))
    if mism and not rep.violations:
        rep.violation("correspondence clone/copy (Coq two-file heap model vs NifFile::CopyFrom and header edits) no longer holds; theorems of Properties_C11.v no longer speak about the code",
                      {"broken": "correspondence:clone-copy", "family": FAMILY, "cases": mism[:8]}, found_input=False)
    elif mism:
        for m in mism[:3]:
            rep.violation("model and implementation disagree on " + m["what"], dict(m, family=FAMILY), found_input=False)
    # ---- every registered block type: a generated instance inside a minimal file is copied; the instance in one of
    # the two files is overwritten in place, the other file must keep writing the same bytes, also after the edited
    # one is destroyed (state shared below the block level, e.g. behind a pointer member, shows up here)
    cb_stats = {"cases": 0, "edit_changed_the_edited_side": 0, "generator_timeouts": 0}
    if not replay or cb_replay:
        import blocks_engine as be
        binfo = vlib.gen_ir(("Cur",))["Cur"]
        if replay:
            cbcases = cb_replay
        else:
            cvers = ("OB", "SSE", "FO4") if tier == "quick" else tuple(be.VERS)
            cbcases = ["copyblk type=%s ver=%s seed=%d" % (n, be.VERS[v], seed) for n in binfo["blocks"] for v in cvers]
            # self-similar payloads need larger enum values than the default generator yields (NiCollisionData's UNION_BV = 4)
            cbcases += ["copyblk type=NiCollisionData ver=%s seed=%d maxc=5" % (be.VERS[v], seed + k) for v in cvers for k in range(40 if tier == "quick" else 200)]
        cres = be.par_run(vlib.build_oracle("asan"), "blocks", cbcases, timeout=300)
        for c, l, crash in cres:
            if crash is not None or l is None:
                if crash and "timeout" in str(crash.get("stderr", "")):
                    cb_stats["generator_timeouts"] += 1
                    continue
                rep.violation("copying a file holding a generated block instance, editing one side and destroying it aborted under the sanitizers",
                              {"case": c, "family": "blocks", "crash": {"rc": (crash or {}).get("rc"), "stderr": str((crash or {}).get("stderr", ""))[-3000:]}})
                continue
            ckv = be.kv_of(l)
            if ckv.get("stable") != "1":
                continue            # the instance is not a fixed point of the raw save (C02's subject): nothing to compare with
            cb_stats["cases"] += 1
            if ckv.get("changed1") == "1":
                cb_stats["edit_changed_the_edited_side"] += 1
            bad = [k for k in ("same1", "same2") if ckv.get(k) != "1"]
            shared = [k for k in ("kept1", "kept1d", "kept2", "kept2d") if ckv.get(k) != "1"]
            if bad:
                rep.violation("the copy of a model does not save to the bytes of its source (block type %s)" % c.split()[1][5:], {"case": c, "family": "blocks", "impl": l[:300]})
            elif shared:
                rep.violation("copied model is not independent of its source: overwriting a block in one of them changed what the other writes (block type %s: %s)" % (c.split()[1][5:], ",".join(shared)),
                              {"case": c, "family": "blocks", "impl": l[:300]})
    stats["copyblk"] = cb_stats
    cov.update({
        "evaluations": len(cases) + cb_stats["cases"],
        "distinct_nontrivial": len(nontriv) + cb_stats["edit_changed_the_edited_side"],
        "rule": "every registered block type x versions: a generated instance in a minimal file, copy (constructor / assignment), in-place overwrite of the instance on one side, the other side's raw save compared before/after and after destruction of the edited side (non-trivial = the overwrite changed the edited side's bytes); every sample x {copy constructor, assignment (twice), assignment over another loaded sample} x random edit histories (0-6 ops out of DeleteBlock, AddBlock, SetBlockOrder, prune, delete-by-type, DeleteVertsForShape, SetVertsForShape, SetTextureSlot, DeleteShape, RenameShape) on one side x both destruction orders, plus targeted deletions of geometry data blocks and shared-data variants; non-trivial = the copy holds at least one cached geometry pointer or an edit history was applied or the known defect was reproduced; distinct = distinct case lines",
        "samples": cases[:3] + cases[len(cases) // 2:len(cases) // 2 + 2] + cases[-2:],
        "input_distribution": stats,
        "traces_validated_against_impl": len(mcases),
        "correspondence_mismatches": len(mism),
        "unproved": ["absence of use-after-free / double free in the C++ (runtime behaviour: observed under ASan only)",
                     "save bytes as a function of the model's save_view (the serialisers are C01/C02's subject); here only compared on the implementation"],
        "trusted_base": vlib.BASE_TRUSTED + ["modelled, not verified: C++ object lifetime and raw pointers as (file, object identity) pairs; per-block payload as an opaque token (hash of Put bytes with references masked); std::set<NiRef*> enumeration replaced by Put order in dumps",
                                              "SetGeomData's dynamic_cast table is measured on the implementation (fresh instances) and passed to the model"],
        "exhaustive": False,
    })
    return rep.finish(cov, ["theorems assume the header invariant Inv (C06), SlotOk (DataRef() is one of the child references) and LinkInv of the source (established by LinkGeomData after Load: C11_link_after_load)",
                            "DeleteBlock preserves LinkInv only when no surviving shape caches a pointer to the deleted object (C11_delete_block; necessity: C11_delete_data_breaks_link_refuted, reproduced on the implementation as known findings)"])
