"""C17 — segment / partition labels round-trip and always partition the triangles.

Proof: coq/Properties/Properties_C17.v over coq/Geom/SegModel.v (SetSegmentation with its
stable sort as an insertion sort, the range tables, the renumbering; GetSegmentation;
ReorderTriangles) and the re-fit part of Geom/GeomModel.v.
Tie: FO4 / FO76 BSSubIndexTriShapes built through the public API (and the FO4 samples) get every
label list of a small scope and random ones through SetShapeSegments / GetShapeSegments, then vertex
deletions, save and reload; the extracted model must predict every dump. Search: the property
(tools/geomspec.py) is evaluated on the implementation's dumps."""
import itertools
import json
import os
import random

import vlib
import geomspec as gs

PID = "C17"
FAMILY = "geom"
KNOWN_REFIT = "C17-refit-first-subsegment-start"

INF_A = "0:1.0+2.0;3:4.31"                # 2 segments, 2 + 1 sub-segments: 5 ids
INF_B = "0:1.0+2.0;3:4.0+5.31;6:7.0+8.0"  # 3 segments x 2 sub-segments: 9 ids
INF_P = "5:2.0+7.40;0:-;3:1.0"             # permuted ids, an empty-handed segment


def disjoint_tris(nt, extra=0):
    """nt triangles on 3*nt vertices (+ unused vertices at the end): deleting vertex 3k kills triangle k only"""
    return 3 * nt + extra, ";".join("%d.%d.%d" % (3 * k, 3 * k + 1, 3 * k + 2) for k in range(nt))


def shared_tris(rng, nt):
    nv = max(3, nt + 2)
    tris = set()
    while len(tris) < nt:
        t = tuple(rng.sample(range(nv), 3))
        if gs.rot(t) not in {gs.rot(x) for x in tris} and gs.rot((t[0], t[2], t[1])) not in {gs.rot(x) for x in tris}:
            tris.add(t)
    return nv, ";".join("%d.%d.%d" % t for t in sorted(tris))


def case_line(ver, nv, tris, inf, labels, steps, save=1, sse=None):
    return "seg ver=%s nv=%d attrs=u tris=%s inf=%s labels=%s steps=%s save=%d%s" % (
        ver, nv, tris, inf, ",".join(map(str, labels)), ";".join(",".join(map(str, s)) for s in steps), save,
        (" sse=" + ";".join("%d.%d" % t for t in sse)) if sse else "")


def sse_tiling(rng, nt):
    """an SSE-style segment table (index, numTris) that tiles 0..nt: 1-4 contiguous segments, empty ones allowed"""
    k = rng.randint(1, 4)
    cuts = sorted(rng.randint(0, nt) for _ in range(k - 1))
    bounds = [0] + cuts + [nt]
    return [(3 * bounds[i], bounds[i + 1] - bounds[i]) for i in range(k)]


def sse_malformed(rng, nt):
    """tables outside the hypothesis of C17_sse_refit_keeps_ranges: a gap in front, overlapping ranges,
    gaps between segments, ranges beyond the triangle list, an index that is no multiple of 3"""
    kind = rng.choice(["front", "overlap", "gaps", "beyond", "odd"])
    if kind == "front":
        a = rng.randint(1, max(1, nt))
        return [(3 * a, max(0, nt - a))]
    if kind == "overlap":
        a = rng.randint(0, nt)
        return [(0, max(a, (nt + 1) // 2)), (3 * min(a, nt // 2), nt - min(a, nt // 2))]
    if kind == "gaps":
        a = rng.randint(0, nt)
        return [(0, a // 2), (3 * a, (nt - a) // 2)]
    if kind == "beyond":
        return [(0, nt), (3 * nt, rng.randint(1, 3))]
    return [(1, nt // 2), (3 * (nt // 2) + 2, nt - nt // 2)]


def sse_tiles(sse, nt):
    pos = 0
    for (ix, n) in sse:
        if ix != 3 * pos:
            return False
        pos += n
    return pos == nt


# the vm_compute witnesses of Properties_C17.v, replayed on the implementation on every run
# (the model must predict the dumps, i.e. the implementation shows the refuted behaviour too)
T6 = ";".join("%d.%d.%d" % (3 * k, 3 * k + 1, 3 * k + 2) for k in range(6))
WITNESS = {
    # C17_sse_refit_ranges_refuted: one segment 2..5 of 6, delete triangle 0 -> still 6.4 on 5 triangles
    "sse-front-gap": ("seg ver=fo4 nv=18 attrs=u tris=%s inf=0:- labels=0,0,0,0,0,0 steps=0 save=0 sse=6.4" % T6, "6.4"),
    # C17_sse_refit_overlap_refuted: 0..3 and 2..5, delete triangle 3 -> 0.3;9.3 on 5 triangles
    "sse-overlap": ("seg ver=fo4 nv=18 attrs=u tris=%s inf=0:- labels=0,0,0,0,0,0 steps=9 save=0 sse=0.4;6.4" % T6, "0.3;9.3"),
    # C17_sse_example: a tiling stays a tiling
    "sse-tiling": ("seg ver=fo4 nv=18 attrs=u tris=%s inf=0:- labels=0,0,0,0,0,0 steps=15 save=0 sse=0.2;6.2;12.2" % T6, "0.2;6.2;12.1"),
}
# C17_set_get_records_refuted: 30 sub-segments with user slot 0 in one segment, one triangle
RECORDS30 = "seg ver=fo4 nv=3 attrs=u tris=0.1.2 inf=0:%s labels=0 steps= save=1" % "+".join("%d.0" % k for k in range(1, 31))


def gen_cases(tier, rng):
    cases = []
    quick = tier == "quick"
    # the former counter-example of the re-fit (repaired as C17-refit-first-subsegment-start) first
    nv, tris = disjoint_tris(6)
    cases.append(case_line("fo4", nv, tris, "0:1.0+2.0;3:-", [0, 0, 1, 2, 2, 3], [[15]]))
    cases += [w[0] for w in WITNESS.values()] + [RECORDS30]
    # 29 numbered sub-segments (the largest well-formed count) plus real slots
    cases.append("seg ver=fo4 nv=3 attrs=u tris=0.1.2 inf=0:%s labels=0 steps= save=1" % "+".join(
        ["%d.%d" % (k, (k * 7) % 30) for k in range(1, 30)] + ["30.30", "31.77"]))
    # exhaustive label lists
    for inf, maxnt in ((INF_A, 4 if quick else 6), (INF_B, 3 if quick else 4), (INF_P, 3 if quick else 5)):
        ids = gs.inf_ids(gs.parse_inf(inf)) + [-1]
        for nt in range(0, maxnt + 1):
            nv, tris = disjoint_tris(nt, extra=1)
            for k, labels in enumerate(itertools.product(ids, repeat=nt)):
                ver = "fo4" if k % 2 == 0 else "fo76"
                steps = [[3 * rng.randrange(nt)]] if nt else []
                if nt and rng.random() < 0.3:
                    steps = [[3 * nt]]                     # an unused vertex: no triangle goes
                if nt > 1 and rng.random() < 0.3:
                    steps.append([0])
                sse = sse_tiling(rng, nt) if (nt and k % 4 == 1) else None
                cases.append(case_line(ver, nv if nt else 1, tris, inf, labels, steps, 1 if quick or k % 3 == 0 else 0, sse))
    # random: larger triangle counts, shared vertices, random infos
    for _ in range(300 if quick else 5000):
        nt = rng.randint(1, 12 if quick else 40)
        nv, tris = shared_tris(rng, nt) if rng.random() < 0.5 else disjoint_tris(nt, rng.randint(0, 2))
        nseg = rng.randint(1, 4)
        ids = list(range(nseg * 4))
        rng.shuffle(ids)
        p, inf, allids = 0, [], []
        for _ in range(nseg):
            sid = ids[p]
            p += 1
            subs = []
            for _ in range(rng.choice([0, 0, 1, 2, 3])):
                subs.append(ids[p])
                p += 1
            allids += [sid] + subs
            inf.append("%d:%s" % (sid, "+".join("%d.%d" % (x, rng.choice([0, 0, 5, 30, 31, 77])) for x in subs) or "-"))
        labels = [rng.choice(allids + [-1]) for _ in range(nt)]
        steps = []
        left = nv
        for _ in range(rng.randint(0, 3)):
            if left <= 0:
                break
            m = rng.randint(1, min(3, left))
            steps.append(sorted(rng.sample(range(left), m)))
            left -= m
        u = rng.random()
        sse = sse_tiling(rng, nt) if u < 0.45 else (sse_malformed(rng, nt) if u < 0.6 else None)
        cases.append(case_line(rng.choice(["fo4", "fo76"]), nv, tris, ";".join(inf), labels, steps, sse=sse))
    return cases


def gen_files(tier, rng):
    """FO4 samples: set a segmentation on the real shapes, delete, save, reload"""
    out = []
    for f, k, nt in (("TestNifFile_Skinned_FO4.nif", 0, 68), ("TestNifFile_Skinned_FO4.nif", 1, 68)):
        for _ in range(2 if tier == "quick" else 12):
            labels = [rng.choice([0, 1, 2, 3, 4, -1]) for _ in range(nt)]
            steps = [sorted(rng.sample(range(100), rng.randint(1, 5)))]
            out.append("file name=%s shape=%d inf=%s labels=%s steps=%s save=1" % (
                f, k, INF_A, ",".join(map(str, labels)), ";".join(",".join(map(str, s)) for s in steps)))
    return out


def finding_status(fid):
    for k in vlib.load_known():
        if k.get("id") == fid:
            return k.get("status")
    return None


def check_case(rep, case, iline, mset, mdel, stats):
    refit_status = finding_status(KNOWN_REFIT)
    I = iline[2:].split(" | ")
    kvc = gs.kv(case)
    mismatch, fails = None, []
    if not I[0].startswith("PRE "):
        return {"case": case, "why": "no PRE dump"}, fails
    prekv = gs.kv(I[0].split(" S ", 1)[0])
    pre_s = "S " + I[0].split(" S ", 1)[1]
    I = I[1:]
    dels = [x for x in I if not x.startswith("SV ") and not x.startswith("RL ")]
    # correspondence: SetSegmentation, then the deletions
    if mset is None or mset[2:] != dels[0]:
        ka, kb = gs.kv(dels[0]), gs.kv(mset[2:] if mset else "")
        mismatch = {"case": case, "step": "set", "fields": {x: [ka.get(x, "<none>")[:160], kb.get(x, "<none>")[:160]] for x in sorted(set(ka) | set(kb)) if ka.get(x) != kb.get(x)}, "model": (mset or "")[:40]}
    M = mdel[2:].split(" | ") if mdel else []
    for k, a in enumerate(dels):
        b = M[k] if k < len(M) else "<missing>"
        if a != b and mismatch is None:
            ka, kb = gs.kv(a), gs.kv(b)
            mismatch = {"case": case, "step": k, "fields": {x: [ka.get(x, "<none>")[:160], kb.get(x, "<none>")[:160]] for x in sorted(set(ka) | set(kb)) if ka.get(x) != kb.get(x)}}
    try:
        inf = gs.parse_inf(kvc["inf"])
        labels = gs.ints(prekv["labels"])
        dtok = {}
        for q in (prekv.get("dtok", "").split(",") if prekv.get("dtok") else []):
            a, b = q.split(".")
            dtok[int(a)] = int(b)
        pre = gs.parse_state(pre_s)
        states = [gs.parse_state(x.split("S ", 1)[1] if not x.startswith("S") else x) for x in dels]
        valid = all(l == -1 or l in gs.inf_ids(inf) for l in labels) and len(labels) == pre["b"]["nt"]
        # hypotheses of the new theorems: the SSE table tiles the triangle list (C17_sse_refit_keeps_ranges);
        # fewer than 30 sub-segments with a user slot below 30 per segment (C17_set_get_records)
        sse_wf = sse_tiles(pre["b"]["SSE"], pre["b"]["nt"])
        slots_wf = all(sum(1 for (_, slot) in subs if slot < 30) < 30 for (_, subs) in inf)
        if pre["b"]["SSE"]:
            stats["sse_tiling" if sse_wf else "sse_malformed"] = stats.get("sse_tiling" if sse_wf else "sse_malformed", 0) + 1
        if not slots_wf:
            stats["records_malformed"] = stats.get("records_malformed", 0) + 1

        def outside_hyp(msg):
            return (not sse_wf and msg.startswith("SSE segment")) or (not slots_wf and msg.startswith("segmentation info read back"))
        if valid:
            e = [m for m in gs.set_errors(pre, inf, labels, dtok, states[0]) if not outside_hyp(m)]
            if slots_wf and any(s for (_, s) in inf):
                stats["records_checked"] = stats.get("records_checked", 0) + 1
            if e:
                fails.append({"case": case, "step": "set", "errors": e[:5]})
            stats["sets"] = stats.get("sets", 0) + 1
            if len(set(labels)) > 1:
                stats["nontrivial"] = True
        steps = [gs.ints(s) for s in kvc.get("steps", "").split(";")] if kvc.get("steps") else []
        prev = states[0]
        ok_so_far = valid and not fails
        for k, idx in enumerate(steps):
            if k + 1 >= len(states) or not ok_so_far:
                break
            cur = states[k + 1]
            want, got = gs.labels_after_delete(prev, cur)
            errs = []
            if want != got:
                errs.append("labels after vertex deletion %s, surviving triangles carried %s" % (got, want))
            errs += [m for m in gs.seg_range_errors(cur["b"], True) if not outside_hyp(m)]
            if cur["b"]["SSE"] and sse_wf:
                stats["sse_refits_checked"] = stats.get("sse_refits_checked", 0) + 1
                if not sse_tiles(cur["b"]["SSE"], cur["b"]["nt"]):
                    errs.append("SSE segment table no longer tiles the triangle list after the re-fit: %s on %d triangles" % (cur["b"]["SSE"], cur["b"]["nt"]))
            if sorted(cur["b"]["TR"]) != sorted(gs.tris_after(prev["b"]["TR"], set(idx))):
                errs.append("triangles after deletion are not the untouched ones")
            stats["refits"] = stats.get("refits", 0) + 1
            if errs:
                applies = gs.refit_bug_applies(prev, cur)
                if applies and refit_status == "known":
                    rep.known_finding(KNOWN_REFIT, case[:160])
                    stats["known"] = stats.get("known", 0) + 1
                else:
                    if applies:
                        errs = ["the defect repaired as %s is back" % KNOWN_REFIT] + errs
                    fails.append({"case": case, "step": k + 1, "idx": idx, "errors": errs[:4]})
                ok_so_far = False                        # labels are off from here on
            elif refit_status == "known" and gs.refit_bug_applies(prev, cur):
                fails.append({"case": case, "step": k + 1, "errors": ["known re-fit defect expected on this input but the labels are right: matcher or tree changed"]})
            prev = cur
        for name, (wcase, wsse) in WITNESS.items():
            if case == wcase:
                stats["witness_" + name] = 1
                got = ";".join("%d.%d" % t for t in states[-1]["b"]["SSE"])
                if got != wsse or states[-1]["b"]["nt"] != 5:
                    fails.append({"case": case, "errors": ["witness %s of Properties_C17.v: the implementation leaves SSE table %s on %d triangles, the theorem says %s on 5" % (name, got, states[-1]["b"]["nt"], wsse)]})
        if case == RECORDS30:
            stats["witness_records-30"] = 1
            got = gs.parse_gsI(states[0].get("gsI", ""))
            slots = [x[1] for x in got[0][1]] if got else []
            if slots != [0] * 29 + [30]:
                fails.append({"case": case, "errors": ["witness records-30 of Properties_C17.v: the implementation reads the user slots %s back, the theorem says 29 x 0 then 30" % slots]})
        rl = [x for x in I if x.startswith("RL ")]
        if rl and ok_so_far:
            stats["reloads"] = stats.get("reloads", 0) + 1
            if rl[0][:8] != "RL rc=0 ":
                fails.append({"case": case, "errors": ["reload failed: " + rl[0][:20]]})
            else:
                re = gs.parse_state(rl[0].split("S ", 1)[1])
                if prev["b"]["nt"] > 0 and (re.get("gsL") != prev.get("gsL") or re["b"]["TR"] != prev["b"]["TR"]
                                            or gs.parse_gsI(re.get("gsI", "")) != gs.parse_gsI(prev.get("gsI", ""))
                                            or [m for m in gs.seg_range_errors(re["b"], True) if not outside_hyp(m)]):
                    fails.append({"case": case, "errors": ["labels / segment tables differ after save + reload: %s vs %s" % (re.get("gsL"), prev.get("gsL"))]})
    except Exception as ex:
        fails.append({"case": case, "errors": ["unparsable dump: %r" % (ex,)]})
    return mismatch, fails


def run(tier, seed, replay=None):
    rep = vlib.Reporter(PID, tier, seed)
    hygiene = vlib.coq_hygiene()
    pr = vlib.coq_property(PID)
    cov = vlib.proof_coverage(pr, hygiene)
    if not pr["ok"] or hygiene:
        rep.violation("proof obligations of Properties_C17.v not discharged: " + ",".join(pr["failed"] or hygiene),
                      {"broken": "theorems " + ",".join(pr["failed"]), "log": pr["log"][-3000:], "hygiene": hygiene}, found_input=False)
    impl_bin = vlib.build_oracle("asan")
    model_bin = vlib.build_model_oracle()
    rng = random.Random(seed)
    samples_dir = os.environ.get("VERIF_SAMPLES") or os.path.join(vlib.REPO, "tests", "input")
    env = {"VERIF_SAMPLES": samples_dir}
    if replay:
        r = json.load(open(replay))
        cases = [r["case"]] if "case" in r else [c["case"] for c in r.get("cases", [])]
    else:
        corpus = []
        try:
            corpus = [l.strip() for l in open(vlib.ROOT + "/corpus/C17/cases.txt") if l.strip() and not l.startswith("#")]
        except OSError:
            pass
        cases = corpus + gen_cases(tier, rng) + gen_files(tier, rng)
    impl = vlib.run_cases_robust(impl_bin, [FAMILY], cases, timeout_per_batch=900, batch=1000, env=env)
    mcases, owner = [], []
    for k, (c, il, crash) in enumerate(impl):
        if crash is not None or il is None or not il.startswith("I=PRE "):
            continue
        st = il[2:].split(" | ")
        prekv = gs.kv(st[0].split(" S ", 1)[0])
        pre_s = "S " + st[0].split(" S ", 1)[1]
        kvc = gs.kv(c)
        mcases.append("setseg st=%s inf=%s labels=%s dtok=%s ssf=%s" % (pre_s.replace(" ", "~"), kvc["inf"], prekv.get("labels", ""), prekv.get("dtok", ""), prekv.get("ssf", "0")))
        owner.append((k, "set"))
        mcases.append("del st=%s steps=%s" % (st[1].replace(" ", "~"), kvc.get("steps", "")))
        owner.append((k, "del"))
    model = vlib.run_cases_robust(model_bin, [FAMILY], mcases, timeout_per_batch=1500, batch=1000)
    mres = {}
    for (k, what), (mc, ml, mcrash) in zip(owner, model):
        if mcrash is not None or ml is None:
            rep.violation("model oracle failed", {"case": cases[k], "model_crash": mcrash}, found_input=False)
        else:
            mres[(k, what)] = ml
    mism, fails, nontriv = [], [], set()
    stats = {}
    for k, (c, il, crash) in enumerate(impl):
        if crash is not None or il is None:
            rep.violation("implementation crashed (sanitizer/abort/timeout) on a valid segmentation history",
                          {"case": c, "family": FAMILY, "crash": crash})
            continue
        if not il.startswith("I=PRE "):
            rep.violation("oracle could not build or load the shape: " + il[:60], {"case": c, "family": FAMILY}, found_input=False)
            continue
        st = {}
        m, f = check_case(rep, c, il, mres.get((k, "set")), mres.get((k, "del")), st)
        for a, b in st.items():
            if a != "nontrivial":
                stats[a] = stats.get(a, 0) + b
        if st.get("nontrivial"):
            nontriv.add(c)
        if m:
            mism.append(m)
        fails += f
    for f in fails[:12]:
        rep.violation("segmentation property broken: " + "; ".join(f["errors"][:2]), dict(f, family=FAMILY))
    if mism and not fails:
        rep.violation("correspondence geom (Coq segmentation model vs SetSegmentation/GetSegmentation/re-fit) no longer holds; theorems of Properties_C17.v no longer speak about the code",
                      {"broken": "correspondence:geom", "family": FAMILY, "cases": mism[:10]}, found_input=False)
    unproved = []
    try:
        unproved = json.load(open(os.path.join(vlib.ROOT, "tools", "props", "C17.manifest.json"))).get("unproved", [])
    except (OSError, ValueError):
        pass
    cov.update({
        "evaluations": len(cases),
        "distinct_nontrivial": len(nontriv),
        "rule": "every label list over the declared ids and -1 for up to %s triangles with three segmentation infos (2 segments with 2+1 sub-segments; 3 segments x 2 sub-segments; permuted ids with an empty segment), alternating FO4 / FO76, each followed by a vertex deletion (a triangle's vertex or an unused vertex) and mostly save + reload; seeded random infos (1-4 segments, 0-3 sub-segments, user slots below and above 30, permuted ids) on up to %d triangles with shared vertices and up to 3 deletions; an SSE-style segment table on about half of them (tilings with 1-4 segments, and a malformed stream: gap in front, overlaps, gaps, beyond the list, index no multiple of 3: correspondence only); the vm_compute witnesses of the _refuted theorems (sse-front-gap, sse-overlap, records-30) and a 29+2 sub-segment info; the two shapes of the skinned FO4 sample; non-trivial = at least two distinct labels; distinct = distinct case lines" % ("4/3/3" if tier == "quick" else "6/4/5", 12 if tier == "quick" else 40),
        "samples": cases[:2] + cases[len(cases) // 2:len(cases) // 2 + 2] + cases[-2:],
        "input_distribution": {"set_get_checked": stats.get("sets", 0), "refit_steps": stats.get("refits", 0),
                               "refit_steps_hitting_known_finding": stats.get("known", 0), "save_reload_checked": stats.get("reloads", 0),
                               "records_round_trips_checked": stats.get("records_checked", 0), "records_malformed_infos": stats.get("records_malformed", 0),
                               "sse_tiling_cases": stats.get("sse_tiling", 0), "sse_malformed_cases": stats.get("sse_malformed", 0),
                               "sse_refit_steps_checked": stats.get("sse_refits_checked", 0),
                               "refuted_witnesses_replayed": sorted(k[8:] for k in stats if k.startswith("witness_"))},
        "traces_validated_against_impl": len(mres) // 2,
        "correspondence_mismatches": len(mism),
        "spec_failures_on_impl": len(fails),
        "unproved": unproved,
        "trusted_base": vlib.BASE_TRUSTED + ["modelled, not verified: std::stable_sort (as a stable insertion sort, proved stable), std::vector (lists with faulting get/set), uint32 arithmetic as explicit wrap",
                                             "tools/geomspec.py: the property evaluated on dumps, written without the model"],
        "exhaustive": False,
    })
    return rep.finish(cov, ["label list has one entry per triangle; every label is an id declared in the segmentation info or -1 (valid_labels: an undeclared label indexes oldToNewPartIDs out of bounds in the C++, Fault in the model, outside the property's quantifier); ids in the info are distinct and non-negative",
                            "records round trip: fewer than 30 sub-segments with userSlotID < 30 per segment (C17_set_get_records; otherwise C17_set_get_records_general says what is read, C17_set_get_records_refuted shows the difference); SSE table range facts: the table tiles the triangle list from 0 (C17_sse_refit_keeps_ranges; otherwise refuted, witnesses replayed)"])
