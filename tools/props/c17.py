"""C17 — segment / partition labels round-trip and always partition the triangles.

Proof: coq/Properties/Properties_C17.v over coq/Geom/SegModel.v (SetSegmentation with its
stable sort as an insertion sort, the range tables, the renumbering; GetSegmentation;
ReorderTriangles) and the re-fit part of Geom/GeomModel.v.
Tie: FO4 / FO76 BSSubIndexTriShapes built through the public API (and the FO4 samples) get every
label list of a small scope and random ones through SetShapeSegments / GetShapeSegments, then vertex
deletions, save and reload; the extracted model must predict every dump. Search: the property
(tools/geomspec.py) is evaluated on the implementation's dumps."""
import itertools
import json
import os
import random

import vlib
import geomspec as gs

PID = "C17"
FAMILY = "geom"
KNOWN_REFIT = "C17-refit-first-subsegment-start"

INF_A = "0:1.0+2.0;3:4.31"                # 2 segments, 2 + 1 sub-segments: 5 ids
INF_B = "0:1.0+2.0;3:4.0+5.31;6:7.0+8.0"  # 3 segments x 2 sub-segments: 9 ids
INF_P = "5:2.0+7.40;0:-;3:1.0"             # permuted ids, an empty-handed segment


def disjoint_tris(nt, extra=0):
    """nt triangles on 3*nt vertices (+ unused vertices at the end): deleting vertex 3k kills triangle k only"""
    return 3 * nt + extra, ";".join("%d.%d.%d" % (3 * k, 3 * k + 1, 3 * k + 2) for k in range(nt))


def shared_tris(rng, nt):
    nv = max(3, nt + 2)
    tris = set()
    while len(tris) < nt:
        t = tuple(rng.sample(range(nv), 3))
        if gs.rot(t) not in {gs.rot(x) for x in tris} and gs.rot((t[0], t[2], t[1])) not in {gs.rot(x) for x in tris}:
            tris.add(t)
    return nv, ";".join("%d.%d.%d" % t for t in sorted(tris))


def case_line(ver, nv, tris, inf, labels, steps, save=1):
    return "seg ver=%s nv=%d attrs=u tris=%s inf=%s labels=%s steps=%s save=%d" % (
        ver, nv, tris, inf, ",".join(map(str, labels)), ";".join(",".join(map(str, s)) for s in steps), save)


def gen_cases(tier, rng):
    cases = []
    quick = tier == "quick"
    # the former counter-example of the re-fit (repaired as C17-refit-first-subsegment-start) first
    nv, tris = disjoint_tris(6)
    cases.append(case_line("fo4", nv, tris, "0:1.0+2.0;3:-", [0, 0, 1, 2, 2, 3], [[15]]))
    # exhaustive label lists
    for inf, maxnt in ((INF_A, 4 if quick else 6), (INF_B, 3 if quick else 4), (INF_P, 3 if quick else 5)):
        ids = gs.inf_ids(gs.parse_inf(inf)) + [-1]
        for nt in range(0, maxnt + 1):
            nv, tris = disjoint_tris(nt, extra=1)
            for k, labels in enumerate(itertools.product(ids, repeat=nt)):
                ver = "fo4" if k % 2 == 0 else "fo76"
                steps = [[3 * rng.randrange(nt)]] if nt else []
                if nt and rng.random() < 0.3:
                    steps = [[3 * nt]]                     # an unused vertex: no triangle goes
                if nt > 1 and rng.random() < 0.3:
                    steps.append([0])
                cases.append(case_line(ver, nv if nt else 1, tris, inf, labels, steps, 1 if quick or k % 3 == 0 else 0))
    # random: larger triangle counts, shared vertices, random infos
    for _ in range(300 if quick else 5000):
        nt = rng.randint(1, 12 if quick else 40)
        nv, tris = shared_tris(rng, nt) if rng.random() < 0.5 else disjoint_tris(nt, rng.randint(0, 2))
        nseg = rng.randint(1, 4)
        ids = list(range(nseg * 4))
        rng.shuffle(ids)
        p, inf, allids = 0, [], []
        for _ in range(nseg):
            sid = ids[p]
            p += 1
            subs = []
            for _ in range(rng.choice([0, 0, 1, 2, 3])):
                subs.append(ids[p])
                p += 1
            allids += [sid] + subs
            inf.append("%d:%s" % (sid, "+".join("%d.%d" % (x, rng.choice([0, 0, 5, 30, 31, 77])) for x in subs) or "-"))
        labels = [rng.choice(allids + [-1]) for _ in range(nt)]
        steps = []
        left = nv
        for _ in range(rng.randint(0, 3)):
            if left <= 0:
                break
            m = rng.randint(1, min(3, left))
            steps.append(sorted(rng.sample(range(left), m)))
            left -= m
        cases.append(case_line(rng.choice(["fo4", "fo76"]), nv, tris, ";".join(inf), labels, steps))
    return cases


def gen_files(tier, rng):
    """FO4 samples: set a segmentation on the real shapes, delete, save, reload"""
    out = []
    for f, k, nt in (("TestNifFile_Skinned_FO4.nif", 0, 68), ("TestNifFile_Skinned_FO4.nif", 1, 68)):
        for _ in range(2 if tier == "quick" else 12):
            labels = [rng.choice([0, 1, 2, 3, 4, -1]) for _ in range(nt)]
            steps = [sorted(rng.sample(range(100), rng.randint(1, 5)))]
            out.append("file name=%s shape=%d inf=%s labels=%s steps=%s save=1" % (
                f, k, INF_A, ",".join(map(str, labels)), ";".join(",".join(map(str, s)) for s in steps)))
    return out


def finding_status(fid):
    for k in vlib.load_known():
        if k.get("id") == fid:
            return k.get("status")
    return None


def check_case(rep, case, iline, mset, mdel, stats):
    refit_status = finding_status(KNOWN_REFIT)
    I = iline[2:].split(" | ")
    kvc = gs.kv(case)
    mismatch, fails = None, []
    if not I[0].startswith("PRE "):
        return {"case": case, "why": "no PRE dump"}, fails
    prekv = gs.kv(I[0].split(" S ", 1)[0])
    pre_s = "S " + I[0].split(" S ", 1)[1]
    I = I[1:]
    dels = [x for x in I if not x.startswith("SV ") and not x.startswith("RL ")]
    # correspondence: SetSegmentation, then the deletions
    if mset is None or mset[2:] != dels[0]:
        ka, kb = gs.kv(dels[0]), gs.kv(mset[2:] if mset else "")
        mismatch = {"case": case, "step": "set", "fields": {x: [ka.get(x, "<none>")[:160], kb.get(x, "<none>")[:160]] for x in sorted(set(ka) | set(kb)) if ka.get(x) != kb.get(x)}, "model": (mset or "")[:40]}
    M = mdel[2:].split(" | ") if mdel else []
    for k, a in enumerate(dels):
        b = M[k] if k < len(M) else "<missing>"
        if a != b and mismatch is None:
            ka, kb = gs.kv(a), gs.kv(b)
            mismatch = {"case": case, "step": k, "fields": {x: [ka.get(x, "<none>")[:160], kb.get(x, "<none>")[:160]] for x in sorted(set(ka) | set(kb)) if ka.get(x) != kb.get(x)}}
    try:
        inf = gs.parse_inf(kvc["inf"])
        labels = gs.ints(prekv["labels"])
        dtok = {}
        for q in (prekv.get("dtok", "").split(",") if prekv.get("dtok") else []):
            a, b = q.split(".")
            dtok[int(a)] = int(b)
        pre = gs.parse_state(pre_s)
        states = [gs.parse_state(x.split("S ", 1)[1] if not x.startswith("S") else x) for x in dels]
        valid = all(l == -1 or l in gs.inf_ids(inf) for l in labels) and len(labels) == pre["b"]["nt"]
        if valid:
            e = gs.set_errors(pre, inf, labels, dtok, states[0])
            if e:
                fails.append({"case": case, "step": "set", "errors": e[:5]})
            stats["sets"] = stats.get("sets", 0) + 1
            if len(set(labels)) > 1:
                stats["nontrivial"] = True
        steps = [gs.ints(s) for s in kvc.get("steps", "").split(";")] if kvc.get("steps") else []
        prev = states[0]
        ok_so_far = valid and not fails
        for k, idx in enumerate(steps):
            if k + 1 >= len(states) or not ok_so_far:
                break
            cur = states[k + 1]
            want, got = gs.labels_after_delete(prev, cur)
            errs = []
            if want != got:
                errs.append("labels after vertex deletion %s, surviving triangles carried %s" % (got, want))
            errs += gs.seg_range_errors(cur["b"], True)
            if sorted(cur["b"]["TR"]) != sorted(gs.tris_after(prev["b"]["TR"], set(idx))):
                errs.append("triangles after deletion are not the untouched ones")
            stats["refits"] = stats.get("refits", 0) + 1
            if errs:
                applies = gs.refit_bug_applies(prev, cur)
                if applies and refit_status == "known":
                    rep.known_finding(KNOWN_REFIT, case[:160])
                    stats["known"] = stats.get("known", 0) + 1
                else:
                    if applies:
                        errs = ["the defect repaired as %s is back" % KNOWN_REFIT] + errs
                    fails.append({"case": case, "step": k + 1, "idx": idx, "errors": errs[:4]})
                ok_so_far = False                        # labels are off from here on
            elif refit_status == "known" and gs.refit_bug_applies(prev, cur):
                fails.append({"case": case, "step": k + 1, "errors": ["known re-fit defect expected on this input but the labels are right: matcher or tree changed"]})
            prev = cur
        rl = [x for x in I if x.startswith("RL ")]
        if rl and ok_so_far:
            stats["reloads"] = stats.get("reloads", 0) + 1
            if rl[0][:8] != "RL rc=0 ":
                fails.append({"case": case, "errors": ["reload failed: " + rl[0][:20]]})
            else:
                re = gs.parse_state(rl[0].split("S ", 1)[1])
                if prev["b"]["nt"] > 0 and (re.get("gsL") != prev.get("gsL") or re["b"]["TR"] != prev["b"]["TR"]
                                            or gs.parse_gsI(re.get("gsI", "")) != gs.parse_gsI(prev.get("gsI", ""))
                                            or gs.seg_range_errors(re["b"], True)):
                    fails.append({"case": case, "errors": ["labels / segment tables differ after save + reload: %s vs %s" % (re.get("gsL"), prev.get("gsL"))]})
    except Exception as ex:
        fails.append({"case": case, "errors": ["unparsable dump: %r" % (ex,)]})
    return mismatch, fails


def run(tier, seed, replay=None):
    rep = vlib.Reporter(PID, tier, seed)
    hygiene = vlib.coq_hygiene()
    pr = vlib.coq_property(PID)
    cov = vlib.proof_coverage(pr, hygiene)
    if not pr["ok"] or hygiene:
        rep.violation("proof obligations of Properties_C17.v not discharged: " + ",".join(pr["failed"] or hygiene),
                      {"broken": "theorems " + ",".join(pr["failed"]), "log": pr["log"][-3000:], "hygiene": hygiene}, found_input=False)
    impl_bin = vlib.build_oracle("asan")
    model_bin = vlib.build_model_oracle()
    rng = random.Random(seed)
    samples_dir = os.environ.get("VERIF_SAMPLES") or os.path.join(vlib.REPO, "tests", "input")
    env = {"VERIF_SAMPLES": samples_dir}
    if replay:
        r = json.load(open(replay))
        cases = [r["case"]] if "case" in r else [c["case"] for c in r.get("cases", [])]
    else:
        corpus = []
        try:
            corpus = [l.strip() for l in open(vlib.ROOT + "/corpus/C17/cases.txt") if l.strip() and not l.startswith("#")]
        except OSError:
            pass
        cases = corpus + gen_cases(tier, rng) + gen_files(tier, rng)
    impl = vlib.run_cases_robust(impl_bin, [FAMILY], cases, timeout_per_batch=900, batch=1000, env=env)
    mcases, owner = [], []
    for k, (c, il, crash) in enumerate(impl):
        if crash is not None or il is None or not il.startswith("I=PRE "):
            continue
        st = il[2:].split(" | ")
        prekv = gs.kv(st[0].split(" S ", 1)[0])
        pre_s = "S " + st[0].split(" S ", 1)[1]
        kvc = gs.kv(c)
        mcases.append("setseg st=%s inf=%s labels=%s dtok=%s ssf=%s" % (pre_s.replace(" ", "~"), kvc["inf"], prekv.get("labels", ""), prekv.get("dtok", ""), prekv.get("ssf", "0")))
        owner.append((k, "set"))
        mcases.append("del st=%s steps=%s" % (st[1].replace(" ", "~"), kvc.get("steps", "")))
        owner.append((k, "del"))
    model = vlib.run_cases_robust(model_bin, [FAMILY], mcases, timeout_per_batch=1500, batch=1000)
    mres = {}
    for (k, what), (mc, ml, mcrash) in zip(owner, model):
        if mcrash is not None or ml is None:
            rep.violation("model oracle failed", {"case": cases[k], "model_crash": mcrash}, found_input=False)
        else:
            mres[(k, what)] = ml
    mism, fails, nontriv = [], [], set()
    stats = {}
    for k, (c, il, crash) in enumerate(impl):
        if crash is not None or il is None:
            rep.violation("implementation crashed (sanitizer/abort/timeout) on a valid segmentation history",
                          {"case": c, "family": FAMILY, "crash": crash})
            continue
        if not il.startswith("I=PRE "):
            rep.violation("oracle could not build or load the shape: " + il[:60], {"case": c, "family": FAMILY}, found_input=False)
            continue
        st = {}
        m, f = check_case(rep, c, il, mres.get((k, "set")), mres.get((k, "del")), st)
        for a, b in st.items():
            if a != "nontrivial":
                stats[a] = stats.get(a, 0) + b
        if st.get("nontrivial"):
            nontriv.add(c)
        if m:
            mism.append(m)
        fails += f
    for f in fails[:12]:
        rep.violation("segmentation property broken: " + "; ".join(f["errors"][:2]), dict(f, family=FAMILY))
    if mism and not fails:
        rep.violation("correspondence geom (Coq segmentation model vs SetSegmentation/GetSegmentation/re-fit) no longer holds; theorems of Properties_C17.v no longer speak about the code",
                      {"broken": "correspondence:geom", "family": FAMILY, "cases": mism[:10]}, found_input=False)
    unproved = []
    try:
        unproved = json.load(open(os.path.join(vlib.ROOT, "tools", "props", "C17.manifest.json"))).get("unproved", [])
    except (OSError, ValueError):
        pass
    cov.update({
        "evaluations": len(cases),
        "distinct_nontrivial": len(nontriv),
        "rule": "every label list over the declared ids and -1 for up to %s triangles with three segmentation infos (2 segments with 2+1 sub-segments; 3 segments x 2 sub-segments; permuted ids with an empty segment), alternating FO4 / FO76, each followed by a vertex deletion (a triangle's vertex or an unused vertex) and mostly save + reload; seeded random infos (1-4 segments, 0-3 sub-segments, user slots below and above 30, permuted ids) on up to %d triangles with shared vertices and up to 3 deletions; the two shapes of the skinned FO4 sample; non-trivial = at least two distinct labels; distinct = distinct case lines" % ("4/3/3" if tier == "quick" else "6/4/5", 12 if tier == "quick" else 40),
        "samples": cases[:2] + cases[len(cases) // 2:len(cases) // 2 + 2] + cases[-2:],
        "input_distribution": {"set_get_checked": stats.get("sets", 0), "refit_steps": stats.get("refits", 0),
                               "refit_steps_hitting_known_finding": stats.get("known", 0), "save_reload_checked": stats.get("reloads", 0)},
        "traces_validated_against_impl": len(mres) // 2,
        "correspondence_mismatches": len(mism),
        "spec_failures_on_impl": len(fails),
        "unproved": unproved,
        "trusted_base": vlib.BASE_TRUSTED + ["modelled, not verified: std::stable_sort (as a stable insertion sort, proved stable), std::vector (lists with faulting get/set), uint32 arithmetic as explicit wrap",
                                             "tools/geomspec.py: the property evaluated on dumps, written without the model"],
        "exhaustive": False,
    })
    return rep.finish(cov, ["label list has one entry per triangle; every label is an id declared in the segmentation info or -1 (valid_labels: an undeclared label indexes oldToNewPartIDs out of bounds in the C++, Fault in the model, outside the property's quantifier); ids in the info are distinct and non-negative"])
