"""C02 — saving is repeatable and never alters the in-memory model.

Model: the generated SyncIR programs; the in-place effects of write mode (clamps, resizes, reference
cleaning, string truncation) are part of the interpreter, so "writing an object twice gives the same
bytes" is a statement about the model. Search on the implementation: Put twice on generated instances
of every block type; three saves of every loaded sample with queries in between."""
import json
import os
import random
import re

import blocks_engine as be
import vlib

PID = "C02"


def proved_names(pr, info):
    m = re.search(r"=\s*\[(.*?)\]\s*:\s*list N", pr["log"], re.S)
    ids = [int(x) for x in m.group(1).replace("\n", " ").split(";") if x.strip()] if m else []
    byid = {i: b for b, i in zip(info["blocks"], info["ids"])}
    return sorted(byid[i] for i in ids if i in byid)


def per_version(pr):
    m = re.search(r"=\s*\[([^\]]*?)\]\s*:\s*list nat", pr["log"], re.S)
    return [int(x.strip().replace("%nat", "")) for x in m.group(1).replace("\n", " ").split(";") if x.strip()] if m else []


def known_ob_tangent_flag(n, vn, names):
    """Oblivion streams: NiGeometryData::Sync clears bit 12 of dataFlags in place before writing it
    (Geometry.cpp:52-54); only that field, only for the Oblivion version triples"""
    return vn.startswith("OB") and names == ["scalar NiGeometryData::dataFlags"]


def run(tier, seed, replay=None):
    rep = vlib.Reporter(PID, tier, seed)
    hygiene = vlib.coq_hygiene()
    info = vlib.gen_ir(("Cur",))["Cur"]
    pr = vlib.coq_property(PID)
    cov = vlib.proof_coverage(pr, hygiene)
    proved = proved_names(pr, info) if pr["ok"] else []
    base = json.load(open(os.path.join(vlib.ROOT, "baseline", "proved_obligations.json"))).get(PID, [])
    lost = sorted(set(base) - set(proved))
    allb = json.load(open(os.path.join(vlib.ROOT, "baseline", "proved_obligations.json")))
    base_pv, now_pv = allb.get("C02_per_version", []), (per_version(pr) if pr["ok"] else [])
    pv_lost = [i for i, (b0, n0) in enumerate(zip(base_pv, now_pv)) if n0 < b0] if now_pv else list(range(len(base_pv)))
    if pv_lost and not lost:
        lost = ["(per-version count dropped for version index %s: %s -> %s)" % (pv_lost, base_pv, now_pv)]
    plain = vlib.build_oracle("plain")
    model = vlib.build_model_oracle()
    vers = be.QUICK_VERS if tier == "quick" else list(be.VERS)
    seeds = [seed + 100, seed + 101] if tier == "quick" else [seed + 100 + k for k in range(10)]
    samples_dir = os.path.join(vlib.REPO, "tests", "input")
    env = {"VERIF_SAMPLES": samples_dir}
    fails, mism = [], []
    stats = {"block_instances": 0, "model_compared": 0, "sample_save3": 0}
    idname = {v: k for k, v in info["names"].items()} if isinstance(info.get("names"), dict) else {}
    if replay:
        r = json.load(open(replay))
        cases = [(r["case"], r.get("type", ""), r.get("ver", ""), 0)] if r.get("case", "").startswith("blk") else []
        scases = [r["case"]] if r.get("case", "").startswith("save3") else []
    else:
        cases = be.block_cases(info["blocks"], vers, seeds) + be.block_cases(lost, list(be.VERS), [seed + k for k in range(20)])
        # pinned cases first (inputs of the known findings, instances whose flag words have high bits set)
        cp = os.path.join(vlib.ROOT, "corpus", PID, "cases.txt")
        if os.path.exists(cp):
            vname = {v: k for k, v in be.VERS.items()}
            pinned = []
            for line in open(cp):
                line = line.strip()
                if line.startswith("blk "):
                    kvp = dict(t.split("=", 1) for t in line.split()[1:])
                    pinned.append((line, kvp["type"], vname.get(kvp["ver"], kvp["ver"]), int(kvp["seed"])))
            cases = pinned + cases
        cases = cases + be.float_boundary_cases(12 if tier == "quick" else 60)
        samples = sorted(f for f in os.listdir(samples_dir) if f.endswith(".nif"))
        scases = ["save3 name=%s opts=%s" % (f, o) for f in samples for o in ("raw", "default")]
        # edited models: positions / texture coordinates set through the API to values no binary16 holds exactly
        scases += ["save3 name=%s opts=%s perturb=1" % (f, o) for f in samples for o in ("raw", "default")]
        # files whose mapped partition triangles are not stored smallest-index-first (the partition query between the
        # saves builds a cache from them; a save must not rewrite the stored lists from it)
        scases += ["save3 name=%s opts=%s rotparts=1" % (f, o) for f in samples if "Skinned" in f or "_LE" in f or "_OB" in f for o in ("raw", "default")]
        # edited models: a root with many children (more than any sample has)
        scases += ["save3 name=%s opts=default kids=%d" % (f, k) for f in samples[::3] for k in ((24,) if tier == "quick" else (17, 24, 60))]
        # edited models: one child reference emptied (a sub-tree becomes unreferenced), then three default saves
        erng = random.Random(seed * 7919 + 13)
        nedit = 3 if tier == "quick" else 25
        scases += ["save3 name=%s opts=default edit=%d" % (f, erng.randrange(0, 400)) for f in samples for _ in range(nedit)]
    res = be.par_run(plain, "blocks", [c[0] for c in cases], timeout=120)
    items = []
    for (c, n, vn, s), (_, l, crash) in zip(cases, res):
        if crash is not None or l is None or "idem=" not in l:
            continue                # crashes are C01/C16's business
        kv = be.kv_of(l)
        stats["block_instances"] += 1
        if kv["idem"] != "1":
            stream = int(be.VERS[vn].split(",")[2]) if vn in be.VERS else 0
            if n == "BSLightingShaderProperty" and stream > 139 and any(k["id"] == "C02-fo76-shader-type" for k in rep.known):
                rep.known_finding("C02-fo76-shader-type", c)
            else:
                fails.append({"case": c, "type": n, "ver": vn, "what": "writing the same object twice gives different bytes", "impl": l[:3000]})
        if n not in info.get("opaque", {}) and int(kv["len"]) <= be.MODEL_MAX_LEN:
            items.append((n, vn, kv, c))
    mres = be.par_run(model, "syncir", be.model_cases(info, [(n, vn, kv["b1"]) for (n, vn, kv, c) in items]), timeout=180)
    for (n, vn, kv, c), (mc, l, crash) in zip(items, mres):
        stats["model_compared"] += 1
        why = be.compare_model(kv, l)
        if why:
            mism.append({"case": c, "type": n, "ver": vn, "disagreement": why, "model": (l or str(crash))[:1000]})
    # second pass: the model reads the bytes the instance was GENERATED from (b0) and writes; its output must be
    # the implementation's first Put (b1), and the fields the write altered in the object just read are listed
    items0 = [(n, vn, kv, c) for (n, vn, kv, c) in items if kv.get("b0")]
    mres0 = be.par_run(model, "syncir", be.model_cases(info, [(n, vn, kv["b0"]) for (n, vn, kv, c) in items0]), timeout=180)
    for (n, vn, kv, c), (mc, l, crash) in zip(items0, mres0):
        if l is None or not l.startswith("M=consumed"):
            continue
        mk = be.kv_of(l)
        stats["model_read_generated"] = stats.get("model_read_generated", 0) + 1
        if mk.get("out") != kv["b1"] or mk.get("consumed") != "1":
            if kv.get("rt") == "1":
                mism.append({"case": c, "type": n, "ver": vn, "disagreement": ["model(b0) does not print the implementation's Put(o)"], "model": l[:1000], "b0": kv["b0"][:1000]})
            continue
        alt = [("scalar", x) for x in mk.get("alt_i", "").split(",") if x] + [("size", x) for x in mk.get("alt_s", "").split(",") if x] \
            + [("bytes", x) for x in mk.get("alt_b", "").split(",") if x]
        if alt:
            stats["altering_instances"] = stats.get("altering_instances", 0) + 1
            names = sorted({"%s %s" % (k, idname.get(int(x), x)) for k, x in alt})
            stats.setdefault("altering_kinds", {})
            kk = "%s: %s" % (n, ", ".join(names))
            stats["altering_kinds"][kk] = stats["altering_kinds"].get(kk, 0) + 1
            if known_ob_tangent_flag(n, vn, names) and any(k["id"] == "C02-ob-tangents-dropped" for k in rep.known):
                rep.known_finding("C02-ob-tangents-dropped", c)
            elif n == "NiPalette" and names == ["bytes NiPalette::palette[]", "size NiPalette::palette"] and any(k["id"] == "C02-nipalette-resized-on-save" for k in rep.known):
                rep.known_finding("C02-nipalette-resized-on-save", c)
            elif n == "NiStringPalette" and names == ["scalar NiStringPalette::length"] and any(k["id"] == "C02-stringpalette-length-rewritten" for k in rep.known):
                rep.known_finding("C02-stringpalette-length-rewritten", c)
            else:
                fails.append({"case": c, "type": n, "ver": vn, "what": "writing a block alters fields of the in-memory object: " + ", ".join(names[:8]),
                              "model": l[:600], "impl_bytes": kv["b1"][:1200]})
    sres = be.par_run(plain, "blocks", scases, timeout=180, env=env)
    for c, (_, l, crash) in zip(scases, sres):
        if crash is not None or l is None or "same12=" not in l:
            fails.append({"case": c, "what": "three consecutive saves crashed", "impl": l, "crash": crash})
            continue
        kv = be.kv_of(l)
        stats["sample_save3"] += 1
        raw = "opts=raw" in c
        bad = []
        if kv.get("same12") != "1" or kv.get("same23") != "1":
            bad.append("a later save of the same object differs from the first")
        if kv.get("q12") != "1" or kv.get("q23") != "1" or (raw and kv.get("q01") != "1"):
            bad.append("queries answer differently after a save")
        if bad:
            ob = "_OB" in c
            if ob and any(k["id"] == "C02-ob-tangents-dropped" for k in rep.known) and kv.get("same23") == "1":
                rep.known_finding("C02-ob-tangents-dropped", c)
            else:
                fails.append({"case": c, "what": "; ".join(bad), "impl": l[:2500]})
    for f in fails[:10]:
        rep.violation("save is not repeatable: " + f["what"], dict(f, family="blocks"))
    if mism and not fails:
        rep.violation("correspondence syncir (generated Coq model vs Sync bodies, incl. write idempotence) no longer holds on %d instance(s): %s" % (len(mism), ",".join(sorted({m["type"] for m in mism})[:8])),
                      {"broken": "correspondence:syncir", "family": "syncir", "cases": mism[:10]}, found_input=False)
    if (not pr["ok"] or lost or hygiene) and not fails:
        rep.violation("write-idempotence obligation no longer discharged for: %s" % (",".join(lost[:10]) or ",".join(pr["failed"]) or ",".join(hygiene)),
                      {"broken": "obligations of coq/Properties/Properties_C02.v for " + ",".join(lost), "log": pr["log"][-1500:] if not pr["ok"] else ""}, found_input=False)
    cov["obligations"] += len(base) + sum(base_pv)
    cov["discharged"] += len(set(base) & set(proved)) + sum(min(a, b) for a, b in zip(base_pv, now_pv))
    cov.update({
        "per_type_obligations": {"baseline": len(base), "discharged_now": len(set(base) & set(proved)), "lost": lost,
                                 "newly_discharged_not_in_baseline": sorted(set(proved) - set(base))},
        "per_version_obligations": {"baseline": base_pv, "now": now_pv},
        "unproved": ["write idempotence (C02_write_idem / kchk) is proved for the block types the static write-once discipline accepts; the following are checked on the model and on the implementation for every generated instance, not proved: " + ",".join(sorted(set(info["blocks"]) - set(proved))),
                     "the file-level pipeline (FinalizeData, Optimize, sort) is explored on the samples, not proved"],
        "evaluations": stats["block_instances"] + stats["sample_save3"],
        "distinct_nontrivial": stats["block_instances"] + stats["sample_save3"],
        "rule": "block level: every registered block type x versions %s x seeds %s: Put twice on one object (implementation) and print twice (model); file level: every sample x {raw, default}: load once, save three times with a query battery before and after each save; outputs and query digests compared" % (vers, seeds),
        "samples": [c[0] for c in cases[:3]] + scases[:3],
        "input_distribution": stats,
        "traces_validated_against_impl": stats["model_compared"],
        "correspondence_mismatches": len(mism),
        "trusted_base": vlib.BASE_TRUSTED + ["translator tools/nif2ir.py + clang 14 AST dump (validated on every run by byte/trace comparison)"],
        "exhaustive": False,
    })
    return rep.finish(cov, ["bounding spheres recomputed by a default save (Miniball) are part of the compared bytes only after the first save"])
