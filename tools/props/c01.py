"""C01 — load/save round trip is exact and reaches a byte-level fixed point.

Model: the SyncIR programs of all registered block types, GENERATED from /repo on every run, executed
by the Coq interpreter (extracted). Proof obligations: coq/Properties/Properties_C01.v.
Correspondence: for generated instances of every block type in every supported version the model must
reproduce the implementation's bytes and primitive-transfer traces (read and write).
Search: put.get.put = put at block level on the implementation; raw-save fixed point and two-round
convergence of the default save on all sample files and on generated files."""
import json
import os
import random
import re

import blocks_engine as be
import vlib

PID = "C01"


def proved_names(pr, info):
    m = re.search(r"=\s*\[(.*?)\]\s*:\s*list N", pr["log"], re.S)
    ids = [int(x) for x in m.group(1).replace("\n", " ").split(";") if x.strip()] if m else []
    byid = {i: b for b, i in zip(info["blocks"], info["ids"])}
    return sorted(byid[i] for i in ids if i in byid)


def per_version(pr):
    m = re.search(r"=\s*\[([^\]]*?)\]\s*:\s*list nat", pr["log"], re.S)
    return [int(x.strip().replace("%nat", "")) for x in m.group(1).replace("\n", " ").split(";") if x.strip()] if m else []


def known_shader_type(n, vn, kv):
    """FO76/Starfield BSLightingShaderProperty: the shader type is written before it is adjusted and the
    member is decremented in place (Shaders.cpp:411-424)"""
    stream = int(be.VERS[vn].split(",")[2]) if vn in be.VERS else 0
    return n == "BSLightingShaderProperty" and stream > 139


def known_sse_skinned_particles(n, vn, kv):
    """SSE (user 12, stream 100) BSTriShape family: a skinned shape is written with zero vertex/triangle counts
    (its data lives in the skin partition) but its particle arrays are still written with the in-memory
    counts (Geometry.cpp:468-482 vs 576-598)"""
    vs = be.VERS.get(vn, vn).split(",")
    return (len(vs) == 3 and vs[1] == "12" and vs[2] == "100" and kv.get("bs_skinned") == "1"
            and int(kv.get("bs_pds", "0") or 0) > 0 and (int(kv.get("bs_nv", "0") or 0) > 0 or int(kv.get("bs_nt", "0") or 0) > 0))


def run(tier, seed, replay=None):
    rep = vlib.Reporter(PID, tier, seed)
    hygiene = vlib.coq_hygiene()
    info = vlib.gen_ir(("Cur",))["Cur"]
    pr = vlib.coq_property(PID)
    cov = vlib.proof_coverage(pr, hygiene)
    proved = proved_names(pr, info) if pr["ok"] else []
    base = json.load(open(os.path.join(vlib.ROOT, "baseline", "proved_obligations.json"))).get(PID, [])
    lost = sorted(set(base) - set(proved))
    plain = vlib.build_oracle("plain")
    model = vlib.build_model_oracle()
    vers = be.QUICK_VERS if tier == "quick" else list(be.VERS)
    seeds = [seed, seed + 1] if tier == "quick" else [seed + k for k in range(10)]
    samples_dir = os.path.join(vlib.REPO, "tests", "input")
    env = {"VERIF_SAMPLES": samples_dir}
    fails, mism = [], []
    stats = {"block_instances": 0, "model_compared": 0, "model_skipped_large": 0, "sample_resaves": 0, "generated_files": 0, "generator_crashes": 0}
    if replay:
        r = json.load(open(replay))
        cases = [(r["case"], r.get("type", ""), r.get("ver", ""), 0)] if r.get("case", "").startswith("blk") else []
        rcases = [r["case"]] if r.get("case", "").startswith("resave") else []
        fcases = [r["case"]] if r.get("case", "").startswith("fileblk") else []
    else:
        cases = be.block_cases(info["blocks"], vers, seeds) + be.block_cases(lost, list(be.VERS), [seed + k for k in range(20)])
        # pinned cases first (minimised failures and the inputs of the known findings)
        cp = os.path.join(vlib.ROOT, "corpus", PID, "cases.txt")
        if os.path.exists(cp):
            vname = {v: k for k, v in be.VERS.items()}
            pinned = []
            for line in open(cp):
                line = line.strip()
                if line.startswith("blk "):
                    kvp = dict(t.split("=", 1) for t in line.split()[1:])
                    pinned.append((line, kvp["type"], vname.get(kvp["ver"], kvp["ver"]), int(kvp["seed"])))
            cases = pinned + cases
        cases = cases + be.float_boundary_cases(12 if tier == "quick" else 60)
        samples = sorted(f for f in os.listdir(samples_dir) if f.endswith(".nif"))
        rcases = ["resave name=%s opts=%s" % (f, o) for f in samples for o in ("raw", "default")]
        # loadable files whose pruning needs deletions that enable each other: a chain of unreferenced nodes, stored
        # child-before-parent / parent-before-child / alternating (convergence within two rounds of the default save)
        lsamples = samples if tier != "quick" else samples[::4]
        # loadable files with messy texture paths (runs of mixed separators, blanks, prefixes): Load cleans them, the
        # cleaned file must be a fixed point of the raw save and converge under the default save
        messy = ["textures///armor\\iron\\cuirass.dds", "textures\\\\\\a//b/\\c.dds", "  Data\\Textures//x////y.dds ", "c:/games/data/textures/\\/z.dds",
                 "armor/////////helmet.dds", "textures\\a.dds"]
        rcases += ["resave name=%s opts=%s tex=%s" % (f, o, m.encode().hex()) for f in lsamples for o in ("raw", "default")
                   for m in (messy if tier != "quick" else messy[:4])]
        # a root with many children (more than any sample has): the reordering must be stable from round to round
        rcases += ["resave name=%s opts=default kids=%d" % (f, k) for f in lsamples for k in ((24,) if tier == "quick" else (17, 24, 60))]
        rcases += ["resave name=%s opts=default loose=%d order=%s" % (f, k, o) for f in lsamples
                   for k in ((4,) if tier == "quick" else (3, 4, 7)) for o in ("rev", "fwd", "mix")]
        fcases = [c[0].replace("blk ", "fileblk ", 1) for c in be.block_cases(info["blocks"], vers, seeds[:1])]
    # ---- block level
    res = be.par_run(plain, "blocks", [c[0] for c in cases], timeout=120)
    items = []
    for (c, n, vn, s), (_, l, crash) in zip(cases, res):
        if crash is not None or l is None or l.startswith("I=EXC") or "rt=" not in l:
            stats["generator_crashes"] += 1
            fails.append({"case": c, "type": n, "ver": vn, "what": "reading/writing a generated instance crashed or threw", "impl": l, "crash": crash})
            continue
        kv = be.kv_of(l)
        stats["block_instances"] += 1
        if kv["rt"] != "1" or kv["consumed"] != "1":
            if known_shader_type(n, vn, kv) and any(k["id"] == "C01-fo76-shader-type" for k in rep.known):
                rep.known_finding("C01-fo76-shader-type", c)
            elif known_sse_skinned_particles(n, vn, kv) and any(k["id"] == "C01-sse-skinned-particle-data" for k in rep.known):
                rep.known_finding("C01-sse-skinned-particle-data", c)
            else:
                fails.append({"case": c, "type": n, "ver": vn, "what": "put(get(put(o))) differs from put(o), or get does not consume exactly what put wrote", "impl": l[:3000]})
        if n in info.get("opaque", {}):
            continue
        if int(kv["len"]) > be.MODEL_MAX_LEN:
            stats["model_skipped_large"] += 1
            continue
        items.append((n, vn, kv, c))
    mres = be.par_run(model, "syncir", be.model_cases(info, [(n, vn, kv["b1"]) for (n, vn, kv, c) in items]), timeout=180)
    for (n, vn, kv, c), (mc, l, crash) in zip(items, mres):
        stats["model_compared"] += 1
        why = [w for w in be.compare_model(kv, l) if not w.startswith("idempotence")]
        if why:
            mism.append({"case": c, "type": n, "ver": vn, "disagreement": why, "model": (l or str(crash))[:1500], "impl_rtrace": kv["rtrace"][:600], "impl_bytes": kv["b1"][:1500]})
    # ---- file level: samples
    rres = be.par_run(plain, "blocks", rcases, timeout=180, env=env)
    for c, (_, l, crash) in zip(rcases, rres):
        if crash is not None or l is None:
            fails.append({"case": c, "what": "saving/reloading a sample crashed", "crash": crash})
            continue
        kv = be.kv_of(l)
        stats["sample_resaves"] += 1
        raw = "opts=raw" in c
        ok = kv.get("load") == "0" and kv.get("reload") == "0" and (kv.get("fixed") == "1" if raw else (kv.get("fixed") == "1" or kv.get("fixed2") == "1"))
        if not ok:
            fails.append({"case": c, "what": "raw save of a loaded file is not a fixed point" if raw else "default save does not converge to a fixed point within two rounds", "impl": l[:1500]})
    # ---- file level: a generated instance of every type inside a minimal file
    fres = be.par_run(plain, "blocks", fcases, timeout=180)
    for c, (_, l, crash) in zip(fcases, fres):
        if crash is not None or l is None or l.startswith("I=EXC"):
            fails.append({"case": c, "what": "saving/loading a generated file crashed or threw", "impl": l, "crash": crash})
            continue
        kv = be.kv_of(l)
        stats["generated_files"] += 1
        n, vn = c.split()[1][5:], next((k for k, v in be.VERS.items() if "ver=" + v in c), "")
        if not (kv.get("load") == "0" and kv.get("load2") == "0" and kv.get("fixed") == "1"):
            if known_shader_type(n, vn, kv) and any(k["id"] == "C01-fo76-shader-type" for k in rep.known):
                rep.known_finding("C01-fo76-shader-type", c)
            else:
                fails.append({"case": c, "type": n, "what": "raw save of a generated file is not a fixed point / does not reload", "impl": l[:1500]})
    # ---- file level: BSTriShape with full-precision vertices carrying extra floats, built through the public API
    # (a vertex layout no sample file has): the file the library writes must be a fixed point and keep the floats
    if replay:
        ecases = [r["case"]] if r.get("case", "").startswith("bsextra") else []
    else:
        ecases = ["bsextra ver=%s n=%d k=%d" % (be.VERS[vn], nv, k) for vn in ("SSE", "FO4", "FO76") for nv in (3, 7) for k in (0, 1, 2, 3)]
    for c, (_, l, crash) in zip(ecases, be.par_run(plain, "blocks", ecases, timeout=120)):
        if crash is not None or l is None or l.startswith("I=EXC") or "r4=" not in l:
            fails.append({"case": c, "what": "saving/loading an API-built BSTriShape with extra vertex floats crashed or failed", "impl": l, "crash": crash})
            continue
        kv = be.kv_of(l)
        stats["api_extra_float_files"] = stats.get("api_extra_float_files", 0) + 1
        want = c.split("k=")[1]
        bad = [rk for rk in ("r2", "r3", "r4") if kv[rk].split(":")[2] != "1" or kv[rk].split(":")[3] != want]
        if bad:
            fails.append({"case": c, "type": "BSTriShape", "what": "a file the library wrote (BSTriShape with %s extra floats per vertex) is not a fixed point of load+save, or loses/gains floats (%s)" % (want, ",".join(bad)), "impl": l[:600]})
    for f in fails[:10]:
        rep.violation("round trip: " + f["what"], dict(f, family="blocks"))
    if mism and not fails:
        rep.violation("correspondence syncir (generated Coq model vs Sync bodies) no longer holds on %d instance(s): %s" % (len(mism), ",".join(sorted({m["type"] for m in mism})[:8])),
                      {"broken": "correspondence:syncir", "family": "syncir", "cases": mism[:10]}, found_input=False)
    if (not pr["ok"] or lost or hygiene) and not fails:
        rep.violation("round-trip obligation no longer discharged for: %s" % (",".join(lost[:10]) or ",".join(pr["failed"]) or ",".join(hygiene)),
                      {"broken": "obligations of coq/Properties/Properties_C01.v for " + ",".join(lost), "log": pr["log"][-1500:] if not pr["ok"] else ""}, found_input=False)
    pv = per_version(pr) if pr["ok"] else []
    basepv = json.load(open(os.path.join(vlib.ROOT, "baseline", "proved_obligations.json"))).get(PID + "_per_version", [])
    pv_lost = [k for k, (a, b) in enumerate(zip(pv, basepv)) if a < b] if pv else list(range(len(basepv)))
    if pv_lost and not lost and not fails:
        rep.violation("round-trip obligation discharged for fewer block types than the baseline in version(s) #%s" % ",".join(map(str, pv_lost)),
                      {"broken": "per-version obligation counts of coq/Properties/Properties_C01.v", "now": pv, "baseline": basepv}, found_input=False)
    cov["obligations"] += len(base) + sum(basepv)
    cov["discharged"] += len(set(base) & set(proved)) + sum(min(a, b) for a, b in zip(pv, basepv))
    cov.update({
        "per_type_obligations": {"baseline": len(base), "discharged_now": len(set(base) & set(proved)), "lost": lost,
                                 "newly_discharged_not_in_baseline": sorted(set(proved) - set(base)),
                                 "types_per_version_now": pv, "types_per_version_baseline": basepv},
        "unproved": ["block types outside the baseline: " + ",".join(sorted(set(info["blocks"]) - set(proved))),
                     "file level (header, string table, PrepareData/FinalizeData moves): explored on samples and generated files, not proved here (header/string table: C07)"],
        "evaluations": stats["block_instances"] + stats["sample_resaves"] + stats["generated_files"],
        "distinct_nontrivial": stats["block_instances"] + stats["sample_resaves"] + stats["generated_files"],
        "rule": "block level: a populated instance of every registered block type x versions %s x seeds %s (generative read: counts, optional sections and references chosen by the seed) is written, read back and written again by the implementation, and parsed/printed by the generated model (bytes, read trace, write trace compared); file level: every sample x {raw, default} save, reload, save again (twice for default); samples extended by a chain of unreferenced nodes in three storage orders (pruning steps that enable each other) under the default save; every block type inside a minimal file, raw save -> load -> raw save -> load -> raw save. Each (type, version, seed) / (file, options) is a distinct case; all are non-trivial" % (vers, seeds),
        "samples": [c[0] for c in cases[:3]] + rcases[:2] + fcases[:2],
        "input_distribution": stats,
        "traces_validated_against_impl": stats["model_compared"],
        "correspondence_mismatches": len(mism),
        "types_untranslated_in_model": sorted(info.get("opaque", {}).keys()),
        "trusted_base": vlib.BASE_TRUSTED + ["translator tools/nif2ir.py + clang 14 AST dump (validated on every run by the byte/trace comparison above)",
                                            "hand-written semantics of the helper classes NiString, NiStringRef, NiBlockRef(Array), NiVector, NiSyncVector, NiStringVector in coq/SyncIR/Exec.v",
                                            "half.hpp: halves are kept as their 16-bit pattern"],
        "exhaustive": False,
    })
    return rep.finish(cov, ["supported version triples only; generated instances have small counts (<= 255) so that cases stay below %d bytes for the model" % be.MODEL_MAX_LEN])
