"""C03 — blocks of unknown type survive load and save untouched.

Proof: coq/Properties/Properties_C03.v over coq/Container/ContainerModel.v (Load's block loop with
NiUnknown, the hasUnknown switches of the save pipeline, UpdateHeaderStrings in append-only mode,
Save's framing). Tie / search: every sample with a size table is re-labelled (tools/walknif.py
rewrites only the header type table: chosen block TYPES get names nifly has no factory for), loaded
and saved by the real library under both option sets; the independent reader walks input and
output and checks the property (payload bytes, position, type name, declared size of every unknown
block; no block reordered or deleted; every input string still at its index); the extracted Coq
`get_hdr`/`walkb` run on the same outputs and must agree with the independent reader."""
import itertools
import json
import os
import random
import shutil

import vlib
import walknif as wn
from props import c07 as base

PID = "C03"
FAMILY = "container"
FOOT = b"\x01\x00\x00\x00\x00\x00\x00\x00"


def lenient_walk(b):
    """header + payload slices by the size table; the input's footer may list other roots"""
    try:
        t, p = wn.parse_header(b)
    except Exception:  # noqa: BLE001
        return None
    if t["file"] < 0x14020005:
        return None
    offs = []
    for sz in t["sizes"]:
        if p + sz > len(b):
            return None
        offs.append(p)
        p += sz
    return {"tables": t, "offsets": offs, "hlen": offs[0] if offs else p, "tail": b[p:]}


def gen_cases(tier, rng, samples, files):
    cases = []
    for f in files:
        b = open(os.path.join(samples, f), "rb").read()
        w = lenient_walk(b)
        if w is None:
            continue
        nt = w["tables"]["nt"]
        used = sorted(set(w["tables"]["tidx"]))
        subsets = [[i] for i in range(nt)] + ([list(range(nt))] if nt > 1 else [])
        if tier == "quick":
            seen = set()
            for _ in range(30):
                k = rng.randint(2, max(2, nt))
                s = tuple(sorted(rng.sample(range(nt), min(k, nt))))
                if s not in seen and len(s) > 1:
                    seen.add(s)
                    subsets.append(list(s))
        elif nt <= 12:
            subsets = [list(c) for k in range(1, nt + 1) for c in itertools.combinations(range(nt), k)]
        else:
            seen = set()
            while len(seen) < 500:
                k = rng.randint(2, nt)
                seen.add(tuple(sorted(rng.sample(range(nt), k))))
            subsets += [list(s) for s in sorted(seen)]
        subsets = [list(x) for x in dict.fromkeys(tuple(y) for y in subsets)]
        for s in subsets:
            for o in ("raw", "default"):
                cases.append("relabel file=%s types=%s opts=%s" % (f, ",".join(map(str, s)), o))
        # histories between load and save: named blocks renamed through the API (new strings must be appended, every
        # old string keeps its index), and the save made through a copy of the NifFile object
        for s in subsets[:6 if tier == "quick" else 40]:
            ren = ";".join("S%%%d=%s" % (rng.randrange(0, 400), ("renamed%d" % i).encode().hex()) for i in range(rng.randint(1, 3)))
            for o in ("raw", "default"):
                cases.append("relabel file=%s types=%s opts=%s ops=%s" % (f, ",".join(map(str, s)), o, ren))
                cases.append("relabel file=%s types=%s opts=%s copy=1" % (f, ",".join(map(str, s)), o))
            cases.append("relabel file=%s types=%s opts=default ops=%s copy=1" % (f, ",".join(map(str, s)), ren))
    return cases


def check_case(case, inb, outp, parts):
    """the property on one re-labelled file. Returns (errors, nontrivial)"""
    ckv = base.kv_of(case)
    types = {int(x) for x in ckv["types"].split(",")}
    errs = []
    if parts[0].get("lrc") != "0":
        return ["Load of the re-labelled file returned %s" % parts[0].get("lrc")], False
    if parts[0].get("hu") != "1":
        errs.append("HasUnknown() is false after loading a file with unknown block types")
    obs = parts[1] if len(parts) > 1 else {}
    if obs.get("src") != "0":
        return errs + ["Save returned %s" % obs.get("src")], False
    win = lenient_walk(inb)
    try:
        outb = open(outp, "rb").read()
    except OSError:
        return errs + ["no output file"], False
    wout = wn.walk(outb)
    if wout is None:
        return errs + ["the saved file is not walkable by its own tables"], False
    ti, to = win["tables"], wout["tables"]
    if to["nblocks"] != ti["nblocks"]:
        errs.append("block count changed (%d -> %d)" % (ti["nblocks"], to["nblocks"]))
    names_in = [ti["types"][k] for k in ti["tidx"]]
    names_out = [to["types"][k] if k < len(to["types"]) else b"?" for k in to["tidx"]]
    if names_in != names_out:
        k = next((i for i, (a, c) in enumerate(zip(names_in, names_out)) if a != c), min(len(names_in), len(names_out)))
        errs.append("type name sequence changed (block %d: %r -> %r)" % (k, names_in[k:k + 1], names_out[k:k + 1]))
    if to["types"] != ti["types"] or to["tidx"] != ti["tidx"]:
        errs.append("type table / type indices rewritten")
    pin, pout = wn.payloads(inb, win), wn.payloads(outb, wout)
    nunk = 0
    for i, k in enumerate(ti["tidx"]):
        if k in types:
            nunk += 1
            if i >= len(pout) or pout[i] != pin[i]:
                errs.append("payload bytes of an unknown block changed (block %d, %s)" % (i, ti["types"][k].decode("latin1")))
                break
            if to["sizes"][i] != ti["sizes"][i]:
                errs.append("declared size of an unknown block changed (block %d)" % i)
                break
    if to["strings"][:len(ti["strings"])] != ti["strings"]:
        errs.append("an input string no longer sits at its index in the output string table")
    e2, _ = base.check_written(outp, obs, True)
    errs += e2
    return errs, nunk > 0


def run(tier, seed, replay=None):
    rep = vlib.Reporter(PID, tier, seed)
    hygiene = vlib.coq_hygiene()
    pr = vlib.coq_property(PID)
    cov = vlib.proof_coverage(pr, hygiene)
    if not pr["ok"] or hygiene:
        rep.violation("proof obligations of Properties_C03.v not discharged: " + ",".join(pr["failed"] or hygiene),
                      {"broken": "theorems " + ",".join(pr["failed"]), "log": pr["log"][-3000:], "hygiene": hygiene}, found_input=False)
    impl_bin = vlib.build_oracle("asan")
    model_bin = vlib.build_model_oracle()
    rng = random.Random(seed)
    samples = os.environ.get("VERIF_SAMPLES") or os.path.join(vlib.REPO, "tests", "input")
    files = sorted(f for f in os.listdir(samples) if f.endswith(".nif"))
    outdir = os.path.join(vlib.WORK, "scratch", "%s-%d" % (PID, os.getpid()))
    os.makedirs(outdir, exist_ok=True)
    try:
        return _run(rep, cov, tier, rng, replay, impl_bin, model_bin, samples, files, outdir)
    finally:
        shutil.rmtree(outdir, ignore_errors=True)


def _run(rep, cov, tier, rng, replay, impl_bin, model_bin, samples, files, outdir):
    if replay:
        r = json.load(open(replay))
        cases = [r["case"]] if "case" in r else [c["case"] if isinstance(c, dict) else c for c in r.get("cases", [])]
    else:
        corpus = []
        try:
            corpus = [l.strip() for l in open(os.path.join(vlib.ROOT, "corpus", PID, "cases.txt")) if l.strip() and not l.startswith("#")]
        except OSError:
            pass
        cases = corpus + gen_cases(tier, rng, samples, files)
    err3 = []
    # files without size table: Load must refuse with code 3
    if not replay:
        for f in files:
            b = open(os.path.join(samples, f), "rb").read()
            try:
                t, _ = wn.parse_header(b)
            except Exception:  # noqa: BLE001
                continue
            if t["file"] < 0x14020005:
                for k in range(t["nt"]):
                    err3.append("relabel file=%s types=%d opts=raw" % (f, k))
    cases += err3
    cache = {}
    evals, nontriv, mism, dist = 0, set(), [], {}
    n_all, n_filecmp = 0, 0
    model_every = 1 if tier == "quick" or replay else 7
    CH = 400
    for c0 in range(0, len(cases), CH):
        chunk = cases[c0:c0 + CH]
        lines, meta = [], []
        for j, c in enumerate(chunk):
            ckv = base.kv_of(c)
            f = ckv["file"]
            if f not in cache:
                cache.clear()
                cache[f] = open(os.path.join(samples, f), "rb").read()
            types = {int(x) for x in ckv["types"].split(",")}
            inb = wn.relabel(cache[f], types)
            inp = os.path.join(outdir, "in%d.nif" % j)
            outp = os.path.join(outdir, "out%d.nif" % j)
            with open(inp, "wb") as o:
                o.write(inb)
            lines.append("loadsave in=%s out=%s opts=%s" % (inp, outp, ckv["opts"])
                         + (" ops=" + ckv["ops"] if ckv.get("ops") else "") + (" copy=1" if ckv.get("copy") == "1" else ""))
            meta.append((c, inb, outp, inp))
        impl = base.run_parallel(impl_bin, lines, batch=50)
        mlines, mmeta = [], []
        for (c, inb, outp, _inp), (_, il, crash) in zip(meta, impl):
            evals += 1
            dist[base.kv_of(c)["file"]] = dist.get(base.kv_of(c)["file"], 0) + 1
            if crash is not None or il is None:
                rep.violation("implementation crashed (sanitizer/abort/timeout) on a file with unknown block types", {"case": c, "family": FAMILY, "crash": crash})
                continue
            parts = base.split_impl(il)
            if c in err3 or lenient_walk(inb) is None:
                if parts[0].get("lrc") != "3":
                    rep.violation("Load of a file without size table and with an unknown block type returned %s instead of 3" % parts[0].get("lrc"), {"case": c, "family": FAMILY})
                else:
                    nontriv.add(c)
                continue
            errs, nt = check_case(c, inb, outp, parts)
            if errs:
                rep.violation("unknown block did not survive load+save: " + errs[0].split(" (")[0], {"case": c, "family": FAMILY, "errors": errs[:5]})
            if nt:
                nontriv.add(c)
            if (evals % model_every) == 0 and os.path.exists(outp):
                mlines.append("file path=" + outp)
                mmeta.append((c, outp))
            # every block type unknown: the whole model (load, save) must give nifly's output byte for byte
            nt_all = lenient_walk(inb)["tables"]["nt"]
            if len({int(x) for x in base.kv_of(c)["types"].split(",")}) == nt_all and os.path.exists(outp):
                mlines.append("allunknown in=%s out=%s opts=%s" % (_inp, outp, base.kv_of(c)["opts"]))
                mmeta.append((c, outp))
        mres = base.run_parallel(model_bin, mlines, batch=50)
        for (c, outp), (_, ml, mcrash) in zip(mmeta, mres):
            if mcrash is not None or ml is None:
                rep.violation("model oracle failed on a written file", {"case": c, "model_crash": mcrash}, found_input=False)
                continue
            if ml.startswith("M=allunknown"):
                n_all += 1
                if ml != "M=allunknown=1 hu=1":
                    mism.append({"case": c, "what": "extracted load+save of the all-unknown file differs from the bytes nifly wrote", "model": ml[:100]})
                continue
            n_filecmp += 1
            b = open(outp, "rb").read()
            mk = ml[2:].split(" hdr=", 1)
            mkv = base.kv_of(mk[0])
            pw = wn.walk(b)
            try:
                pt, phl = wn.parse_header(b)
                pdump = wn.dump(pt)
            except Exception:  # noqa: BLE001
                pt, phl, pdump = None, 0, "FAULT"
            mdump = mk[1] if len(mk) > 1 else "FAULT"
            if mdump != pdump or int(mkv.get("hlen", 0)) != phl or (mkv.get("walk") == "1") != (pw is not None) \
                    or (pw is not None and mkv.get("wsizes", "") != ",".join(map(str, pt["sizes"]))) or mkv.get("reput") != "1":
                mism.append({"case": c, "what": "extracted get_hdr/walkb/put_hdr vs independent reader on the saved file", "model": ml[:300], "walker": pdump[:300]})
        for _, _, outp, inp in meta:
            for p in (outp, inp):
                try:
                    os.remove(p)
                except OSError:
                    pass
    for m in mism[:6]:
        rep.violation("correspondence container (Coq container model vs nifly / independent reader) no longer holds: " + m["what"],
                      dict(m, broken="correspondence:container", family=FAMILY), found_input=False)
    cov.update({
        "evaluations": evals,
        "distinct_nontrivial": len(nontriv),
        "rule": ("every sample with a size table x subsets of its block TYPES re-labelled as zzUnknown<k> (quick: all singletons + 30 random subsets; thorough: all non-empty subsets up to 12 types, else singletons + 500 random) x save options raw/default; plus every type of the samples without size table (Load must return 3); non-trivial = at least one block of the file has a re-labelled type (or the error-3 case was confirmed); distinct = distinct case lines; the extracted model reads %s written file" % ("every" if model_every == 1 else "every %dth" % model_every)),
        "samples": cases[:2] + cases[len(cases) // 2:len(cases) // 2 + 2] + cases[-2:],
        "input_distribution": dist,
        "traces_validated_against_impl": evals,
        "written_files_read_by_extracted_model": n_filecmp,
        "whole_model_load_save_vs_nifly_bytes": n_all,
        "correspondence_mismatches": len(mism),
        "unproved": [],
        "trusted_base": vlib.BASE_TRUSTED + [
            "tools/walknif.py (independent reader and header re-writer; compared with the extracted Coq walkb/get_hdr on the written files)",
            "modelled, not verified: std::iostream (byte lists), std::vector<char> of NiUnknown; codecs and data preparation of the blocks of known types are parameters of the model (any functions that leave unknown blocks alone: they work through dynamic_cast on known classes)"],
        "exhaustive": False,
    })
    return rep.finish(cov, [
        "input accepted by the independent reader (so >= 20.2.0.5), well-formed header (wf_tables), supported version",
        "blocks_ok: every block of a known type is consumed exactly by its codec whatever follows (codec law of the block layer); at least one block type without factory",
        "for the save: strings of known blocks writable (no NUL, < 2^32-1 bytes), payloads below 4 GiB",
        "FinalizeData as modelled for versions >= 20.2.0.5 (in-place changes of known blocks); OB-era versions (where it adds/deletes blocks) cannot hold unknown blocks: Load returns 3"])
