"""C14 — cloning a shape yields a self-contained copy and leaves the source untouched.

Proof: coq/Properties/Properties_C14.v over coq/Clone/CloneModel.v (CloneChildren's recursive
cloneBlock with reference rebinding, pointer rebinding and string registration; CloneNamedNode;
the list/graph logic of CloneShape). Tie: every shape of every sample is cloned by the real code
(ASan/UBSan) into the same model, a fresh model and another loaded sample of the same version,
repeatedly (clone of the clone); the extracted model predicts the destination's full dump from the
implementation's dumps of source and destination (given the address order in which std::set<NiRef*>
enumerated each new block's references). Search: the property itself is evaluated on the
implementation's dumps: closure of the clone mirrors the source's closure block by block (class,
payload token, strings, references in range and new), pointers, bone names, accessor signatures,
source unchanged, destination saves and reloads with the clone intact."""
import json
import os
import random
import re

import vlib
from props.c11 import sections, parse_dump, strip_ord, known_or_violation

PID = "C14"
FAMILY = "clone"
EMPTY_HASH = "14650fb0739d0383"      # hash of the empty string (harness/o_clone.cpp hash_str)

KNOWN_PTR = "C14-child-pointer-not-rebound"
KNOWN_EXTRA = "C14-cloned-node-keeps-source-refs"
KNOWN_CYCLE = "C14-cyclic-child-refs-recursion"
KNOWN_DUP = "C14-same-model-duplicate-names-reparented"
KNOWN_DETACHED = "C14-detached-bone-dropped"
API_MODELS = ["@dup", "@unnamed", "@dupbone"]      # built through the API by harness/o_clone.cpp (two nodes of one name / two unnamed nodes)


def round_fields(rest):
    kv = {}
    for t in rest.split(" "):
        if "=" in t:
            k, v = t.split("=", 1)
            kv[k] = v
    return kv


def resolvable(g, r):
    return r != "x" and int(r) < int(g["n"]) and int(r) < len(g["blocks"])


def closure(g, root):
    seen, todo = [], [root]
    while todo:
        i = todo.pop()
        if i in seen:
            continue
        seen.append(i)
        for r in g["blocks"][i]["c"]:
            if resolvable(g, r):
                todo.append(int(r))
    return seen


def mirror_errors(src, dst, si, di, n0, name_hash, relaxed_root):
    """walk the two closures in parallel; returns (errors, map src index -> list of dst indices)"""
    errs, pairs = [], {}
    todo = [(si, di, True)]
    visited = set()
    while todo:
        s, d, is_root = todo.pop()
        if (s, d) in visited:
            continue
        visited.add((s, d))
        if len(visited) > 20000:
            errs.append("closure walk does not end (cyclic child references)")
            break
        pairs.setdefault(s, []).append(d)
        if d >= len(dst["blocks"]):
            errs.append("reference to block %d outside the destination (%d blocks)" % (d, len(dst["blocks"])))
            continue
        sb, db = src["blocks"][s], dst["blocks"][d]
        if d < n0:
            errs.append("clone of source block %d is the pre-existing destination block %d" % (s, d))
        if sb["t"] != db["t"]:
            errs.append("source block %d is a %s, its clone %d a %s" % (s, sb["t"], d, db["t"]))
            continue
        if is_root:
            ss = sb["ss"].split(".") if sb["ss"] else []
            if sb["np"] != "-" and int(sb["np"]) < len(ss):
                ss[int(sb["np"])] = name_hash
            if ".".join(ss) != db["ss"]:
                errs.append("strings of the cloned shape differ from the source's (besides the name)")
            if sb["tok"] != db["tok"] and not relaxed_root:
                errs.append("payload of the cloned shape differs from the source shape's")
        else:
            if sb["ss"] != db["ss"]:
                errs.append("strings of clone %d differ from source block %d (%s)" % (d, s, sb["t"]))
            if sb["tok"] != db["tok"]:
                errs.append("payload of clone %d differs from source block %d (%s)" % (d, s, sb["t"]))
        if len(sb["c"]) != len(db["c"]):
            errs.append("clone %d has %d child references, source block %d has %d" % (d, len(db["c"]), s, len(sb["c"])))
            continue
        for rs, rd in zip(sb["c"], db["c"]):
            if not resolvable(src, rs):
                if rd != rs:
                    errs.append("an empty/unresolvable source reference %s became %s in clone %d" % (rs, rd, d))
                continue
            if not resolvable(dst, rd):
                errs.append("clone %d holds reference %s that does not resolve in the destination" % (d, rd))
                continue
            todo.append((int(rs), int(rd), False))
    return errs, pairs


def node_name_map(s):
    out = {}
    for e in s.split(","):
        if ":" in e:
            i, h = e.split(":", 1)
            out[int(i)] = h
    return out


def ptr_findings(src, dst, pairs, si, di, src_nodes, dst_nodes, sroot=None, droot=None):
    """classify every pointer of every cloned block. Returns (violations, known) lists of strings."""
    bad, known = [], []
    inv = {}
    for s, ds in pairs.items():
        for d in ds:
            inv[d] = s
    for d, s in inv.items():
        if d >= len(dst["blocks"]):
            continue
        sb, db = src["blocks"][s], dst["blocks"][d]
        bone_range = range(0)
        if db["bn"] != "-":
            st, ln = (int(x) for x in db["bn"].split(":"))
            bone_range = range(st, st + ln)
        sbone = range(0)
        if sb["bn"] != "-":
            st, ln = (int(x) for x in sb["bn"].split(":"))
            sbone = range(st, st + ln)
        # pointers outside the bone arrays, position by position
        sp = [p for j, p in enumerate(sb["p"]) if j not in sbone]
        dp = [p for j, p in enumerate(db["p"]) if j not in bone_range]
        if len(sp) != len(dp):
            bad.append("clone %d has %d plain pointers, source block %d has %d" % (d, len(dp), s, len(sp)))
            continue
        for ps, pd in zip(sp, dp):
            if ps == "x":
                if pd != "x":
                    bad.append("empty pointer of source block %d became %s" % (s, pd))
                continue
            t = int(ps)
            if t in pairs:
                # the pointer designates a block that was cloned too: it must follow it
                if pd == "x" or int(pd) not in pairs[t]:
                    (known if pd == ps else bad).append(
                        "%s %d (clone of %d): pointer to cloned block %d still holds %s" % (db["t"], d, s, t, pd))
                continue
            if pd == "x" or int(pd) >= len(dst["blocks"]):
                (known if pd == ps else bad).append("%s %d (clone of %d): pointer %s does not resolve in the destination" % (db["t"], d, s, pd))
                continue
            tb = src["blocks"][t] if t < len(src["blocks"]) else None
            if tb is None:
                continue
            if t in src_nodes:
                if t == sroot and int(pd) == droot:
                    continue                                    # root node to root node
                if dst_nodes.get(int(pd)) != src_nodes[t]:
                    (known if pd == ps else bad).append("%s %d (clone of %d): pointer to node '%s' designates %s in the destination" % (
                        db["t"], d, s, bytes.fromhex(src_nodes[t]).decode("latin1"),
                        ("node '%s'" % bytes.fromhex(dst_nodes[int(pd)]).decode("latin1")) if int(pd) in dst_nodes else dst["blocks"][int(pd)]["t"]))
            elif dst["blocks"][int(pd)]["t"] != tb["t"]:
                (known if pd == ps else bad).append("%s %d (clone of %d): pointer to a %s designates a %s in the destination" % (db["t"], d, s, tb["t"], dst["blocks"][int(pd)]["t"]))
    return bad, known


def stale_node_refs(g, n0, cloned, idx_out=None):
    """child references of nodes created by CloneNamedNode that are not their (rebuilt) children"""
    out = []
    for i, b in enumerate(g["blocks"]):
        if i < n0 or b["nd"] == "-" or i in cloned:
            continue
        st, ln = (int(x) for x in b["nd"].split(":")[:2])
        for j, r in enumerate(b["c"]):
            if r != "x" and not (st <= j < st + ln):
                if idx_out is not None:
                    idx_out.add(i)
                out.append("%s %d created by CloneNamedNode keeps the source's child reference %s (slot %d)" % (b["t"], i, r, j))
    return out


def header_errors(g, skip_blocks=()):
    e = []
    bl = g["blocks"]
    types = g["types"].split(",") if g.get("types") else []
    tidx = [int(x) for x in g["tidx"].split(",")] if g.get("tidx") else []
    if int(g["n"]) != len(bl):
        e.append("numBlocks %s != %d blocks" % (g["n"], len(bl)))
    if int(g["nt"]) != len(types):
        e.append("numBlockTypes != type names")
    if len(tidx) != len(bl):
        e.append("type index table size")
    else:
        for i, b in enumerate(bl):
            if tidx[i] >= len(types) or types[tidx[i]] != b["t"]:
                e.append("block %d type entry wrong" % i)
    if len(set(types)) != len(types):
        e.append("duplicate type name")
    if g.get("hs") == "1" and len([x for x in g.get("sizes", "").split(",") if x]) != len(bl):
        e.append("size table not aligned")
    for i, b in enumerate(bl):
        if i in skip_blocks:
            continue                    # exactly the blocks of the recorded known finding
        for r in b["c"]:
            if r != "x" and int(r) >= len(bl):
                e.append("block %d (%s) holds out-of-range child reference %s" % (i, b["t"], r))
    return e


def sig_parts(s):
    """g=..,s=..,t=..,k=..,nv=..,nt=..,bk=h.h...,bones=hex,hex,..  (the bone list is the last part and holds commas)"""
    if not s or s == "-":
        return {}
    head, sep, bones = s.partition(",bones=")
    d = dict(p.split("=", 1) for p in head.split(",") if "=" in p)
    if sep:
        d["bones"] = bones
    return d


def child_slots(b):
    """the childRefs window of a node block of a dump ([] for other blocks)"""
    if b["nd"] == "-":
        return []
    st, ln = (int(x) for x in b["nd"].split(":")[:2])
    return b["c"][st:st + ln]


def parents_of(g):
    """block index -> sorted list of the node indices that list it as a child"""
    out = {}
    for i, b in enumerate(g["blocks"]):
        for r in child_slots(b):
            if r != "x":
                out.setdefault(int(r), []).append(i)
    return out


def hierarchy_errors(before, after, n0):
    """same-model cloning: no pre-existing node changes parent, no pre-existing child slot is emptied or rewritten"""
    e = []
    pb, pa = parents_of(before), parents_of(after)
    for i in range(min(n0, len(before["blocks"]), len(after["blocks"]))):
        a, b = before["blocks"][i], after["blocks"][i]
        sa, sb = child_slots(a), child_slots(b)
        if sb[:len(sa)] != sa:
            j = next((j for j, (x, y) in enumerate(zip(sa, sb)) if x != y), len(sb))
            e.append("child slot %d of the pre-existing node %d (%s) was %s, is %s" % (j, i, a["t"], sa[j] if j < len(sa) else "-", sb[j] if j < len(sb) else "gone"))
        elif any(x == "x" or int(x) < n0 for x in sb[len(sa):]):
            e.append("the pre-existing node %d (%s) gained the child references %s that are not new blocks" % (i, a["t"], sb[len(sa):]))
        if pb.get(i, []) != pa.get(i, []):
            e.append("the pre-existing block %d (%s) changed parent: %s -> %s" % (i, a["t"], pb.get(i, []), pa.get(i, [])))
    return e


def run(tier, seed, replay=None):
    rep = vlib.Reporter(PID, tier, seed)
    hygiene = vlib.coq_hygiene()
    pr = vlib.coq_property(PID)
    cov = vlib.proof_coverage(pr, hygiene)
    if not pr["ok"] or hygiene:
        rep.violation("proof obligations of Properties_C14.v not discharged: " + ",".join(pr["failed"] or hygiene),
                      {"broken": "theorems " + ",".join(pr["failed"]), "log": pr["log"][-3000:], "hygiene": hygiene}, found_input=False)
    impl_bin = vlib.build_oracle("asan")
    model_bin = os.environ.get("VERIF_CLONE_MODEL_BIN") or vlib.build_model_oracle()
    margs = [] if os.environ.get("VERIF_CLONE_MODEL_BIN") else [FAMILY]
    rng = random.Random(seed)
    samples_dir = os.environ.get("VERIF_SAMPLES") or os.path.join(vlib.REPO, "tests", "input")
    env = {"VERIF_SAMPLES": samples_dir}
    files = sorted(f for f in os.listdir(samples_dir) if f.endswith(".nif"))

    # samples whose blocks cannot even be cloned under UBSan (bool holding 2: C11/C15 finding) are
    # studied on the plain build
    plain_files, plain_bin = set(), None
    res = vlib.run_cases_robust(impl_bin, [FAMILY], ["info name=%s" % f for f in files], timeout_per_batch=300, batch=1, env=env)
    infos = {}
    for f, (c, il, crash) in zip(files, res):
        if crash is not None or not il or not il.endswith("DONE"):
            if "not a valid value for type 'bool'" in (crash or {}).get("stderr", ""):
                plain_files.add(f)
                continue
            rep.violation("a sample no longer loads / dumps", {"case": c, "crash": crash, "impl": (il or "")[:300]})
            continue
        infos[f] = dict(sections(il))
    if plain_files:
        plain_bin = vlib.build_oracle("plain")
        res = vlib.run_cases_robust(plain_bin, [FAMILY], ["info name=%s" % f for f in sorted(plain_files)], timeout_per_batch=300, batch=1, env=env)
        for f, (c, il, crash) in zip(sorted(plain_files), res):
            if crash is None and il and il.endswith("DONE"):
                infos[f] = dict(sections(il))

    def run_impl(cs, batch):
        def fl(c):
            m = re.search(r"name=(\S+)", c)
            m2 = re.search(r"dest=other:(\S+)", c)
            return "plain" if (m and m.group(1) in plain_files) or (m2 and m2.group(1) in plain_files) else "asan"
        out = {}
        for flav, binp in (("asan", impl_bin), ("plain", plain_bin)):
            sel = [i for i, c in enumerate(cs) if fl(c) == flav]
            if not sel:
                continue
            rr = vlib.run_cases_robust(binp, [FAMILY], [cs[i] for i in sel], timeout_per_batch=900, batch=batch, env=env)
            for i, (c, il, crash) in zip(sel, rr):
                if crash is not None or il is None or not il.endswith("DONE"):
                    rc, lines, err = vlib.run_lines(binp, [FAMILY], [c], timeout=300, env=env)
                    if lines and lines[0].endswith("DONE"):
                        crash, il = None, lines[0]
                    else:
                        il = lines[0] if lines else il
                        crash = {"rc": rc, "stderr": err[:5000] + "\n...\n" + err[-800:], "flavour": flav}
                out[i] = (c, il, crash)
        return [out[i] for i in range(len(cs))]

    # ---- cases ----
    if replay:
        r = json.load(open(replay))
        cases = [r["case"]] if "case" in r else [c["case"] for c in r.get("cases", [])]
    else:
        cases = []
        try:
            cases += [l.strip() for l in open(vlib.ROOT + "/corpus/C14/cases.txt") if l.strip() and not l.startswith("#")]
        except OSError:
            pass
        byver = {}
        cyc = []
        for f, i in infos.items():
            byver.setdefault(i.get("VER"), []).append(f)
        for f in files:
            if f not in infos:
                continue
            shapes = [s for s in infos[f].get("SHAPES", "").split(",") if s]
            if not shapes:
                continue
            ks = list(range(len(shapes)))
            if tier == "quick" and len(ks) > 2:
                ks = sorted(rng.sample(ks, 2))
            others = [g for g in byver.get(infos[f].get("VER"), []) if g != f]
            for k in ks:
                cases.append("clone name=%s dest=same shape=%d rounds=2" % (f, k))
                cases.append("clone name=%s dest=fresh shape=%d rounds=%d" % (f, k, 2 if tier == "quick" else 3))
                if others:
                    picks = others if tier != "quick" else [rng.choice(others)]
                    for g in picks[:6]:
                        cases.append("clone name=%s dest=other:%s shape=%d rounds=2" % (f, g, k))
                cases.append("clone name=%s dest=other:%s shape=%d rounds=1" % (f, f, k))    # a second instance of the same file
            # an animated shape: a controller below the shape pointing back at it
            k = ks[0]
            cases.append("clone name=%s dest=same shape=%d rounds=2 pre=ctrl" % (f, k))
            cases.append("clone name=%s dest=fresh shape=%d rounds=1 pre=ctrl" % (f, k))
            # same-model cloning on models with two nodes of one name (added nodes / unnamed nodes / a renamed node)
            kinds = ["dupnames", "unnamed", "collide"]
            for kind in (kinds if tier != "quick" else [kinds[len(cases) % 3]]):
                cases.append("clone name=%s dest=same shape=%d rounds=2 pre=%s" % (f, k, kind))
            if tier != "quick" or len(cases) % 2:
                cases.append("clone name=%s dest=fresh shape=%d rounds=1 pre=%s" % (f, k, kinds[len(cases) % 3]))
            # a skin bone whose node is attached to nothing (dest fresh / another model)
            g0 = parse_dump(infos[f].get("SRC", ""))
            for kk in ks:
                try:
                    bi = int(shapes[kk].split(":")[1])
                    b = g0["blocks"][bi]
                    skinned = b["sk"] != "-" and b["c"][int(b["sk"])] != "x"
                except (IndexError, ValueError, KeyError):
                    skinned = False
                if skinned and f not in plain_files:
                    # a bone list naming one name twice (the second bone node renamed to the first bone's name)
                    cases.append("clone name=%s dest=same shape=%d rounds=2 pre=dupbone" % (f, kk))
                    cases.append("clone name=%s dest=fresh shape=%d rounds=2 pre=dupbone" % (f, kk))
                    if others:
                        cases.append("clone name=%s dest=other:%s shape=%d rounds=1 pre=dupbone" % (f, rng.choice(others), kk))
                    cases.append("clone name=%s dest=fresh shape=%d rounds=1 pre=detached" % (f, kk))
                    if others:
                        cases.append("clone name=%s dest=other:%s shape=%d rounds=1 pre=detached" % (f, rng.choice(others), kk))
                    if tier == "quick":
                        break
            if len(cyc) < (2 if tier == "quick" else 8) and f not in plain_files:
                # a loadable file with a reference cycle below the shape (controller chain looping back)
                cyc.append(f)
                cases.append("clone name=%s dest=%s shape=%d rounds=1 pre=cycle" % (f, "fresh" if len(cyc) % 2 else "same", k))
        for a in API_MODELS:
            cases.append("clone name=%s dest=same shape=0 rounds=2" % a)
            cases.append("clone name=%s dest=fresh shape=0 rounds=1" % a)
        cases = list(dict.fromkeys(cases))
    impl = run_impl(cases, 20)

    # ---- model cases ----
    mcases, mmap, parsed = [], {}, {}
    for idx, (c, il, crash) in enumerate(impl):
        if not il or "LOADFAIL" in il or il.startswith("I=NOSHAPE"):
            continue
        d, rounds = {}, []
        for tag, rest in sections(il):
            if tag == "ROUND":
                rounds.append(round_fields(rest))
            else:
                d.setdefault(tag, rest)
        parsed[idx] = (d, rounds)
        if "SRC" not in d or "DST" not in d or not rounds:
            continue
        kv = dict(t.split("=", 1) for t in c.split(" ")[1:] if "=" in t)
        same0 = kv.get("dest") == "same"
        mc = "clone src=%s dst=%s compat=%s empty=%s nr=%d" % (strip_ord(d["SRC"]), "same" if same0 else strip_ord(d["DST"]), d.get("COMPAT", ""), EMPTY_HASH, len(rounds))
        for k, r in enumerate(rounds, 1):
            if "DSTA" not in r:
                break
            g = parse_dump(r["DSTA"])
            ords = ";".join("%d:%s" % (b["uid"], b["ord"]) for b in g["blocks"] if b["ord"] != "-" and b["uid"] >= int(r["next"]))
            # the hash of the new name: the string at the clone's name position
            cb = g["blocks"][int(r["clone"])] if r["clone"] != "x" else None
            nh = EMPTY_HASH
            if cb and cb["np"] != "-" and cb["ss"]:
                nh = cb["ss"].split(".")[int(cb["np"])]
            mc += " si%d=%s name%d=%s next%d=%s same%d=%s ord%d=%s" % (k, r["src"], k, nh, k, r["next"], k, r["same"], k, ords)
        mmap[idx] = len(mcases)
        mcases.append(mc)
    model = vlib.run_cases_robust(model_bin, margs, mcases, timeout_per_batch=900, batch=20)

    # ---- evaluation ----
    mism, nontriv = [], set()
    stats = {"clones": 0, "rounds": 0, "dest": {}, "skinned": 0, "cloned_blocks": 0, "relaxed_root_payload": 0, "nonidentity_visit_order": 0,
             "pointers_known": 0, "samples_on_plain_build": len(plain_files)}
    for idx, (c, il, crash) in enumerate(impl):
        kv = dict(t.split("=", 1) for t in c.split(" ")[1:] if "=" in t)
        if crash is not None:
            # a reference cycle below the shape: the model runs out of every fuel, the C++ recursion never ends
            plans = [round_fields(rest) for tag, rest in sections(il or "") if tag == "PLAN"]
            err = crash.get("stderr", "")
            # recognised by the INPUT class (pre=cycle), the outcome (stack overflow / SIGSEGV, symbolised or not: ASan
            # cannot always unwind a stack that deep) inside the CloneShape call (PLAN printed, its ROUND not), and
            # the model running out of fuel on the very same case
            sects = [tag for tag, rest in sections(il or "")]
            inside_call = bool(plans) and sects.count("PLAN") == sects.count("ROUND") + 1
            overflow = "stack-overflow" in err or "AddressSanitizer: SEGV" in err or "AddressSanitizer:DEADLYSIGNAL" in err or crash.get("rc") in (-11, 139)
            if kv.get("pre") == "cycle" and inside_call and overflow:
                p = plans[-1]
                same_m = p["same"] == "1"
                mc = "clone src=%s dst=%s compat= empty=%s nr=1 si1=%s name1=%s next1=%s same1=%s ord1=" % (
                    strip_ord(p["DSTB"] if same_m else p["SRCB"]), "same" if same_m else strip_ord(p["DSTB"]), EMPTY_HASH, p["src"], p["name"], p["next"], p["same"])
                rc, ml, merr = vlib.run_lines(model_bin, margs, [mc], timeout=300)
                if ml and "OUTOFFUEL" in ml[0]:
                    rep.known_finding(KNOWN_CYCLE, "%s: stack overflow inside CloneShape (%s); model: %s" % (c, "symbolised: CloneChildren" if "CloneChildren" in err else "stack not unwound", ml[0][:40]))
                    nontriv.add(c)
                    stats["cyclic_known"] = stats.get("cyclic_known", 0) + 1
                    continue
            rep.violation("cloning a shape aborted under the sanitizers / hung", {"case": c, "family": FAMILY, "crash": {"rc": crash.get("rc"), "stderr": crash.get("stderr", "")[-3000:]}, "impl": (il or "")[-300:]})
            continue
        if not il or "LOADFAIL" in il:
            rep.violation("sample failed to load in the clone oracle", {"case": c, "impl": (il or "")[:200]})
            continue
        if idx not in parsed:
            continue
        d, rounds = parsed[idx]
        dkind = kv.get("dest", "?").split(":")[0]
        stats["dest"][dkind] = stats["dest"].get(dkind, 0) + 1
        same0 = dkind == "same"
        errs, knowns, stale_known, stale_idx = [], [], [], set()
        dup_errs, detached_known, tok_relax = [], [], {}
        sse = "sse=1" in d.get("VER", "")
        src0 = parse_dump(d["SRC"])
        nodes0 = d.get("NODES", " ").split(" ")
        src_nodes = node_name_map(nodes0[0])
        for k, r in enumerate(rounds):
            if "DSTA" not in r or r.get("clone") == "x":
                errs.append("round %d: CloneShape returned no shape" % (k + 1))
                break
            stats["rounds"] += 1
            srcb, dsta, srca = parse_dump(r["SRCB"]), parse_dump(r["DSTA"]), parse_dump(r["SRCA"])
            si, di, n0 = int(r["src"]), int(r["clone"]), int(r["n0"])
            same = r["same"] == "1"
            sg, cg = sig_parts(r.get("sigsrc")), sig_parts(r.get("sigclone"))
            # model-space normals: CloneShape strips normals and tangents from the clone (SK/SSE)
            relaxed = sg.get("g") != cg.get("g") and sse
            if relaxed:
                stats["relaxed_root_payload"] += 1
            me, pairs = mirror_errors(srcb, dsta, si, di, n0, dsta["blocks"][di]["ss"].split(".")[int(dsta["blocks"][di]["np"])] if dsta["blocks"][di]["np"] != "-" and dsta["blocks"][di]["ss"] else "", relaxed)
            errs += ["round %d: %s" % (k + 1, e) for e in me[:4]]
            stats["cloned_blocks"] += sum(len(v) for v in pairs.values())
            if any(b["ord"] != "-" for b in dsta["blocks"][n0:]):
                stats["nonidentity_visit_order"] += 1
            # pointers
            dst_nodes = node_name_map(r.get("nodes", ""))
            snodes = src_nodes if not same and k == 0 else node_name_map(rounds[k - 1].get("nodes", "")) if k else src_nodes
            roots = d.get("ROOTS", "x x").split(" ")
            sroot = int(roots[0]) if roots[0] != "x" else None
            droot = int(roots[1]) if roots[1] != "x" else None
            if same or k > 0:
                sroot = droot
            pb, pk = ptr_findings(srcb, dsta, pairs, si, di, snodes, dst_nodes, sroot, droot)
            errs += ["round %d: %s" % (k + 1, e) for e in pb[:3]]
            knowns += pk
            # accessors
            # the input class of C14-detached-bone-dropped: source bones whose node no node lists as a child and
            # that the destination does not have; the clone's bone list is the source's without exactly those, and
            # every remaining bone carries the same weights and transform at the same position
            dropped = []
            if kv.get("pre") == "detached" and not same and k == 0 and sg.get("bones"):
                have_par = parents_of(srcb)
                by_name = {}
                for ni, nh_ in src_nodes.items():
                    by_name.setdefault(nh_, []).append(ni)
                sbones = sg["bones"].split(",")
                orphan = [bn for bn in sbones if bn in by_name and not have_par.get(by_name[bn][0])]
                dropped = [bn for bn in orphan if bn not in set(dst_nodes.values())]
                kept = [bn for bn in sbones if bn not in dropped]
                sbk, cbk = sg.get("bk", "").split("."), cg.get("bk", "").split(".")
                kept_bk = [h for bn, h in zip(sbones, sbk) if bn not in dropped]
                if not dropped or (cg.get("bones", "").split(",") if cg.get("bones") else []) != kept or cbk != (kept_bk if kept_bk else [""]):
                    dropped = []            # not exactly that class: everything below is judged as usual
            for part, what in (("s", "shader"), ("t", "textures"), ("k", "skin"), ("nv", "vertex count"), ("nt", "triangle count"), ("bk", "per-bone skin data"), ("bones", "bone list")):
                if sg.get(part) != cg.get(part):
                    if dropped and part in ("k", "bk", "bones"):
                        continue
                    errs.append("round %d: %s of the clone differs from the source shape's (%s vs %s)" % (k + 1, what, cg.get(part), sg.get(part)))
            sbl = sg.get("bones", "").split(",") if sg.get("bones") else []
            cbl = cg.get("bones", "").split(",") if cg.get("bones") else []
            if sbl != cbl and not dropped:
                j = next((j for j, (x, y) in enumerate(zip(sbl, cbl)) if x != y), min(len(sbl), len(cbl)))
                errs.append("round %d: the clone's bone list has %d entries, the source's %d; entry %d: clone %s, source %s (names with multiplicity must agree entry by entry)" % (
                    k + 1, len(cbl), len(sbl), j, "'%s'" % bytes.fromhex(cbl[j]).decode("latin1") if j < len(cbl) else "-",
                    "'%s'" % bytes.fromhex(sbl[j]).decode("latin1") if j < len(sbl) else "-"))
                if len(set(sbl)) < len(sbl):
                    stats["repeated_bone_name_sources"] = stats.get("repeated_bone_name_sources", 0) + 1
            elif len(set(sbl)) < len(sbl):
                stats["repeated_bone_name_sources"] = stats.get("repeated_bone_name_sources", 0) + 1
            if dropped:
                # the bone count is part of the payload token of the bone container: its clone's token differs
                try:
                    sc = int(srcb["blocks"][si]["c"][int(srcb["blocks"][si]["sk"])])
                    dc = int(dsta["blocks"][di]["c"][int(dsta["blocks"][di]["sk"])])
                    msg = "round %d: payload of clone %d differs from source block %d (%s)" % (k + 1, dc, sc, srcb["blocks"][sc]["t"])
                    if pairs.get(sc) == [dc] and msg in errs:
                        errs.remove(msg)
                    tok_relax.setdefault(k, set()).add(dc)
                except (ValueError, IndexError, KeyError):
                    pass
                detached_known.append("round %d: bone(s) %s attached to no node in the source are missing from the clone's bone list and from the destination" % (
                    k + 1, ",".join("'%s'" % bytes.fromhex(bn).decode("latin1") for bn in dropped)))
            if sg.get("g") != cg.get("g") and not sse:
                errs.append("round %d: geometry of the clone differs from the source shape's" % (k + 1))
            if r.get("sigsrc2") != r.get("sigsrc"):
                errs.append("round %d: cloning changed what the source shape returns" % (k + 1))
            if sg.get("bones"):
                stats["skinned"] += 1
                have = set(dst_nodes.values())
                for bn in sg["bones"].split(","):
                    if bn not in have and bn not in dropped:
                        errs.append("round %d: bone '%s' does not exist in the destination" % (k + 1, bytes.fromhex(bn).decode("latin1")))
            # source untouched
            if not same:
                if r["SRCA"] != r["SRCB"]:
                    errs.append("round %d: cloning into another model changed the source model" % (k + 1))
            else:
                # same model: no pre-existing node changes parent, no pre-existing child slot is emptied or rewritten
                # (the defect C14-same-model-duplicate-names-reparented, repaired)
                he_ = hierarchy_errors(srcb, srca, n0)
                dup_errs += ["round %d: %s" % (k + 1, e) for e in he_[:3]]
                # and every pre-existing block is unchanged except nodes that gained child references
                for i in range(n0):
                    a, b = srcb["blocks"][i], srca["blocks"][i]
                    if a == b:
                        continue
                    a2, b2 = dict(a), dict(b)
                    for key in ("c", "nd", "ord", "tok"):       # the child count is part of the payload token
                        a2.pop(key), b2.pop(key)
                    grew = [x for x in b["c"] if x not in a["c"]]
                    if he_:
                        continue        # reported above, by name
                    if a2 != b2 or a["nd"] == "-" or any(int(x) < n0 for x in grew if x != "x") or [x for x in b["c"] if x in a["c"] or x == "x"] != a["c"]:
                        errs.append("round %d: cloning inside the model changed pre-existing block %d (%s)" % (k + 1, i, a["t"]))
            stale = stale_node_refs(dsta, n0, {x for v in pairs.values() for x in v}, stale_idx) if not same else []
            for e in stale[:3]:
                stale_known.append("round %d: %s" % (k + 1, e))
            he = header_errors(dsta, skip_blocks=stale_idx)
            errs += ["round %d: destination header/graph inconsistent: %s" % (k + 1, e) for e in he[:2]]
        if "SRCSAVE" in d and ("ctl=0" in d["SRCSAVE"] or "acc=0" in d["SRCSAVE"]):
            errs.append("the source model no longer writes/returns what an untouched copy of it does: " + d["SRCSAVE"])
        if "DSTSAVED" in d and not d["DSTSAVED"].startswith("0:"):
            errs.append("saving the destination failed: " + d["DSTSAVED"][:40])
        if "RELOAD" in d:
            if not d["RELOAD"].startswith("rc=0"):
                errs.append("the saved destination does not load again: " + d["RELOAD"][:20])
            else:
                m = re.search(r"shapes=(\S*)", d["RELOAD"])
                rs = {x.split(":")[1]: x.split(":", 2)[2] for x in (m.group(1).split(";") if m and m.group(1) else [])}
                ds = {x.split(":")[1]: x.split(":", 2)[2] for x in (d.get("DSTSHAPES", "").split(";") if d.get("DSTSHAPES") else [])}
                for r in rounds:
                    nm = r.get("name")
                    if nm not in rs:
                        errs.append("the clone '%s' is missing after save and reload" % bytes.fromhex(nm).decode("latin1"))
                    elif rs[nm] != ds.get(nm):
                        errs.append("the clone '%s' returns different data after save and reload" % bytes.fromhex(nm).decode("latin1"))
                g = parse_dump(d["RELOAD"].split(" ")[1])
                he = header_errors(g, skip_blocks=stale_idx)
                errs += ["reloaded destination inconsistent: " + e for e in he[:2]]
        stats["clones"] += 1
        nontriv.add(c)
        for kf in knowns:
            stats["pointers_known"] += 1
            rep.known_finding(KNOWN_PTR, "%s: %s" % (c, kf))
        for kf in stale_known:
            stats["stale_node_refs_known"] = stats.get("stale_node_refs_known", 0) + 1
            known_or_violation(rep, KNOWN_EXTRA, "%s: %s" % (c, kf), {"case": c, "family": FAMILY, "errors": stale_known[:4]})
        for kf in detached_known:
            stats["detached_bone_known"] = stats.get("detached_bone_known", 0) + 1
            known_or_violation(rep, KNOWN_DETACHED, "%s: %s" % (c, kf), {"case": c, "family": FAMILY, "errors": detached_known[:4]})
        if dup_errs:
            # status "fixed": the defect coming back is a violation
            known_or_violation(rep, KNOWN_DUP, "%s: %s" % (c, dup_errs[0]), {"case": c, "family": FAMILY, "errors": dup_errs[:8]})
        if kv.get("pre") in ("dupnames", "unnamed", "collide", "detached", "dupbone") or kv.get("name", "").startswith("@"):
            stats[kv.get("pre") or "api_models"] = stats.get(kv.get("pre") or "api_models", 0) + 1
        if errs:
            rep.violation("cloned shape is not a self-contained equal copy / source touched: " + errs[0], {"case": c, "family": FAMILY, "errors": errs[:8]})
        # -- correspondence
        if idx in mmap:
            (_, ml, mcrash) = model[mmap[idx]]
            if mcrash is not None or ml is None or ml.startswith("M=EXC"):
                rep.violation("model oracle failed", {"case": c, "model": (ml or "")[:300], "model_crash": mcrash}, found_input=False)
                continue
            mr = [round_fields(rest) for tag, rest in sections(ml) if tag == "ROUND"]
            for k, (r, m) in enumerate(zip(rounds, mr)):
                if "DSTA" not in m:
                    mism.append({"case": c, "what": "round %d: model %s" % (k + 1, list(m)[:1] or ml[:60])})
                    break
                if m.get("clone") != r.get("clone"):
                    mism.append({"case": c, "what": "round %d: clone id impl %s model %s" % (k + 1, r.get("clone"), m.get("clone"))})
                    break
                a, b = strip_ord(r["DSTA"]), m["DSTA"]
                if a != b:
                    ga, gb = parse_dump(a), parse_dump(b)
                    di = int(r["clone"])
                    diffs = []
                    if [ga.get(x) for x in ("n", "nt", "types", "tidx", "hs", "strs")] != [gb.get(x) for x in ("n", "nt", "types", "tidx", "hs", "strs")]:
                        diffs.append("header tables: impl %s / model %s" % ([ga.get(x) for x in ("n", "nt", "strs")], [gb.get(x) for x in ("n", "nt", "strs")]))
                    for i, (x, y) in enumerate(zip(ga["blocks"], gb["blocks"])):
                        if x != y:
                            keys = [kk for kk in x if x[kk] != y.get(kk)]
                            # payload of the clone root (normals stripped) and of re-parented nodes (transform) is not modelled
                            # (nor the bone count inside the token of the bone container in the recorded class C14-detached-bone-dropped)
                            if keys == ["tok"] and (i == di or x["nd"] != "-" or i in tok_relax.get(k, ())):
                                continue
                            diffs.append("block %d (%s) fields %s impl %s model %s" % (i, x["t"], keys, [x[kk] for kk in keys][:3], [y.get(kk) for kk in keys][:3]))
                    if len(ga["blocks"]) != len(gb["blocks"]):
                        diffs.append("block counts %d / %d" % (len(ga["blocks"]), len(gb["blocks"])))
                    if diffs:
                        mism.append({"case": c, "what": "round %d: %s" % (k + 1, "; ".join(diffs[:3]))})
                        break
    if mism and not rep.violations:
        rep.violation("correspondence clone/shape (Coq model of CloneShape/CloneChildren vs NifFile) no longer holds; theorems of Properties_C14.v no longer speak about the code",
                      {"broken": "correspondence:clone-shape", "family": FAMILY, "cases": mism[:8]}, found_input=False)
    elif mism:
        for m in mism[:3]:
            rep.violation("model and implementation disagree: " + m["what"][:200], dict(m, family=FAMILY), found_input=False)
    cov.update({
        "evaluations": len(cases),
        "distinct_nontrivial": len(nontriv),
        "rule": "every sample with shapes x shapes (quick: 2 per sample) x destination {same model, fresh Create(version), other loaded samples of the same version, a second instance of the same file} x 1-3 rounds (the clone of the clone); plus per sample: a controller pointing back at the shape, a controller chain looping back, same-model cloning with two nodes of one name (added nodes / two unnamed nodes / an existing node renamed to collide; also two API-built models), a skinned shape whose last bone is attached to nothing (dest fresh / other), a skinned shape whose bone list names one name / one node twice (same / fresh / other); non-trivial = CloneShape ran and produced dumps; distinct = distinct case lines",
        "samples": cases[:3] + cases[len(cases) // 2:len(cases) // 2 + 2] + cases[-2:],
        "input_distribution": stats,
        "traces_validated_against_impl": len(mcases),
        "correspondence_mismatches": len(mism),
        "unproved": ["payload edits inside CloneShape (SetNormals/SetTangents(false) for model-space shaders, SetNodeTransformToParent of re-parented nodes) are not modelled: the clone root's payload token is compared on the implementation only",
                     "cloneNodes hierarchy of CloneShape, source = another model: proved for all inputs as a run of steps over the pre-order listing of the source's node tree (C14_hier_*: visited names found, created exactly once, parent of a created node, existing blocks kept, parents of nodes with non-visited names kept, references closed, no pointers in created nodes, totality on finite depth). Not proved for all inputs: the accessor-level equality GetShapeBoneList(clone) = GetShapeBoneList(source) (proved: the list the container is rebuilt from names the same bones, all nodes of the destination, when every source bone is below the source root; the equality itself is shown on the instance of C14_hier_hypotheses_satisfiable and evaluated on the implementation); false when a bone is not below the source root (C14_unreachable_bone_dropped_refuted = known finding C14-detached-bone-dropped, generated case class pre=detached); 'existing nodes are never re-parented' is false by the C++'s own intent (C14_existing_node_reparented_refuted)"],
        "trusted_base": vlib.BASE_TRUSTED + ["modelled, not verified: std::set<NiRef*> enumeration order (address order) is an input of the model, measured on the implementation after the fact",
                                              "per-block payload as an opaque token (hash of Put bytes of a clone of the block, references and string indices masked)"],
        "exhaustive": False,
    })
    return rep.finish(cov, ["clone_children_closed / source_unchanged assume a source whose child references are empty or in range, an enumeration that visits every reference exactly once, fresh identities, and (same-model cloning) a clone root appended after every source block",
                            "termination is proved for sources whose child-reference relation below the cloned block has finite depth (acyclic); for cyclic child references the model runs out of any fuel (C14_cyclic_source_refuted)",
                            "C14_hier_same_model_kept (cloning inside one model, no walk since b13cd10) assumes only a well-formed destination (HWF) and holds for all models, duplicate node names included",
                            "hierarchy theorems (C14_hier_*) assume a well-formed destination (HWF: counters agree, no object in two slots, every node's childRefs window inside its reference list), the same windows in the source (SrcWinB), a destination root that is a node, and speak about runs that return; C14_hier_created_parent additionally assumes the node's name absent before and visited once and no node named like its source parent visited at or after it (true of a tree with pairwise different names); C14_hier_walk_total assumes every source node named and a source node tree of depth <= fuel"])
